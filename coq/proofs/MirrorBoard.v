(* C13 - mirror-image boards stay mirror images under corresponding moves and look the same to the search. *)
From Coq Require Import NArith ZArith List Bool Lia ZifyBool ZifyN Permutation.
From Chess Require Import base.Bits base.Types base.BitBoard base.Sweep geom.Geometry model.Score model.Board model.MoveGen model.Apply model.Search spec.Rules.
From Chess Require Import proofs.BitsFacts proofs.BitBoardFacts.
From Chess Require proofs.BridgeFacts proofs.ApplyFacts.
From Chess Require Import spec.IterSpec proofs.IterFacts proofs.HashFacts proofs.InvFacts proofs.LegalDefs proofs.AttackDefs.
From Chess Require Import proofs.AttackFacts.
From Chess Require proofs.ValidFacts proofs.StatusFacts proofs.SearchFacts proofs.CoreFacts.
From Chess Require Import proofs.Reachable proofs.MirrorRules proofs.MirrorEval.
Import ListNotations.
Local Open Scope N_scope.

Lemma good_wfp : forall b, Good b -> wfp (Board.abs b).
Proof. intros b _. unfold wfp. apply BridgeFacts.abs_length. Qed.

Lemma good_uniq_king : forall b c, Good b -> uniq_king (Board.abs b) c.
Proof.
  intros b c G x y Hx Hy Kx Ky.
  apply is_piece_true in Kx, Ky. rewrite BridgeFacts.abs_cell in Kx, Ky by assumption.
  destruct (kings b c G) as (_ & _ & U & _).
  rewrite (U x Hx Kx), (U y Hy Ky). reflexivity.
Qed.

(* ------------------------------------------------------------------ *)
(** * eqp: equality of positions up to the full-move number *)

Lemma eqp_with_fm : forall p q, eqp p q -> p = with_fm (fm p) q.
Proof.
  intros p q (H1 & H2 & H3 & H4 & H5 & H6 & H7 & H8).
  apply ApplyFacts.position_ext; try assumption. reflexivity.
Qed.

Lemma eqp_refl : forall p, eqp p p.
Proof. intros p. unfold eqp. repeat split. Qed.
Lemma eqp_sym : forall p q, eqp p q -> eqp q p.
Proof. intros p q (H1 & H2 & H3 & H4 & H5 & H6 & H7 & H8). unfold eqp. repeat split; symmetry; assumption. Qed.
Lemma eqp_trans : forall p q r, eqp p q -> eqp q r -> eqp p r.
Proof.
  intros p q r (H1 & H2 & H3 & H4 & H5 & H6 & H7 & H8) (K1 & K2 & K3 & K4 & K5 & K6 & K7 & K8).
  unfold eqp. repeat split; etransitivity; eassumption.
Qed.
Lemma eqp_with_fm_l : forall n p, eqp (with_fm n p) p.
Proof. intros n p. unfold eqp. repeat split. Qed.
Lemma eqp_of_eq : forall p q, p = q -> eqp p q.
Proof. intros p q ->. apply eqp_refl. Qed.

Lemma eqp_make : forall p q m, eqp p q -> eqp (make p m) (make q m).
Proof.
  intros p q m H. rewrite (eqp_with_fm p q H). destruct (with_fm_make (fm p) q m) as [n' ->]. apply eqp_with_fm_l.
Qed.

Lemma eqp_mirror : forall p q, eqp p q -> eqp (mirror p) (mirror q).
Proof. intros p q H. rewrite (eqp_with_fm p q H), with_fm_mirror. apply eqp_with_fm_l. Qed.

Lemma eqp_legal_moves : forall p q, eqp p q -> legal_moves p = legal_moves q.
Proof. intros p q H. rewrite (eqp_with_fm p q H). apply with_fm_legal_moves. Qed.

Lemma eqp_in_check : forall p q, eqp p q -> Rules.in_check p = Rules.in_check q.
Proof. intros p q H. rewrite (eqp_with_fm p q H). reflexivity. Qed.

(* ------------------------------------------------------------------ *)
(** * The legal moves of mirror-image boards *)

Lemma mirror_move_inj : forall x y, mirror_move x = mirror_move y -> x = y.
Proof. intros x y H. rewrite <- (mirror_move_invol_all x), <- (mirror_move_invol_all y), H. reflexivity. Qed.

Lemma mir_rules_perm : forall b b', Mir b b' ->
  Permutation (legal_moves (Board.abs b')) (map mirror_move (legal_moves (Board.abs b))).
Proof.
  intros b b' (G & G' & E). rewrite (eqp_legal_moves _ _ E).
  apply legal_moves_mirror_perm; [apply good_wfp, G|apply good_uniq_king, G].
Qed.

Theorem mir_legals : forall b b', Mir b b' -> Permutation (legals b') (map mirror_move (legals b)).
Proof.
  intros b b' M. pose proof M as (G & G' & E).
  destruct (legals_exact_good b G) as [N X]. destruct (legals_exact_good b' G') as [N' X'].
  pose proof (mir_rules_perm b b' M) as P.
  apply NoDup_Permutation.
  - exact N'.
  - apply FinFun.Injective_map_NoDup; [|exact N]. intros x y H. apply mirror_move_inj, H.
  - intros m'. rewrite X'. split; intros H.
    + apply (Permutation_in m' P) in H. apply in_map_iff in H. destruct H as [m [Em Hm]].
      apply in_map_iff. exists m. split; [exact Em|]. apply X, Hm.
    + apply (Permutation_in m' (Permutation_sym P)).
      apply in_map_iff in H. destruct H as [m [Em Hm]].
      apply in_map_iff. exists m. split; [exact Em|]. apply X, Hm.
Qed.

Lemma mir_legals_in : forall b b' m, Mir b b' -> In m (legals b) -> In (mirror_move m) (legals b').
Proof.
  intros b b' m M H. apply (Permutation_in _ (Permutation_sym (mir_legals b b' M))). apply in_map, H.
Qed.

(* ------------------------------------------------------------------ *)
(** * Corresponding moves keep mirror images *)

(* the half-move clock of the successor: only the half-move bound is needed *)
Lemma apply_hm : forall b m pc, ApplyFacts.move_pre b m pc -> b_half b < 65535 ->
  hm (Board.abs (apply b m)) = hm (make (Board.abs b) m).
Proof.
  intros b m pc MP Hh.
  destruct (ApplyFacts.make_fields (Board.abs b) m (b_turn b) pc (ApplyFacts.ac_src b m pc MP)) as (_ & _ & _ & _ & _ & _ & E1 & _).
  destruct (ApplyFacts.apply_fields b m) as (_ & _ & F1 & _).
  rewrite E1, ApplyFacts.hm_abs, F1, ApplyFacts.hm_abs.
  unfold ApplyFacts.half_after. rewrite (raw_get_piece_of_unchecked _ _ _ _ (ApplyFacts.mp_src b m pc MP)).
  rewrite (ApplyFacts.ac_capture b m pc MP), piece_of_raw_get.
  assert (S : sat16 (b_half b + 1) = b_half b + 1) by (unfold sat16; destruct (65535 <? b_half b + 1) eqn:E; lia).
  destruct pc; cbn [piece_eqb piece_idx orb]; try reflexivity;
    destruct (raw_get b (m_dst m)) as [[c cp]|]; try reflexivity; exact S.
Qed.

Lemma apply_eqp : forall b m, Good b -> b_half b < 65535 -> In m (legal_moves (Board.abs b)) ->
  eqp (Board.abs (apply b m)) (make (Board.abs b) m).
Proof.
  intros b m G Hh L. destruct (Good_apply_hyps b G) as (P & EP & RO).
  unfold legal_moves in L. apply filter_In in L. destruct L as [L _].
  destruct (ApplyFacts.pseudo_move_pre b m L) as [pc MP].
  destruct (ApplyFacts.apply_abs_rights b m pc MP RO) as (R1 & R2 & R3 & R4).
  unfold eqp.
  refine (conj _ (conj _ (conj R1 (conj R2 (conj R3 (conj R4 (conj _ _))))))).
  - exact (ApplyFacts.apply_abs_cells b m pc P MP EP).
  - exact (ApplyFacts.apply_abs_side b m pc MP).
  - exact (ApplyFacts.apply_abs_ep b m pc MP).
  - exact (apply_hm b m pc MP Hh).
Qed.

Lemma legals_gen_move : forall b m, In m (legals b) -> gen_move b m.
Proof. intros b m H. exact (Permutation_in _ (legals_drain b) H). Qed.

Lemma legals_lt : forall b m, Good b -> In m (legals b) -> m_src m < 64 /\ m_dst m < 64.
Proof.
  intros b m G H. apply (proj2 (legals_exact_good b G) m) in H.
  unfold legal_moves in H. apply filter_In in H. destruct H as [H _].
  exact (pseudo_lt (Board.abs b) m (good_wfp b G) H).
Qed.

Theorem mir_step : forall b b' m, Mir b b' -> b_half b < 65535 -> In m (legals b) ->
  Mir (apply b m) (apply b' (mirror_move m)).
Proof.
  intros b b' m M Hh L. pose proof M as (G & G' & E).
  pose proof (mir_legals_in b b' m M L) as L'.
  pose proof (proj1 (proj2 (legals_exact_good b G) m) L) as R.
  pose proof (proj1 (proj2 (legals_exact_good b' G') _) L') as R'.
  destruct (legals_lt b m G L) as [Hs Hd].
  assert (Hh' : b_half b' < 65535) by (rewrite (mir_half b b' M); exact Hh).
  split; [exact (Good_apply_gen b m G (legals_gen_move b m L))|].
  split; [exact (Good_apply_gen b' _ G' (legals_gen_move b' _ L'))|].
  pose proof (apply_eqp b m G Hh R) as A. pose proof (apply_eqp b' _ G' Hh' R') as A'.
  revert A A'. generalize (Board.abs (apply b m)) as q, (Board.abs (apply b' (mirror_move m))) as q'. intros q q' A A'.
  apply (eqp_trans _ _ _ A').
  apply (eqp_trans _ _ _ (eqp_make _ _ (mirror_move m) E)).
  destruct (make_mirror_exact (Board.abs b) m (good_wfp b G) Hs Hd) as [n ->].
  apply (eqp_trans _ _ _ (eqp_with_fm_l n _)).
  apply eqp_mirror, eqp_sym, A.
Qed.

(* ------------------------------------------------------------------ *)
(** * The tests the search performs *)

Theorem mir_in_check : forall b b', Mir b b' -> Board.in_check b' = Board.in_check b.
Proof.
  intros b b' (G & G' & E).
  rewrite (StatusFacts.in_check_good b G), (StatusFacts.in_check_good b' G'), (eqp_in_check _ _ E).
  apply in_check_mirror; [apply good_wfp, G|apply good_uniq_king, G].
Qed.

Lemma perm_map_nil : forall (A B : Type) (f : A -> B) l l', Permutation l' (map f l) -> (l' = [] <-> l = []).
Proof.
  intros A B f l l' P. split; intros H.
  - rewrite H in P. apply Permutation_nil in P. destruct l; [reflexivity|discriminate P].
  - rewrite H in P. apply Permutation_sym, Permutation_nil in P. exact P.
Qed.

Theorem mir_is_empty : forall b b', Mir b b' -> mg_is_empty (legals_gen b') = mg_is_empty (legals_gen b).
Proof.
  intros b b' M. apply eq_true_iff_eq.
  rewrite !StatusFacts.is_empty_legals. exact (perm_map_nil _ _ mirror_move _ _ (mir_legals b b' M)).
Qed.

Theorem mir_capture : forall b b' m, Mir b b' -> m_dst m < 64 ->
  (match raw_get b' (m_dst (mirror_move m)) with Some _ => true | None => false end)
  = (match raw_get b (m_dst m) with Some _ => true | None => false end).
Proof.
  intros b b' m M Hd. unfold mirror_move, mk. cbn [m_dst].
  rewrite (mir_raw b b' (m_dst m) M Hd). destruct (raw_get b (m_dst m)) as [[c p]|]; reflexivity.
Qed.

(* the capture list: the generator restricted to the squares of the side not to move *)
Lemma caps_perm : forall b, 
  Permutation (mg_drain (mg_set_mask (legals_gen b) (colors b (opp (b_turn b)))))
              (filter (in_mask (colors b (opp (b_turn b)))) (legals b)).
Proof.
  intros b. eapply Permutation_trans.
  - apply (set_mask_drain _ _ (legals_gen_wf b) eq_refl).
  - apply Permutation_filter', Permutation_sym, SearchFacts.legals_perm_content, SearchFacts.small_root_all.
Qed.

Theorem mir_caps : forall b b', Mir b b' ->
  Permutation (mg_drain (mg_set_mask (legals_gen b') (colors b' (opp (b_turn b')))))
              (map mirror_move (mg_drain (mg_set_mask (legals_gen b) (colors b (opp (b_turn b)))))).
Proof.
  intros b b' M. pose proof M as (G & G' & E).
  eapply Permutation_trans; [apply caps_perm|].
  eapply Permutation_trans; [|apply Permutation_map, Permutation_sym, caps_perm].
  eapply Permutation_trans; [apply Permutation_filter', (mir_legals b b' M)|].
  rewrite filter_map_comm.
  rewrite (filter_ext_in (fun x => in_mask (colors b' (opp (b_turn b'))) (mirror_move x)) (in_mask (colors b (opp (b_turn b))))).
  - apply Permutation_refl.
  - intros x Hx. destruct (legals_lt b x G Hx) as [_ Hd].
    unfold in_mask, mirror_move, mk. cbn [m_dst]. rewrite (mir_turn b b' M).
    apply (mir_colors_mem b b' (opp (b_turn b)) (m_dst x) M Hd).
Qed.

Lemma is_empty_drain : forall g, wf g -> (mg_is_empty g = true <-> mg_drain g = []).
Proof.
  intros g W. rewrite (is_empty_exact g W). pose proof (drain_complete g W) as P. split; intros H.
  - rewrite H in P. apply Permutation_nil, Permutation_sym, P.
  - rewrite H in P. apply Permutation_nil, P.
Qed.

Theorem mir_caps_empty : forall b b', Mir b b' ->
  mg_is_empty (mg_set_mask (legals_gen b') (colors b' (opp (b_turn b'))))
  = mg_is_empty (mg_set_mask (legals_gen b) (colors b (opp (b_turn b)))).
Proof.
  intros b b' M. apply eq_true_iff_eq.
  destruct (set_mask_spec (legals_gen b) (colors b (opp (b_turn b))) (legals_gen_wf b) eq_refl) as (_ & _ & _ & W).
  destruct (set_mask_spec (legals_gen b') (colors b' (opp (b_turn b'))) (legals_gen_wf b') eq_refl) as (_ & _ & _ & W').
  rewrite (is_empty_drain _ W), (is_empty_drain _ W').
  exact (perm_map_nil _ _ mirror_move _ _ (mir_caps b b' M)).
Qed.

(* ------------------------------------------------------------------ *)
(** * Board equality (PartialEq) through the mirror *)

(* membership in the colour / piece sets, read off raw_get *)
Lemma colors_mem_cell : forall b c s, HashFacts.Part b -> s < 64 ->
  mem (colors b c) s = match raw_get b s with Some (c', _) => color_eqb c c' | None => false end.
Proof.
  intros b c s P Hs. destruct (raw_get b s) as [[c' p]|] eqn:E.
  - exact (raw_mem_colors b s c' p c P Hs E).
  - destruct (mem (colors b c) s) eqn:Em; [|reflexivity].
    apply (ValidFacts.colors_mem_raw b c s P Hs) in Em. destruct Em as [p Hp]. congruence.
Qed.

Lemma pieces_mem_cell : forall b q s, HashFacts.Part b -> s < 64 ->
  mem (pieces b q) s = match raw_get b s with Some (_, p) => piece_eqb q p | None => false end.
Proof.
  intros b q s P Hs. destruct (raw_get b s) as [[c p]|] eqn:E.
  - exact (raw_mem_pieces b s c p q P Hs E).
  - apply (HashFacts.raw_get_spec b P s Hs) in E. rewrite <- (part_cover b P) in E.
    unfold piece_union in E. rewrite !mem_or in E.
    repeat (apply orb_false_iff in E; destruct E as [E ?]). destruct q; assumption.
Qed.

Lemma placement_of_raw : forall x y, HashFacts.Part x -> HashFacts.Part y ->
  (forall s, s < 64 -> raw_get x s = raw_get y s) -> same_placement x y.
Proof.
  intros x y P Q H.
  assert (C : forall c, colors x c = colors y c).
  { intros c. apply ext64; [apply (part_wf_colors x P)|apply (part_wf_colors y Q)|].
    intros s Hs. rewrite (colors_mem_cell x c s P Hs), (colors_mem_cell y c s Q Hs), (H s Hs). reflexivity. }
  apply same_placement_intro; [exact (C White)|exact (C Black)|].
  intros p. apply ext64; [apply (part_wf_pieces x P)|apply (part_wf_pieces y Q)|].
  intros s Hs. rewrite (pieces_mem_cell x p s P Hs), (pieces_mem_cell y p s Q Hs), (H s Hs). reflexivity.
Qed.

Lemma rights_ext : forall r r', r < 16 -> r' < 16 ->
  (forall sd c, cr_contains r sd c = cr_contains r' sd c) -> r = r'.
Proof.
  intros r r' Hr Hr' H. apply N.bits_inj. intros n.
  assert (Hi : forall a, a < 16 -> 4 <= n -> N.testbit a n = false).
  { intros a Ha Hn. destruct (N.eq_dec a 0) as [->|Hz]; [apply N.bits_0|].
    apply N.bits_above_log2. apply N.lt_le_trans with 4; [|exact Hn].
    apply N.log2_lt_pow2; [lia|]. change (2 ^ 4) with 16. exact Ha. }
  destruct (N.lt_ge_cases n 4) as [Hn|Hn].
  - assert (E : n = 0 \/ n = 1 \/ n = 2 \/ n = 3) by lia.
    destruct E as [->|[->|[->| ->]]].
    + exact (H KingSide White).
    + exact (H QueenSide White).
    + exact (H KingSide Black).
    + exact (H QueenSide Black).
  - rewrite (Hi r Hr Hn), (Hi r' Hr' Hn). reflexivity.
Qed.

(* what PartialEq compares, in terms of the placement read square by square *)
Definition same_pos (x y : board) : Prop :=
  b_turn x = b_turn y /\ (forall sd c, cr_contains (b_rights x) sd c = cr_contains (b_rights y) sd c)
  /\ b_ep x = b_ep y /\ (forall s, s < 64 -> raw_get x s = raw_get y s).

Lemma board_eqb_intro : forall x y, b_turn x = b_turn y -> b_rights x = b_rights y -> b_ep x = b_ep y ->
  same_placement x y -> board_eqb x y = true.
Proof.
  intros x y H1 H2 H3 (E1 & E2 & E3 & E4 & E5 & E6 & E7 & E8).
  unfold board_eqb. rewrite H1, H2, H3, E1, E2, E3, E4, E5, E6, E7, E8, !N.eqb_refl.
  destruct (b_turn y), (b_ep y); rewrite ?N.eqb_refl; reflexivity.
Qed.

Lemma good_board_eqb : forall x y, Good x -> Good y -> (board_eqb x y = true <-> same_pos x y).
Proof.
  intros x y G G'. split.
  - intros H. apply board_eqb_fields in H.
    destruct H as (H1 & H2 & H3 & H4 & H5 & H6 & H7 & H8 & H9 & H10 & H11).
    split; [exact H1|]. split; [intros sd c; rewrite H2; reflexivity|]. split; [exact H3|].
    intros s _. apply raw_get_fields; assumption.
  - intros (H1 & H2 & H3 & H4).
    destruct (good_inv x G) as [P _ [Hr _] _]. destruct (good_inv y G') as [Q _ [Hr' _] _].
    apply board_eqb_intro; [exact H1|exact (rights_ext _ _ Hr Hr' H2)|exact H3|].
    exact (placement_of_raw x y P Q H4).
Qed.

Lemma Mir_sym : forall b b', Mir b b' -> Mir b' b.
Proof.
  intros b b' (G & G' & E). split; [exact G'|]. split; [exact G|].
  apply eqp_mirror, eqp_sym in E. rewrite (mirror_invol _ (good_wfp b G)) in E. exact E.
Qed.

Lemma mir_ep : forall b b', Mir b b' -> b_ep b' = b_ep b.
Proof. intros b b' (_ & _ & (_ & _ & _ & _ & _ & _ & He & _)). exact He. Qed.

Lemma mir_same_pos : forall x x' y y', Mir x x' -> Mir y y' -> same_pos x y -> same_pos x' y'.
Proof.
  intros x x' y y' M N (H1 & H2 & H3 & H4). split; [|split; [|split]].
  - rewrite (mir_turn x x' M), (mir_turn y y' N), H1. reflexivity.
  - intros sd c. rewrite <- (opp_opp c).
    rewrite (mir_rights x x' sd (opp c) M), (mir_rights y y' sd (opp c) N). apply H2.
  - rewrite (mir_ep x x' M), (mir_ep y y' N). exact H3.
  - intros s Hs. rewrite (mir_raw' x x' s M Hs), (mir_raw' y y' s N Hs), (H4 _ (msq_lt s Hs)). reflexivity.
Qed.

Theorem mir_board_eqb : forall x x' y y', Mir x x' -> Mir y y' -> board_eqb x' y' = board_eqb x y.
Proof.
  intros x x' y y' M N. apply eq_true_iff_eq.
  rewrite (good_board_eqb x' y' (mir_good_r _ _ M) (mir_good_r _ _ N)).
  rewrite (good_board_eqb x y (mir_good_l _ _ M) (mir_good_l _ _ N)).
  split.
  - apply mir_same_pos; apply Mir_sym; assumption.
  - apply mir_same_pos; assumption.
Qed.

Theorem good_tf_key : forall x y, Good x -> Good y -> tf_key_eqb x y = board_eqb x y.
Proof.
  intros x y G G'. unfold tf_key_eqb. destruct (board_eqb x y) eqn:E; [|apply andb_false_r].
  rewrite andb_true_r. apply N.eqb_eq.
  exact (proj2 (eq_boards_eq_hash_strong x y (inv_consistent x (good_inv x G)) (inv_consistent y (good_inv y G')) E)).
Qed.

(* ------------------------------------------------------------------ *)
(** * The per-path repetition list of the search with an EMPTY repetition table *)

Definition bl_rel (bl bl' : blist) : Prop := Forall2 (fun e e' => Mir (fst e) (fst e') /\ snd e = snd e') bl bl'.

Theorem mir_bl_new : forall b b', Mir b b' -> bl_rel (bl_new [] b) (bl_new [] b').
Proof.
  intros b b' M. unfold bl_rel, bl_new. cbn [tf_get]. constructor; [|constructor].
  cbn [fst snd]. split; [exact M|reflexivity].
Qed.

Lemma mir_bl_count : forall bl bl' b b', bl_rel bl bl' -> Mir b b' -> bl_count bl' [] b' = bl_count bl [] b.
Proof.
  intros bl bl' b b' R M. induction R as [|[x c] [x' c'] l l' [Mx Ec] R IH]; [reflexivity|].
  cbn [fst snd] in Mx, Ec. cbn [bl_count]. rewrite (mir_board_eqb x x' b b' Mx M), IH, Ec. reflexivity.
Qed.

Theorem mir_bl_add : forall bl bl' b b', bl_rel bl bl' -> Mir b b' -> bl_rel (bl_add bl [] b) (bl_add bl' [] b').
Proof.
  intros bl bl' b b' R M. unfold bl_add. constructor; [|exact R].
  cbn [fst snd]. split; [exact M|]. rewrite (mir_bl_count bl bl' b b' R M). reflexivity.
Qed.

Theorem mir_bl_head : forall bl bl', bl_rel bl bl' -> bl_head_count bl' = bl_head_count bl.
Proof.
  intros bl bl' R. destruct R as [|[x c] [x' c'] l l' [_ Ec] _]; [reflexivity|].
  cbn [snd] in Ec. cbn [bl_head_count]. symmetry. exact Ec.
Qed.

Print Assumptions good_wfp.
Print Assumptions good_uniq_king.
Print Assumptions mir_legals.
Print Assumptions mir_step.
Print Assumptions mir_in_check.
Print Assumptions mir_is_empty.
Print Assumptions mir_capture.
Print Assumptions mir_caps.
Print Assumptions mir_caps_empty.
Print Assumptions mir_board_eqb.
Print Assumptions good_tf_key.
Print Assumptions mir_bl_new.
Print Assumptions mir_bl_add.
Print Assumptions mir_bl_head.
