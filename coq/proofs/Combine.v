(* Corollaries that combine the delivered proof files (used by the property files). *)
From Coq Require Import NArith List Bool.
From Chess Require Import base.Bits base.Types base.BitBoard model.Board model.MoveGen model.Apply model.Fen model.Search.
From Chess Require Import proofs.HashFacts proofs.BotFacts proofs.InvFacts.
Import ListNotations.
Local Open Scope N_scope.

(* the repetition table is exact on any list of boards that carry from-scratch hashes *)
Theorem threefold_consistent : forall bs, (forall x, In x bs -> consistent x) ->
  snd (add_all [] bs) = expected_flags [] bs.
Proof.
  intros bs H. apply threefold_flags_unbounded. intros x y Hx Hy E.
  exact (proj1 (eq_boards_eq_hash_strong x y (H x Hx) (H y Hy) E)).
Qed.

(* ... in particular on boards reached from a parsed board / the standard position by legal moves *)
Theorem threefold_reachable : forall bs, (forall x, In x bs -> Reach x) ->
  snd (add_all [] bs) = expected_flags [] bs.
Proof.
  intros bs H. apply threefold_consistent. intros x Hx.
  exact (inv_consistent x (Reach_Inv x (H x Hx))).
Qed.

Theorem reach_hash : forall b, Reach b -> HashFacts.Part b /\ b_zob b = scratch_piece_hash b.
Proof. exact Reach_consistent. Qed.

Theorem reach_equal_boards_equal_hash : forall a b, Reach a -> Reach b -> board_eqb a b = true -> zobrist a = zobrist b.
Proof.
  intros a b Ha Hb E.
  exact (proj2 (eq_boards_eq_hash_strong a b (inv_consistent a (Reach_Inv a Ha)) (inv_consistent b (Reach_Inv b Hb)) E)).
Qed.
