(* The invariant step that links legality to the local move conditions (needed by C04, C05, C07, C15).

   HashFacts.apply_consistent_gen shows that make-move (model/Apply.v `apply`) keeps the placement
   invariant `Part` and the stored piece hash PROVIDED the move satisfies local conditions (a man of the
   side to move on the source, destination empty or enemy, rook squares right when castling, a victim
   when capturing en passant).  This file shows that every move the generator model produces on a
   well-formed board satisfies them, and that well-formedness (`Inv`) is itself kept by every generated
   move, holds of every parsed board and hence of every board reachable by legal moves.

     Inv b  :=  Part b /\ consistent b /\ rights_ok b /\ ep_ok b
     1. entry_shape            every entry of collect_moves: source holds an own man, each destination is an
                               ordinary step / an en-passant capture / a castling destination (dest_kind)
     2. gen_move_conditions    the hypotheses of apply_consistent_gen hold for every generated move
        apply_gen_consistent   ... so Part and the hash survive
     3. apply_raw_get          the placement after make-move, square by square (after5); apply_turn_ep
     4. Inv_apply              Inv is kept by every generated move
     5. apply_legal_consistent, Inv_apply_legal, validate_Inv, parse_Inv, Reach_Inv

   rights_ok carries one clause more than "king and rook at home": a colour that still has a castling right
   has no king elsewhere.  Without it the invariant is not inductive in the model (a second white king on c1
   in front of a king on e1 with the K right: c1-g1 is generated, counts as castling in make-move, moves the
   rook h1-f1 and keeps the right).  Board::validate (has_kings) gives the clause for every parsed board.
   No king-safety statement is made or used; the side condition `own_king` (the side to move has a king) is
   an explicit hypothesis.

   Kernel note: model functions that contain `elements _` are only ever unfolded in the GOAL (never
   `unfold .. in H` followed by an application): the conversion check at Qed otherwise compares the folded
   constant against `filter _ sq_list` terms and does not return.

   Axiom-free. *)
From Coq Require Import NArith ZArith List Bool Lia ZifyBool ZifyN Sorted Permutation.
From Chess Require Import base.Bits base.Types base.BitBoard base.Sweep geom.Geometry model.Board model.Fen model.MoveGen model.Apply.
From Chess Require Import proofs.BitsFacts proofs.BitBoardFacts proofs.GeomSweeps proofs.PawnFacts proofs.FenFacts
  spec.IterSpec proofs.IterFacts.
From Chess Require proofs.SiteFacts proofs.CoreFacts.
From Chess Require Import proofs.HashFacts.
Import ListNotations.
Local Open Scope N_scope.


(* ------------------------------------------------------------------ *)
(** * The invariant *)

Definition king_home (c : color) : N := match c with White => 4 | Black => 60 end.
Definition rook_home (sd : side) (c : color) : N :=
  match sd, c with
  | KingSide, White => 7 | QueenSide, White => 0
  | KingSide, Black => 63 | QueenSide, Black => 56
  end.

(* a castling right means: king and rook on their home squares, and no other king of that colour *)
Definition rights_ok (b : board) : Prop :=
  b_rights b < 16 /\
  forall sd c, cr_contains (b_rights b) sd c = true ->
    raw_get b (king_home c) = Some (c, King) /\ raw_get b (rook_home sd c) = Some (c, Rook) /\
    (forall s, s < 64 -> raw_get b s = Some (c, King) -> s = king_home c).

Definition ep_ok (b : board) : Prop :=
  forall f, b_ep b = Some f ->
    f < 8 /\ raw_get b (mk_sq f (ep_capture_rank_of (b_turn b))) = None
          /\ raw_get b (mk_sq f (ep_pawn_rank_of (b_turn b))) = Some (opp (b_turn b), Pawn).

Record Inv (b : board) : Prop := {
  inv_part : Part b;
  inv_consistent : consistent b;
  inv_rights : rights_ok b;
  inv_ep : ep_ok b }.

Definition own_king (b : board) : Prop := bb_and (colors b (b_turn b)) (b_king b) <> 0.

(* ------------------------------------------------------------------ *)
(** * Small facts *)

Lemma raw_of_mem : forall b s c p, Part b -> s < 64 ->
  mem (colors b c) s = true -> mem (pieces b p) s = true -> raw_get b s = Some (c, p).
Proof. intros b s c p P Hs H1 H2. apply (raw_get_spec b P s Hs). split; assumption. Qed.

Lemma raw_none_of_occ : forall b s, Part b -> s < 64 -> mem (all_occ b) s = false -> raw_get b s = None.
Proof. intros b s P Hs H. apply (raw_get_spec b P s Hs). exact H. Qed.

Lemma raw_some_occ : forall b s cp, Part b -> s < 64 -> raw_get b s = Some cp -> mem (all_occ b) s = true.
Proof.
  intros b s cp P Hs H. destruct (mem (all_occ b) s) eqn:E; [reflexivity|].
  rewrite (raw_none_of_occ b s P Hs E) in H. discriminate H.
Qed.

Lemma raw_some_color : forall b s c p, Part b -> s < 64 -> raw_get b s = Some (c, p) -> mem (colors b c) s = true.
Proof. intros b s c p P Hs H. apply (raw_get_spec b P s Hs) in H. apply H. Qed.

Lemma opp_opp : forall c, opp (opp c) = c.
Proof. intros []; reflexivity. Qed.

Lemma color_cases : forall c t, c = t \/ c = opp t.
Proof. intros [] []; auto. Qed.

(* a square not occupied by the side to move is empty or holds an enemy man *)
Lemma dest_free : forall b d, Part b -> d < 64 -> mem (colors b (b_turn b)) d = false ->
  raw_get b d = None \/ exists cp, raw_get b d = Some (opp (b_turn b), cp).
Proof.
  intros b d P Hd H. destruct (raw_get b d) as [[c p]|] eqn:E; [right|left; reflexivity].
  destruct (color_cases c (b_turn b)) as [->| ->]; [|exists p; reflexivity].
  rewrite (raw_some_color b d _ p P Hd E) in H. discriminate H.
Qed.

Lemma mem_lt64 : forall a s, wf64 a -> mem a s = true -> s < 64.
Proof.
  intros a s W H. destruct (N.lt_ge_cases s 64) as [L|G]; [exact L|].
  rewrite (wf64_high a s W G) in H. discriminate H.
Qed.

Lemma mk_entries_In : forall srcs f promo e, In e (mk_entries srcs f promo) ->
  exists s, In s srcs /\ e = {| e_src := s; e_moves := f s; e_promo := promo s |}.
Proof.
  intros srcs f promo e H. unfold mk_entries in H. apply in_flat_map in H.
  destruct H as (s & Hs & He). cbv zeta in He. destruct (none (f s)); [destruct He|].
  destruct He as [<-|[]]. exists s. split; [exact Hs|reflexivity].
Qed.

Lemma pseudo_mask_mono : forall pc s c occ m1 m2 d,
  mem (pseudo_legals pc s c occ (bb_and m1 m2)) d = true -> mem (pseudo_legals pc s c occ m1) d = true.
Proof.
  intros pc s c occ m1 m2 d H. destruct pc; unfold pseudo_legals in *; rewrite !mem_and in *;
    apply andb_true_iff in H; destruct H as [H1 H2]; apply andb_true_iff in H2; destruct H2 as [H2 _];
    rewrite H1, H2; reflexivity.
Qed.

Lemma pseudo_not_own : forall pc s c occ own d,
  mem (pseudo_legals pc s c occ (bb_not own)) d = true -> d < 64 /\ mem own d = false.
Proof.
  intros pc s c occ own d H.
  assert (H2 : mem (bb_not own) d = true).
  { destruct pc; unfold pseudo_legals in H; rewrite mem_and in H; apply andb_true_iff in H; apply H. }
  rewrite mem_not_full in H2. apply andb_true_iff in H2. destruct H2 as [A B].
  split; [apply N.ltb_lt, A|apply negb_true_iff, B].
Qed.

Lemma clear_fold_sub : forall (f : N -> bool) L a s,
  mem (fold_left (fun mv d => if f d then mv else cleared mv d) L a) s = true -> mem a s = true.
Proof.
  intros f L. induction L as [|d L IH]; intros a s H; [exact H|].
  cbn [fold_left] in H. apply IH in H. destruct (f d); [exact H|].
  unfold cleared, bb_diff in H. rewrite mem_and in H. apply andb_true_iff in H. apply H.
Qed.

(* ------------------------------------------------------------------ *)
(** * 2. The shape of the generated entries *)

Definition seventh_rank (c : color) : N := match c with White => 6 | Black => 1 end.
Definition castle_files (sd : side) : N := match sd with KingSide => KINGSIDE_FILES | QueenSide => QUEENSIDE_FILES end.
Definition castle_tiles (sd : side) (c : color) : N := bb_and (castle_files sd) (BACKRANK_BB_of c).

(* how a destination [d] got into the move set of the entry of the man [pc] on [src] *)
Inductive dest_kind (b : board) (pc : piece) (src d : N) (promo : bool) : Prop :=
| DK_step :
    mem (pseudo_legals pc src (b_turn b) (all_occ b) (bb_not (colors b (b_turn b)))) d = true ->
    promo = piece_eqb pc Pawn && (rank_of src =? seventh_rank (b_turn b)) ->
    dest_kind b pc src d promo
| DK_ep : forall f,
    pc = Pawn -> b_ep b = Some f -> d = mk_sq f (ep_capture_rank_of (b_turn b)) ->
    mem (from_rank (ep_pawn_rank_of (b_turn b))) src = true -> promo = false ->
    dest_kind b pc src d promo
| DK_castle : forall sd,
    pc = King -> cr_contains (b_rights b) sd (b_turn b) = true ->
    none (bb_and (castle_tiles sd (b_turn b)) (all_occ b)) = true ->
    mem (bb_and (castle_tiles sd (b_turn b)) CASTLE_MOVES_bb) d = true -> promo = false ->
    dest_kind b pc src d promo.

Definition entry_ok (b : board) (e : entry) : Prop :=
  exists pc, e_src e < 64 /\ raw_get b (e_src e) = Some (b_turn b, pc) /\
    (pc = King -> e_src e = king_sq b (b_turn b)) /\
    (e_promo e = true -> pc = Pawn) /\
    forall d, mem (e_moves e) d = true -> dest_kind b pc (e_src e) d (e_promo e).

Lemma src_of_elements : forall b pc X s, Part b ->
  In s (elements (bb_and (bb_and (pieces b pc) (colors b (b_turn b))) X)) ->
  s < 64 /\ raw_get b s = Some (b_turn b, pc).
Proof.
  intros b pc X s P H. apply elements_spec in H. destruct H as [Hs H].
  rewrite !mem_and in H. apply andb_true_iff in H. destruct H as [H _].
  apply andb_true_iff in H. destruct H as [H1 H2].
  split; [exact Hs|apply raw_of_mem; assumption].
Qed.

Lemma piece_eqb_Pawn_false : forall pc, pc <> Pawn -> piece_eqb pc Pawn = false.
Proof. intros [] H; try reflexivity. contradiction H. reflexivity. Qed.

Lemma piece_legals_shape : forall pc cmp chk b mask1 e, Part b -> pc <> Pawn -> pc <> King ->
  In e (piece_legals pc cmp chk b (bb_and (bb_not (colors b (b_turn b))) mask1)) -> entry_ok b e.
Proof.
  intros pc cmp chk b mask1 e P Npc Nk. unfold piece_legals. cbv zeta.
  assert (G : forall X cm, In e (mk_entries (elements (bb_and (bb_and (pieces b pc) (colors b (b_turn b))) X))
            (fun src => bb_and (pseudo_legals pc src (b_turn b) (all_occ b) (bb_and (bb_not (colors b (b_turn b))) mask1)) (cm src))
            (fun _ => false)) -> entry_ok b e).
  { intros X cm He. apply mk_entries_In in He. destruct He as (s & Hs & ->).
    destruct (src_of_elements b pc X s P Hs) as [Hlt Hr].
    exists pc. cbn [e_src e_moves e_promo]. split; [exact Hlt|split; [exact Hr|split; [intros E; contradiction|split; [discriminate|]]]].
    intros d Hd. apply DK_step.
    - rewrite mem_and in Hd. apply andb_true_iff in Hd. destruct Hd as [Hd _].
      apply pseudo_mask_mono in Hd. exact Hd.
    - rewrite (piece_eqb_Pawn_false pc Npc). reflexivity. }
  destruct (chk || negb cmp); intros H.
  - exact (G _ (fun _ => check_mask b chk (king_sq b (b_turn b))) H).
  - apply in_app_or in H. destruct H as [H|H].
    + exact (G _ (fun _ => check_mask b chk (king_sq b (b_turn b))) H).
    + exact (G _ (fun src => line_geo src (king_sq b (b_turn b))) H).
Qed.

Lemma pawn_mk_shape : forall b mask1 X cm e, Part b ->
  In e (mk_entries (elements (bb_and (bb_and (b_pawn b) (colors b (b_turn b))) X))
          (fun src => bb_and (pseudo_legals Pawn src (b_turn b) (all_occ b) (bb_and (bb_not (colors b (b_turn b))) mask1)) (cm src))
          (fun src => rank_of src =? match b_turn b with White => 6 | Black => 1 end)) -> entry_ok b e.
Proof.
  intros b mask1 X cm e P He. apply mk_entries_In in He. destruct He as (s & Hs & ->).
  destruct (src_of_elements b Pawn X s P Hs) as [Hlt Hr].
  exists Pawn. cbn [e_src e_moves e_promo]. split; [exact Hlt|split; [exact Hr|split; [discriminate|split; [reflexivity|]]]].
  intros d Hd. apply DK_step.
  - rewrite mem_and in Hd. apply andb_true_iff in Hd. destruct Hd as [Hd _].
    apply pseudo_mask_mono in Hd. exact Hd.
  - destruct (b_turn b); reflexivity.
Qed.

Lemma pawn_ep_shape : forall b f (t : N -> bool) A e, Part b -> b_ep b = Some f ->
  In e (flat_map (fun src => if t src
                             then [{| e_src := src; e_moves := from_pos (mk_sq f (ep_capture_rank_of (b_turn b))); e_promo := false |}]
                             else [])
                 (elements (bb_and (bb_and (from_rank (ep_pawn_rank_of (b_turn b))) A) (bb_and (b_pawn b) (colors b (b_turn b)))))) ->
  entry_ok b e.
Proof.
  intros b f t A e P Eep H.
  apply in_flat_map in H. destruct H as (s & Hs & He).
  destruct (t s); [|destruct He]. destruct He as [<-|[]].
  apply elements_spec in Hs. destruct Hs as [Hlt Hm].
  rewrite mem_and in Hm. apply andb_true_iff in Hm. destruct Hm as [Hra Hps].
  rewrite mem_and in Hra. apply andb_true_iff in Hra. destruct Hra as [Hrank _].
  rewrite mem_and in Hps. apply andb_true_iff in Hps. destruct Hps as [H1 H2].
  exists Pawn. cbn [e_src e_moves e_promo].
  split; [exact Hlt|split; [apply raw_of_mem; assumption|split; [discriminate|split; [reflexivity|]]]].
  intros d Hd. rewrite mem_from_pos_full in Hd. apply andb_true_iff in Hd. destruct Hd as [_ Hd].
  apply N.eqb_eq in Hd. subst d.
  exact (DK_ep b Pawn s _ false f eq_refl Eep eq_refl Hrank eq_refl).
Qed.

Lemma pawn_legals_shape : forall chk b mask1 e, Part b ->
  In e (pawn_legals chk b (bb_and (bb_not (colors b (b_turn b))) mask1)) -> entry_ok b e.
Proof.
  intros chk b mask1 e P. unfold pawn_legals. cbv zeta. intros H.
  apply in_app_or in H. destruct H as [H|H].
  - exact (pawn_mk_shape b mask1 _ (fun _ => check_mask b chk (king_sq b (b_turn b))) e P H).
  - apply in_app_or in H. destruct H as [H|H].
    + destruct chk; [destruct H|].
      exact (pawn_mk_shape b mask1 _ (fun src => line_geo (king_sq b (b_turn b)) src) e P H).
    + destruct (b_ep b) as [f|] eqn:Eep; [|destruct H].
      exact (pawn_ep_shape b f _ _ e P Eep H).
Qed.

(* the king generator with its local function made a definition *)
Definition castle_step (b : board) (turn : color) (sd : side) (files safe mv : N) : N :=
  if negb (cr_contains (b_rights b) sd turn) then mv
  else
    if none (bb_and (bb_and files (BACKRANK_BB_of turn)) (all_occ b))
    then (if forallb (is_legal_king_position b) (elements (bb_and safe (BACKRANK_BB_of turn)))
          then bb_xor mv (bb_and (bb_and files (BACKRANK_BB_of turn)) CASTLE_MOVES_bb) else mv)
    else mv.

Definition king_safe (b : board) (ps : N) : N :=
  fold_left (fun mv d => if is_legal_king_position b d then mv else cleared mv d) (elements ps) ps.
Definition king_moves (chk : bool) (b : board) (turn : color) (mask : N) : N :=
  if chk then king_safe b (pseudo_legals King (king_sq b turn) turn (all_occ b) mask)
  else castle_step b turn QueenSide QUEENSIDE_FILES QUEENSIDE_SAFE_FILES
         (castle_step b turn KingSide KINGSIDE_FILES KINGSIDE_FILES
            (king_safe b (pseudo_legals King (king_sq b turn) turn (all_occ b) mask))).

Lemma king_legals_eq : forall chk b turn mask,
  king_legals chk b turn mask =
  (if none (king_moves chk b turn mask) then []
   else [{| e_src := king_sq b turn; e_moves := king_moves chk b turn mask; e_promo := false |}]).
Proof. intros. unfold king_legals, king_moves, king_safe, castle_step. cbv beta zeta. reflexivity. Qed.

Lemma castle_step_mem : forall b turn sd safe mv d,
  mem (castle_step b turn sd (castle_files sd) safe mv) d = true ->
  mem mv d = true \/
  (cr_contains (b_rights b) sd turn = true /\ none (bb_and (castle_tiles sd turn) (all_occ b)) = true /\
   mem (bb_and (castle_tiles sd turn) CASTLE_MOVES_bb) d = true).
Proof.
  intros b turn sd safe mv d H. unfold castle_step in H. fold (castle_tiles sd turn) in H.
  destruct (cr_contains (b_rights b) sd turn) eqn:Ec; cbn [negb] in H; [|left; exact H].
  destruct (none (bb_and (castle_tiles sd turn) (all_occ b))) eqn:En; [|left; exact H].
  destruct (forallb _ _); [|left; exact H].
  rewrite mem_xor in H. destruct (mem mv d); [left; reflexivity|]. rewrite xorb_false_l in H.
  right. repeat split; assumption.
Qed.

Lemma king_safe_sub : forall b ps d, mem (king_safe b ps) d = true -> mem ps d = true.
Proof. intros b ps d. unfold king_safe. apply clear_fold_sub. Qed.

Lemma king_moves_kind : forall chk b mask1 d,
  mem (king_moves chk b (b_turn b) (bb_and (bb_not (colors b (b_turn b))) mask1)) d = true ->
  dest_kind b King (king_sq b (b_turn b)) d false.
Proof.
  intros chk b mask1 d.
  assert (M0 : mem (king_safe b (pseudo_legals King (king_sq b (b_turn b)) (b_turn b) (all_occ b)
                       (bb_and (bb_not (colors b (b_turn b))) mask1))) d = true ->
               dest_kind b King (king_sq b (b_turn b)) d false).
  { intros Hd. apply king_safe_sub in Hd. apply pseudo_mask_mono in Hd. apply DK_step; [exact Hd|reflexivity]. }
  unfold king_moves. destruct chk; [exact M0|]. intros Hd.
  change QUEENSIDE_FILES with (castle_files QueenSide) in Hd.
  change KINGSIDE_FILES with (castle_files KingSide) in Hd at 1.
  apply castle_step_mem in Hd. destruct Hd as [Hd|(A1 & A2 & A3)].
  - apply castle_step_mem in Hd. destruct Hd as [Hd|(A1 & A2 & A3)]; [apply M0, Hd|].
    exact (DK_castle b King _ d false KingSide eq_refl A1 A2 A3 eq_refl).
  - exact (DK_castle b King _ d false QueenSide eq_refl A1 A2 A3 eq_refl).
Qed.

Lemma king_legals_shape : forall chk b mask1 e, Part b -> own_king b ->
  In e (king_legals chk b (b_turn b) (bb_and (bb_not (colors b (b_turn b))) mask1)) -> entry_ok b e.
Proof.
  intros chk b mask1 e P K. rewrite king_legals_eq.
  pose proof (king_moves_kind chk b mask1) as MK.
  set (moves := king_moves chk b (b_turn b) (bb_and (bb_not (colors b (b_turn b))) mask1)) in *.
  destruct (none moves); intros H; [destruct H|]. destruct H as [<-|[]].
  destruct (SiteFacts.king_sq_valid b (b_turn b) (part_wf_colors b P (b_turn b)) K) as (Hk & Hc & Hkk).
  exists King. cbn [e_src e_moves e_promo].
  split; [exact Hk|split; [apply raw_of_mem; assumption|split; [reflexivity|split; [discriminate|]]]].
  exact MK.
Qed.

Theorem entry_shape : forall b mask0 e, Part b -> own_king b -> In e (collect_moves b mask0) -> entry_ok b e.
Proof.
  intros b mask0 e P K. unfold collect_moves. cbv zeta.
  pose proof (fun chk => pawn_legals_shape chk b mask0 e P) as HP.
  pose proof (fun cmp chk => piece_legals_shape Knight cmp chk b mask0 e P ltac:(discriminate) ltac:(discriminate)) as HN.
  pose proof (fun cmp chk => piece_legals_shape Bishop cmp chk b mask0 e P ltac:(discriminate) ltac:(discriminate)) as HB.
  pose proof (fun cmp chk => piece_legals_shape Rook cmp chk b mask0 e P ltac:(discriminate) ltac:(discriminate)) as HR.
  pose proof (fun cmp chk => piece_legals_shape Queen cmp chk b mask0 e P ltac:(discriminate) ltac:(discriminate)) as HQ.
  pose proof (fun chk => king_legals_shape chk b mask0 e P K) as HK.
  destruct (none (b_checkers b)).
  - intros H.
    apply in_app_or in H; destruct H as [H|H]; [exact (HP _ H)|].
    apply in_app_or in H; destruct H as [H|H]; [exact (HN _ _ H)|].
    apply in_app_or in H; destruct H as [H|H]; [exact (HB _ _ H)|].
    apply in_app_or in H; destruct H as [H|H]; [exact (HR _ _ H)|].
    apply in_app_or in H; destruct H as [H|H]; [exact (HQ _ _ H)|exact (HK _ H)].
  - destruct (count (b_checkers b) =? 1); intros H.
    + apply in_app_or in H. destruct H as [H|H]; [|exact (HK _ H)].
      apply in_app_or in H; destruct H as [H|H]; [exact (HP _ H)|].
      apply in_app_or in H; destruct H as [H|H]; [exact (HN _ _ H)|].
      apply in_app_or in H; destruct H as [H|H]; [exact (HB _ _ H)|].
      apply in_app_or in H; destruct H as [H|H]; [exact (HR _ _ H)|exact (HQ _ _ H)].
    + apply in_app_or in H. destruct H as [H|H]; [destruct H|exact (HK _ H)].
Qed.

(* destinations are squares *)
Lemma entry_dest_lt : forall b mask0 e d, In e (collect_moves b mask0) -> mem (e_moves e) d = true -> d < 64.
Proof. intros b mask0 e d He Hd. exact (mem_lt64 _ d (collect_moves_wf b mask0 e He) Hd). Qed.


(* ------------------------------------------------------------------ *)
(** * 3. Every generated move satisfies the local conditions of make-move *)

Definition gen_move (b : board) (m : move) : Prop := In m (flat_map entry_moves (collect_moves b bb_full)).

(* the facts about one generated move: [pc] is the moving man *)
Record move_ok (b : board) (m : move) (pc : piece) (promo : bool) : Prop := {
  mo_src : m_src m < 64;
  mo_dst : m_dst m < 64;
  mo_raw : raw_get b (m_src m) = Some (b_turn b, pc);
  mo_kind : dest_kind b pc (m_src m) (m_dst m) promo;
  mo_promo_pawn : promo = true -> pc = Pawn;
  mo_promo : if promo then exists p, In p promo_pieces /\ m_promo m = Some p else m_promo m = None;
  mo_king : pc = King -> m_src m = king_sq b (b_turn b) }.

Lemma dest_moves_promo : forall src promo d x, In x (dest_moves src promo O d) ->
  if promo then exists p, In p promo_pieces /\ m_promo x = Some p else m_promo x = None.
Proof.
  intros src promo d x H. unfold dest_moves in H. destruct promo.
  - apply in_map_iff in H. destruct H as (p & <- & Hp). exists p. split; [exact Hp|reflexivity].
  - destruct H as [<-|[]]. reflexivity.
Qed.

Theorem gen_move_ok : forall b m, Part b -> own_king b -> gen_move b m ->
  exists pc promo, move_ok b m pc promo.
Proof.
  intros b m P K H. unfold gen_move in H. apply in_flat_map in H. destruct H as (e & He & Hm).
  destruct (entry_moves_In e m Hm) as (Hs & Hd & Hmem).
  assert (Hpr : if e_promo e then exists p, In p promo_pieces /\ m_promo m = Some p else m_promo m = None).
  { rewrite entry_moves_eq in Hm. apply in_flat_map in Hm. destruct Hm as (d & _ & Hx).
    exact (dest_moves_promo _ _ _ _ Hx). }
  destruct (entry_shape b bb_full e P K He) as (pc & A1 & A2 & A3 & A4 & A5).
  exists pc, (e_promo e). rewrite <- Hs in A1, A2, A3, A5.
  constructor; try assumption. exact (A5 _ Hmem).
Qed.

(* --- the destination is empty or holds an enemy man --- *)
Lemma none_and_mem : forall a occ d, none (bb_and a occ) = true -> mem a d = true -> mem occ d = false.
Proof.
  intros a occ d H Ha. unfold none in H. apply N.eqb_eq in H.
  assert (E : mem (bb_and a occ) d = false) by (rewrite H; apply mem_0).
  rewrite mem_and, Ha in E. exact E.
Qed.

Lemma wf64_castle_tiles : forall sd c, wf64 (castle_tiles sd c).
Proof. intros sd c. unfold castle_tiles, BACKRANK_BB_of. apply wf64_land_r, wf64_from_rank. Qed.

Lemma castle_dest_in_tiles : forall sd c d, mem (bb_and (castle_tiles sd c) CASTLE_MOVES_bb) d = true ->
  d < 64 /\ mem (castle_tiles sd c) d = true.
Proof.
  intros sd c d H. rewrite mem_and in H. apply andb_true_iff in H. destruct H as [H _].
  split; [exact (mem_lt64 _ d (wf64_castle_tiles sd c) H)|exact H].
Qed.

Lemma kind_dest : forall b pc src d promo, Part b -> ep_ok b -> dest_kind b pc src d promo -> d < 64 ->
  raw_get b d = None \/ exists cp, raw_get b d = Some (opp (b_turn b), cp).
Proof.
  intros b pc src d promo P EP Kd Hd. destruct Kd as [Hm _|f _ Ef -> _ _|sd _ _ Hn Hm _].
  - destruct (pseudo_not_own _ _ _ _ _ _ Hm) as [_ Ho]. apply dest_free; assumption.
  - left. apply (EP f Ef).
  - left. destruct (castle_dest_in_tiles sd _ d Hm) as [_ Ht].
    apply raw_none_of_occ; [exact P|exact Hd|]. exact (none_and_mem _ _ d Hn Ht).
Qed.

(* --- castling --- *)
Definition castle_dest (sd : side) (c : color) : N :=
  match sd, c with
  | KingSide, White => 6 | QueenSide, White => 2
  | KingSide, Black => 62 | QueenSide, Black => 58
  end.

Definition all_sides (P : side -> color -> bool) : bool :=
  P KingSide White && P QueenSide White && P KingSide Black && P QueenSide Black.
Lemma all_sides_spec : forall P, all_sides P = true -> forall sd c, P sd c = true.
Proof.
  intros P H sd c. unfold all_sides in H. rewrite !andb_true_iff in H.
  destruct H as (((H1 & H2) & H3) & H4). destruct sd, c; assumption.
Qed.

Definition chk_king_step (s d : N) : bool :=
  negb (mem (king_geo s) d && mem CASTLE_MOVES_bb s && mem CASTLE_MOVES_bb d).
Lemma sweep_king_step : all_sq2 chk_king_step = true.
Proof. vm_compute. reflexivity. Qed.

Definition chk_castle_dest (d : N) : bool :=
  all_sides (fun sd c => implb (mem (bb_and (castle_tiles sd c) CASTLE_MOVES_bb) d) (d =? castle_dest sd c)).
Lemma sweep_castle_dest : all_sq chk_castle_dest = true.
Proof. vm_compute. reflexivity. Qed.

Definition rook_bb (c : color) (d : N) : N :=
  bb_and (BACKRANK_BB_of c) (if file_of d <? 4 then bb_or (from_file 0) (from_file 3) else bb_or (from_file 7) (from_file 5)).
Definition chk_castle_rook (s : N) : bool :=
  all_sides (fun sd c => implb (mem (rook_bb c (castle_dest sd c)) s)
                               (negb (s =? castle_dest sd c) && ((s =? rook_home sd c) || mem (castle_tiles sd c) s))).
Lemma sweep_castle_rook : all_sq chk_castle_rook = true.
Proof. vm_compute. reflexivity. Qed.

Lemma castle_rook_mv_eq : forall c m, castle_rook_mv c m = rook_bb c (m_dst m).
Proof. intros c m. unfold castle_rook_mv, rook_bb. reflexivity. Qed.

Lemma wf64_rook_bb : forall c d, wf64 (rook_bb c d).
Proof. intros c d. unfold rook_bb, BACKRANK_BB_of. apply wf64_land_l, wf64_from_rank. Qed.

Lemma subset_eqb : forall x C s, (bb_and x C =? x) = true -> mem x s = true -> mem C s = true.
Proof.
  intros x C s H Hs. apply N.eqb_eq in H. rewrite <- H, mem_and in Hs.
  apply andb_true_iff in Hs. apply Hs.
Qed.

Lemma mv_bb_ends : forall src dst, src < 64 -> dst < 64 -> src <> dst ->
  mem (bb_xor (from_pos src) (from_pos dst)) src = true /\ mem (bb_xor (from_pos src) (from_pos dst)) dst = true.
Proof.
  intros src dst Hs Hd Hne. rewrite !mem_mv_bb by assumption. rewrite !N.eqb_refl.
  apply N.eqb_neq in Hne. rewrite Hne. rewrite N.eqb_sym, Hne. split; reflexivity.
Qed.

Lemma piece_eqb_King : forall pc, piece_eqb pc King = true -> pc = King.
Proof. intros [] H; try discriminate H. reflexivity. Qed.

Lemma src_dst_ne : forall b m pc, raw_get b (m_src m) = Some (b_turn b, pc) ->
  (raw_get b (m_dst m) = None \/ exists cp, raw_get b (m_dst m) = Some (opp (b_turn b), cp)) ->
  m_src m <> m_dst m.
Proof.
  intros b m pc Hs Hd E. rewrite <- E, Hs in Hd. destruct Hd as [H|[cp H]]; [discriminate|].
  injection H as H _. symmetry in H. exact (opp_neq _ H).
Qed.

Lemma castle_conditions : forall b m pc promo, Part b -> rights_ok b -> ep_ok b -> move_ok b m pc promo ->
  is_castle_move pc m = true ->
  forall s, s < 64 -> mem (castle_rook_mv (b_turn b) m) s = true ->
    s <> m_src m /\ s <> m_dst m /\ (raw_get b s = Some (b_turn b, Rook) \/ raw_get b s = None).
Proof.
  intros b m pc promo P RO EP [Hs Hd Hraw Kd _ _ _] Hc s Hlt Hm.
  pose proof (kind_dest b pc _ _ promo P EP Kd Hd) as Hfree.
  pose proof (src_dst_ne b m pc Hraw Hfree) as Hne.
  unfold is_castle_move in Hc. apply andb_true_iff in Hc. destruct Hc as [Hk Hsub].
  apply piece_eqb_King in Hk. subst pc.
  destruct (mv_bb_ends _ _ Hs Hd Hne) as [M1 M2].
  pose proof (subset_eqb _ _ _ Hsub M1) as C1. pose proof (subset_eqb _ _ _ Hsub M2) as C2.
  destruct Kd as [Hstep _|f Epc _ _ _ _|sd _ Hr Hn Hcd _].
  - exfalso. unfold pseudo_legals in Hstep. rewrite mem_and in Hstep. apply andb_true_iff in Hstep.
    destruct Hstep as [Hg _].
    pose proof (all_sq2_spec _ sweep_king_step _ _ Hs Hd) as S. unfold chk_king_step in S.
    rewrite Hg, C1, C2 in S. discriminate S.
  - discriminate Epc.
  - pose proof (all_sides_spec _ (all_sq_spec _ sweep_castle_dest _ Hd) sd (b_turn b)) as S. cbv beta in S.
    rewrite Hcd in S. cbn [implb] in S. apply N.eqb_eq in S.
    rewrite castle_rook_mv_eq, S in Hm.
    pose proof (all_sides_spec _ (all_sq_spec _ sweep_castle_rook _ Hlt) sd (b_turn b)) as S2. cbv beta in S2.
    rewrite Hm in S2. cbn [implb] in S2. apply andb_true_iff in S2. destruct S2 as [S2 S3].
    apply negb_true_iff, N.eqb_neq in S2. rewrite <- S in S2.
    destruct (proj2 RO sd (b_turn b) Hr) as (_ & Rk & _).
    apply orb_true_iff in S3. destruct S3 as [S3|S3].
    + apply N.eqb_eq in S3. subst s. split; [|split; [exact S2|left; exact Rk]].
      intros E. rewrite E, Hraw in Rk. discriminate Rk.
    + assert (En : raw_get b s = None).
      { apply raw_none_of_occ; [exact P|exact Hlt|]. exact (none_and_mem _ _ s Hn S3). }
      split; [|split; [exact S2|right; exact En]].
      intros E. rewrite E, Hraw in En. discriminate En.
Qed.

(* --- en passant --- *)
Lemma file_of_mk_sq : forall f r, f < 8 -> file_of (mk_sq f r) = f.
Proof. intros f r Hf. unfold file_of. apply (mk_sq_div_mod f r). lia. Qed.
Lemma rank_of_mk_sq : forall f r, f < 8 -> rank_of (mk_sq f r) = r.
Proof. intros f r Hf. unfold rank_of. apply (mk_sq_div_mod f r). lia. Qed.

Lemma enpassant_pos_eq : forall b, enpassant_pos b =
  match b_ep b with Some f => Some (mk_sq f (ep_capture_rank_of (b_turn b))) | None => None end.
Proof. intros b. unfold enpassant_pos, ep_capture_rank_of. reflexivity. Qed.

Lemma ep_conditions : forall b m pc, ep_ok b -> m_src m < 64 -> raw_get b (m_src m) = Some (b_turn b, pc) ->
  enpassant_pos b = Some (m_dst m) ->
  ep_victim_sq (b_turn b) m < 64 /\ ep_victim_sq (b_turn b) m <> m_src m /\ ep_victim_sq (b_turn b) m <> m_dst m /\
  raw_get b (ep_victim_sq (b_turn b) m) = Some (opp (b_turn b), Pawn).
Proof.
  intros b m pc EP Hs Hraw He. rewrite enpassant_pos_eq in He.
  destruct (b_ep b) as [f|] eqn:Ef; [|discriminate He]. injection He as He.
  destruct (EP f Ef) as (Hf & E1 & E2).
  unfold ep_victim_sq. rewrite <- He, (file_of_mk_sq f _ Hf).
  split; [|split; [|split; [|exact E2]]].
  - apply mk_sq_lt64; [lia|destruct (b_turn b); cbn; lia].
  - intros E. rewrite E, Hraw in E2. injection E2 as E2 _. exact (opp_neq _ (eq_sym E2)).
  - intros E. rewrite E, E1 in E2. discriminate E2.
Qed.

(* --- the hypotheses of HashFacts.apply_consistent_gen --- *)
Theorem gen_move_conditions : forall b m, Inv b -> own_king b -> gen_move b m ->
  let pc := piece_of_unchecked b (m_src m) in
  m_src m < 64 /\ m_dst m < 64 /\
  raw_get b (m_src m) = Some (b_turn b, pc) /\
  (raw_get b (m_dst m) = None \/ exists cp, raw_get b (m_dst m) = Some (opp (b_turn b), cp)) /\
  (is_castle_move pc m = true -> pc <> Knight -> pc <> Pawn ->
     forall s, s < 64 -> mem (castle_rook_mv (b_turn b) m) s = true ->
       s <> m_src m /\ s <> m_dst m /\ (raw_get b s = Some (b_turn b, Rook) \/ raw_get b s = None)) /\
  (pc = Pawn -> m_promo m = None -> is_double_push (b_turn b) m = false -> enpassant_pos b = Some (m_dst m) ->
     ep_victim_sq (b_turn b) m < 64 /\ ep_victim_sq (b_turn b) m <> m_src m /\ ep_victim_sq (b_turn b) m <> m_dst m /\
     raw_get b (ep_victim_sq (b_turn b) m) = Some (opp (b_turn b), Pawn)).
Proof.
  intros b m [P C RO EP] K G. cbv zeta.
  destruct (gen_move_ok b m P K G) as (pc & promo & MO).
  rewrite (raw_get_piece_of_unchecked _ _ _ _ (mo_raw _ _ _ _ MO)).
  split; [exact (mo_src _ _ _ _ MO)|split; [exact (mo_dst _ _ _ _ MO)|split; [exact (mo_raw _ _ _ _ MO)|split; [|split]]]].
  - exact (kind_dest b pc _ _ promo P EP (mo_kind _ _ _ _ MO) (mo_dst _ _ _ _ MO)).
  - intros Hc _ _. exact (castle_conditions b m pc promo P RO EP MO Hc).
  - intros _ _ _ He. exact (ep_conditions b m pc EP (mo_src _ _ _ _ MO) (mo_raw _ _ _ _ MO) He).
Qed.

(* make-move keeps the placement invariant and the stored hash on every generated move *)
Theorem apply_gen_consistent : forall b m, Inv b -> own_king b -> gen_move b m ->
  Part (apply b m) /\ consistent (apply b m).
Proof.
  intros b m I K G. destruct (gen_move_conditions b m I K G) as (H1 & H2 & H3 & H4 & H5 & H6).
  exact (apply_consistent_gen b m _ (inv_part b I) (inv_consistent b I) H1 H2 H3 H4 H5 H6).
Qed.


(* ------------------------------------------------------------------ *)
(** * 4a. The placement after make-move, square by square *)

Definition after5 (self : board) (mv : move) (pc : piece) (s : N) : option (color * piece) :=
  let turn := b_turn self in
  let base := moved self mv pc s in
  match pc with
  | Knight => base
  | Pawn =>
    match m_promo mv with
    | Some pr => if s =? m_dst mv then Some (turn, pr) else base
    | None =>
      if is_double_push turn mv then base
      else match enpassant_pos self with
           | Some ep => if m_dst mv =? ep then (if s =? ep_victim_sq turn mv then None else base) else base
           | None => base
           end
    end
  | _ =>
    if is_castle_move pc mv
    then (if mem (castle_rook_mv turn mv) s then match base with Some _ => None | None => Some (turn, Rook) end else base)
    else base
  end.

Lemma raw_get_set_checkers : forall x c s, raw_get (set_checkers x c) s = raw_get x s.
Proof. reflexivity. Qed.
Lemma raw_get_set_half : forall x h s, raw_get (set_half x h) s = raw_get x s.
Proof. reflexivity. Qed.
Lemma raw_get_set_ep : forall x e s, raw_get (set_ep x e) s = raw_get x s.
Proof. reflexivity. Qed.

Section Stage5Raw.
  Variables (self : board) (mv : move) (pc : piece) (out : board).
  Let turn := b_turn self.
  Hypothesis Hs : m_src mv < 64.
  Hypothesis Hd : m_dst mv < 64.
  Hypothesis Hne : m_src mv <> m_dst mv.
  Hypothesis Epc : piece_of_unchecked self (m_src mv) = pc.
  Hypothesis G : Good out.
  Hypothesis R : forall s, s < 64 -> raw_get out s = moved self mv pc s.
  Hypothesis Hcastle : is_castle_move pc mv = true -> pc <> Knight -> pc <> Pawn ->
    forall s, s < 64 -> mem (castle_rook_mv turn mv) s = true ->
      s <> m_src mv /\ s <> m_dst mv /\ (raw_get self s = Some (turn, Rook) \/ raw_get self s = None).
  Hypothesis Hep : pc = Pawn -> m_promo mv = None -> is_double_push turn mv = false ->
    enpassant_pos self = Some (m_dst mv) ->
    ep_victim_sq turn mv < 64 /\ ep_victim_sq turn mv <> m_src mv /\ ep_victim_sq turn mv <> m_dst mv /\
    raw_get self (ep_victim_sq turn mv) = Some (opp turn, Pawn).

  Lemma stage5_castle_raw : pc <> Knight -> pc <> Pawn -> forall s, s < 64 ->
    raw_get (if is_castle_move pc mv then board_xor out turn Rook (castle_rook_mv turn mv) else out) s =
    (if is_castle_move pc mv
     then (if mem (castle_rook_mv turn mv) s
           then match moved self mv pc s with Some _ => None | None => Some (turn, Rook) end else moved self mv pc s)
     else moved self mv pc s).
  Proof.
    intros N1 N2 s H. destruct (is_castle_move pc mv) eqn:Ec; [|exact (R s H)].
    assert (T : toggle_ok out turn Rook (castle_rook_mv turn mv)).
    { intros t Ht Hm. destruct (Hcastle eq_refl N1 N2 t Ht Hm) as (A1 & A2 & A3).
      rewrite (R t Ht). unfold moved. apply N.eqb_neq in A1, A2. rewrite A1, A2. exact A3. }
    rewrite (raw_get_board_xor out turn Rook _ (proj1 G) T s H), (R s H). reflexivity.
  Qed.

  Lemma stage5_raw : forall s, s < 64 -> raw_get (stage5_body self mv out) s = after5 self mv pc s.
  Proof.
    intros s H. unfold stage5_body, after5. cbv zeta. rewrite Epc. fold turn.
    assert (Rd : raw_get out (m_dst mv) = Some (turn, pc)).
    { rewrite (R _ Hd). unfold moved. rewrite N.eqb_refl.
      destruct (N.eqb_spec (m_dst mv) (m_src mv)) as [E|_]; [symmetry in E; contradiction|reflexivity]. }
    pose proof stage5_castle_raw as CB.
    destruct pc eqn:Ep.
    - (* pawn *)
      pose proof (Good_set_half out 0 G) as G1.
      destruct (m_promo mv) as [pr|] eqn:Epr.
      + set (o2 := if piece_eqb pr Knight then _ else _).
        assert (G2 : Good o2) by (unfold o2; destruct (piece_eqb pr Knight); [apply Good_set_checkers; [exact G1|apply wf64_checkers_xor_dest, G1]|exact G1]).
        assert (R2 : forall t, raw_get o2 t = raw_get out t) by (intros t; unfold o2; destruct (piece_eqb pr Knight); reflexivity).
        assert (Md : forall t, t < 64 -> mem (from_pos (m_dst mv)) t = (t =? m_dst mv)) by (intros t Ht; apply mem_from_pos; assumption).
        assert (T1 : toggle_ok o2 turn Pawn (from_pos (m_dst mv))).
        { intros t Ht Hm. rewrite Md in Hm by exact Ht. apply N.eqb_eq in Hm. subst t. left. rewrite R2. exact Rd. }
        pose proof (Good_board_xor o2 turn Pawn _ G2 (wf64_from_pos _) T1) as G3.
        assert (R3 : forall t, t < 64 -> raw_get (board_xor o2 turn Pawn (from_pos (m_dst mv))) t
                                 = if t =? m_dst mv then None else raw_get out t).
        { intros t Ht. rewrite (raw_get_board_xor o2 turn Pawn _ (proj1 G2) T1 t Ht), Md, R2 by exact Ht.
          destruct (N.eqb_spec t (m_dst mv)) as [->|_]; [rewrite Rd|]; reflexivity. }
        assert (T2 : toggle_ok (board_xor o2 turn Pawn (from_pos (m_dst mv))) turn pr (from_pos (m_dst mv))).
        { intros t Ht Hm. rewrite Md in Hm by exact Ht. apply N.eqb_eq in Hm. subst t. right.
          rewrite (R3 _ Hd), N.eqb_refl. reflexivity. }
        rewrite (raw_get_board_xor _ turn pr _ (proj1 G3) T2 s H), Md, (R3 s H) by exact H.
        destruct (N.eqb_spec s (m_dst mv)) as [->|_]; [reflexivity|exact (R s H)].
      + rewrite raw_get_set_checkers.
        destruct (is_double_push turn mv) eqn:Edbl; [rewrite raw_get_set_ep, raw_get_set_half; exact (R s H)|].
        destruct (enpassant_pos self) as [ep|] eqn:Eep; [|rewrite raw_get_set_half; exact (R s H)].
        destruct (N.eqb_spec (m_dst mv) ep) as [E|_]; [|rewrite raw_get_set_half; exact (R s H)].
        subst ep. destruct (Hep eq_refl eq_refl eq_refl eq_refl) as (A0 & A1 & A2 & A3).
        assert (T : toggle_ok (set_half out 0) (opp turn) Pawn (from_pos (ep_victim_sq turn mv))).
        { intros t Ht Hm. rewrite mem_from_pos in Hm by assumption. apply N.eqb_eq in Hm. subst t. left.
          rewrite raw_get_set_half, (R _ A0). unfold moved. apply N.eqb_neq in A1, A2. rewrite A1, A2. exact A3. }
        rewrite (raw_get_board_xor _ (opp turn) Pawn _ (proj1 G1) T s H), mem_from_pos, raw_get_set_half by assumption.
        destruct (N.eqb_spec s (ep_victim_sq turn mv)) as [->|_]; [|exact (R s H)].
        rewrite (R _ A0). unfold moved. apply N.eqb_neq in A1, A2. rewrite A1, A2, A3. reflexivity.
    - rewrite raw_get_set_checkers. exact (R s H).
    - apply CB; [discriminate|discriminate|exact H].
    - apply CB; [discriminate|discriminate|exact H].
    - apply CB; [discriminate|discriminate|exact H].
    - apply CB; [discriminate|discriminate|exact H].
  Qed.
End Stage5Raw.

Lemma apply_pins_same : forall out turn k, same_placement out (apply_pins out turn k).
Proof.
  intros out turn k. unfold apply_pins. cbv zeta.
  match goal with |- context [fold_left ?f ?l ?a] => destruct (fold_left f l a) as [pn ck] end.
  unfold set_pins. apply same_placement_set_meta.
Qed.

Theorem apply_raw_get : forall b m pc, Part b -> consistent b ->
  m_src m < 64 -> m_dst m < 64 ->
  raw_get b (m_src m) = Some (b_turn b, pc) ->
  (raw_get b (m_dst m) = None \/ exists cp, raw_get b (m_dst m) = Some (opp (b_turn b), cp)) ->
  (is_castle_move pc m = true -> pc <> Knight -> pc <> Pawn ->
     forall s, s < 64 -> mem (castle_rook_mv (b_turn b) m) s = true ->
       s <> m_src m /\ s <> m_dst m /\ (raw_get b s = Some (b_turn b, Rook) \/ raw_get b s = None)) ->
  (pc = Pawn -> m_promo m = None -> is_double_push (b_turn b) m = false -> enpassant_pos b = Some (m_dst m) ->
     ep_victim_sq (b_turn b) m < 64 /\ ep_victim_sq (b_turn b) m <> m_src m /\ ep_victim_sq (b_turn b) m <> m_dst m /\
     raw_get b (ep_victim_sq (b_turn b) m) = Some (opp (b_turn b), Pawn)) ->
  forall s, s < 64 -> raw_get (apply b m) s = after5 b m pc s.
Proof.
  intros b m pc P C Hs Hd Hsrc Hdst Hcastle Hep s Hlt.
  assert (G : Good b) by (split; assumption).
  destruct (stage4_spec b m pc G Hs Hd Hsrc Hdst) as [G4 R4].
  pose proof (src_dst_ne b m pc Hsrc Hdst) as Hne.
  rewrite apply_staged.
  rewrite <- (same_placement_raw_get _ _ (apply_pins_same (apply_stage5 b m) (b_turn b) (king_sq b (opp (b_turn b)))) s).
  unfold apply_stage5.
  pose proof (raw_get_piece_of_unchecked _ _ _ _ Hsrc) as Epc.
  exact (stage5_raw b m pc (apply_stage4 b m) Hd Hne Epc G4 R4 Hcastle Hep s Hlt).
Qed.

(* ------------------------------------------------------------------ *)
(** * 4b. Side to move and en-passant marker after make-move *)

Lemma te_board_xor : forall b c p d, b_turn (board_xor b c p d) = b_turn b /\ b_ep (board_xor b c p d) = b_ep b.
Proof. intros b c p d. destruct c; split; reflexivity. Qed.
Lemma turn_board_xor : forall b c p d, b_turn (board_xor b c p d) = b_turn b.
Proof. intros. apply te_board_xor. Qed.
Lemma ep_board_xor : forall b c p d, b_ep (board_xor b c p d) = b_ep b.
Proof. intros. apply te_board_xor. Qed.
Lemma turn_set_checkers : forall b c, b_turn (set_checkers b c) = b_turn b. Proof. reflexivity. Qed.
Lemma ep_set_checkers : forall b c, b_ep (set_checkers b c) = b_ep b. Proof. reflexivity. Qed.
Lemma turn_set_half : forall b h, b_turn (set_half b h) = b_turn b. Proof. reflexivity. Qed.
Lemma ep_set_half : forall b h, b_ep (set_half b h) = b_ep b. Proof. reflexivity. Qed.
Lemma turn_set_full : forall b h, b_turn (set_full b h) = b_turn b. Proof. reflexivity. Qed.
Lemma ep_set_full : forall b h, b_ep (set_full b h) = b_ep b. Proof. reflexivity. Qed.
Lemma turn_set_rights : forall b h, b_turn (set_rights b h) = b_turn b. Proof. reflexivity. Qed.
Lemma ep_set_rights : forall b h, b_ep (set_rights b h) = b_ep b. Proof. reflexivity. Qed.
Lemma turn_set_ep : forall b e, b_turn (set_ep b e) = b_turn b. Proof. reflexivity. Qed.
Lemma ep_set_ep : forall b e, b_ep (set_ep b e) = e. Proof. reflexivity. Qed.

Ltac te_rw := rewrite ?turn_board_xor, ?ep_board_xor, ?turn_set_checkers, ?ep_set_checkers, ?turn_set_half, ?ep_set_half,
                      ?turn_set_full, ?ep_set_full, ?turn_set_rights, ?ep_set_rights, ?turn_set_ep, ?ep_set_ep.

Lemma stage4_te : forall b m, b_turn (apply_stage4 b m) = opp (b_turn b) /\ b_ep (apply_stage4 b m) = None.
Proof.
  intros b m. unfold apply_stage4, apply_stage2. cbv zeta.
  destruct (piece_of b (m_dst m)); repeat (progress te_rw); split; reflexivity.
Qed.

Definition ep_after (b : board) (m : move) : option N :=
  match piece_of_unchecked b (m_src m), m_promo m with
  | Pawn, None => if is_double_push (b_turn b) m then Some (file_of (m_dst m)) else None
  | _, _ => None
  end.

Lemma stage5_te : forall b m out, b_turn out = opp (b_turn b) -> b_ep out = None ->
  b_turn (stage5_body b m out) = opp (b_turn b) /\ b_ep (stage5_body b m out) = ep_after b m.
Proof.
  intros b m out Ht Ee. unfold stage5_body, ep_after. cbv zeta.
  destruct (piece_of_unchecked b (m_src m)).
  - destruct (m_promo m) as [pr|].
    + destruct (piece_eqb pr Knight); repeat (progress te_rw); split; assumption.
    + destruct (is_double_push (b_turn b) m).
      * repeat (progress te_rw). split; [assumption|reflexivity].
      * destruct (enpassant_pos b) as [ep|]; [destruct (m_dst m =? ep)|]; repeat (progress te_rw); split; assumption.
  - repeat (progress te_rw). split; assumption.
  - destruct (is_castle_move _ m); repeat (progress te_rw); split; assumption.
  - destruct (is_castle_move _ m); repeat (progress te_rw); split; assumption.
  - destruct (is_castle_move _ m); repeat (progress te_rw); split; assumption.
  - destruct (is_castle_move _ m); repeat (progress te_rw); split; assumption.
Qed.

Lemma apply_pins_te : forall out turn k, b_turn (apply_pins out turn k) = b_turn out /\ b_ep (apply_pins out turn k) = b_ep out.
Proof.
  intros out turn k. unfold apply_pins. cbv zeta.
  match goal with |- context [fold_left ?f ?l ?a] => destruct (fold_left f l a) as [pn ck] end.
  split; reflexivity.
Qed.

Theorem apply_turn_ep : forall b m, b_turn (apply b m) = opp (b_turn b) /\ b_ep (apply b m) = ep_after b m.
Proof.
  intros b m. rewrite apply_staged.
  destruct (apply_pins_te (apply_stage5 b m) (b_turn b) (king_sq b (opp (b_turn b)))) as [-> ->].
  unfold apply_stage5. destruct (stage4_te b m) as [A B]. exact (stage5_te b m _ A B).
Qed.


(* ------------------------------------------------------------------ *)
(** * 4c. The invariant is kept by every generated move *)

Lemma after5_same : forall b m pc s, s <> m_src m -> s <> m_dst m ->
  (enpassant_pos b = Some (m_dst m) -> s <> ep_victim_sq (b_turn b) m) ->
  (is_castle_move pc m = true -> mem (castle_rook_mv (b_turn b) m) s = false) ->
  after5 b m pc s = raw_get b s.
Proof.
  intros b m pc s N1 N2 Hep Hc. unfold after5. cbv zeta.
  assert (B : moved b m pc s = raw_get b s).
  { unfold moved. apply N.eqb_neq in N1, N2. rewrite N1, N2. reflexivity. }
  rewrite B. destruct pc.
  - destruct (m_promo m); [apply N.eqb_neq in N2; rewrite N2; reflexivity|].
    destruct (is_double_push _ m); [reflexivity|].
    destruct (enpassant_pos b) as [ep|]; [|reflexivity].
    destruct (N.eqb_spec (m_dst m) ep) as [E|_]; [|reflexivity]. subst ep.
    specialize (Hep eq_refl). apply N.eqb_neq in Hep. rewrite Hep. reflexivity.
  - reflexivity.
  - destruct (is_castle_move _ m); [rewrite (Hc eq_refl); reflexivity|reflexivity].
  - destruct (is_castle_move _ m); [rewrite (Hc eq_refl); reflexivity|reflexivity].
  - destruct (is_castle_move _ m); [rewrite (Hc eq_refl); reflexivity|reflexivity].
  - destruct (is_castle_move _ m); [rewrite (Hc eq_refl); reflexivity|reflexivity].
Qed.

Lemma moved_king : forall b m pc s c, moved b m pc s = Some (c, King) ->
  s <> m_src m /\ ((s = m_dst m /\ pc = King /\ c = b_turn b) \/ (s <> m_dst m /\ raw_get b s = Some (c, King))).
Proof.
  intros b m pc s c H. unfold moved in H.
  destruct (N.eqb_spec s (m_src m)) as [E|N1]; [discriminate H|]. split; [exact N1|].
  destruct (N.eqb_spec s (m_dst m)) as [E|N2].
  - left. injection H as H1 H2. repeat split; [exact E|exact H2|symmetry; exact H1].
  - right. split; assumption.
Qed.

Lemma after5_king : forall b m pc s c, after5 b m pc s = Some (c, King) ->
  (forall pr, m_promo m = Some pr -> pr <> King) ->
  s <> m_src m /\ ((s = m_dst m /\ pc = King /\ c = b_turn b) \/ (s <> m_dst m /\ raw_get b s = Some (c, King))).
Proof.
  intros b m pc s c H Hpr. unfold after5 in H. cbv zeta in H.
  pose proof (moved_king b m pc s c) as MK.
  destruct pc.
  - destruct (m_promo m) as [pr|] eqn:E.
    + destruct (N.eqb_spec s (m_dst m)) as [Es|_]; [|exact (MK H)].
      exfalso. injection H as _ H. exact (Hpr pr eq_refl H).
    + destruct (is_double_push _ m); [exact (MK H)|].
      destruct (enpassant_pos b) as [ep|]; [|exact (MK H)].
      destruct (m_dst m =? ep); [|exact (MK H)].
      destruct (s =? ep_victim_sq (b_turn b) m); [discriminate H|exact (MK H)].
  - exact (MK H).
  - destruct (is_castle_move _ m); [|exact (MK H)].
    destruct (mem _ s); [|exact (MK H)]. destruct (moved b m Bishop s); discriminate H.
  - destruct (is_castle_move _ m); [|exact (MK H)].
    destruct (mem _ s); [|exact (MK H)]. destruct (moved b m Rook s); discriminate H.
  - destruct (is_castle_move _ m); [|exact (MK H)].
    destruct (mem _ s); [|exact (MK H)]. destruct (moved b m Queen s); discriminate H.
  - destruct (is_castle_move _ m); [|exact (MK H)].
    destruct (mem _ s); [|exact (MK H)]. destruct (moved b m King s); discriminate H.
Qed.

(* --- castling rights --- *)
Lemma cr_keep_bit : forall c s sd, N.testbit (cr_keep c s) (cr_offset sd c) = true ->
  s <> king_home c /\ s <> rook_home sd c.
Proof. intros c s sd H. split; intros ->; destruct c, sd; vm_compute in H; discriminate H. Qed.

Lemma cr_contains_apply : forall b m sd c, cr_contains (b_rights (apply b m)) sd c = true ->
  cr_contains (b_rights b) sd c = true /\
  N.testbit (cr_keep (opp (b_turn b)) (m_dst m)) (cr_offset sd c) = true /\
  N.testbit (cr_keep (b_turn b) (m_src m)) (cr_offset sd c) = true.
Proof.
  intros b m sd c H. rewrite SiteFacts.apply_rights in H. unfold cr_contains, cr_remove_for_sq in *.
  rewrite !N.land_spec in H. apply andb_true_iff in H. destruct H as [H H3].
  apply andb_true_iff in H. destruct H as [H1 H2]. repeat split; assumption.
Qed.

Lemma homes_lt : forall sd c, king_home c < 64 /\ rook_home sd c < 64.
Proof. intros [] []; split; reflexivity. Qed.

Lemma promo_not_king : forall (m : move) (promo : bool),
  (if promo then exists p, In p promo_pieces /\ m_promo m = Some p else m_promo m = None) ->
  forall pr, m_promo m = Some pr -> pr <> King.
Proof.
  intros m promo H pr E. destruct promo.
  - destruct H as (p & Hp & E2). rewrite E in E2. injection E2 as <-.
    unfold promo_pieces in Hp. cbn [In] in Hp. intros ->.
    destruct Hp as [X|[X|[X|[X|[]]]]]; discriminate X.
  - rewrite E in H. discriminate H.
Qed.

Lemma rights_ok_apply : forall b m pc promo, Part b -> rights_ok b -> ep_ok b -> move_ok b m pc promo ->
  (forall s, s < 64 -> raw_get (apply b m) s = after5 b m pc s) -> rights_ok (apply b m).
Proof.
  intros b m pc promo P RO EP MO RG. split; [apply SiteFacts.rights_after_apply|].
  intros sd c Hc. destruct (cr_contains_apply b m sd c Hc) as (R0 & Kd & Ks).
  destruct (proj2 RO sd c R0) as (Hk & Hr & Hu).
  pose proof (mo_src _ _ _ _ MO) as Hs. pose proof (mo_dst _ _ _ _ MO) as Hd.
  pose proof (mo_raw _ _ _ _ MO) as Hraw.
  pose proof (kind_dest b pc _ _ promo P EP (mo_kind _ _ _ _ MO) Hd) as Hfree.
  destruct (homes_lt sd c) as [Lk Lr].
  (* a surviving right of the side to move: the mover did not start on a home square *)
  assert (SrcT : c = b_turn b -> m_src m <> king_home c /\ m_src m <> rook_home sd c).
  { intros ->. exact (cr_keep_bit _ _ _ Ks). }
  assert (DstO : c = opp (b_turn b) -> m_dst m <> king_home c /\ m_dst m <> rook_home sd c).
  { intros ->. exact (cr_keep_bit _ _ _ Kd). }
  assert (KingNotMine : c = b_turn b -> pc <> King).
  { intros Ec Ep. subst pc. subst c. destruct (SrcT eq_refl) as [A _]. apply A. exact (Hu _ Hs Hraw). }
  assert (Same : forall h x, h < 64 -> raw_get b h = Some (c, x) -> x <> Pawn ->
                 (h = king_home c \/ h = rook_home sd c) -> after5 b m pc h = raw_get b h).
  { intros h x Lh Hh Nx Hhome. apply after5_same.
    - destruct (color_cases c (b_turn b)) as [Ec|Ec].
      + destruct (SrcT Ec) as [A1 A2]. intros E. destruct Hhome as [X|X]; rewrite X in E; symmetry in E; contradiction.
      + intros E. rewrite E, Hraw, Ec in Hh. injection Hh as Hh _. exact (opp_neq _ (eq_sym Hh)).
    - destruct (color_cases c (b_turn b)) as [Ec|Ec].
      + intros E. rewrite E, Ec in Hh. destruct Hfree as [F|[cp F]]; rewrite F in Hh; [discriminate Hh|].
        injection Hh as Hh _. exact (opp_neq _ Hh).
      + destruct (DstO Ec) as [A1 A2]. intros E. destruct Hhome as [X|X]; rewrite X in E; symmetry in E; contradiction.
    - intros He E. destruct (ep_conditions b m pc EP Hs Hraw He) as (_ & _ & _ & V).
      rewrite <- E, Hh in V. injection V as _ V. contradiction.
    - intros Hcm. destruct (mem (castle_rook_mv (b_turn b) m) h) eqn:Em; [exfalso|reflexivity].
      destruct (castle_conditions b m pc promo P RO EP MO Hcm h Lh Em) as (_ & _ & [X|X]); rewrite X in Hh; [|discriminate Hh].
      injection Hh as Ec _. unfold is_castle_move in Hcm. apply andb_true_iff in Hcm. destruct Hcm as [Hk2 _].
      apply piece_eqb_King in Hk2. exact (KingNotMine (eq_sym Ec) Hk2). }
  split; [|split].
  - rewrite (RG _ Lk), (Same _ King Lk Hk ltac:(discriminate) (or_introl eq_refl)). exact Hk.
  - rewrite (RG _ Lr), (Same _ Rook Lr Hr ltac:(discriminate) (or_intror eq_refl)). exact Hr.
  - intros s Ls Hsk. rewrite (RG s Ls) in Hsk.
    destruct (after5_king b m pc s c Hsk (promo_not_king m promo (mo_promo _ _ _ _ MO))) as (_ & [(_ & Ep & Ec)|(_ & X)]).
    + exfalso. exact (KingNotMine Ec Ep).
    + exact (Hu s Ls X).
Qed.

(* --- the en-passant marker --- *)
Definition dp_ranks (c : color) : N :=
  match c with White => bb_or (from_rank 1) (from_rank 3) | Black => bb_or (from_rank 4) (from_rank 6) end.

Lemma is_double_push_eq : forall c m, is_double_push c m =
  (bb_and (bb_xor (from_pos (m_src m)) (from_pos (m_dst m))) (dp_ranks c) =? bb_xor (from_pos (m_src m)) (from_pos (m_dst m))).
Proof. intros c m. unfold is_double_push, dp_ranks. reflexivity. Qed.

Definition chk_double (s d : N) : bool :=
  both (fun c =>
    implb (mem (dp_ranks c) s && mem (dp_ranks c) d && (mem (pawn_push_geo c s) d || mem (pawn_att_geo c s) d))
          (negb (mem (pawn_att_geo c s) d) && (d =? mk_sq (file_of d) (ep_pawn_rank_of (opp c)))
           && match sq_off s 0 (fwd c) with
              | Some t => t =? mk_sq (file_of d) (ep_capture_rank_of (opp c))
              | None => false
              end)).
Lemma sweep_double : all_sq2 chk_double = true.
Proof. vm_compute. reflexivity. Qed.

Definition chk_ep_src (s : N) : bool :=
  both (fun c => negb (mem (from_rank (ep_pawn_rank_of c)) s && mem (dp_ranks c) s)).
Lemma sweep_ep_src : all_sq chk_ep_src = true.
Proof. vm_compute. reflexivity. Qed.

Lemma ep_ok_apply : forall b m pc promo, Part b -> ep_ok b -> move_ok b m pc promo ->
  (forall s, s < 64 -> raw_get (apply b m) s = after5 b m pc s) -> ep_ok (apply b m).
Proof.
  intros b m pc promo P EP MO RG f Ef.
  destruct (apply_turn_ep b m) as [ET EE]. rewrite EE in Ef. rewrite ET.
  pose proof (mo_src _ _ _ _ MO) as Hs. pose proof (mo_dst _ _ _ _ MO) as Hd.
  pose proof (mo_raw _ _ _ _ MO) as Hraw.
  pose proof (kind_dest b pc _ _ promo P EP (mo_kind _ _ _ _ MO) Hd) as Hfree.
  pose proof (src_dst_ne b m pc Hraw Hfree) as Hne.
  unfold ep_after in Ef. rewrite (raw_get_piece_of_unchecked _ _ _ _ Hraw) in Ef.
  destruct pc; try discriminate Ef.
  destruct (m_promo m) as [pr|] eqn:Epr; [discriminate Ef|].
  destruct (is_double_push (b_turn b) m) eqn:Edp; [|discriminate Ef].
  injection Ef as <-.
  (* both ends on the double-push ranks *)
  rewrite is_double_push_eq in Edp.
  destruct (mv_bb_ends _ _ Hs Hd Hne) as [M1 M2].
  pose proof (subset_eqb _ _ _ Edp M1) as D1. pose proof (subset_eqb _ _ _ Edp M2) as D2.
  pose proof (both_spec _ (all_sq2_spec _ sweep_double _ _ Hs Hd) (b_turn b)) as S. cbv beta in S.
  rewrite D1, D2 in S. cbn [andb] in S.
  assert (A5 : forall s, after5 b m Pawn s = moved b m Pawn s).
  { intros s. unfold after5. cbv zeta. rewrite Epr, is_double_push_eq, Edp. reflexivity. }
  assert (Q : exists t1, sq_off (m_src m) 0 (fwd (b_turn b)) = Some t1 /\ N.testbit (all_occ b) t1 = false /\
                         mem (pawn_push_geo (b_turn b) (m_src m)) (m_dst m) = true).
  { destruct (mo_kind _ _ _ _ MO) as [Hstep _|f0 _ _ _ Hr _|sd Epc _ _ _ _]; [| |discriminate Epc].
    - unfold pseudo_legals in Hstep. rewrite mem_and in Hstep. apply andb_true_iff in Hstep. destruct Hstep as [Hstep _].
      unfold pawn_moves_spec in Hstep. rewrite mem_lor in Hstep. apply orb_true_iff in Hstep. destruct Hstep as [Hq|Ha].
      + unfold pawn_quiets_spec in Hq. destruct (sq_off (m_src m) 0 (fwd (b_turn b))) as [t1|]; [|rewrite mem_0 in Hq; discriminate Hq].
        destruct (N.testbit (all_occ b) t1) eqn:Eo; [rewrite mem_0 in Hq; discriminate Hq|].
        rewrite mem_ldiff in Hq. apply andb_true_iff in Hq. exists t1. split; [reflexivity|split; [exact Eo|apply Hq]].
      + exfalso. unfold pawn_attacks_spec in Ha. rewrite mem_land in Ha. apply andb_true_iff in Ha. destruct Ha as [Ha _].
        rewrite Ha, orb_true_r in S. cbn [implb negb andb] in S. discriminate S.
    - exfalso. pose proof (both_spec _ (all_sq_spec _ sweep_ep_src _ Hs) (b_turn b)) as S2. cbv beta in S2.
      rewrite Hr, D1 in S2. discriminate S2. }
  destruct Q as (t1 & Eoff & Eocc & Hpush). rewrite Hpush, Eoff in S. cbn [orb implb] in S.
  apply andb_true_iff in S. destruct S as [S S3]. apply andb_true_iff in S. destruct S as [_ S2].
  apply N.eqb_eq in S2, S3.
  assert (Hf : file_of (m_dst m) < 8) by (unfold file_of; apply N.mod_lt; lia).
  split; [exact Hf|]. rewrite <- S3, <- S2, opp_opp.
  assert (Lt1 : t1 < 64).
  { rewrite S3. apply mk_sq_lt64; [lia|destruct (b_turn b); cbn; lia]. }
  assert (Nd : t1 <> m_dst m).
  { rewrite S3. rewrite S2 at 2. unfold mk_sq. destruct (b_turn b); cbn [opp ep_capture_rank_of ep_pawn_rank_of]; lia. }
  assert (Ns : t1 <> m_src m).
  { intros E. rewrite E in Eocc. change (N.testbit (all_occ b) (m_src m)) with (mem (all_occ b) (m_src m)) in Eocc.
    rewrite (raw_some_occ b _ _ P Hs Hraw) in Eocc. discriminate Eocc. }
  split.
  - rewrite (RG _ Lt1), A5. unfold moved. apply N.eqb_neq in Nd, Ns. rewrite Nd, Ns.
    apply raw_none_of_occ; [exact P|exact Lt1|exact Eocc].
  - rewrite (RG _ Hd), A5. unfold moved. rewrite N.eqb_refl.
    destruct (N.eqb_spec (m_dst m) (m_src m)) as [E|_]; [symmetry in E; contradiction|reflexivity].
Qed.

Theorem Inv_apply : forall b m, Inv b -> own_king b -> gen_move b m -> Inv (apply b m).
Proof.
  intros b m I K G.
  destruct (gen_move_conditions b m I K G) as (H1 & H2 & H3 & H4 & H5 & H6).
  destruct (apply_gen_consistent b m I K G) as [P' C'].
  destruct I as [P C RO EP].
  destruct (gen_move_ok b m P K G) as (pc & promo & MO).
  rewrite (raw_get_piece_of_unchecked _ _ _ _ (mo_raw _ _ _ _ MO)) in H3, H5, H6.
  pose proof (apply_raw_get b m pc P C H1 H2 H3 H4 H5 H6) as RG.
  constructor; [exact P'|exact C'| |].
  - exact (rights_ok_apply b m pc promo P RO EP MO RG).
  - exact (ep_ok_apply b m pc promo P EP MO RG).
Qed.


(* ------------------------------------------------------------------ *)
(** * 5. Legal moves, parsed boards, reachable boards *)

(* is_legal = membership in what board.legals() yields = membership in the collected entries
   (IterFacts.legals_drain: the drain is complete, its fuel MoveGen.drain_bound always suffices) *)
Lemma legal_gen_move : forall b m, is_legal b m = true -> gen_move b m.
Proof.
  intros b m H. apply CoreFacts.is_legal_iff in H.
  exact (Permutation_in _ (legals_drain b) H).
Qed.

Lemma gen_move_legal : forall b m, gen_move b m -> is_legal b m = true.
Proof.
  intros b m H. apply CoreFacts.is_legal_iff.
  exact (Permutation_in _ (Permutation_sym (legals_drain b)) H).
Qed.

Theorem apply_legal_consistent : forall b m, Inv b -> own_king b -> is_legal b m = true ->
  Part (apply b m) /\ consistent (apply b m).
Proof. intros b m I K L. exact (apply_gen_consistent b m I K (legal_gen_move b m L)). Qed.

Theorem Inv_apply_legal : forall b m, Inv b -> own_king b -> is_legal b m = true -> Inv (apply b m).
Proof. intros b m I K L. exact (Inv_apply b m I K (legal_gen_move b m L)). Qed.

(* --- boards accepted by Board::validate --- *)
Lemma validate_none : forall b, validate b = None ->
  has_kings b = true /\ validate_en_passant b = true /\ validate_castle_rights b = true.
Proof.
  intros b. unfold validate.
  destruct (has_kings b); cbn [negb]; [|discriminate].
  destruct (_ || _); [discriminate|].
  destruct (validate_en_passant b); cbn [negb]; [|discriminate].
  destruct (validate_castle_rights b); cbn [negb]; [|discriminate].
  intros _. repeat split.
Qed.

Lemma color_eqb_eq : forall a c, color_eqb a c = true -> a = c.
Proof. intros [] [] H; try reflexivity; discriminate H. Qed.
Lemma piece_eqb_eq : forall a c, piece_eqb a c = true -> a = c.
Proof. intros [] [] H; try reflexivity; discriminate H. Qed.

Lemma get_is_raw : forall b s c p, get_is b s c p = true -> raw_get b s = Some (c, p).
Proof.
  intros b s c p H. unfold get_is in H. destruct (raw_get b s) as [[c' p']|]; [|discriminate H].
  apply andb_true_iff in H. destruct H as [H1 H2].
  apply color_eqb_eq in H1. apply piece_eqb_eq in H2. subst. reflexivity.
Qed.

Lemma castle_rights_homes : forall b sd c, validate_castle_rights b = true -> cr_contains (b_rights b) sd c = true ->
  raw_get b (king_home c) = Some (c, King) /\ raw_get b (rook_home sd c) = Some (c, Rook).
Proof.
  intros b sd c H Hc. unfold validate_castle_rights in H. cbv zeta in H.
  rewrite !andb_true_iff in H. destruct H as (((((H1 & H2) & H3) & H4) & H5) & H6).
  unfold cr_contains_color in H5, H6.
  destruct sd, c; cbn [king_home rook_home]; rewrite Hc in *; cbn [negb orb] in *;
    rewrite ?orb_true_r in *; cbn [negb orb] in *; split; apply get_is_raw; assumption.
Qed.

(* one king of each colour *)
Lemma one_king_of_count : forall b c, Part b -> count (bb_and (b_king b) (colors b c)) = 1 ->
  forall s t, s < 64 -> t < 64 -> raw_get b s = Some (c, King) -> raw_get b t = Some (c, King) -> s = t.
Proof.
  intros b c P Hc s t Hs Ht H1 H2.
  assert (W : wf64 (bb_and (b_king b) (colors b c))) by (apply wf64_land_l, (part_wf_pieces b P King)).
  destruct (SiteFacts.single_bit _ W Hc) as [_ E].
  assert (M : forall x, x < 64 -> raw_get b x = Some (c, King) -> x = tz64 (bb_and (b_king b) (colors b c))).
  { intros x Hx Hr. apply (raw_get_spec b P x Hx) in Hr. destruct Hr as [A B].
    assert (X : mem (bb_and (b_king b) (colors b c)) x = true).
    { rewrite mem_and. change (b_king b) with (pieces b King). rewrite A, B. reflexivity. }
    rewrite E, mem_bit in X. apply N.eqb_eq in X. exact X. }
  rewrite (M s Hs H1), (M t Ht H2). reflexivity.
Qed.

Lemma has_kings_counts : forall b, has_kings b = true ->
  forall c, count (bb_and (b_king b) (colors b c)) = 1.
Proof.
  intros b H c. unfold has_kings in H. cbv zeta in H.
  rewrite !andb_true_iff in H. destruct H as ((_ & H1) & H2). apply N.eqb_eq in H1, H2.
  destruct c; assumption.
Qed.

Lemma has_kings_own_king : forall b, has_kings b = true -> own_king b.
Proof.
  intros b H. destruct (SiteFacts.has_kings_nonempty b H) as [A B].
  unfold own_king. destruct (b_turn b); assumption.
Qed.

(* Inv for every board that passes validate, given the placement invariant and the hash *)
Theorem validate_Inv : forall b, Part b -> consistent b -> b_rights b < 16 ->
  (forall f, b_ep b = Some f -> f < 8) -> validate b = None -> Inv b /\ own_king b.
Proof.
  intros b P C Hr He V. destruct (validate_none b V) as (HK & VE & VC).
  split; [|exact (has_kings_own_king b HK)]. constructor; [exact P|exact C| |].
  - split; [exact Hr|]. intros sd c Hc. destruct (castle_rights_homes b sd c VC Hc) as [A B].
    split; [exact A|split; [exact B|]]. intros s Hs Hk.
    destruct (homes_lt sd c) as [Lk _].
    exact (one_king_of_count b c P (has_kings_counts b HK c) s _ Hs Lk Hk A).
  - intros f Ef. split; [exact (He f Ef)|].
    unfold validate_en_passant in VE. rewrite Ef in VE.
    destruct (raw_get b (mk_sq f (ep_capture_rank_of (b_turn b)))) as [x|]; [discriminate VE|].
    split; [reflexivity|].
    destruct (raw_get b (mk_sq f (ep_pawn_rank_of (b_turn b)))) as [[c p]|]; [|discriminate VE].
    apply andb_true_iff in VE. destruct VE as [V1 V2]. apply piece_eqb_eq in V2. subst p.
    destruct c, (b_turn b); try discriminate V1; reflexivity.
Qed.

(* the derived pin information does not enter Inv *)
Lemma Inv_same : forall a b, same_placement a b -> b_zob a = b_zob b -> b_turn a = b_turn b ->
  b_rights a = b_rights b -> b_ep a = b_ep b -> wf64 (b_pinned b) -> wf64 (b_checkers b) ->
  Inv a /\ own_king a -> Inv b /\ own_king b.
Proof.
  intros a b S Ez Et Er Ee W1 W2 [[P C RO EP] K].
  pose proof (same_placement_raw_get a b S) as R.
  split.
  - constructor.
    + exact (Part_same a b S W1 W2 P).
    + exact (consistent_same a b S Ez C).
    + destruct RO as [R1 R2]. split; [rewrite <- Er; exact R1|]. intros sd c Hc. rewrite <- Er in Hc.
      destruct (R2 sd c Hc) as (A1 & A2 & A3). rewrite <- !R.
      split; [exact A1|split; [exact A2|]]. intros s Hs Hk. rewrite <- R in Hk. exact (A3 s Hs Hk).
    + intros f Ef. rewrite <- Ee in Ef. rewrite <- Et, <- !R. exact (EP f Ef).
  - unfold own_king in *. rewrite <- Et, <- (same_placement_colors a b S).
    destruct S as (_ & _ & _ & _ & _ & _ & _ & Ek). rewrite <- Ek. exact K.
Qed.

Theorem parse_Inv : forall s b, parse_fen_t s = Ret (POk b) -> Inv b /\ own_king b.
Proof.
  intros s b H. destruct (parse_consistent s b H) as [Pb _].
  apply parse_ok_shape in H.
  destruct H as (raw & rest & turn & r & epv & half & full & Hpl & -> & Hv & _ & _ & Hr & He).
  destruct (placement_placed s 0 7 empty_board raw rest ltac:(lia) ltac:(lia) placed_empty_board Hpl) as [P C].
  set (pre := pre_board raw turn r epv half full) in *.
  assert (Ppre : Part pre) by (unfold pre, pre_board; apply Part_set_meta; [exact P|apply wf64_0|apply wf64_0]).
  assert (Cpre : consistent pre) by (unfold pre, pre_board; apply consistent_set_meta, C).
  destruct (update_pin_info_fields pre) as (Et & Er & Ee & _ & _ & Ez & Ew & Ek & Ep).
  apply (Inv_same pre).
  - apply same_placement_intro; [symmetry; exact Ew|symmetry; exact Ek|intros p; symmetry; apply Ep].
  - symmetry; exact Ez.
  - symmetry; exact Et.
  - symmetry; exact Er.
  - symmetry; exact Ee.
  - apply (part_wf_pinned _ Pb).
  - apply (part_wf_checkers _ Pb).
  - apply validate_Inv; [exact Ppre|exact Cpre|exact Hr|exact He|exact Hv].
Qed.

Corollary standard_Inv : Inv standard /\ own_king standard.
Proof. exact (parse_Inv _ _ CoreFacts.standard_parses). Qed.

(* --- reachable boards --- *)
(* The side condition of R_move is stated on the board the move is made from: its side to move
   still has a king (after a move this is the statement that the move made did not capture the
   king: property C01; discharged in proofs/Reachable.v once exactness is available). *)
Inductive Reach : board -> Prop :=
| R_parse : forall s b, parse_fen_t s = Ret (POk b) -> Reach b
| R_standard : Reach standard
| R_move : forall b m, Reach b -> own_king b -> is_legal b m = true -> Reach (apply b m).

Theorem Reach_Inv : forall b, Reach b -> Inv b.
Proof.
  intros b R. induction R as [s b H| |b m R IH K L].
  - exact (proj1 (parse_Inv s b H)).
  - exact (proj1 standard_Inv).
  - exact (Inv_apply_legal b m IH K L).
Qed.

Corollary Reach_consistent : forall b, Reach b -> Part b /\ b_zob b = scratch_piece_hash b.
Proof. intros b R. destruct (Reach_Inv b R) as [P C _ _]. split; [exact P|exact C]. Qed.

(* the statement left open in HashFacts (apply_legal_consistent_statement), with the hypotheses it needs *)
Corollary apply_legal_consistent_validated : forall b m, Part b -> b_zob b = scratch_piece_hash b ->
  b_rights b < 16 -> (forall f, b_ep b = Some f -> f < 8) -> validate b = None ->
  is_legal b m = true ->
  Part (apply b m) /\ b_zob (apply b m) = scratch_piece_hash (apply b m).
Proof.
  intros b m P C Hr He V L. destruct (validate_Inv b P C Hr He V) as [I K].
  exact (apply_legal_consistent b m I K L).
Qed.

(* ------------------------------------------------------------------ *)
(** * Two readable consequences of the entry shape *)

(* every destination of every collected entry is a square not occupied by the side to move *)
Theorem entry_dest_not_own : forall b mask0 e d, Inv b -> own_king b ->
  In e (collect_moves b mask0) -> mem (e_moves e) d = true ->
  e_src e < 64 /\ d < 64 /\ mem (colors b (b_turn b)) (e_src e) = true /\ mem (colors b (b_turn b)) d = false.
Proof.
  intros b mask0 e d [P C RO EP] K He Hd.
  destruct (entry_shape b mask0 e P K He) as (pc & A1 & A2 & _ & _ & A5).
  pose proof (entry_dest_lt b mask0 e d He Hd) as Ld.
  split; [exact A1|split; [exact Ld|split; [exact (raw_some_color b _ _ pc P A1 A2)|]]].
  destruct (kind_dest b pc _ d _ P EP (A5 d Hd) Ld) as [F|[cp F]].
  - apply (raw_get_spec b P d Ld) in F. unfold all_occ in F. rewrite mem_or in F.
    apply orb_false_iff in F. destruct F as [F1 F2]. destruct (b_turn b); assumption.
  - pose proof (raw_some_color b d _ cp P Ld F) as Hc.
    pose proof (mem_and0 _ _ d (part_colors_disjoint b P)) as Dj.
    destruct (b_turn b); cbn [opp colors] in *; rewrite Hc in Dj;
      [rewrite andb_true_r in Dj|rewrite andb_true_l in Dj]; exact Dj.
Qed.

(* an ordinary pawn step (push or capture) never lands on the en-passant square: the square is empty, so it
   is no capture target, and the only pawn that could be pushed onto it would stand where the enemy pawn stands *)
Definition chk_push_ep (s d : N) : bool :=
  both (fun c => implb (mem (pawn_push_geo c s) d && (rank_of d =? ep_capture_rank_of c))
                       (s =? mk_sq (file_of d) (ep_pawn_rank_of c))).
Lemma sweep_push_ep : all_sq2 chk_push_ep = true.
Proof. vm_compute. reflexivity. Qed.

Theorem pawn_step_not_ep_square : forall b src d f, Part b -> ep_ok b -> src < 64 -> d < 64 ->
  raw_get b src = Some (b_turn b, Pawn) ->
  mem (pseudo_legals Pawn src (b_turn b) (all_occ b) (bb_not (colors b (b_turn b)))) d = true ->
  b_ep b = Some f -> d <> mk_sq f (ep_capture_rank_of (b_turn b)).
Proof.
  intros b src d f P EP Hs Hd Hraw Hstep Ef E. destruct (EP f Ef) as (Hf & E1 & E2).
  unfold pseudo_legals in Hstep. rewrite mem_and in Hstep. apply andb_true_iff in Hstep. destruct Hstep as [Hstep _].
  unfold pawn_moves_spec in Hstep. rewrite mem_lor in Hstep. apply orb_true_iff in Hstep. destruct Hstep as [Hq|Ha].
  - assert (Hpush : mem (pawn_push_geo (b_turn b) src) d = true).
    { unfold pawn_quiets_spec in Hq. destruct (sq_off src 0 (fwd (b_turn b))) as [t1|]; [|rewrite mem_0 in Hq; discriminate Hq].
      destruct (N.testbit (all_occ b) t1); [rewrite mem_0 in Hq; discriminate Hq|].
      rewrite mem_ldiff in Hq. apply andb_true_iff in Hq. apply Hq. }
    pose proof (both_spec _ (all_sq2_spec _ sweep_push_ep _ _ Hs Hd) (b_turn b)) as S. cbv beta in S.
    rewrite Hpush, E, (rank_of_mk_sq f _ Hf), N.eqb_refl, (file_of_mk_sq f _ Hf) in S. cbn [andb implb] in S.
    apply N.eqb_eq in S. rewrite <- S, Hraw in E2. injection E2 as E2. exact (opp_neq _ (eq_sym E2)).
  - apply pawn_attacks_spec_occupied_targets in Ha.
    change (N.testbit (all_occ b) d) with (mem (all_occ b) d) in Ha.
    rewrite E in Ha. apply (raw_get_spec b P _ (eq_ind _ (fun x => x < 64) Hd _ E)) in E1. rewrite E1 in Ha. discriminate Ha.
Qed.

(* ------------------------------------------------------------------ *)
Print Assumptions entry_shape.
Print Assumptions gen_move_conditions.
Print Assumptions apply_gen_consistent.
Print Assumptions apply_raw_get.
Print Assumptions apply_turn_ep.
Print Assumptions Inv_apply.
Print Assumptions apply_legal_consistent.
Print Assumptions Inv_apply_legal.
Print Assumptions validate_Inv.
Print Assumptions parse_Inv.
Print Assumptions Reach_Inv.
Print Assumptions apply_legal_consistent_validated.
Print Assumptions entry_dest_not_own.
Print Assumptions pawn_step_not_ep_square.
