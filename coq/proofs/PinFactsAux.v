(* C01 (P) - helper facts for PinFacts.v: geometry sweeps over 2-4 squares (kernel computation), small
   bitboard lemmas (singletons, two members), and the "nothing between source and destination" property
   of every ordinary non-king, non-knight move.  Axiom-free. *)
From Coq Require Import NArith ZArith List Bool Lia ZifyBool ZifyN.
From Chess Require Import base.Bits base.Types base.BitBoard base.Sweep geom.Geometry model.Board model.MoveGen.
From Chess Require Import proofs.BitsFacts proofs.BitBoardFacts proofs.GeomSweeps proofs.BridgeFacts.
Import ListNotations.
Local Open Scope N_scope.

(* ------------------------------------------------------------------ *)
(** * Bitboard lemmas *)

Lemma wf64_between : forall a b, wf64 (between_geo a b).
Proof.
  intros a b. unfold between_geo. apply wf64_set_of. intros s H. unfold between_list in H.
  apply in_flat_map in H. destruct H as (d & _ & H).
  destruct (before b (ray d a)) as [p|] eqn:E; [|destruct H].
  assert (G : forall l p, before b l = Some p -> forall x, In x p -> In x l).
  { clear. induction l as [|y r IH]; intros p Hb x Hx; [discriminate Hb|].
    rewrite before_unfold in Hb. destruct (y =? b); [injection Hb as <-; destruct Hx|].
    destruct (before b r) as [p'|]; [|discriminate Hb]. injection Hb as <-.
    destruct Hx as [->|Hx]; [left; reflexivity|right; exact (IH p' eq_refl x Hx)]. }
  exact (ray_lt d a s (G _ _ E s H)).
Qed.

Lemma between_lt : forall a b s, mem (between_geo a b) s = true -> s < 64.
Proof.
  intros a b s H. destruct (N.lt_ge_cases s 64) as [L|G]; [exact L|].
  rewrite (wf64_high _ s (wf64_between a b) G) in H. discriminate H.
Qed.

(* a set with a member x that is not the singleton {x} has another member *)
Lemma other_member : forall X s, wf64 X -> s < 64 -> mem X s = true -> X <> from_pos s ->
  exists x, x < 64 /\ x <> s /\ mem X x = true.
Proof.
  intros X s W Hs Hm Hne.
  destruct (existsb (fun x => mem X x && negb (x =? s)) sq_list) eqn:E.
  - apply existsb_exists in E. destruct E as (x & Hx & E). apply andb_prop in E. destruct E as [E1 E2].
    apply negb_true_iff, N.eqb_neq in E2. exists x. split; [apply sq_list_lt, Hx|split; assumption].
  - exfalso. apply Hne. apply N.bits_inj. intros n. change (mem X n = mem (from_pos s) n).
    rewrite mem_from_pos_full. destruct (N.ltb_spec n 64) as [L|G]; cbn [andb].
    + destruct (N.eqb_spec n s) as [->|Hn]; [exact Hm|].
      destruct (mem X n) eqn:En; [|reflexivity]. exfalso.
      assert (F : existsb (fun x => mem X x && negb (x =? s)) sq_list = true).
      { apply existsb_exists. exists n. split; [apply in_sq_list, L|]. rewrite En. apply N.eqb_neq in Hn. rewrite Hn. reflexivity. }
      rewrite F in E. discriminate E.
    + exact (wf64_high X n W G).
Qed.

(* a non-empty set different from {s} has a member other than s *)
Lemma member_not : forall X s, wf64 X -> s < 64 -> X <> 0 -> X <> from_pos s ->
  exists x, x < 64 /\ x <> s /\ mem X x = true.
Proof.
  intros X s W Hs Hnz Hne.
  assert (A : any X = true) by (unfold any; apply negb_true_iff, N.eqb_neq, Hnz).
  apply (any_spec X W) in A. destruct A as (y & Hy & Hm).
  destruct (N.eq_dec y s) as [->|Hys]; [exact (other_member X s W Hs Hm Hne)|].
  exists y. split; [exact Hy|split; assumption].
Qed.

Lemma count_1_mem : forall X s, wf64 X -> count X = 1 -> (mem X s = true <-> s = tz64 X).
Proof.
  intros X s HX Hc.
  assert (Hnz : X <> 0) by (intros ->; rewrite count_0 in Hc; discriminate).
  pose proof (hd_elements X HX Hnz) as Hh.
  rewrite (count_spec X HX) in Hc. split.
  - intros Hm.
    assert (Hs : s < 64).
    { destruct (N.lt_ge_cases s 64) as [L|G]; [exact L|]. rewrite (wf64_high X s HX G) in Hm. discriminate Hm. }
    assert (Hin : In s (elements X)) by (apply elements_spec; split; assumption).
    destruct (elements X) as [|x [|y r]]; cbn [length hd_error] in *.
    + destruct Hin.
    + injection Hh as ->. destruct Hin as [<-|[]]. reflexivity.
    + lia.
  - intros ->. apply (tz64_spec X Hnz).
Qed.

Definition chk_count_pos (s : N) : bool := count (from_pos s) =? 1.
Lemma sweep_count_pos : all_sq chk_count_pos = true.
Proof. vm_compute. reflexivity. Qed.

(* a non-empty set whose cardinal is not one has two distinct members *)
Lemma two_members : forall X, wf64 X -> X <> 0 -> count X <> 1 ->
  exists x y, x < 64 /\ y < 64 /\ x <> y /\ mem X x = true /\ mem X y = true.
Proof.
  intros X W Hnz Hc. pose proof (tz64_lt X W Hnz) as Hl. destruct (tz64_spec X Hnz) as [Hm _].
  assert (Hne : X <> from_pos (tz64 X)).
  { intros E. apply Hc. rewrite E. apply N.eqb_eq. exact (all_sq_spec _ sweep_count_pos _ Hl). }
  destruct (other_member X _ W Hl Hm Hne) as (y & Hy & Hyn & Hmy).
  exists (tz64 X), y. repeat split; try assumption. intros E. apply Hyn. symmetry. exact E.
Qed.

Lemma and_nonzero : forall a b s, mem a s = true -> mem b s = true -> bb_and a b <> 0.
Proof. intros a b s Ha Hb E. assert (F : mem (bb_and a b) s = false) by (rewrite E; apply mem_0). rewrite mem_and, Ha, Hb in F. discriminate F. Qed.

Lemma and_zero_mem : forall a b s, bb_and a b = 0 -> mem a s = true -> mem b s = false.
Proof. intros a b s E Ha. assert (F : mem (bb_and a b) s = false) by (rewrite E; apply mem_0). rewrite mem_and, Ha in F. exact F. Qed.

Lemma none_true : forall a, none a = true <-> a = 0.
Proof. intros a. unfold none. apply N.eqb_eq. Qed.

(* ------------------------------------------------------------------ *)
(** * Geometry sweeps *)

(* bounded quantification over the members of a set, without [elements] (whose unfolding the kernel handles badly) *)
Definition all_in (X : N) (P : N -> bool) : bool := forallb (fun s => if mem X s then P s else true) sq_list.
Lemma all_in_spec : forall X P, all_in X P = true -> forall s, s < 64 -> mem X s = true -> P s = true.
Proof.
  intros X P H s Hs Hm. unfold all_in in H. rewrite forallb_forall in H.
  specialize (H s (in_sq_list s Hs)). cbv beta in H. rewrite Hm in H. exact H.
Qed.

(* G1: with src strictly between k and t, everything strictly between k and t, and t itself, is on the line src-k *)
Lemma sweep_line_between :
  all_sq2 (fun k t => all_in (between_geo k t) (fun src =>
     bb_and (bb_or (between_geo k t) (from_pos t)) (line_geo src k) =? bb_or (between_geo k t) (from_pos t))) = true.
Proof. vm_compute. reflexivity. Qed.

Lemma line_between : forall k t src x, k < 64 -> t < 64 -> mem (between_geo k t) src = true ->
  (mem (between_geo k t) x = true \/ x = t) -> mem (line_geo src k) x = true.
Proof.
  intros k t src x Hk Ht Hs Hx.
  pose proof (all_in_spec _ _ (all_sq2_spec _ sweep_line_between k t Hk Ht) src (between_lt _ _ _ Hs) Hs) as S.
  cbv beta in S. apply N.eqb_eq in S.
  assert (M : mem (bb_or (between_geo k t) (from_pos t)) x = true).
  { rewrite mem_or. destruct Hx as [Hx| ->]; [rewrite Hx; reflexivity|].
    rewrite (mem_from_pos t t Ht Ht), N.eqb_refl. apply orb_true_r. }
  rewrite <- S, mem_and in M. apply andb_prop in M. apply M.
Qed.

(* G2: a square d of the line src-k (src strictly between k and t) is strictly between k and t, or is t or k or src,
   or lies beyond k or beyond t as seen from src *)
Lemma sweep_line_dest :
  all_sq2 (fun k t => all_in (between_geo k t) (fun src => all_in (line_geo src k) (fun d =>
      (d =? src) || mem (between_geo k t) d || (d =? t) || (d =? k) || mem (between_geo src d) k || mem (between_geo src d) t))) = true.
Proof. vm_compute. reflexivity. Qed.

Lemma line_dest : forall k t src d, k < 64 -> t < 64 -> d < 64 -> mem (between_geo k t) src = true ->
  mem (line_geo src k) d = true ->
  d = src \/ mem (between_geo k t) d = true \/ d = t \/ d = k \/ mem (between_geo src d) k = true \/ mem (between_geo src d) t = true.
Proof.
  intros k t src d Hk Ht Hd Hs Hl.
  pose proof (all_in_spec _ _ (all_sq2_spec _ sweep_line_dest k t Hk Ht) src (between_lt _ _ _ Hs) Hs) as S.
  cbv beta in S. pose proof (all_in_spec _ _ S d Hd Hl) as S2. cbv beta in S2.
  rewrite !orb_true_iff, !N.eqb_eq in S2. tauto.
Qed.

(* a knight never moves along a line through its square *)
Definition chk_knight_line (src k : N) : bool := bb_and (knight_geo src) (line_geo src k) =? 0.
Lemma sweep_knight_line : all_sq2 chk_knight_line = true.
Proof. vm_compute. reflexivity. Qed.

Lemma knight_line : forall src k d, src < 64 -> k < 64 -> mem (knight_geo src) d = true -> mem (line_geo src k) d = false.
Proof.
  intros src k d Hs Hk H. pose proof (all_sq2_spec _ sweep_knight_line src k Hs Hk) as S.
  apply N.eqb_eq in S. exact (and_zero_mem _ _ d S H).
Qed.

(* pawn moves: a capture has nothing between; a push has nothing or the single stepped-over square between *)
Definition chk_pawn_between (src d : N) : bool :=
  both (fun c => implb (mem (pawn_att_geo c src) d) (between_geo src d =? 0)
              && implb (mem (pawn_push_geo c src) d)
                       (match sq_off src 0 (fwd c) with
                        | Some t1 => (between_geo src d =? 0) || (between_geo src d =? from_pos t1)
                        | None => false end)).
Lemma sweep_pawn_between : all_sq2 chk_pawn_between = true.
Proof. vm_compute. reflexivity. Qed.

(* a checking knight or pawn has nothing between itself and the king *)
Definition chk_leaper_between (k t : N) : bool :=
  implb (mem (knight_geo k) t || mem (pawn_att_geo White k) t || mem (pawn_att_geo Black k) t || mem (king_geo k) t)
        (between_geo k t =? 0).
Lemma sweep_leaper_between : all_sq2 chk_leaper_between = true.
Proof. vm_compute. reflexivity. Qed.

Lemma leaper_between : forall k t, k < 64 -> t < 64 ->
  (mem (knight_geo k) t = true \/ (exists c, mem (pawn_att_geo c k) t = true)) -> between_geo k t = 0.
Proof.
  intros k t Hk Ht H. pose proof (all_sq2_spec _ sweep_leaper_between k t Hk Ht) as S. unfold chk_leaper_between in S.
  assert (E : mem (knight_geo k) t || mem (pawn_att_geo White k) t || mem (pawn_att_geo Black k) t || mem (king_geo k) t = true).
  { destruct H as [H|[[] H]]; rewrite H; rewrite ?orb_true_r; reflexivity. }
  rewrite E in S. cbn [implb] in S. apply N.eqb_eq in S. exact S.
Qed.

(* same ray: a square strictly between k and a and strictly between k and b puts a and b on one ray from k *)
Lemma before_In : forall b l p, before b l = Some p -> In b l /\ forall x, In x p -> In x l.
Proof.
  intros b. induction l as [|y r IH]; intros p Hb; [discriminate Hb|].
  rewrite before_unfold in Hb. destruct (N.eqb_spec y b) as [->|Hne].
  - injection Hb as <-. split; [left; reflexivity|intros x []].
  - destruct (before b r) as [p'|]; [|discriminate Hb]. injection Hb as <-.
    destruct (IH p' eq_refl) as [H1 H2]. split; [right; exact H1|].
    intros x [->|Hx]; [left; reflexivity|right; exact (H2 x Hx)].
Qed.

Lemma between_on_ray : forall k a x, mem (between_geo k a) x = true ->
  exists d, In a (ray d k) /\ In x (ray d k).
Proof.
  intros k a x H. unfold between_geo in H. apply mem_set_of_In in H. unfold between_list in H.
  apply in_flat_map in H. destruct H as (d & _ & H).
  destruct (before a (ray d k)) as [p|] eqn:E; [|destruct H].
  destruct (before_In _ _ _ E) as [H1 H2]. exists d. split; [exact H1|exact (H2 x H)].
Qed.

Definition chk_same_ray (k : N) : bool :=
  forallb (fun d => forallb (fun a => forallb (fun b =>
      (a =? b) || mem (between_geo k b) a || mem (between_geo k a) b) (ray d k)) (ray d k)) all_dirs.
Lemma sweep_same_ray : all_sq chk_same_ray = true.
Proof. vm_compute. reflexivity. Qed.

Lemma same_ray : forall k a b x, k < 64 ->
  mem (between_geo k a) x = true -> mem (between_geo k b) x = true ->
  a = b \/ mem (between_geo k b) a = true \/ mem (between_geo k a) b = true.
Proof.
  intros k a b x Hk Hxa Hxb.
  destruct (between_on_ray k a x Hxa) as (d & Ha & Hx). destruct (between_on_ray k b x Hxb) as (d' & Hb & Hx').
  assert (d' = d) as -> by exact (rays_disjoint d' d k x Hk Hx' Hx).
  pose proof (all_sq_spec _ sweep_same_ray k Hk) as S. unfold chk_same_ray in S.
  rewrite forallb_forall in S. specialize (S d (in_all_dirs d)).
  rewrite forallb_forall in S. specialize (S a Ha). rewrite forallb_forall in S. specialize (S b Hb).
  rewrite !orb_true_iff, N.eqb_eq in S. tauto.
Qed.

(* ------------------------------------------------------------------ *)
(** * Ordinary moves of a man other than king and knight pass over empty squares only *)

Lemma slide_clear : forall ds src occ d, src < 64 -> mem (slide ds src occ) d = true ->
  bb_and occ (between_geo src d) = 0.
Proof.
  intros ds src occ d Hs H. pose proof (slide_sub_rays ds src occ d H) as Hr.
  rewrite (slide_between ds src occ d Hs Hr) in H. apply none_true, H.
Qed.

Lemma pawn_clear : forall c src occ d, src < 64 -> d < 64 -> mem (pawn_moves_spec c src occ) d = true ->
  bb_and occ (between_geo src d) = 0.
Proof.
  intros c src occ d Hs Hd H. pose proof (both_spec _ (all_sq2_spec _ sweep_pawn_between src d Hs Hd) c) as S. cbv beta in S.
  apply andb_prop in S. destruct S as [S1 S2].
  unfold pawn_moves_spec in H. change (mem (bb_or (pawn_quiets_spec c src occ) (pawn_attacks_spec c src occ)) d = true) in H.
  rewrite mem_or in H. apply orb_true_iff in H. destruct H as [Hq|Ha].
  - unfold pawn_quiets_spec in Hq. destruct (sq_off src 0 (fwd c)) as [t1|]; [|rewrite mem_0 in Hq; discriminate Hq].
    destruct (N.testbit occ t1) eqn:Et; [rewrite mem_0 in Hq; discriminate Hq|].
    assert (Hp : mem (pawn_push_geo c src) d = true).
    { unfold mem in *. rewrite N.ldiff_spec in Hq. apply andb_prop in Hq. apply Hq. }
    rewrite Hp in S2. cbn [implb] in S2. apply orb_true_iff in S2. destruct S2 as [S2|S2]; apply N.eqb_eq in S2; rewrite S2.
    + apply N.land_0_r.
    + apply N.bits_inj. intros n. rewrite N.bits_0. change (mem (bb_and occ (from_pos t1)) n = false).
      rewrite mem_and, mem_from_pos_full. destruct (N.eqb_spec n t1) as [->|_]; [|rewrite andb_false_r, andb_false_r; reflexivity].
      unfold mem. rewrite Et. reflexivity.
  - unfold pawn_attacks_spec in Ha. change (mem (bb_and (pawn_att_geo c src) occ) d = true) in Ha.
    rewrite mem_and in Ha. apply andb_prop in Ha. destruct Ha as [Ha _].
    rewrite Ha in S1. cbn [implb] in S1. apply N.eqb_eq in S1. rewrite S1. apply N.land_0_r.
Qed.

Lemma pseudo_clear : forall pc src c occ mask d, src < 64 -> d < 64 -> pc <> King ->
  mem (pseudo_legals pc src c occ mask) d = true ->
  (pc = Knight /\ mem (knight_geo src) d = true) \/ bb_and occ (between_geo src d) = 0.
Proof.
  intros pc src c occ mask d Hs Hd Nk H. destruct pc; unfold pseudo_legals in H; rewrite mem_and in H;
    apply andb_prop in H; destruct H as [H _].
  - right. exact (pawn_clear c src occ d Hs Hd H).
  - left. split; [reflexivity|exact H].
  - right. exact (slide_clear _ src occ d Hs H).
  - right. exact (slide_clear _ src occ d Hs H).
  - right. rewrite mem_or in H. apply orb_true_iff in H. destruct H as [H|H]; exact (slide_clear _ src occ d Hs H).
  - contradiction Nk; reflexivity.
Qed.

Print Assumptions pseudo_clear.
Print Assumptions same_ray.
Print Assumptions line_dest.
Print Assumptions two_members.
