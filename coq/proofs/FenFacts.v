(* C06 (first sentence): the FEN parser of chess-movegen/src/fen.rs, as modelled in model/Fen.v,
   is total: for EVERY byte string (any length, any bytes) it returns Ok or Err and never reaches
   the `File::from_u8(file).unwrap()` panic; the u8 / u16 counters never overflow.
   Also: bounds on every accepted board, and the shape lemmas about the writer that the
   round-trip proofs need (decimal numbers, castle rights, the whole non-placement tail).
   Axiom-free; nothing here enumerates inputs except the 16 castle-right sets. *)
From Coq Require Import NArith ZArith List Bool Lia ZifyBool ZifyN.
From Chess Require Import base.Bits base.Types base.BitBoard geom.Geometry model.Board model.Fen.
From Chess Require Import proofs.BitsFacts.
Import ListNotations.
Local Open Scope N_scope.

(* ------------------------------------------------------------------ *)
(** * The placement loop never panics *)

Definition is_digit (d : N) : bool := (48 <=? d) && (d <=? 57).

(* parse_piece: a skip distance is one of '1'..'8' *)
Lemma parse_piece_dist_bound : forall x d, parse_piece_byte x = Some (inr d) -> 1 <= d <= 8 /\ x = d + 48.
Proof.
  intros x d. unfold parse_piece_byte.
  repeat (match goal with |- context [if ?a =? ?b then _ else _] => destruct (a =? b); [discriminate|] end).
  destruct (N.leb_spec 49 x) as [H1|H1]; [|discriminate].
  destruct (N.leb_spec x 56) as [H2|H2]; [|discriminate].
  cbn [andb]. intros H. injection H as <-. lia.
Qed.

(* `file += dist` on the u8 counter: at a loop head file <= 7 and dist <= 8, so the sum is at most 15 *)
Lemma placement_file_bound : forall x file, file <= 7 ->
  match parse_piece_byte x with
  | Some (inl _) => file + 1 <= 8
  | Some (inr d) => file + d <= 15
  | None => True
  end.
Proof.
  intros x file Hf. destruct (parse_piece_byte x) as [[cp|d]|] eqn:E; [lia| |exact I].
  apply parse_piece_dist_bound in E. lia.
Qed.

(* the three-way `match file { ..=7, 8, 9.. }` after `file += dist`, with the recursive call made explicit *)
Definition after_k (rest : list N) (rank file' : N) (b' : board) : outcome (perr + (board * list N)) :=
  if file' <=? 7 then placement rest file' rank b'
  else if file' =? 8 then (if rank =? 0 then Ret (inr (b', rest)) else placement rest 0 (rank - 1) b')
  else Ret (inl (FileOutOfBounds rank)).

Lemma placement_nil : forall file rank b,
  placement [] file rank b = if 8 <=? file then Trap else Ret (inl (MissingPiece (mk_sq file rank))).
Proof. reflexivity. Qed.

Lemma placement_cons : forall x rest file rank b,
  placement (x :: rest) file rank b =
  if 8 <=? file then Trap
  else match parse_piece_byte x with
       | Some (inl (c, p)) =>
         let b1 := raw_set_unchecked b c p (mk_sq file rank) in
         after_k rest rank (file + 1) (set_zob b1 (N.lxor (b_zob b1) (zkey (mk_sq file rank) p c)))
       | Some (inr d) => after_k rest rank (file + d) b
       | None => if x =? 47 then after_k rest rank file b
                 else if x =? 32 then placement rest file rank b
                 else Ret (inl (InvalidPiece x (mk_sq file rank)))
       end.
Proof. reflexivity. Qed.

Lemma after_k_no_trap : forall rest rank file' b',
  (forall f r b, f <= 7 -> placement rest f r b <> Trap) -> after_k rest rank file' b' <> Trap.
Proof.
  intros rest rank file' b' IH. unfold after_k.
  destruct (N.leb_spec file' 7) as [H|H]; [apply IH, H|].
  destruct (file' =? 8); [|discriminate].
  destruct (rank =? 0); [discriminate|]. apply IH. lia.
Qed.

(* loop invariant: the u8 counter `file` is <= 7 at every loop head, hence from_u8(file) is Some *)
Theorem placement_no_trap : forall s file rank b, file <= 7 -> placement s file rank b <> Trap.
Proof.
  induction s as [|x rest IH]; intros file rank b Hf.
  - rewrite placement_nil. destruct (N.leb_spec 8 file) as [H|H]; [lia|discriminate].
  - rewrite placement_cons. destruct (N.leb_spec 8 file) as [H|H]; [lia|].
    destruct (parse_piece_byte x) as [[[c p]|d]|].
    + cbv zeta. apply after_k_no_trap, IH.
    + apply after_k_no_trap, IH.
    + destruct (x =? 47); [apply after_k_no_trap, IH|].
      destruct (x =? 32); [apply IH, Hf|discriminate].
Qed.

(* the position handed to Pos::new is always a square, provided the rank is one *)
Lemma mk_sq_lt64 : forall file rank, file <= 7 -> rank <= 7 -> mk_sq file rank < 64.
Proof. intros file rank Hf Hr. unfold mk_sq. lia. Qed.

(* ------------------------------------------------------------------ *)
(** * parse_number: at most four digits, no u16 overflow *)

Definition digits_val (ds : list N) (acc : N) : N := fold_left (fun a d => a * 10 + (d - 48)) ds acc.

Lemma pow10_pos : forall k, 1 <= 10 ^ k.
Proof. intros k. pose proof (N.pow_nonzero 10 k). lia. Qed.

Lemma parse_digits_bound : forall n s acc,
  fst (parse_digits n s acc) + 1 <= (acc + 1) * 10 ^ N.of_nat n.
Proof.
  induction n as [|n IH]; intros s acc.
  - cbn [parse_digits fst]. change (N.of_nat 0) with 0. rewrite N.pow_0_r. lia.
  - rewrite Nat2N.inj_succ, N.pow_succ_r'.
    pose proof (pow10_pos (N.of_nat n)) as Hp. set (P := 10 ^ N.of_nat n) in *.
    assert (acc + 1 <= (acc + 1) * (10 * P)) as Hstop.
    { rewrite <- (N.mul_1_r (acc + 1)) at 1. apply N.mul_le_mono_l. lia. }
    cbn [parse_digits]. destruct s as [|d r]; [exact Hstop|].
    destruct (N.leb_spec 48 d) as [H1|H1]; cbn [andb]; [|exact Hstop].
    destruct (N.leb_spec d 57) as [H2|H2]; [|exact Hstop].
    eapply N.le_trans; [apply IH|]. fold P.
    rewrite N.mul_assoc. apply N.mul_le_mono_r. lia.
Qed.

(* the accumulator `num * 10 + d` stays below 10^4 <= u16::MAX *)
Theorem parse_number_bound : forall s n r, parse_number s = Some (n, r) -> n <= 9999.
Proof.
  intros s n r. unfold parse_number. destruct s as [|d s']; [discriminate|].
  destruct ((48 <=? d) && (d <=? 57)); [|discriminate].
  pose proof (parse_digits_bound 4 (d :: s') 0) as Hb.
  remember (parse_digits 4 (d :: s') 0) as pr eqn:Epr.
  intros H. injection H as H. rewrite H in Hb.
  cbn [fst] in Hb. change (10 ^ N.of_nat 4) with 10000 in Hb. lia.
Qed.

Lemma parse_number_some : forall s n r, parse_number s = Some (n, r) ->
  parse_digits 4 s 0 = (n, r) /\ exists d s', s = d :: s' /\ is_digit d = true.
Proof.
  intros s n r. unfold parse_number, is_digit. destruct s as [|d s']; [discriminate|].
  destruct ((48 <=? d) && (d <=? 57)) eqn:Ed; [|discriminate].
  remember (parse_digits 4 (d :: s') 0) as pr eqn:Epr.
  intros H. injection H as H. split; [exact H|]. exists d, s'. split; [reflexivity|exact Ed].
Qed.

Lemma parse_digits_consumes : forall n s acc,
  exists p, s = p ++ snd (parse_digits n s acc) /\ (length p <= n)%nat /\
            forallb is_digit p = true /\ fst (parse_digits n s acc) = digits_val p acc.
Proof.
  induction n as [|n IH]; intros s acc.
  - exists []. cbn [parse_digits fst snd app length forallb]. repeat split. lia.
  - cbn [parse_digits]. destruct s as [|d r].
    + exists []. cbn [fst snd app length forallb]. repeat split. lia.
    + destruct ((48 <=? d) && (d <=? 57)) eqn:Ed.
      * destruct (IH r (acc * 10 + (d - 48))) as [p (Hp & Hl & Hd & Hv)].
        exists (d :: p). cbn [app length forallb]. repeat split.
        -- rewrite <- Hp. reflexivity.
        -- lia.
        -- unfold is_digit at 1. rewrite Ed, Hd. reflexivity.
        -- exact Hv.
      * exists []. cbn [fst snd app length forallb]. repeat split. lia.
Qed.

(* the rest is a suffix of the input, at most four bytes (all digits) shorter and at least one *)
Theorem parse_number_consumes : forall s n r, parse_number s = Some (n, r) ->
  exists p, s = p ++ r /\ (1 <= length p <= 4)%nat /\ forallb is_digit p = true /\ n = digits_val p 0.
Proof.
  intros s n r H. apply parse_number_some in H. destruct H as [H (d & s' & -> & Ed)].
  destruct (parse_digits_consumes 4 (d :: s') 0) as [p (Hp & Hl & Hd & Hv)].
  rewrite H in Hp, Hv. cbn [fst snd] in Hp, Hv.
  exists p. repeat split; try assumption.
  destruct p as [|x p']; [|cbn [length]; lia].
  (* an empty prefix would mean the first byte, a digit, was not consumed *)
  exfalso. cbn [app] in Hp. subst r.
  change (parse_digits 4 (d :: s') 0)
    with (if is_digit d then parse_digits 3 s' (0 * 10 + (d - 48)) else (0, d :: s')) in H.
  rewrite Ed in H.
  pose proof (parse_digits_consumes 3 s' (0 * 10 + (d - 48))) as [q (Hq & _)].
  rewrite H in Hq. cbn [snd] in Hq.
  apply (f_equal (@length N)) in Hq. rewrite app_length in Hq. cbn [length] in Hq. lia.
Qed.

Lemma parse_number_none : forall s, parse_number s = None <->
  match s with d :: _ => is_digit d = false | [] => True end.
Proof.
  intros s. unfold parse_number, is_digit. destruct s as [|d r]; [tauto|].
  destruct ((48 <=? d) && (d <=? 57)); split; intros H; try reflexivity; discriminate.
Qed.

(* ------------------------------------------------------------------ *)
(** * The fields after the piece placement, stage by stage *)

Definition parse_turn (s : list N) : perr + (color * list N) :=
  match s with
  | [] => inl MissingTurn
  | t :: s' => if negb ((t =? 98) || (t =? 119)) then inl (InvalidTurn t)
               else inr (if t =? 98 then Black else White, s')
  end.

Definition rights_of_flags (wk wq bk bq : bool) : N :=
  let r := 0 in
  let r := if wk then cr_with r KingSide White else r in
  let r := if wq then cr_with r QueenSide White else r in
  let r := if bk then cr_with r KingSide Black else r in
  let r := if bq then cr_with r QueenSide Black else r in r.

(* the four parse_castle_rights calls and the conditional parse_dash *)
Definition parse_rights (s : list N) : option (N * list N) :=
  let '(wk, s) := parse_flag s 75 in
  let '(wq, s) := parse_flag s 81 in
  let '(bk, s) := parse_flag s 107 in
  let '(bq, s) := parse_flag s 113 in
  let dash : option (list N) :=
    if wk || wq || bk || bq then Some s
    else match s with x :: s' => if x =? 45 then Some s' else None | [] => None end in
  match dash with None => None | Some s => Some (rights_of_flags wk wq bk bq, s) end.

Definition parse_ep (turn : color) (s : list N) : perr + (option N * list N) :=
  match s with
  | f :: rk :: s' =>
    if (97 <=? f) && (f <=? 104) && ((rk =? 51) || (rk =? 54))
    then (if rk =? (match turn with White => 54 | Black => 51 end)
          then inr (Some (f - 97), s') else inl (InvalidEnpassantE f rk))
    else if f =? 45 then inr (None, rk :: s')
    else inl (InvalidEnpassantE f rk)
  | [f] => if f =? 45 then inr (None, []) else inl MissingEnpassant
  | [] => inl MissingEnpassant
  end.

(* the board before validation: exactly the struct literal of parse_fen *)
Definition pre_board (raw : board) (turn : color) (r : N) (epv : option N) (half full : N) : board :=
  set_meta raw turn r epv half full 0 0.

Definition finish (raw : board) (turn : color) (r : N) (epv : option N) (half full : N) (s : list N)
  : outcome presult :=
  let b := pre_board raw turn r epv half full in
  match validate b with
  | Some e => Ret (PErr (BoardValidation e))
  | None => if is_empty_list s then Ret (POk (update_pin_info b)) else Ret (PErr TrailingBytes)
  end.

Definition tail_clocks (raw : board) (turn : color) (r : N) (epv : option N) (s : list N) : outcome presult :=
  match parse_whitespace s WsEnpassant with
  | inl e => Ret (PErr e)
  | inr s =>
  match parse_number s with
  | None => Ret (PErr MissingHalfClock)
  | Some (half, s) =>
  match parse_whitespace s WsHalfMoveClock with
  | inl e => Ret (PErr e)
  | inr s =>
  match parse_number s with
  | None => Ret (PErr MissingFullClock)
  | Some (full, s) => finish raw turn r epv half full s
  end end end end.

Definition tail_ep (raw : board) (turn : color) (r : N) (s : list N) : outcome presult :=
  match parse_whitespace s WsCastleRights with
  | inl e => Ret (PErr e)
  | inr s =>
  match parse_ep turn s with
  | inl e => Ret (PErr e)
  | inr (epv, s) => tail_clocks raw turn r epv s
  end end.

Definition tail_rights (raw : board) (turn : color) (s : list N) : outcome presult :=
  match parse_whitespace s WsTurn with
  | inl e => Ret (PErr e)
  | inr s =>
  match parse_rights s with
  | None => Ret (PErr MissingCastleRights)
  | Some (r, s) => tail_ep raw turn r s
  end end.

Definition parse_tail (raw : board) (s : list N) : outcome presult :=
  match parse_whitespace s WsPieces with
  | inl e => Ret (PErr e)
  | inr s =>
  match parse_turn s with
  | inl e => Ret (PErr e)
  | inr (turn, s) => tail_rights raw turn s
  end end.

(* parse_fen_t is the placement loop followed by parse_tail *)
Theorem parse_fen_t_staged : forall s,
  parse_fen_t s =
  match placement s 0 7 empty_board with
  | Trap => Trap
  | Ret (inl e) => Ret (PErr e)
  | Ret (inr (raw, s')) => parse_tail raw s'
  end.
Proof.
  intros s. unfold parse_fen_t.
  destruct (placement s 0 7 empty_board) as [[e|[raw s1]]|]; try reflexivity.
  unfold parse_tail, tail_rights, tail_ep, tail_clocks.
  destruct (parse_whitespace s1 WsPieces) as [e|s2]; [reflexivity|].
  destruct s2 as [|t s3]; [reflexivity|]. unfold parse_turn.
  destruct (negb ((t =? 98) || (t =? 119))); [reflexivity|].
  destruct (parse_whitespace s3 WsTurn) as [e|s4]; [reflexivity|].
  unfold parse_rights.
  destruct (parse_flag s4 75) as [wk s5]. destruct (parse_flag s5 81) as [wq s6].
  destruct (parse_flag s6 107) as [bk s7]. destruct (parse_flag s7 113) as [bq s8].
  fold (rights_of_flags wk wq bk bq).
  match goal with |- context [if wk || wq || bk || bq then Some s8 else ?e] =>
    destruct (if wk || wq || bk || bq then Some s8 else e) as [s9|] end; reflexivity.
Qed.

(* ------------------------------------------------------------------ *)
(** * Totality *)

Lemma finish_total : forall raw turn r epv half full s, exists res, finish raw turn r epv half full s = Ret res.
Proof.
  intros raw turn r epv half full s. unfold finish. cbv zeta.
  destruct (validate (pre_board raw turn r epv half full)); [eexists; reflexivity|].
  destruct (is_empty_list s); eexists; reflexivity.
Qed.

Lemma parse_tail_total : forall raw s, exists res, parse_tail raw s = Ret res.
Proof.
  intros raw s. unfold parse_tail, tail_rights, tail_ep, tail_clocks.
  destruct (parse_whitespace s WsPieces) as [e|s1]; [eexists; reflexivity|].
  destruct (parse_turn s1) as [e|[turn s2]]; [eexists; reflexivity|].
  destruct (parse_whitespace s2 WsTurn) as [e|s3]; [eexists; reflexivity|].
  destruct (parse_rights s3) as [[r s4]|]; [|eexists; reflexivity].
  destruct (parse_whitespace s4 WsCastleRights) as [e|s5]; [eexists; reflexivity|].
  destruct (parse_ep turn s5) as [e|[epv s6]]; [eexists; reflexivity|].
  destruct (parse_whitespace s6 WsEnpassant) as [e|s7]; [eexists; reflexivity|].
  destruct (parse_number s7) as [[half s8]|]; [|eexists; reflexivity].
  destruct (parse_whitespace s8 WsHalfMoveClock) as [e|s9]; [eexists; reflexivity|].
  destruct (parse_number s9) as [[full s10]|]; [|eexists; reflexivity].
  apply finish_total.
Qed.

(* C06, first sentence: for every byte string the parser returns Ok or Err; no panic is reachable *)
Theorem parse_fen_total : forall s, exists r, parse_fen_t s = Ret r.
Proof.
  intros s. rewrite parse_fen_t_staged.
  pose proof (placement_no_trap s 0 7 empty_board) as Hnt.
  destruct (placement s 0 7 empty_board) as [[e|[raw s']]|].
  - eexists; reflexivity.
  - apply parse_tail_total.
  - exfalso. apply Hnt; [lia|reflexivity].
Qed.

Corollary parse_fen_no_trap : forall s, parse_fen_t s <> Trap.
Proof. intros s H. destruct (parse_fen_total s) as [r Hr]. rewrite Hr in H. discriminate. Qed.

(* ------------------------------------------------------------------ *)
(** * Bounds on the parsed fields *)

Lemma rights_of_flags_lt16 : forall wk wq bk bq, rights_of_flags wk wq bk bq < 16.
Proof. intros [|] [|] [|] [|]; vm_compute; reflexivity. Qed.

Lemma parse_rights_bound : forall s r s', parse_rights s = Some (r, s') -> r < 16.
Proof.
  intros s r s'. unfold parse_rights.
  destruct (parse_flag s 75) as [wk s1]. destruct (parse_flag s1 81) as [wq s2].
  destruct (parse_flag s2 107) as [bk s3]. destruct (parse_flag s3 113) as [bq s4].
  match goal with |- context [if wk || wq || bk || bq then Some s4 else ?e] =>
    destruct (if wk || wq || bk || bq then Some s4 else e) as [s5|] end; [|discriminate].
  intros H. injection H as <- _. apply rights_of_flags_lt16.
Qed.

(* `File::from_u8(file - b'a').unwrap()` in the en-passant field cannot panic either *)
Lemma parse_ep_bound : forall turn s f s', parse_ep turn s = inr (Some f, s') -> f < 8.
Proof.
  intros turn s f s'. unfold parse_ep.
  destruct s as [|x [|rk s2]].
  - discriminate.
  - destruct (x =? 45); discriminate.
  - destruct (N.leb_spec 97 x) as [H1|H1]; cbn [andb].
    + destruct (N.leb_spec x 104) as [H2|H2]; cbn [andb].
      * destruct ((rk =? 51) || (rk =? 54)).
        -- destruct (rk =? match turn with White => 54 | Black => 51 end); [|discriminate].
           intros H. injection H as <- _. lia.
        -- destruct (x =? 45); discriminate.
      * destruct (x =? 45); discriminate.
    + destruct (x =? 45); discriminate.
Qed.

(* update_pin_info only writes `pinned` and `checkers` *)
Lemma update_pin_info_fields : forall b,
  b_turn (update_pin_info b) = b_turn b /\ b_rights (update_pin_info b) = b_rights b /\
  b_ep (update_pin_info b) = b_ep b /\ b_half (update_pin_info b) = b_half b /\
  b_full (update_pin_info b) = b_full b /\ b_zob (update_pin_info b) = b_zob b /\
  b_white (update_pin_info b) = b_white b /\ b_black (update_pin_info b) = b_black b /\
  (forall p, pieces (update_pin_info b) p = pieces b p).
Proof.
  intros b. unfold update_pin_info. cbv zeta.
  match goal with |- context [scan_sliders ?o ?k ?l] => destruct (scan_sliders o k l) as [pinned checkers] end.
  unfold set_pins, set_meta.
  cbn [b_turn b_rights b_ep b_half b_full b_zob b_white b_black].
  repeat split.
Qed.

(* what an accepted input yields: the validated pre-board with its pin information filled in *)
Theorem parse_ok_shape : forall s b, parse_fen_t s = Ret (POk b) ->
  exists raw rest turn r epv half full,
    placement s 0 7 empty_board = Ret (inr (raw, rest)) /\
    b = update_pin_info (pre_board raw turn r epv half full) /\
    validate (pre_board raw turn r epv half full) = None /\
    half <= 9999 /\ full <= 9999 /\ r < 16 /\ (forall f, epv = Some f -> f < 8).
Proof.
  intros s b. rewrite parse_fen_t_staged.
  destruct (placement s 0 7 empty_board) as [[e|[raw s0]]|]; try discriminate.
  unfold parse_tail, tail_rights, tail_ep, tail_clocks.
  destruct (parse_whitespace s0 WsPieces) as [e|s1]; [discriminate|].
  destruct (parse_turn s1) as [e|[turn s2]]; [discriminate|].
  destruct (parse_whitespace s2 WsTurn) as [e|s3]; [discriminate|].
  destruct (parse_rights s3) as [[r s4]|] eqn:Er; [|discriminate].
  destruct (parse_whitespace s4 WsCastleRights) as [e|s5]; [discriminate|].
  destruct (parse_ep turn s5) as [e|[epv s6]] eqn:Eep; [discriminate|].
  destruct (parse_whitespace s6 WsEnpassant) as [e|s7]; [discriminate|].
  destruct (parse_number s7) as [[half s8]|] eqn:Eh; [|discriminate].
  destruct (parse_whitespace s8 WsHalfMoveClock) as [e|s9]; [discriminate|].
  destruct (parse_number s9) as [[full s10]|] eqn:Ef; [|discriminate].
  unfold finish. cbv zeta.
  destruct (validate (pre_board raw turn r epv half full)) eqn:Ev; [discriminate|].
  destruct (is_empty_list s10); [|discriminate].
  intros H. injection H as <-.
  exists raw, s0, turn, r, epv, half, full. repeat split.
  - exact Ev.
  - exact (parse_number_bound _ _ _ Eh).
  - exact (parse_number_bound _ _ _ Ef).
  - exact (parse_rights_bound _ _ _ Er).
  - intros f ->. exact (parse_ep_bound _ _ _ _ Eep).
Qed.

(* every accepted board: clocks at most 9999 (so they fit the u16 fields), rights a 4-bit set,
   en-passant file a file, and it is `update_pin_info` of a board that passed `validate` *)
Theorem parse_ok_fields : forall s b, parse_fen_t s = Ret (POk b) ->
  b_half b <= 9999 /\ b_full b <= 9999 /\ b_rights b < 16 /\ (forall f, b_ep b = Some f -> f < 8) /\
  exists b0, b = update_pin_info b0 /\ validate b0 = None /\ b_pinned b0 = 0 /\ b_checkers b0 = 0.
Proof.
  intros s b H. apply parse_ok_shape in H.
  destruct H as (raw & rest & turn & r & epv & half & full & _ & -> & Hv & Hh & Hf & Hr & He).
  destruct (update_pin_info_fields (pre_board raw turn r epv half full))
    as (_ & Er & Ee & Eh & Ef & _).
  rewrite Er, Ee, Eh, Ef. unfold pre_board at 1 2 3 4, set_meta.
  cbn [b_rights b_ep b_half b_full].
  repeat split; try assumption.
  exists (pre_board raw turn r epv half full). repeat split. exact Hv.
Qed.

(* ------------------------------------------------------------------ *)
(** * Writer shape: decimal numbers *)

Lemma dec_digits_acc : forall fuel n acc, dec_digits fuel n acc = dec_digits fuel n [] ++ acc.
Proof.
  induction fuel as [|fuel IH]; intros n acc; cbn [dec_digits]; [reflexivity|].
  destruct (n / 10 =? 0); [reflexivity|].
  rewrite (IH (n / 10) ((48 + n mod 10) :: acc)), (IH (n / 10) [48 + n mod 10]).
  rewrite <- app_assoc. reflexivity.
Qed.

(* most significant digits first, the last digit appended *)
Lemma dec_digits_snoc : forall fuel n,
  dec_digits (S fuel) n [] =
  if n / 10 =? 0 then [48 + n mod 10] else dec_digits fuel (n / 10) [] ++ [48 + n mod 10].
Proof.
  intros fuel n. cbn [dec_digits]. destruct (n / 10 =? 0); [reflexivity|]. apply dec_digits_acc.
Qed.

Lemma is_digit_last : forall n, is_digit (48 + n mod 10) = true.
Proof. intros n. unfold is_digit. pose proof (N.mod_lt n 10). lia. Qed.

Lemma dec_digits_all_digits : forall fuel n, forallb is_digit (dec_digits fuel n []) = true.
Proof.
  induction fuel as [|fuel IH]; intros n; [reflexivity|].
  rewrite dec_digits_snoc. destruct (n / 10 =? 0).
  - cbn [forallb]. rewrite is_digit_last. reflexivity.
  - rewrite forallb_app, IH. cbn [forallb]. rewrite is_digit_last. reflexivity.
Qed.

Lemma dec_digits_nonempty : forall fuel n, dec_digits (S fuel) n [] <> [].
Proof.
  intros fuel n. rewrite dec_digits_snoc. destruct (n / 10 =? 0); [discriminate|].
  intros H. apply app_eq_nil in H. destruct H as [_ H]. discriminate.
Qed.

Lemma digits_val_snoc : forall ds d acc, digits_val (ds ++ [d]) acc = digits_val ds acc * 10 + (d - 48).
Proof. intros ds d acc. unfold digits_val. rewrite fold_left_app. reflexivity. Qed.

Lemma div10_lt_pow : forall n k, n < 10 ^ N.of_nat (S k) -> n / 10 < 10 ^ N.of_nat k.
Proof.
  intros n k H. rewrite Nat2N.inj_succ, N.pow_succ_r' in H.
  apply N.div_lt_upper_bound; [lia|exact H].
Qed.

(* the digits written denote the number, provided the fuel suffices (20 digits cover u64) *)
Lemma dec_digits_val : forall fuel n, n < 10 ^ N.of_nat fuel -> digits_val (dec_digits fuel n []) 0 = n.
Proof.
  induction fuel as [|fuel IH]; intros n Hn.
  - change (N.of_nat 0) with 0 in Hn. rewrite N.pow_0_r in Hn.
    assert (n = 0) as -> by lia. reflexivity.
  - rewrite dec_digits_snoc. pose proof (N.div_mod n 10) as Hdm. pose proof (N.mod_lt n 10) as Hm.
    destruct (N.eqb_spec (n / 10) 0) as [E|E].
    + unfold digits_val. cbn [fold_left]. lia.
    + rewrite digits_val_snoc, IH by (apply div10_lt_pow, Hn). lia.
Qed.

Lemma dec_digits_length : forall fuel n k, n < 10 ^ N.of_nat (S k) ->
  (length (dec_digits fuel n []) <= S k)%nat.
Proof.
  induction fuel as [|fuel IH]; intros n k Hn; [cbn [dec_digits length]; lia|].
  rewrite dec_digits_snoc. destruct (N.eqb_spec (n / 10) 0) as [E|E]; [cbn [length]; lia|].
  rewrite app_length. cbn [length].
  destruct k as [|k].
  - exfalso. change (10 ^ N.of_nat 1) with 10 in Hn. apply E. apply N.div_small, Hn.
  - pose proof (IH (n / 10) k (div10_lt_pow _ _ Hn)). lia.
Qed.

Theorem show_dec_digits : forall n, forallb is_digit (show_dec n) = true.
Proof. intros n. apply dec_digits_all_digits. Qed.

Theorem show_dec_nonempty : forall n, show_dec n <> [].
Proof. intros n. apply dec_digits_nonempty. Qed.

Theorem show_dec_val : forall n, n < 10 ^ 20 -> digits_val (show_dec n) 0 = n.
Proof. intros n Hn. apply dec_digits_val. exact Hn. Qed.

Theorem show_dec_length4 : forall n, n <= 9999 -> (1 <= length (show_dec n) <= 4)%nat.
Proof.
  intros n Hn. split.
  - pose proof (show_dec_nonempty n). destruct (show_dec n); [congruence|cbn [length]; lia].
  - apply (dec_digits_length 20 n 3). change (10 ^ N.of_nat 4) with 10000. lia.
Qed.

(* a byte is a digit byte iff it lies in 48..57 *)
Lemma is_digit_spec : forall d, is_digit d = true <-> 48 <= d <= 57.
Proof. intros d. unfold is_digit. lia. Qed.

Theorem show_dec_bytes : forall n d, In d (show_dec n) -> 48 <= d <= 57.
Proof.
  intros n d H. pose proof (show_dec_digits n) as Hd. rewrite forallb_forall in Hd.
  apply is_digit_spec, Hd, H.
Qed.

(* ------------------------------------------------------------------ *)
(** * The digits lemma: parse_number reads back what show_dec wrote *)

Definition no_digit_head (rest : list N) : Prop :=
  match rest with d :: _ => is_digit d = false | [] => True end.

Lemma parse_digits_stop : forall k rest acc, no_digit_head rest -> parse_digits k rest acc = (acc, rest).
Proof.
  intros k rest acc H. destruct k as [|k]; [reflexivity|]. cbn [parse_digits].
  destruct rest as [|d r]; [reflexivity|]. cbn [no_digit_head] in H. unfold is_digit in H.
  rewrite H. reflexivity.
Qed.

Lemma parse_digits_app : forall ds k acc rest,
  forallb is_digit ds = true -> (length ds <= k)%nat -> no_digit_head rest ->
  parse_digits k (ds ++ rest) acc = (digits_val ds acc, rest).
Proof.
  induction ds as [|d ds IH]; intros k acc rest Hd Hl Hr.
  - cbn [app]. apply parse_digits_stop, Hr.
  - cbn [forallb] in Hd. apply andb_prop in Hd. destruct Hd as [Hd1 Hd2].
    cbn [length] in Hl. destruct k as [|k]; [lia|].
    cbn [app parse_digits]. unfold is_digit in Hd1. rewrite Hd1.
    rewrite IH by (try assumption; lia). reflexivity.
Qed.

Theorem parse_number_show_dec : forall n rest, n <= 9999 -> no_digit_head rest ->
  parse_number (show_dec n ++ rest) = Some (n, rest).
Proof.
  intros n rest Hn Hr.
  pose proof (show_dec_digits n) as Hd. pose proof (show_dec_length4 n Hn) as Hl.
  assert (n < 10 ^ 20) as Hn20 by (change (10 ^ 20) with 100000000000000000000; lia).
  pose proof (show_dec_val n Hn20) as Hv.
  pose proof (parse_digits_app (show_dec n) 4 0 rest Hd (proj2 Hl) Hr) as Hp.
  destruct (show_dec n) as [|d ds] eqn:E; [cbn [length] in Hl; lia|].
  unfold parse_number. rewrite <- app_comm_cons.
  cbn [forallb] in Hd. apply andb_prop in Hd. destruct Hd as [Hd1 _].
  unfold is_digit in Hd1. rewrite Hd1.
  rewrite app_comm_cons, Hp, Hv. reflexivity.
Qed.

(* ------------------------------------------------------------------ *)
(** * Writer shape: castle rights (16-case sweep) *)

Lemma lt16_cases : forall r, r < 16 ->
  r = 0 \/ r = 1 \/ r = 2 \/ r = 3 \/ r = 4 \/ r = 5 \/ r = 6 \/ r = 7 \/
  r = 8 \/ r = 9 \/ r = 10 \/ r = 11 \/ r = 12 \/ r = 13 \/ r = 14 \/ r = 15.
Proof. intros r H. lia. Qed.

Ltac sweep16 r H :=
  let E := fresh "E" in
  pose proof (lt16_cases r H) as E;
  repeat (destruct E as [E|E]; [subst r|]); [..|subst r].

Definition no_flag_head (rest : list N) : Prop :=
  match rest with x :: _ => x <> 75 /\ x <> 81 /\ x <> 107 /\ x <> 113 | [] => True end.

Lemma parse_flag_hit : forall b r, parse_flag (b :: r) b = (true, r).
Proof. intros b r. unfold parse_flag. rewrite N.eqb_refl. reflexivity. Qed.

Lemma parse_flag_miss : forall x b r, x <> b -> parse_flag (x :: r) b = (false, x :: r).
Proof. intros x b r H. unfold parse_flag. apply N.eqb_neq in H. rewrite H. reflexivity. Qed.

Lemma parse_flag_rest : forall rest b, no_flag_head rest ->
  b = 75 \/ b = 81 \/ b = 107 \/ b = 113 -> parse_flag rest b = (false, rest).
Proof.
  intros rest b Hr Hb. destruct rest as [|x r]; [reflexivity|].
  apply parse_flag_miss. cbn [no_flag_head] in Hr. lia.
Qed.

(* what the writer emits for each of the 16 right sets (K=1 Q=2 k=4 q=8) *)
Lemma write_rights_table :
  map write_rights [0;1;2;3;4;5;6;7;8;9;10;11;12;13;14;15] =
  [[45]; [75]; [81]; [75;81]; [107]; [75;107]; [81;107]; [75;81;107];
   [113]; [75;113]; [81;113]; [75;81;113]; [107;113]; [75;107;113]; [81;107;113]; [75;81;107;113]].
Proof. vm_compute. reflexivity. Qed.

Ltac eval_wr :=
  match goal with |- context [write_rights ?k] =>
    let v := eval vm_compute in (write_rights k) in change (write_rights k) with v end.

Lemma write_rights_bytes : forall r x, r < 16 -> In x (write_rights r) ->
  x = 45 \/ x = 75 \/ x = 81 \/ x = 107 \/ x = 113.
Proof.
  intros r x Hr. sweep16 r Hr; eval_wr; cbn [In]; intros Hin;
    repeat (destruct Hin as [<-|Hin]; [tauto|]); contradiction.
Qed.

Definition head_not_space (l : list N) : Prop := match l with x :: _ => x <> 32 | [] => False end.

Lemma write_rights_head : forall r, r < 16 -> head_not_space (write_rights r).
Proof. intros r Hr. sweep16 r Hr; eval_wr; cbn [head_not_space]; intros E; discriminate E. Qed.

Ltac flag_step Hrest :=
  first [ rewrite parse_flag_hit
        | rewrite parse_flag_miss by (let E := fresh in intros E; discriminate E)
        | rewrite (parse_flag_rest _ _ Hrest) by tauto ];
  cbv beta iota.

(* the four flags and the dash read back exactly the set that was written, whatever follows,
   as long as what follows does not itself start with one of K Q k q (in a FEN: a space) *)
Theorem parse_rights_write_rights : forall r rest, r < 16 -> no_flag_head rest ->
  parse_rights (write_rights r ++ rest) = Some (r, rest).
Proof.
  intros r rest Hr Hrest.
  sweep16 r Hr; eval_wr; cbn [app]; unfold parse_rights;
    do 4 (flag_step Hrest); cbn [orb]; cbv beta iota; try rewrite N.eqb_refl; reflexivity.
Qed.

(* ------------------------------------------------------------------ *)
(** * Everything after the placement field round-trips *)

Definition write_tail (b : board) : list N :=
  (match b_turn b with White => [32; 119; 32] | Black => [32; 98; 32] end)
  ++ write_rights (b_rights b)
  ++ (match b_ep b with
      | Some f => [32; 97 + f; 49 + ep_capture_rank_of (b_turn b); 32]
      | None => [32; 45; 32]
      end)
  ++ show_dec (b_half b) ++ [32] ++ show_dec (b_full b).

Lemma write_fen_split : forall b,
  write_fen b = flat_map (write_rank b) [7;6;5;4;3;2;1;0] ++ write_tail b.
Proof. reflexivity. Qed.

Lemma parse_whitespace_app : forall l rest k, head_not_space l ->
  parse_whitespace (32 :: l ++ rest) k = inr (l ++ rest).
Proof.
  intros l rest k Hl. unfold parse_whitespace. rewrite N.eqb_refl.
  destruct l as [|x l']; [contradiction|]. cbn [head_not_space] in Hl.
  cbn [app skip_spaces]. apply N.eqb_neq in Hl. rewrite Hl. reflexivity.
Qed.

Lemma parse_whitespace_cons : forall x r k, x <> 32 -> parse_whitespace (32 :: x :: r) k = inr (x :: r).
Proof. intros x r k H. apply (parse_whitespace_app [x] r k). exact H. Qed.

Lemma show_dec_head : forall n, head_not_space (show_dec n).
Proof.
  intros n. pose proof (show_dec_nonempty n) as Hne. pose proof (show_dec_bytes n) as Hb.
  destruct (show_dec n) as [|d ds]; [congruence|]. cbn [head_not_space].
  specialize (Hb d (or_introl eq_refl)). lia.
Qed.

Lemma parse_turn_white : forall r, parse_turn (119 :: r) = inr (White, r).
Proof. reflexivity. Qed.
Lemma parse_turn_black : forall r, parse_turn (98 :: r) = inr (Black, r).
Proof. reflexivity. Qed.

Lemma parse_ep_none : forall turn r, parse_ep turn (45 :: 32 :: r) = inr (None, 32 :: r).
Proof. reflexivity. Qed.

Lemma parse_ep_some : forall turn f r, f < 8 ->
  parse_ep turn ((97 + f) :: (49 + ep_capture_rank_of turn) :: r) = inr (Some f, r).
Proof.
  intros turn f r Hf. unfold parse_ep.
  assert ((97 <=? 97 + f) = true) as -> by lia.
  assert ((97 + f <=? 104) = true) as -> by lia.
  replace (97 + f - 97) with f by lia.
  destruct turn; reflexivity.
Qed.

Lemma tail_clocks_write : forall raw turn r epv half full, half <= 9999 -> full <= 9999 ->
  tail_clocks raw turn r epv (32 :: show_dec half ++ [32] ++ show_dec full) =
  finish raw turn r epv half full [].
Proof.
  intros raw turn r epv half full Hh Hf. unfold tail_clocks.
  rewrite parse_whitespace_app by apply show_dec_head.
  rewrite parse_number_show_dec by (try assumption; reflexivity).
  cbn [app]. rewrite <- (app_nil_r (show_dec full)).
  rewrite parse_whitespace_app by apply show_dec_head.
  rewrite parse_number_show_dec by (try assumption; exact I). reflexivity.
Qed.

Definition write_ep (turn : color) (epv : option N) : list N :=
  match epv with
  | Some f => [32; 97 + f; 49 + ep_capture_rank_of turn; 32]
  | None => [32; 45; 32]
  end.

Lemma tail_ep_write : forall raw turn r epv half full,
  (forall f, epv = Some f -> f < 8) -> half <= 9999 -> full <= 9999 ->
  tail_ep raw turn r (write_ep turn epv ++ show_dec half ++ [32] ++ show_dec full) =
  finish raw turn r epv half full [].
Proof.
  intros raw turn r epv half full He Hh Hf. unfold tail_ep, write_ep.
  destruct epv as [f|]; cbn [app].
  - rewrite parse_whitespace_cons by lia.
    rewrite parse_ep_some by (apply He; reflexivity). apply tail_clocks_write; assumption.
  - rewrite parse_whitespace_cons by lia.
    rewrite parse_ep_none. apply tail_clocks_write; assumption.
Qed.

Lemma write_ep_no_flag : forall turn epv rest, no_flag_head (write_ep turn epv ++ rest).
Proof. intros turn [f|] rest; cbn [write_ep app no_flag_head]; lia. Qed.

Lemma tail_rights_write : forall raw turn r epv half full,
  r < 16 -> (forall f, epv = Some f -> f < 8) -> half <= 9999 -> full <= 9999 ->
  tail_rights raw turn
    (32 :: write_rights r ++ write_ep turn epv ++ show_dec half ++ [32] ++ show_dec full) =
  finish raw turn r epv half full [].
Proof.
  intros raw turn r epv half full Hr He Hh Hf. unfold tail_rights.
  rewrite parse_whitespace_app by (apply write_rights_head, Hr).
  rewrite parse_rights_write_rights by (try assumption; apply write_ep_no_flag).
  apply tail_ep_write; assumption.
Qed.

(* the turn, castle-right, en-passant and clock fields of `write_fen b` parse back to the same
   values: parsing the tail is `validate` + `update_pin_info` on the board with b's own fields *)
Theorem parse_tail_write_tail : forall raw b,
  b_rights b < 16 -> (forall f, b_ep b = Some f -> f < 8) -> b_half b <= 9999 -> b_full b <= 9999 ->
  parse_tail raw (write_tail b) =
  finish raw (b_turn b) (b_rights b) (b_ep b) (b_half b) (b_full b) [].
Proof.
  intros raw b Hr He Hh Hf. unfold write_tail, parse_tail.
  fold (write_ep (b_turn b) (b_ep b)).
  destruct (b_turn b); cbn [app].
  - rewrite parse_whitespace_cons by lia. rewrite parse_turn_white.
    apply tail_rights_write; assumption.
  - rewrite parse_whitespace_cons by lia. rewrite parse_turn_black.
    apply tail_rights_write; assumption.
Qed.

(* with the placement field in front: if the loop stops after the placement with `raw`, the whole
   string parses to the validated board carrying b's metadata *)
Corollary parse_fen_t_write_tail : forall pl raw b,
  placement (pl ++ write_tail b) 0 7 empty_board = Ret (inr (raw, write_tail b)) ->
  b_rights b < 16 -> (forall f, b_ep b = Some f -> f < 8) -> b_half b <= 9999 -> b_full b <= 9999 ->
  parse_fen_t (pl ++ write_tail b) =
  finish raw (b_turn b) (b_rights b) (b_ep b) (b_half b) (b_full b) [].
Proof.
  intros pl raw b Hpl Hr He Hh Hf. rewrite parse_fen_t_staged, Hpl.
  apply parse_tail_write_tail; assumption.
Qed.

Lemma finish_nil : forall raw turn r epv half full,
  finish raw turn r epv half full [] =
  match validate (pre_board raw turn r epv half full) with
  | Some e => Ret (PErr (BoardValidation e))
  | None => Ret (POk (update_pin_info (pre_board raw turn r epv half full)))
  end.
Proof. reflexivity. Qed.
