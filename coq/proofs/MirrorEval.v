(* C13 - the static evaluation of the search model is antisymmetric under the colour mirror.

   Two Good boards b, b' are mirror images (Mir b b') when the rules-level position of b' is Rules.mirror of the
   position of b (full-move number ignored).  Then
       eval b' = neg (eval b)
   (mir_eval), via: material counts (mir_count, mir_score_pieces), the kings' squares (mir_king_sq), the number of
   king moves used by the endgame term (mir_king_moves: the king generator of the mirrored colour on the mirrored
   board yields the mirror image of the move set, including the turn-relative safety quirk and castling), the
   endgame term (mir_eval_endgame) and insufficient material (mir_insufficient).  Axiom-free. *)
From Coq Require Import NArith ZArith List Bool Lia ZifyBool ZifyN.
From Chess Require Import base.Bits base.Types base.BitBoard base.Sweep geom.Geometry model.Score model.Board model.MoveGen model.Apply model.Search spec.Rules.
From Chess Require Import proofs.BitsFacts proofs.BitBoardFacts.
From Chess Require proofs.BridgeFacts proofs.SiteFacts.
From Chess Require Import spec.IterSpec proofs.IterFacts proofs.HashFacts proofs.InvFacts proofs.LegalDefs proofs.AttackDefs.
From Chess Require Import proofs.AttackFacts proofs.KingFacts.
From Chess Require proofs.ExactFacts proofs.ValidFacts proofs.PinFactsAux.
Import ListNotations.
Local Open Scope N_scope.

Definition eqp (p q : position) : Prop :=
  cells p = cells q /\ stm p = stm q /\ cr_wk p = cr_wk q /\ cr_wq p = cr_wq q /\ cr_bk p = cr_bk q /\ cr_bq p = cr_bq q
  /\ epf p = epf q /\ hm p = hm q.
Definition Mir (b b' : board) : Prop := Good b /\ Good b' /\ eqp (Board.abs b') (mirror (Board.abs b)).

(* ------------------------------------------------------------------ *)
(** * mirror_sq *)

Definition chk_msq (s : N) : bool := (mirror_sq s <? 64) && (mirror_sq (mirror_sq s) =? s).
Lemma sweep_msq : all_sq chk_msq = true.
Proof. vm_compute. reflexivity. Qed.

Lemma msq_lt : forall s, s < 64 -> mirror_sq s < 64.
Proof.
  intros s Hs. pose proof (all_sq_spec _ sweep_msq s Hs) as H. unfold chk_msq in H.
  apply andb_true_iff in H. destruct H as [H _]. apply N.ltb_lt in H. exact H.
Qed.

Lemma msq_invol : forall s, mirror_sq (mirror_sq s) = s.
Proof. intros s. unfold mirror_sq. rewrite N.lxor_assoc, N.lxor_nilpotent, N.lxor_0_r. reflexivity. Qed.

Lemma msq_inj : forall s t, mirror_sq s = mirror_sq t -> s = t.
Proof. intros s t H. rewrite <- (msq_invol s), <- (msq_invol t), H. reflexivity. Qed.

Lemma msq_eqb : forall s t, (mirror_sq s =? mirror_sq t) = (s =? t).
Proof.
  intros s t. destruct (N.eqb_spec s t) as [->|N]; [apply N.eqb_refl|].
  apply N.eqb_neq. intros E. apply N. exact (msq_inj _ _ E).
Qed.

Lemma mirror_cell_invol : forall c, mirror_cell (mirror_cell c) = c.
Proof. intros [[[] p]|]; reflexivity. Qed.

(* ------------------------------------------------------------------ *)
(** * The placement and the scalar fields *)

Lemma mir_good_l : forall b b', Mir b b' -> Good b. Proof. intros b b' H. apply H. Qed.
Lemma mir_good_r : forall b b', Mir b b' -> Good b'. Proof. intros b b' H. apply H. Qed.

Lemma mir_raw : forall b b' s, Mir b b' -> s < 64 -> raw_get b' (mirror_sq s) = mirror_cell (raw_get b s).
Proof.
  intros b b' s (_ & _ & (Hc & _)) Hs.
  pose proof (msq_lt s Hs) as Hm.
  rewrite <- (BridgeFacts.abs_cell b' (mirror_sq s) Hm), Hc.
  unfold mirror. cbn [cells]. unfold Rules.cell_at at 1.
  assert (Hn : (N.to_nat (mirror_sq s) < 64)%nat) by lia.
  set (f := fun s0 : N => mirror_cell (Rules.cell_at (cells (Board.abs b)) (mirror_sq s0))).
  rewrite (nth_indep (map f sq_list) None (f 0)) by (rewrite map_length; exact Hn).
  rewrite map_nth, BridgeFacts.nth_sq_list by exact Hn. rewrite N2Nat.id. unfold f.
  rewrite msq_invol, (BridgeFacts.abs_cell b s Hs). reflexivity.
Qed.

Lemma mir_raw' : forall b b' s, Mir b b' -> s < 64 -> raw_get b' s = mirror_cell (raw_get b (mirror_sq s)).
Proof.
  intros b b' s M Hs. rewrite <- (mir_raw b b' (mirror_sq s) M (msq_lt s Hs)), msq_invol. reflexivity.
Qed.

Lemma mir_turn : forall b b', Mir b b' -> b_turn b' = opp (b_turn b).
Proof. intros b b' (_ & _ & (_ & Ht & _)). exact Ht. Qed.

Lemma mir_half : forall b b', Mir b b' -> b_half b' = b_half b.
Proof. intros b b' (_ & _ & (_ & _ & _ & _ & _ & _ & _ & Hh)). exact Hh. Qed.

Lemma mir_rights : forall b b' sd c, Mir b b' -> cr_contains (b_rights b') sd (opp c) = cr_contains (b_rights b) sd c.
Proof.
  intros b b' sd c (_ & _ & (_ & _ & H1 & H2 & H3 & H4 & _)).
  unfold mirror, Board.abs in H1, H2, H3, H4. cbn [cr_wk cr_wq cr_bk cr_bq] in H1, H2, H3, H4.
  destruct sd, c; cbn [opp]; assumption.
Qed.

(* a man (c, p) stands on s in b  iff  (opp c, p) stands on the mirrored square in b' *)
Lemma mir_raw_iff : forall b b' s c p, Mir b b' -> s < 64 ->
  (raw_get b' (mirror_sq s) = Some (opp c, p) <-> raw_get b s = Some (c, p)).
Proof.
  intros b b' s c p M Hs. rewrite (mir_raw b b' s M Hs).
  destruct (raw_get b s) as [[c' p']|]; cbn [mirror_cell].
  - split; intros H; injection H as H1 H2; subst p'.
    + destruct c, c'; try discriminate H1; reflexivity.
    + subst c'. reflexivity.
  - split; discriminate.
Qed.

Lemma mir_colors_mem : forall b b' c s, Mir b b' -> s < 64 ->
  mem (colors b' (opp c)) (mirror_sq s) = mem (colors b c) s.
Proof.
  intros b b' c s M Hs.
  pose proof (Good_Part b (mir_good_l _ _ M)) as P. pose proof (Good_Part b' (mir_good_r _ _ M)) as P'.
  pose proof (msq_lt s Hs) as Hm.
  apply eq_true_iff_eq.
  rewrite (ValidFacts.colors_mem_raw b' (opp c) _ P' Hm), (ValidFacts.colors_mem_raw b c _ P Hs).
  split; intros [p H]; exists p; apply (mir_raw_iff b b' s c p M Hs); exact H.
Qed.

Lemma mir_pieces_mem : forall b b' p s, Mir b b' -> s < 64 ->
  mem (pieces b' p) (mirror_sq s) = mem (pieces b p) s.
Proof.
  intros b b' p s M Hs.
  pose proof (Good_Part b (mir_good_l _ _ M)) as P. pose proof (Good_Part b' (mir_good_r _ _ M)) as P'.
  pose proof (msq_lt s Hs) as Hm.
  pose proof (mir_raw b b' s M Hs) as R.
  destruct (raw_get b s) as [[c q]|] eqn:E; cbn [mirror_cell] in R.
  - rewrite (raw_mem_pieces b' _ _ _ p P' Hm R), (raw_mem_pieces b _ _ _ p P Hs E). reflexivity.
  - apply (HashFacts.raw_get_spec b P s Hs) in E. apply (HashFacts.raw_get_spec b' P' _ Hm) in R.
    rewrite <- (part_cover b P) in E. rewrite <- (part_cover b' P') in R.
    assert (X : forall x q t, mem (piece_union x) t = false -> mem (pieces x q) t = false).
    { intros x q t H. unfold piece_union in H. rewrite !mem_or in H.
      repeat (apply orb_false_iff in H; destruct H as [H ?]). destruct q; assumption. }
    rewrite (X b' p _ R), (X b p _ E). reflexivity.
Qed.

Lemma mir_occ_mem : forall b b' s, Mir b b' -> s < 64 -> mem (all_occ b') (mirror_sq s) = mem (all_occ b) s.
Proof.
  intros b b' s M Hs. unfold all_occ. rewrite !mem_or.
  pose proof (mir_colors_mem b b' White s M Hs) as H1. pose proof (mir_colors_mem b b' Black s M Hs) as H2.
  cbn [colors opp] in H1, H2. rewrite H1, H2. apply orb_comm.
Qed.

(* ------------------------------------------------------------------ *)
(** * Counting through the mirror *)

Lemma count_mirror : forall A B, wf64 A -> wf64 B ->
  (forall s, s < 64 -> mem B (mirror_sq s) = mem A s) -> count B = count A.
Proof.
  intros A B WA WB H. apply N.le_antisymm.
  - apply (ValidFacts.count_inj_le B A mirror_sq WB WA).
    + intros s Hs Hm. split; [exact (msq_lt s Hs)|].
      rewrite <- (H _ (msq_lt s Hs)), msq_invol. exact Hm.
    + intros s t _ _ _ _ E. exact (msq_inj _ _ E).
  - apply (ValidFacts.count_inj_le A B mirror_sq WA WB).
    + intros s Hs Hm. split; [exact (msq_lt s Hs)|]. rewrite (H s Hs). exact Hm.
    + intros s t _ _ _ _ E. exact (msq_inj _ _ E).
Qed.

Lemma mir_king_sq : forall b b' c, Mir b b' -> king_sq b' (opp c) = mirror_sq (king_sq b c).
Proof.
  intros b b' c M. pose proof (mir_good_l _ _ M) as G. pose proof (mir_good_r _ _ M) as G'.
  destruct (kings b c G) as (L & R & _). destruct (kings b' (opp c) G') as (_ & _ & U & _).
  symmetry. apply U; [exact (msq_lt _ L)|]. apply (mir_raw_iff b b' _ c King M L). exact R.
Qed.

Lemma mir_count : forall b b' c p, Mir b b' ->
  count (bb_and (colors b' (opp c)) (pieces b' p)) = count (bb_and (colors b c) (pieces b p)).
Proof.
  intros b b' c p M.
  pose proof (Good_Part b (mir_good_l _ _ M)) as P. pose proof (Good_Part b' (mir_good_r _ _ M)) as P'.
  apply count_mirror.
  - apply wf64_land_r, (part_wf_pieces b P).
  - apply wf64_land_r, (part_wf_pieces b' P').
  - intros s Hs. rewrite !mem_and, (mir_colors_mem b b' c s M Hs), (mir_pieces_mem b b' p s M Hs). reflexivity.
Qed.

Lemma mir_count_pieces : forall b b' p, Mir b b' -> count (pieces b' p) = count (pieces b p).
Proof.
  intros b b' p M.
  pose proof (Good_Part b (mir_good_l _ _ M)) as P. pose proof (Good_Part b' (mir_good_r _ _ M)) as P'.
  apply count_mirror; [apply (part_wf_pieces b P)|apply (part_wf_pieces b' P')|].
  intros s Hs. exact (mir_pieces_mem b b' p s M Hs).
Qed.

Lemma mir_pieces_none : forall b b' p, Mir b b' -> none (pieces b' p) = none (pieces b p).
Proof.
  intros b b' p M.
  pose proof (Good_Part b (mir_good_l _ _ M)) as P. pose proof (Good_Part b' (mir_good_r _ _ M)) as P'.
  pose proof (mir_count_pieces b b' p M) as C.
  pose proof (ExactFacts.count_0_iff _ (part_wf_pieces b P p)) as Z.
  pose proof (ExactFacts.count_0_iff _ (part_wf_pieces b' P' p)) as Z'.
  unfold none. destruct (N.eqb_spec (pieces b' p) 0) as [E'|N']; destruct (N.eqb_spec (pieces b p) 0) as [E|N]; try reflexivity.
  - exfalso. apply N. apply Z. rewrite <- C. apply Z'. exact E'.
  - exfalso. apply N'. apply Z'. rewrite C. apply Z. exact E.
Qed.

Theorem mir_insufficient : forall b b', Mir b b' -> insufficient_material b' = insufficient_material b.
Proof.
  intros b b' M. unfold insufficient_material.
  pose proof (mir_count_pieces b b' Bishop M) as CB. pose proof (mir_count_pieces b b' Knight M) as CN.
  pose proof (mir_pieces_none b b' Queen M) as NQ. pose proof (mir_pieces_none b b' Rook M) as NR.
  pose proof (mir_pieces_none b b' Pawn M) as NP.
  cbn [pieces] in CB, CN, NQ, NR, NP. rewrite CB, CN.
  assert (A : forall x y z, any (bb_or (bb_or x y) z) = negb (none x) || negb (none y) || negb (none z)).
  { intros x y z. rewrite !BridgeFacts.any_or. unfold any, none. reflexivity. }
  rewrite !A, NQ, NR, NP. reflexivity.
Qed.

Theorem mir_score_pieces : forall b b' c, Mir b b' -> score_pieces b' (opp c) = score_pieces b c.
Proof.
  intros b b' c M. unfold score_pieces, zcount. cbv zeta.
  pose proof (mir_count b b' c Queen M) as HQ. pose proof (mir_count b b' c Rook M) as HR.
  pose proof (mir_count b b' c Bishop M) as HB. pose proof (mir_count b b' c Knight M) as HN.
  pose proof (mir_count b b' c Pawn M) as HP. cbn [pieces] in HQ, HR, HB, HN, HP.
  rewrite HQ, HR, HB, HN, HP. reflexivity.
Qed.

(* ------------------------------------------------------------------ *)
(** * Geometry under the mirror (exhaustive sweeps) *)

Definition chk_edge (s : N) : bool := dist_from_edge (mirror_sq s) =? dist_from_edge s.
Lemma sweep_edge : all_sq chk_edge = true.
Proof. vm_compute. reflexivity. Qed.
Lemma edge_mirror : forall s, s < 64 -> dist_from_edge (mirror_sq s) = dist_from_edge s.
Proof. intros s Hs. apply N.eqb_eq. exact (all_sq_spec _ sweep_edge s Hs). Qed.

Definition chk_dist (a d : N) : bool := dist_geo (mirror_sq a) (mirror_sq d) =? dist_geo a d.
Lemma sweep_dist : all_sq2 chk_dist = true.
Proof. vm_compute. reflexivity. Qed.
Lemma dist_mirror : forall a d, a < 64 -> d < 64 -> dist_geo (mirror_sq a) (mirror_sq d) = dist_geo a d.
Proof. intros a d Ha Hd. apply N.eqb_eq. exact (all_sq2_spec _ sweep_dist a d Ha Hd). Qed.

Definition chk_geo (a d : N) : bool :=
  Bool.eqb (mem (king_geo (mirror_sq a)) (mirror_sq d)) (mem (king_geo a) d)
  && Bool.eqb (mem (knight_geo (mirror_sq a)) (mirror_sq d)) (mem (knight_geo a) d)
  && Bool.eqb (mem (pawn_att_geo Black (mirror_sq a)) (mirror_sq d)) (mem (pawn_att_geo White a) d)
  && Bool.eqb (mem (pawn_att_geo White (mirror_sq a)) (mirror_sq d)) (mem (pawn_att_geo Black a) d)
  && Bool.eqb (mem (bishop_rays_geo (mirror_sq a)) (mirror_sq d)) (mem (bishop_rays_geo a) d)
  && Bool.eqb (mem (rook_rays_geo (mirror_sq a)) (mirror_sq d)) (mem (rook_rays_geo a) d).
Lemma sweep_geo : all_sq2 chk_geo = true.
Proof. vm_compute. reflexivity. Qed.

Lemma geo_mirror : forall a d, a < 64 -> d < 64 ->
  mem (king_geo (mirror_sq a)) (mirror_sq d) = mem (king_geo a) d
  /\ mem (knight_geo (mirror_sq a)) (mirror_sq d) = mem (knight_geo a) d
  /\ (forall c, mem (pawn_att_geo (opp c) (mirror_sq a)) (mirror_sq d) = mem (pawn_att_geo c a) d)
  /\ mem (bishop_rays_geo (mirror_sq a)) (mirror_sq d) = mem (bishop_rays_geo a) d
  /\ mem (rook_rays_geo (mirror_sq a)) (mirror_sq d) = mem (rook_rays_geo a) d.
Proof.
  intros a d Ha Hd. pose proof (all_sq2_spec _ sweep_geo a d Ha Hd) as H. unfold chk_geo in H.
  repeat (apply andb_true_iff in H; let H' := fresh "E" in destruct H as [H H']).
  apply eqb_prop in H, E, E0, E1, E2, E3.
  repeat split; try assumption. intros []; cbn [opp]; assumption.
Qed.

Definition chk_btw3 (s t : N) : bool :=
  let A := between_geo (mirror_sq s) (mirror_sq t) in
  let B := between_geo s t in
  forallb (fun u => Bool.eqb (mem A (mirror_sq u)) (mem B u)) sq_list.
Lemma sweep_btw3 : all_sq2 chk_btw3 = true.
Proof. vm_compute. reflexivity. Qed.
Lemma between_mirror : forall s t u, s < 64 -> t < 64 -> u < 64 ->
  mem (between_geo (mirror_sq s) (mirror_sq t)) (mirror_sq u) = mem (between_geo s t) u.
Proof.
  intros s t u Hs Ht Hu. pose proof (all_sq2_spec _ sweep_btw3 s t Hs Ht) as H. unfold chk_btw3 in H. cbv zeta in H.
  rewrite forallb_forall in H. apply eqb_prop. apply H. apply in_sq_list. exact Hu.
Qed.

(* ------------------------------------------------------------------ *)
(** * Attacks under the mirror *)

(* occ' is the mirror image of occ *)
Definition mocc (occ occ' : N) : Prop := forall x, x < 64 -> mem occ' (mirror_sq x) = mem occ x.

Lemma none_mirror : forall A A', wf64 A -> wf64 A' -> mocc A A' -> none A' = none A.
Proof.
  intros A A' W W' H. apply eq_true_iff_eq. rewrite (none_spec _ W), (none_spec _ W'). split; intros F s Hs.
  - rewrite <- (H s Hs). apply F. exact (msq_lt s Hs).
  - rewrite <- (msq_invol s), (H _ (msq_lt s Hs)). apply F. exact (msq_lt s Hs).
Qed.

Lemma between_occ_mirror : forall occ occ' s t, s < 64 -> t < 64 -> mocc occ occ' ->
  none (bb_and occ' (between_geo (mirror_sq s) (mirror_sq t))) = none (bb_and occ (between_geo s t)).
Proof.
  intros occ occ' s t Hs Ht H. apply none_mirror.
  - apply wf64_land_r, PinFactsAux.wf64_between.
  - apply wf64_land_r, PinFactsAux.wf64_between.
  - intros x Hx. rewrite !mem_and, (H x Hx), (between_mirror s t x Hs Ht Hx). reflexivity.
Qed.

Lemma att_from_mirror : forall pc c s occ occ' t, s < 64 -> t < 64 -> mocc occ occ' ->
  att_from pc (opp c) (mirror_sq s) occ' (mirror_sq t) = att_from pc c s occ t.
Proof.
  intros pc c s occ occ' t Hs Ht H.
  destruct (geo_mirror s t Hs Ht) as (G1 & G2 & G3 & G4 & G5).
  pose proof (msq_lt s Hs) as Hm.
  assert (SL : pc = Bishop \/ pc = Rook \/ pc = Queen ->
               att_from pc (opp c) (mirror_sq s) occ' (mirror_sq t) = att_from pc c s occ t).
  { intros Hpc. rewrite (slider_att pc (opp c) _ occ' (mirror_sq t) Hm Hpc), (slider_att pc c s occ t Hs Hpc).
    rewrite (between_occ_mirror occ occ' s t Hs Ht H). f_equal.
    destruct Hpc as [->|[->| ->]]; cbn [slider_kind]; rewrite ?G4, ?G5; reflexivity. }
  destruct pc; try (apply SL; tauto); cbn [att_from].
  - apply G3.
  - exact G2.
  - exact G1.
Qed.

(* no man of colour c attacks s in b  iff  no man of colour opp c attacks the mirrored square in b' *)
Lemma mir_no_attack : forall b b' c s occ occ', Mir b b' -> s < 64 -> mocc occ occ' ->
  ((forall t pc, t < 64 -> raw_get b' t = Some (opp c, pc) -> att_from pc (opp c) (mirror_sq s) occ' t = false) <->
   (forall t pc, t < 64 -> raw_get b t = Some (c, pc) -> att_from pc c s occ t = false)).
Proof.
  intros b b' c s occ occ' M Hs H. split; intros F t pc Ht Hr.
  - rewrite <- (att_from_mirror pc c s occ occ' t Hs Ht H). apply F; [exact (msq_lt t Ht)|].
    apply (mir_raw_iff b b' t c pc M Ht). exact Hr.
  - pose proof (msq_lt t Ht) as Hm. rewrite <- (msq_invol t) in Hr |- *.
    rewrite (att_from_mirror pc c s occ occ' _ Hs Hm H). apply F; [exact Hm|].
    apply (mir_raw_iff b b' _ c pc M Hm). exact Hr.
Qed.

Lemma mir_ksq : forall b b', Mir b b' -> ksq b' = mirror_sq (ksq b).
Proof. intros b b' M. unfold ksq. rewrite (mir_turn b b' M). apply mir_king_sq. exact M. Qed.

Lemma mir_occx : forall b b' d, Mir b b' -> d < 64 -> mocc (occx b d) (occx b' (mirror_sq d)).
Proof.
  intros b b' d M Hd x Hx. unfold occx. rewrite (mir_ksq b b' M).
  destruct (kings b (b_turn b) (mir_good_l _ _ M)) as (Hk & _). fold (ksq b) in Hk.
  pose proof (msq_lt _ Hk) as Hk'. pose proof (msq_lt _ Hd) as Hd'. pose proof (msq_lt _ Hx) as Hx'.
  rewrite !mem_xor, (mir_occ_mem b b' x M Hx), !mem_from_pos by assumption. rewrite !msq_eqb.
  reflexivity.
Qed.

Lemma mir_ilkp : forall b b' d, Mir b b' -> d < 64 ->
  is_legal_king_position b' (mirror_sq d) = is_legal_king_position b d.
Proof.
  intros b b' d M Hd.
  pose proof (Good_Part b (mir_good_l _ _ M)) as P. pose proof (Good_Part b' (mir_good_r _ _ M)) as P'.
  apply eq_true_iff_eq.
  rewrite (ilkp_spec slider_att b' _ P' (msq_lt d Hd)), (ilkp_spec slider_att b d P Hd), (mir_turn b b' M).
  exact (mir_no_attack b b' (opp (b_turn b)) d _ _ M Hd (mir_occx b b' d M Hd)).
Qed.

Lemma mir_check : forall b b', Mir b b' -> any (b_checkers b') = any (b_checkers b).
Proof.
  intros b b' M. pose proof (mir_good_l _ _ M) as G. pose proof (mir_good_r _ _ M) as G'.
  assert (E : none (b_checkers b') = none (b_checkers b)).
  { apply eq_true_iff_eq.
    rewrite (no_check_spec kings checkers_spec b' G'), (no_check_spec kings checkers_spec b G).
    rewrite (mir_ksq b b' M), (mir_turn b b' M).
    destruct (kings b (b_turn b) G) as (Hk & _). fold (ksq b) in Hk.
    apply (mir_no_attack b b' (opp (b_turn b)) (ksq b) _ _ M Hk).
    intros x Hx. exact (mir_occ_mem b b' x M Hx). }
  unfold any. unfold none in E. rewrite E. reflexivity.
Qed.

(* ------------------------------------------------------------------ *)
(** * The king generator for an arbitrary colour, square by square *)

Definition kstep (b : board) (c : color) (d : N) : bool :=
  mem (king_geo (king_sq b c)) d && negb (mem (colors b c) d) && is_legal_king_position b d.
Definition ccond (b : board) (c : color) (sd : side) : bool :=
  cr_contains (b_rights b) sd c
  && forallb (fun t => negb (mem (all_occ b) t)) (tiles_list sd c)
  && forallb (is_legal_king_position b) (safe_list sd c).
Definition cmark (c : color) (sd : side) (d : N) : bool := mem (bb_and (castle_tiles sd c) CASTLE_MOVES_bb) d.
Definition cstep (b : board) (c : color) (sd : side) (d : N) (m : bool) : bool :=
  if ccond b c sd then xorb m (cmark c sd d) else m.
Definition kmem (chk : bool) (b : board) (c : color) (d : N) : bool :=
  if chk then kstep b c d else cstep b c QueenSide d (cstep b c KingSide d (kstep b c d)).

Lemma king_safe_mem : forall b ps d, d < 64 -> mem (king_safe b ps) d = mem ps d && is_legal_king_position b d.
Proof.
  intros b ps d Hd. apply eq_true_iff_eq. rewrite (ExactFacts.king_safe_iff b ps d Hd), andb_true_iff. reflexivity.
Qed.

Lemma castle_step_mem_c : forall b c sd mv d,
  mem (castle_step b c sd (castle_files sd) (ExactFacts.safe_files sd) mv) d = cstep b c sd d (mem mv d).
Proof.
  intros b c sd mv d. unfold castle_step, cstep, ccond, cmark. fold (castle_tiles sd c).
  destruct (cr_contains (b_rights b) sd c); cbn [negb andb]; [|reflexivity].
  rewrite (none_and_elements _ _ (wf64_castle_tiles sd c)).
  unfold castle_tiles, castle_files, ExactFacts.safe_files. rewrite tiles_elems, safe_elems.
  destruct (forallb _ (tiles_list sd c)); cbn [andb]; [|reflexivity].
  destruct (forallb _ (safe_list sd c)); [|reflexivity]. apply mem_xor.
Qed.

Lemma king_moves_mem : forall chk b c d, d < 64 ->
  mem (king_moves chk b c (bb_not (colors b c))) d = kmem chk b c d.
Proof.
  intros chk b c d Hd. unfold king_moves, kmem.
  assert (S : mem (king_safe b (pseudo_legals King (king_sq b c) c (all_occ b) (bb_not (colors b c)))) d = kstep b c d).
  { rewrite (king_safe_mem _ _ d Hd). unfold pseudo_legals, kstep. rewrite mem_and, (mem_not _ d Hd). reflexivity. }
  destruct chk; [exact S|].
  change QUEENSIDE_FILES with (castle_files QueenSide). change QUEENSIDE_SAFE_FILES with (ExactFacts.safe_files QueenSide).
  change (castle_step b c KingSide KINGSIDE_FILES KINGSIDE_FILES)
    with (castle_step b c KingSide (castle_files KingSide) (ExactFacts.safe_files KingSide)).
  rewrite !castle_step_mem_c, S. reflexivity.
Qed.

Lemma wf64_clear_fold : forall (f : N -> bool) L a, wf64 a ->
  wf64 (fold_left (fun mv d => if f d then mv else cleared mv d) L a).
Proof.
  intros f L. induction L as [|d L IH]; intros a W; [exact W|].
  cbn [fold_left]. apply IH. destruct (f d); [exact W|apply wf64_cleared].
Qed.

Lemma wf64_castle_step : forall b c sd safe mv, wf64 mv -> wf64 (castle_step b c sd (castle_files sd) safe mv).
Proof.
  intros b c sd safe mv W. unfold castle_step. fold (castle_tiles sd c).
  destruct (negb _); [exact W|]. destruct (none _); [|exact W]. destruct (forallb _ _); [|exact W].
  apply wf64_xor; [exact W|]. apply wf64_land_l, wf64_castle_tiles.
Qed.

Lemma wf64_king_moves : forall chk b c, wf64 (king_moves chk b c (bb_not (colors b c))).
Proof.
  intros chk b c. unfold king_moves.
  assert (W : wf64 (king_safe b (pseudo_legals King (king_sq b c) c (all_occ b) (bb_not (colors b c))))).
  { unfold king_safe. apply wf64_clear_fold. unfold pseudo_legals. apply wf64_land_r, wf64_not. }
  destruct chk; [exact W|].
  change QUEENSIDE_FILES with (castle_files QueenSide).
  change (castle_step b c KingSide KINGSIDE_FILES) with (castle_step b c KingSide (castle_files KingSide)).
  apply wf64_castle_step, wf64_castle_step, W.
Qed.

(* the number of generated king moves is the size of the move set *)
Lemma king_gen_len : forall b c,
  mg_len (king_legals_gen b c) = count (king_moves (any (b_checkers b)) b c (bb_not (colors b c))).
Proof.
  intros b c. unfold king_legals_gen, collect_king_moves. rewrite king_legals_eq.
  set (M := king_moves (any (b_checkers b)) b c (bb_not (colors b c))).
  pose proof (wf64_king_moves (any (b_checkers b)) b c) as W. fold M in W.
  unfold mg_len, mg_new. cbn [g_index g_moves g_promo g_mask skipn].
  destruct (none M) eqn:En.
  - cbn [fold_left fst]. apply ExactFacts.none_true_0 in En. rewrite En. reflexivity.
  - cbn [fold_left e_moves e_promo]. rewrite (ExactFacts.and_full M W).
    destruct (count M =? 0) eqn:Ec; cbn [fst].
    + apply N.eqb_eq in Ec. symmetry. exact Ec.
    + apply N.add_0_l.
Qed.

(* ------------------------------------------------------------------ *)
(** * The king's move set under the mirror *)

Lemma mir_kstep : forall b b' c d, Mir b b' -> d < 64 -> kstep b' (opp c) (mirror_sq d) = kstep b c d.
Proof.
  intros b b' c d M Hd. unfold kstep.
  destruct (kings b c (mir_good_l _ _ M)) as (Hk & _).
  rewrite (mir_king_sq b b' c M). destruct (geo_mirror (king_sq b c) d Hk Hd) as (G1 & _).
  rewrite G1, (mir_colors_mem b b' c d M Hd), (mir_ilkp b b' d M Hd). reflexivity.
Qed.

Lemma tiles_mirror : forall sd c, tiles_list sd (opp c) = map mirror_sq (tiles_list sd c).
Proof. intros [] []; vm_compute; reflexivity. Qed.
Lemma safe_mirror : forall sd c, safe_list sd (opp c) = map mirror_sq (safe_list sd c).
Proof. intros [] []; vm_compute; reflexivity. Qed.

Lemma forallb_map' : forall (A B : Type) (f : B -> bool) (g : A -> B) l, forallb f (map g l) = forallb (fun x => f (g x)) l.
Proof. intros A B f g l. induction l as [|a l IH]; [reflexivity|]. cbn [map forallb]. rewrite IH. reflexivity. Qed.

Lemma mir_ccond : forall b b' c sd, Mir b b' -> ccond b' (opp c) sd = ccond b c sd.
Proof.
  intros b b' c sd M. unfold ccond.
  rewrite (mir_rights b b' sd c M), tiles_mirror, safe_mirror, !forallb_map'.
  f_equal; [f_equal|].
  - apply forallb_ext_in'. intros x Hx. rewrite (mir_occ_mem b b' x M (tiles_lt sd c x Hx)). reflexivity.
  - apply forallb_ext_in'. intros x Hx. apply (mir_ilkp b b' x M). exact (tiles_lt sd c x (safe_tiles sd c x Hx)).
Qed.

Definition chk_mark (d : N) : bool :=
  forallb (fun sd => forallb (fun c => Bool.eqb (cmark (opp c) sd (mirror_sq d)) (cmark c sd d)) [White; Black])
          [KingSide; QueenSide].
Lemma sweep_mark : all_sq chk_mark = true.
Proof. vm_compute. reflexivity. Qed.
Lemma mir_cmark : forall c sd d, d < 64 -> cmark (opp c) sd (mirror_sq d) = cmark c sd d.
Proof.
  intros c sd d Hd. pose proof (all_sq_spec _ sweep_mark d Hd) as H. unfold chk_mark in H.
  cbn [forallb] in H. rewrite !andb_true_r in H.
  apply andb_true_iff in H. destruct H as [H1 H2].
  apply andb_true_iff in H1, H2. destruct H1 as [A1 A2], H2 as [A3 A4].
  apply eqb_prop in A1, A2, A3, A4. destruct sd, c; assumption.
Qed.

Lemma mir_kmem : forall b b' c d, Mir b b' -> d < 64 ->
  kmem (any (b_checkers b')) b' (opp c) (mirror_sq d) = kmem (any (b_checkers b)) b c d.
Proof.
  intros b b' c d M Hd. unfold kmem, cstep.
  rewrite (mir_check b b' M), (mir_kstep b b' c d M Hd), !(mir_ccond b b' c _ M), !(mir_cmark c _ d Hd).
  reflexivity.
Qed.

Theorem mir_king_moves : forall b b' c, Mir b b' ->
  mg_len (king_legals_gen b' (opp c)) = mg_len (king_legals_gen b c).
Proof.
  intros b b' c M. rewrite !king_gen_len. apply count_mirror; try apply wf64_king_moves.
  intros s Hs. rewrite (king_moves_mem _ b' (opp c) _ (msq_lt s Hs)), (king_moves_mem _ b c s Hs).
  exact (mir_kmem b b' c s M Hs).
Qed.

(* ------------------------------------------------------------------ *)
(** * The evaluation *)

Theorem mir_eval_endgame : forall b b' c, Mir b b' -> eval_endgame b' (opp c) = eval_endgame b c.
Proof.
  intros b b' c M. unfold eval_endgame. cbv zeta.
  destruct (kings b c (mir_good_l _ _ M)) as (Hk & _).
  destruct (kings b (opp c) (mir_good_l _ _ M)) as (Hk2 & _).
  rewrite (mir_king_moves b b' (opp c) M), (mir_king_sq b b' (opp c) M), (mir_king_sq b b' c M).
  rewrite (dist_mirror _ _ Hk Hk2), (edge_mirror _ Hk2). reflexivity.
Qed.

Theorem mir_eval : forall b b', Mir b b' -> eval b' = neg (eval b).
Proof.
  intros b b' M. unfold eval. rewrite (mir_half b b' M).
  destruct (100 <=? b_half b); [reflexivity|].
  pose proof (mir_score_pieces b b' Black M) as SW. pose proof (mir_score_pieces b b' White M) as SB.
  pose proof (mir_eval_endgame b b' Black M) as EW. pose proof (mir_eval_endgame b b' White M) as EB.
  cbn [opp] in SW, SB, EW, EB. rewrite SW, SB, EW, EB.
  generalize (eval_endgame b White) as ew, (eval_endgame b Black) as eb.
  generalize (score_pieces b White) as w, (score_pieces b Black) as bl. intros bl w eb ew.
  destruct (Z.compare_spec (w - bl) 0) as [C|C|C]; destruct (Z.compare_spec (bl - w) 0) as [C'|C'|C']; try (exfalso; lia).
  - cbv beta iota zeta. cbn [neg]. f_equal. lia.
  - destruct (bl <? 1800)%Z; cbv beta iota zeta; cbn [neg]; f_equal; lia.
  - destruct (w <? 1800)%Z; cbv beta iota zeta; cbn [neg]; f_equal; lia.
Qed.

Print Assumptions mir_raw.
Print Assumptions mir_turn.
Print Assumptions mir_half.
Print Assumptions mir_king_sq.
Print Assumptions mir_count.
Print Assumptions mir_insufficient.
Print Assumptions mir_score_pieces.
Print Assumptions mir_king_moves.
Print Assumptions mir_eval_endgame.
Print Assumptions mir_eval.
