(* C13, rules level: the rules of chess in spec/Rules.v are symmetric under the colour mirror
   (swap the colours, flip the ranks).  Everything here lives on mailbox positions. *)
From Coq Require Import NArith ZArith List Bool Lia ZifyBool ZifyN Permutation.
From Chess Require Import base.Bits base.Types base.Sweep geom.Geometry spec.Rules.
From Chess Require proofs.ApplyFacts proofs.BridgeFacts.
Import ListNotations.
Local Open Scope N_scope.

Definition wfp (p : position) : Prop := length (cells p) = 64%nat.

(* ------------------------------------------------------------------ *)
(** * 1. The square mirror *)

Lemma mirror_sq_invol_all : forall s, mirror_sq (mirror_sq s) = s.
Proof.
  intros s. unfold mirror_sq. rewrite N.lxor_assoc, N.lxor_nilpotent, N.lxor_0_r. reflexivity.
Qed.

Lemma mirror_sq_invol : forall s, s < 64 -> mirror_sq (mirror_sq s) = s.
Proof. intros s _. apply mirror_sq_invol_all. Qed.

Definition chk_msq (s : N) : bool :=
  (mirror_sq s <? 64) && (mirror_sq s mod 8 =? s mod 8) && (mirror_sq s / 8 =? 7 - s / 8)
  && (nth (N.to_nat s) sq_list 0 =? s).
Lemma sweep_msq : all_sq chk_msq = true.
Proof. vm_compute. reflexivity. Qed.

Lemma msq_facts : forall s, s < 64 ->
  mirror_sq s < 64 /\ mirror_sq s mod 8 = s mod 8 /\ mirror_sq s / 8 = 7 - s / 8 /\ nth (N.to_nat s) sq_list 0 = s.
Proof.
  intros s Hs. pose proof (all_sq_spec _ sweep_msq s Hs) as H. unfold chk_msq in H.
  rewrite !andb_true_iff in H. destruct H as (((A & B) & C) & D).
  apply N.ltb_lt in A. apply N.eqb_eq in B, C, D. repeat split; assumption.
Qed.

Lemma mirror_sq_lt : forall s, s < 64 -> mirror_sq s < 64.
Proof. intros s Hs. apply (msq_facts s Hs). Qed.

Lemma mirror_sq_lt_iff : forall s, mirror_sq s < 64 <-> s < 64.
Proof.
  intros s. split; [|apply mirror_sq_lt]. intros H. rewrite <- (mirror_sq_invol_all s). apply mirror_sq_lt, H.
Qed.

Lemma mirror_sq_inj : forall a b, mirror_sq a = mirror_sq b -> a = b.
Proof. intros a b H. rewrite <- (mirror_sq_invol_all a), H. apply mirror_sq_invol_all. Qed.

Lemma mirror_sq_eqb : forall a b, (mirror_sq a =? mirror_sq b) = (a =? b).
Proof.
  intros a b. destruct (N.eqb_spec a b) as [->|N]; [apply N.eqb_refl|].
  apply N.eqb_neq. intros H. apply N, mirror_sq_inj, H.
Qed.

Lemma mirror_sq_eqb_l : forall a b, (mirror_sq a =? b) = (a =? mirror_sq b).
Proof. intros a b. rewrite <- (mirror_sq_invol_all b) at 1. apply mirror_sq_eqb. Qed.

Lemma file_of_mirror_sq : forall s, s < 64 -> file_of (mirror_sq s) = file_of s.
Proof. intros s Hs. unfold file_of. apply (msq_facts s Hs). Qed.

Lemma rank_of_mirror_sq : forall s, s < 64 -> rank_of (mirror_sq s) = 7 - rank_of s.
Proof. intros s Hs. unfold rank_of. apply (msq_facts s Hs). Qed.

Lemma rank_of_lt : forall s, s < 64 -> rank_of s < 8.
Proof. intros s Hs. unfold rank_of. apply N.div_lt_upper_bound; lia. Qed.

Lemma file_of_lt : forall s, file_of s < 8.
Proof. intros s. unfold file_of. apply N.mod_lt. discriminate. Qed.

Lemma sq_decomp : forall s, s = mk_sq (file_of s) (rank_of s).
Proof. intros s. unfold mk_sq, file_of, rank_of. rewrite (N.div_mod s 8) at 1 by discriminate. lia. Qed.

Lemma mk_sq_mirror : forall f r, f < 8 -> r < 8 -> mk_sq f (7 - r) = mirror_sq (mk_sq f r).
Proof.
  intros f r Hf Hr. assert (Hs : mk_sq f r < 64) by (unfold mk_sq; lia).
  destruct (ApplyFacts.file_rank_mk_sq f r Hf) as [Ef Er].
  rewrite (sq_decomp (mirror_sq (mk_sq f r))).
  rewrite file_of_mirror_sq, rank_of_mirror_sq, Ef, Er by exact Hs. reflexivity.
Qed.

Lemma mk_sq_rank_mirror : forall f s, f < 8 -> s < 64 ->
  mk_sq f (rank_of (mirror_sq s)) = mirror_sq (mk_sq f (rank_of s)).
Proof.
  intros f s Hf Hs. rewrite rank_of_mirror_sq by exact Hs. apply mk_sq_mirror; [exact Hf|apply rank_of_lt, Hs].
Qed.

Lemma sq_off_mirror : forall s df dr, s < 64 ->
  sq_off (mirror_sq s) df (- dr) = option_map mirror_sq (sq_off s df dr).
Proof.
  intros s df dr Hs. destruct (msq_facts s Hs) as (_ & Em & Ed & _).
  unfold sq_off. rewrite Em, Ed.
  assert (Hr : s / 8 < 8) by (apply N.div_lt_upper_bound; lia).
  assert (Hf : s mod 8 < 8) by (apply N.mod_lt; discriminate).
  set (f0 := s mod 8) in *. set (r0 := s / 8) in *.
  destruct ((0 <=? Z.of_N f0 + df)%Z && (Z.of_N f0 + df <? 8)%Z && (0 <=? Z.of_N r0 + dr)%Z && (Z.of_N r0 + dr <? 8)%Z) eqn:E.
  - assert (E' : ((0 <=? Z.of_N f0 + df)%Z && (Z.of_N f0 + df <? 8)%Z && (0 <=? Z.of_N (7 - r0) + - dr)%Z
                  && (Z.of_N (7 - r0) + - dr <? 8)%Z) = true) by lia.
    rewrite E'. cbn [option_map]. f_equal.
    set (f := (Z.of_N f0 + df)%Z) in *. set (r := (Z.of_N r0 + dr)%Z) in *.
    assert (Hf' : (0 <= f < 8)%Z) by lia. assert (Hr' : (0 <= r < 8)%Z) by lia.
    replace (Z.to_N ((Z.of_N (7 - r0) + - dr) * 8 + f)) with (mk_sq (Z.to_N f) (7 - Z.to_N r)) by (unfold mk_sq, r; lia).
    replace (Z.to_N (r * 8 + f)) with (mk_sq (Z.to_N f) (Z.to_N r)) by (unfold mk_sq; lia).
    apply mk_sq_mirror; lia.
  - assert (E' : ((0 <=? Z.of_N f0 + df)%Z && (Z.of_N f0 + df <? 8)%Z && (0 <=? Z.of_N (7 - r0) + - dr)%Z
                  && (Z.of_N (7 - r0) + - dr <? 8)%Z) = false) by lia.
    rewrite E'. reflexivity.
Qed.

(* flipping offsets and directions *)
Definition flipo (d : Z * Z) : Z * Z := (fst d, (- snd d)%Z).
Definition dflip (d : dir) : dir :=
  match d with DN => DS | DS => DN | DE => DE | DW => DW | DNE => DSE | DSE => DNE | DNW => DSW | DSW => DNW end.

Lemma dflip_invol : forall d, dflip (dflip d) = d.
Proof. intros []; reflexivity. Qed.

Lemma step_mirror : forall d s, s < 64 -> step (dflip d) (mirror_sq s) = option_map mirror_sq (step d s).
Proof.
  intros d s Hs. unfold step. rewrite <- sq_off_mirror by exact Hs. destruct d; reflexivity.
Qed.

Lemma ray_fuel_mirror : forall n d s, s < 64 -> ray_fuel n (dflip d) (mirror_sq s) = map mirror_sq (ray_fuel n d s).
Proof.
  induction n as [|n IH]; intros d s Hs; cbn [ray_fuel map]; [reflexivity|].
  rewrite step_mirror by exact Hs. destruct (step d s) as [t|] eqn:E; cbn [option_map map]; [|reflexivity].
  rewrite IH; [reflexivity|]. unfold step in E. apply (BridgeFacts.sq_off_lt _ _ _ _ E).
Qed.

Lemma ray_mirror : forall d s, s < 64 -> ray (dflip d) (mirror_sq s) = map mirror_sq (ray d s).
Proof. intros d s Hs. apply ray_fuel_mirror, Hs. Qed.

Lemma offs_mirror : forall s l, s < 64 -> offs (mirror_sq s) (map flipo l) = map mirror_sq (offs s l).
Proof.
  intros s l Hs. unfold offs. induction l as [|d l IH]; cbn [map flat_map]; [reflexivity|].
  rewrite map_app, IH. f_equal. unfold flipo. cbn [fst snd]. rewrite sq_off_mirror by exact Hs.
  destruct (sq_off s (fst d) (snd d)); reflexivity.
Qed.

(* offset lists closed under the flip *)
Definition flip_closed (l : list (Z * Z)) : Prop := forall x, In x l -> In (flipo x) l.

Lemma flipo_invol : forall x, flipo (flipo x) = x.
Proof. intros [a b]. unfold flipo. cbn [fst snd]. rewrite Z.opp_involutive. reflexivity. Qed.

Lemma knight_closed : flip_closed knight_offs.
Proof.
  intros x H. unfold knight_offs in *. cbn [In] in H.
  repeat (destruct H as [<-|H]; [cbn; tauto|]). contradiction.
Qed.
Lemma king_closed : flip_closed king_offs.
Proof.
  intros x H. unfold king_offs in *. cbn [In] in H.
  repeat (destruct H as [<-|H]; [cbn; tauto|]). contradiction.
Qed.

Lemma offs_in : forall s l t, In t (offs s l) <-> exists d, In d l /\ sq_off s (fst d) (snd d) = Some t.
Proof.
  intros s l t. unfold offs. rewrite in_flat_map. split; intros [d [A B]]; exists d; split; try exact A.
  - destruct (sq_off s (fst d) (snd d)) as [u|]; cbn [opt_list In] in B; [|contradiction].
    destruct B as [->|[]]. reflexivity.
  - rewrite B. left. reflexivity.
Qed.

(* membership in the offsets of the mirrored square *)
Lemma offs_closed_in : forall l s t, flip_closed l -> s < 64 ->
  In t (offs s l) -> In (mirror_sq t) (offs (mirror_sq s) l).
Proof.
  intros l s t Hc Hs H. apply offs_in in H. destruct H as [d [A B]].
  apply offs_in. exists (flipo d). split; [apply Hc, A|].
  unfold flipo. cbn [fst snd]. rewrite sq_off_mirror, B by exact Hs. reflexivity.
Qed.

Lemma offs_closed_iff : forall l s t, flip_closed l -> s < 64 ->
  (In (mirror_sq t) (offs (mirror_sq s) l) <-> In t (offs s l)).
Proof.
  intros l s t Hc Hs. split; [|apply offs_closed_in; assumption].
  intros H. apply (offs_closed_in l _ _ Hc (mirror_sq_lt s Hs)) in H.
  rewrite !mirror_sq_invol_all in H. exact H.
Qed.

Lemma existsb_map' : forall (A B : Type) (f : B -> bool) (g : A -> B) l,
  existsb f (map g l) = existsb (fun x => f (g x)) l.
Proof. intros A B f g l. induction l as [|a l IH]; cbn [map existsb]; [reflexivity|]. rewrite IH. reflexivity. Qed.

Lemma existsb_offs_closed : forall l (P : N -> bool) s, flip_closed l -> s < 64 ->
  existsb P (offs (mirror_sq s) l) = existsb (fun t => P (mirror_sq t)) (offs s l).
Proof.
  intros l P s Hc Hs. apply eq_iff_eq_true. rewrite !existsb_exists. split.
  - intros [t [A B]]. exists (mirror_sq t). rewrite mirror_sq_invol_all. split; [|exact B].
    apply (offs_closed_iff l s _ Hc Hs). rewrite mirror_sq_invol_all. exact A.
  - intros [t [A B]]. exists (mirror_sq t). split; [|exact B]. apply offs_closed_in; assumption.
Qed.

Lemma fwd_opp : forall c, fwd (opp c) = (- fwd c)%Z.
Proof. intros []; reflexivity. Qed.
Lemma last_rank_opp : forall c, last_rank (opp c) = 7 - last_rank c.
Proof. intros []; reflexivity. Qed.
Lemma home_rank_opp : forall c, home_rank (opp c) = 7 - home_rank c.
Proof. intros []; reflexivity. Qed.
Lemma start_rank_opp : forall c, start_rank (opp c) = 7 - start_rank c.
Proof. intros []; reflexivity. Qed.
Lemma ep_capture_rank_opp : forall c, ep_capture_rank (opp c) = 7 - ep_capture_rank c.
Proof. intros []; reflexivity. Qed.
Lemma ep_pawn_rank_opp : forall c, ep_pawn_rank (opp c) = 7 - ep_pawn_rank c.
Proof. intros []; reflexivity. Qed.
Lemma opp_opp : forall c, opp (opp c) = c.
Proof. intros []; reflexivity. Qed.

(* ------------------------------------------------------------------ *)
(** * 2. Mirrored cells *)

Definition mirror_cells (cs : list cell) : list cell :=
  map (fun s => mirror_cell (cell_at cs (mirror_sq s))) sq_list.

Lemma cells_mirror : forall p, cells (mirror p) = mirror_cells (cells p).
Proof. reflexivity. Qed.

Lemma sq_list_length : length sq_list = 64%nat.
Proof. reflexivity. Qed.

Lemma mirror_cells_length : forall cs, length (mirror_cells cs) = 64%nat.
Proof. intros cs. unfold mirror_cells. rewrite map_length. apply sq_list_length. Qed.

Lemma mirror_wfp : forall p, wfp (mirror p).
Proof. intros p. unfold wfp. rewrite cells_mirror. apply mirror_cells_length. Qed.

Lemma cell_at_mirror_cells_lt : forall cs s, s < 64 ->
  cell_at (mirror_cells cs) s = mirror_cell (cell_at cs (mirror_sq s)).
Proof.
  intros cs s Hs. unfold mirror_cells.
  set (f := fun s0 => mirror_cell (cell_at cs (mirror_sq s0))).
  change (cell_at (map f sq_list) s) with (nth (N.to_nat s) (map f sq_list) None).
  rewrite (nth_indep _ None (f 0)) by (rewrite map_length, sq_list_length; lia).
  rewrite map_nth. destruct (msq_facts s Hs) as (_ & _ & _ & E). rewrite E. reflexivity.
Qed.

Lemma mirror_cell_at : forall p s, s < 64 ->
  cell_at (cells (mirror p)) s = mirror_cell (cell_at (cells p) (mirror_sq s)).
Proof. intros p s Hs. rewrite cells_mirror. apply cell_at_mirror_cells_lt, Hs. Qed.

Lemma cell_at_ge : forall cs s, length cs = 64%nat -> 64 <= s -> cell_at cs s = None.
Proof. intros cs s Hl Hs. unfold cell_at. apply nth_overflow. lia. Qed.

(* on a 64-cell board the equation holds for every index *)
Lemma cell_at_mirror_cells : forall cs s, length cs = 64%nat ->
  cell_at (mirror_cells cs) s = mirror_cell (cell_at cs (mirror_sq s)).
Proof.
  intros cs s Hl. destruct (N.lt_ge_cases s 64) as [Hs|Hs]; [apply cell_at_mirror_cells_lt, Hs|].
  rewrite cell_at_ge by (try apply mirror_cells_length; exact Hs).
  rewrite cell_at_ge; [reflexivity|exact Hl|].
  destruct (N.lt_ge_cases (mirror_sq s) 64) as [H|H]; [|exact H]. apply (proj1 (mirror_sq_lt_iff s)) in H. lia.
Qed.

Lemma mirror_cell_invol : forall c, mirror_cell (mirror_cell c) = c.
Proof. intros [[[] p]|]; reflexivity. Qed.

Lemma mirror_cells_invol : forall cs, length cs = 64%nat -> mirror_cells (mirror_cells cs) = cs.
Proof.
  intros cs Hl. apply ApplyFacts.cells_ext; [apply mirror_cells_length|exact Hl|].
  intros s Hs. rewrite !cell_at_mirror_cells by (try apply mirror_cells_length; exact Hl).
  rewrite mirror_cell_invol, mirror_sq_invol_all. reflexivity.
Qed.

Theorem mirror_invol : forall p, wfp p -> mirror (mirror p) = p.
Proof.
  intros p Hp. apply ApplyFacts.position_ext; try reflexivity.
  - rewrite !cells_mirror. apply mirror_cells_invol, Hp.
  - cbn [mirror stm]. apply opp_opp.
Qed.

Lemma color_eqb_opp : forall a b, color_eqb (opp a) (opp b) = color_eqb a b.
Proof. intros [] []; reflexivity. Qed.

Section Cells.
  Variable cs : list cell.
  Hypothesis Hl : length cs = 64%nat.
  Let mcs := mirror_cells cs.

  Lemma is_piece_mirror : forall c pc s, is_piece mcs (opp c) pc (mirror_sq s) = is_piece cs c pc s.
  Proof.
    intros c pc s. unfold is_piece, mcs. rewrite cell_at_mirror_cells, mirror_sq_invol_all by exact Hl.
    destruct (cell_at cs s) as [[c' p']|]; cbn [mirror_cell]; [|reflexivity]. rewrite color_eqb_opp. reflexivity.
  Qed.

  Lemma occupied_mirror : forall s, occupied mcs (mirror_sq s) = occupied cs s.
  Proof.
    intros s. unfold occupied, mcs. rewrite cell_at_mirror_cells, mirror_sq_invol_all by exact Hl.
    destruct (cell_at cs s) as [[c' p']|]; reflexivity.
  Qed.

  Lemma has_color_mirror : forall c s, has_color mcs (opp c) (mirror_sq s) = has_color cs c s.
  Proof.
    intros c s. unfold has_color, mcs. rewrite cell_at_mirror_cells, mirror_sq_invol_all by exact Hl.
    destruct (cell_at cs s) as [[c' p']|]; cbn [mirror_cell]; [|reflexivity]. apply color_eqb_opp.
  Qed.

  Lemma first_occupied_mirror : forall l,
    first_occupied mcs (map mirror_sq l) = option_map mirror_sq (first_occupied cs l).
  Proof.
    induction l as [|t l IH]; cbn [map first_occupied]; [reflexivity|].
    rewrite occupied_mirror. destruct (occupied cs t); [reflexivity|exact IH].
  Qed.

  Lemma slide_targets_mirror : forall c l,
    slide_targets mcs (opp c) (map mirror_sq l) = map mirror_sq (slide_targets cs c l).
  Proof.
    intros c. induction l as [|t l IH]; cbn [map slide_targets]; [reflexivity|].
    unfold mcs at 1. rewrite cell_at_mirror_cells, mirror_sq_invol_all by exact Hl.
    destruct (cell_at cs t) as [[c' p']|]; cbn [mirror_cell map].
    - rewrite color_eqb_opp. destruct (color_eqb c c'); reflexivity.
    - fold mcs. rewrite IH. reflexivity.
  Qed.

  Lemma existsb_rook_flip : forall f : dir -> bool, existsb f rook_dirs = existsb (fun d => f (dflip d)) rook_dirs.
  Proof. intros f. cbn [existsb rook_dirs dflip]. destruct (f DN), (f DS); reflexivity. Qed.
  Lemma existsb_bishop_flip : forall f : dir -> bool, existsb f bishop_dirs = existsb (fun d => f (dflip d)) bishop_dirs.
  Proof.
    intros f. cbn [existsb bishop_dirs dflip]. destruct (f DNE), (f DNW), (f DSE), (f DSW); reflexivity.
  Qed.

  Lemma slider_test_mirror : forall c pc d s, s < 64 ->
    match first_occupied mcs (ray (dflip d) (mirror_sq s)) with
    | Some t => is_piece mcs (opp c) pc t || is_piece mcs (opp c) Queen t | None => false end
    = match first_occupied cs (ray d s) with
      | Some t => is_piece cs c pc t || is_piece cs c Queen t | None => false end.
  Proof.
    intros c pc d s Hs. rewrite ray_mirror by exact Hs. rewrite first_occupied_mirror.
    destruct (first_occupied cs (ray d s)) as [t|]; cbn [option_map]; [|reflexivity].
    rewrite !is_piece_mirror. reflexivity.
  Qed.

  Theorem attacked_by_mirror_cells : forall c s, s < 64 ->
    attacked_by mcs (opp c) (mirror_sq s) = attacked_by cs c s.
  Proof.
    intros c s Hs. rewrite !BridgeFacts.attacked_by_unfold. f_equal; [f_equal; [f_equal; [f_equal|]|]|].
    - rewrite (existsb_offs_closed _ _ _ knight_closed Hs). apply BridgeFacts.existsb_ext_in.
      intros t _. apply is_piece_mirror.
    - rewrite (existsb_offs_closed _ _ _ king_closed Hs). apply BridgeFacts.existsb_ext_in.
      intros t _. apply is_piece_mirror.
    - replace [((-1)%Z, (- fwd (opp c))%Z); (1%Z, (- fwd (opp c))%Z)]
        with (map flipo [((-1)%Z, (- fwd c)%Z); (1%Z, (- fwd c)%Z)]) by (destruct c; reflexivity).
      rewrite offs_mirror by exact Hs. rewrite existsb_map'. apply BridgeFacts.existsb_ext_in.
      intros t _. apply is_piece_mirror.
    - rewrite existsb_rook_flip. apply BridgeFacts.existsb_ext_in. intros d _. apply slider_test_mirror, Hs.
    - rewrite existsb_bishop_flip. apply BridgeFacts.existsb_ext_in. intros d _. apply slider_test_mirror, Hs.
  Qed.

  (* at most one king of colour c *)
  Definition uniq_king_cells (cs0 : list cell) (c : color) : Prop :=
    forall a b, a < 64 -> b < 64 -> is_piece cs0 c King a = true -> is_piece cs0 c King b = true -> a = b.

  Lemma king_square_mirror : forall c, uniq_king_cells cs c ->
    king_square mcs (opp c) = option_map mirror_sq (king_square cs c).
  Proof.
    intros c Hu. rewrite !BridgeFacts.king_square_unfold.
    destruct (find (is_piece cs c King) sq_list) as [k|] eqn:E; cbn [option_map].
    - apply find_some in E. destruct E as [Hin Hk]. apply sq_list_lt in Hin.
      destruct (find (is_piece mcs (opp c) King) sq_list) as [k'|] eqn:E'.
      + apply find_some in E'. destruct E' as [Hin' Hk']. apply sq_list_lt in Hin'.
        rewrite <- (mirror_sq_invol_all k'), is_piece_mirror in Hk'.
        f_equal. rewrite <- (Hu _ _ (mirror_sq_lt _ Hin') Hin Hk' Hk). symmetry. apply mirror_sq_invol_all.
      + exfalso. pose proof (find_none _ _ E' (mirror_sq k) (in_sq_list _ (mirror_sq_lt _ Hin))) as H.
        rewrite is_piece_mirror in H. congruence.
    - destruct (find (is_piece mcs (opp c) King) sq_list) as [k'|] eqn:E'; [|reflexivity].
      exfalso. apply find_some in E'. destruct E' as [Hin' Hk']. apply sq_list_lt in Hin'.
      rewrite <- (mirror_sq_invol_all k'), is_piece_mirror in Hk'.
      pose proof (find_none _ _ E (mirror_sq k') (in_sq_list _ (mirror_sq_lt _ Hin'))) as H. congruence.
  Qed.
End Cells.

(* ------------------------------------------------------------------ *)
(** * 3. attacked_by / in_check on positions *)

Definition uniq_king (p : position) (c : color) : Prop := uniq_king_cells (cells p) c.

Theorem attacked_by_mirror : forall p c s, wfp p -> s < 64 ->
  attacked_by (cells (mirror p)) (opp c) (mirror_sq s) = attacked_by (cells p) c s.
Proof. intros p c s Hp Hs. rewrite cells_mirror. apply attacked_by_mirror_cells; assumption. Qed.

Lemma in_check_cells_mirror : forall cs c, length cs = 64%nat -> uniq_king_cells cs c ->
  in_check_cells (mirror_cells cs) (opp c) = in_check_cells cs c.
Proof.
  intros cs c Hl Hu. rewrite !BridgeFacts.in_check_cells_unfold. rewrite king_square_mirror by assumption.
  destruct (king_square cs c) as [k|] eqn:E; cbn [option_map]; [|reflexivity].
  rewrite BridgeFacts.king_square_unfold in E. apply find_some in E. destruct E as [Hin _]. apply sq_list_lt in Hin.
  apply attacked_by_mirror_cells; assumption.
Qed.

(* needs: the side to move has at most one king (king_square takes the FIRST king in square order,
   and the mirror reverses the rank order) *)
Theorem in_check_mirror : forall p, wfp p -> uniq_king p (stm p) -> in_check (mirror p) = in_check p.
Proof. intros p Hp Hu. unfold in_check. rewrite cells_mirror. cbn [mirror stm]. apply in_check_cells_mirror; assumption. Qed.

(* ------------------------------------------------------------------ *)
(** * 4. make *)

Lemma cell_set_mirror : forall cs s v, length cs = 64%nat -> s < 64 ->
  cell_set (mirror_cells cs) (mirror_sq s) (mirror_cell v) = mirror_cells (cell_set cs s v).
Proof.
  intros cs s v Hl Hs. apply ApplyFacts.cells_ext.
  - rewrite ApplyFacts.cell_set_length. apply mirror_cells_length.
  - apply mirror_cells_length.
  - intros t Ht. rewrite ApplyFacts.cell_at_cell_set
      by (rewrite mirror_cells_length; pose proof (mirror_sq_lt s Hs); lia).
    rewrite !cell_at_mirror_cells by (rewrite ?ApplyFacts.cell_set_length; exact Hl).
    rewrite ApplyFacts.cell_at_cell_set by lia. rewrite mirror_sq_eqb_l.
    destruct (t =? mirror_sq s); reflexivity.
Qed.

Lemma cell_set_mirror_None : forall cs s, length cs = 64%nat -> s < 64 ->
  cell_set (mirror_cells cs) (mirror_sq s) None = mirror_cells (cell_set cs s None).
Proof. intros cs s Hl Hs. apply (cell_set_mirror cs s None Hl Hs). Qed.

Lemma cell_set_mirror_Some : forall cs s c pc, length cs = 64%nat -> s < 64 ->
  cell_set (mirror_cells cs) (mirror_sq s) (Some (opp c, pc)) = mirror_cells (cell_set cs s (Some (c, pc))).
Proof. intros cs s c pc Hl Hs. apply (cell_set_mirror cs s (Some (c, pc)) Hl Hs). Qed.

Definition with_fm (n : N) (p : position) : position :=
  {| cells := cells p; stm := stm p; cr_wk := cr_wk p; cr_wq := cr_wq p; cr_bk := cr_bk p; cr_bq := cr_bq p;
     epf := epf p; hm := hm p; fm := n |}.

Lemma absdiff_flip : forall a b, a < 8 -> b < 8 -> absdiff (7 - a) (7 - b) = absdiff a b.
Proof. intros a b Ha Hb. unfold absdiff. destruct (N.ltb_spec (7 - a) (7 - b)), (N.ltb_spec a b); lia. Qed.

Lemma touches_mirror : forall m x, ApplyFacts.mk_touches (mirror_move m) (mirror_sq x) = ApplyFacts.mk_touches m x.
Proof.
  intros m x. unfold ApplyFacts.mk_touches. cbn [mirror_move mk m_src m_dst]. rewrite !mirror_sq_eqb. reflexivity.
Qed.

Section Make.
  Variables (p : position) (m : move).
  Hypothesis Hp : wfp p.
  Hypothesis Hs : m_src m < 64.
  Hypothesis Hd : m_dst m < 64.

  Lemma make_mirror_empty : cell_at (cells p) (m_src m) = None ->
    make (mirror p) (mirror_move m) = mirror (make p m).
  Proof.
    intros E. unfold make at 2. rewrite E. unfold make.
    change (m_src (mirror_move m)) with (mirror_sq (m_src m)).
    rewrite mirror_cell_at by (apply mirror_sq_lt, Hs). rewrite mirror_sq_invol_all, E. reflexivity.
  Qed.

  Variables (c0 : color) (pc : piece).
  Hypothesis Hsrc : cell_at (cells p) (m_src m) = Some (c0, pc).

  Lemma src_mirror : cell_at (cells (mirror p)) (m_src (mirror_move m)) = Some (opp c0, pc).
  Proof.
    change (m_src (mirror_move m)) with (mirror_sq (m_src m)).
    rewrite mirror_cell_at by (apply mirror_sq_lt, Hs). rewrite mirror_sq_invol_all, Hsrc. reflexivity.
  Qed.

  Lemma capture_mirror : ApplyFacts.mk_capture (mirror p) (mirror_move m) = ApplyFacts.mk_capture p m.
  Proof.
    unfold ApplyFacts.mk_capture. change (m_dst (mirror_move m)) with (mirror_sq (m_dst m)).
    rewrite cells_mirror. apply occupied_mirror, Hp.
  Qed.

  Lemma cs3_mirror : ApplyFacts.mk_cs3 (mirror p) (mirror_move m) pc = mirror_cells (ApplyFacts.mk_cs3 p m pc).
  Proof.
    assert (Hrs : rank_of (m_src m) < 8) by (apply rank_of_lt, Hs).
    assert (H1 : ApplyFacts.mk_cs1 (mirror p) (mirror_move m) pc = mirror_cells (ApplyFacts.mk_cs1 p m pc)).
    { unfold ApplyFacts.mk_cs1, ApplyFacts.mk_placed. cbn [mirror_move mk m_src m_dst m_promo].
      rewrite cells_mirror. cbn [mirror stm].
      rewrite cell_set_mirror_None by assumption.
      rewrite cell_set_mirror_Some by (rewrite ?ApplyFacts.cell_set_length; assumption). reflexivity. }
    assert (L1 : length (ApplyFacts.mk_cs1 p m pc) = 64%nat).
    { unfold ApplyFacts.mk_cs1. rewrite !ApplyFacts.cell_set_length. exact Hp. }
    assert (H2 : ApplyFacts.mk_cs2 (mirror p) (mirror_move m) pc = mirror_cells (ApplyFacts.mk_cs2 p m pc)).
    { unfold ApplyFacts.mk_cs2, ApplyFacts.mk_ep_capture. rewrite capture_mirror, H1.
      cbn [mirror_move mk m_src m_dst m_promo]. rewrite !file_of_mirror_sq by assumption.
      destruct (piece_eqb pc Pawn && negb (file_of (m_src m) =? file_of (m_dst m)) && negb (ApplyFacts.mk_capture p m));
        [|reflexivity].
      rewrite mk_sq_rank_mirror by (try apply file_of_lt; assumption).
      apply cell_set_mirror_None; [exact L1|]. apply ApplyFacts.mk_sq_lt; [apply file_of_lt|exact Hrs]. }
    assert (L2 : length (ApplyFacts.mk_cs2 p m pc) = 64%nat).
    { unfold ApplyFacts.mk_cs2. destruct (ApplyFacts.mk_ep_capture p m pc); rewrite ?ApplyFacts.cell_set_length; exact L1. }
    unfold ApplyFacts.mk_cs3, ApplyFacts.mk_castle. rewrite H2.
    cbn [mirror_move mk m_src m_dst m_promo]. rewrite !file_of_mirror_sq by assumption. cbn [mirror stm].
    destruct (piece_eqb pc King && (absdiff (file_of (m_src m)) (file_of (m_dst m)) =? 2)); [|reflexivity].
    rewrite !mk_sq_rank_mirror by (assumption || lia).
    destruct (file_of (m_dst m) =? 6).
    - rewrite cell_set_mirror_None by (try apply ApplyFacts.mk_sq_lt; assumption || lia).
      apply cell_set_mirror_Some; [rewrite ApplyFacts.cell_set_length; exact L2|apply ApplyFacts.mk_sq_lt; lia].
    - rewrite cell_set_mirror_None by (try apply ApplyFacts.mk_sq_lt; assumption || lia).
      apply cell_set_mirror_Some; [rewrite ApplyFacts.cell_set_length; exact L2|apply ApplyFacts.mk_sq_lt; lia].
  Qed.

  Lemma make_mirror_full :
    make (mirror p) (mirror_move m) = with_fm (match stm p with White => fm p + 1 | Black => fm p end) (mirror (make p m)).
  Proof.
    rewrite (ApplyFacts.make_unfold _ _ _ _ src_mirror), (ApplyFacts.make_unfold _ _ _ _ Hsrc).
    unfold with_fm, mirror at 9. cbn [cells stm cr_wk cr_wq cr_bk cr_bq epf hm fm].
    rewrite cs3_mirror, capture_mirror.
    change 4 with (mirror_sq 60). change 7 with (mirror_sq 63). change 0 with (mirror_sq 56) at 1 2.
    rewrite !touches_mirror.
    change (ApplyFacts.mk_touches (mirror_move m) 60) with (ApplyFacts.mk_touches (mirror_move m) (mirror_sq 4)).
    change (ApplyFacts.mk_touches (mirror_move m) 63) with (ApplyFacts.mk_touches (mirror_move m) (mirror_sq 7)).
    change (ApplyFacts.mk_touches (mirror_move m) 56) with (ApplyFacts.mk_touches (mirror_move m) (mirror_sq 0)).
    rewrite !touches_mirror.
    cbn [mirror_move mk m_src m_dst m_promo mirror stm cr_wk cr_wq cr_bk cr_bq epf hm fm].
    rewrite !rank_of_mirror_sq, file_of_mirror_sq by assumption.
    rewrite absdiff_flip by (apply rank_of_lt; assumption).
    f_equal. destruct (stm p); reflexivity.
  Qed.
End Make.

Lemma make_mirror_full' : forall p m, wfp p -> m_src m < 64 -> m_dst m < 64 ->
  forall c0 pc, cell_at (cells p) (m_src m) = Some (c0, pc) ->
  make (mirror p) (mirror_move m)
  = with_fm (match stm p with White => fm p + 1 | Black => fm p end) (mirror (make p m)).
Proof. intros p m Hp Hs Hd c0 pc Hsrc. apply (make_mirror_full p m Hp Hs Hd c0 pc Hsrc). Qed.

(* the successor of the mirrored position is the mirror of the successor, except for the full-move
   counter (it advances after Black's move, which is not colour symmetric) *)
Theorem make_mirror : forall p m, wfp p -> m_src m < 64 -> m_dst m < 64 ->
  with_fm 0 (make (mirror p) (mirror_move m)) = with_fm 0 (mirror (make p m)).
Proof.
  intros p m Hp Hs Hd. destruct (cell_at (cells p) (m_src m)) as [[c0 pc]|] eqn:E.
  - rewrite (make_mirror_full' p m Hp Hs Hd c0 pc E). reflexivity.
  - rewrite (make_mirror_empty p m Hs E). reflexivity.
Qed.

Theorem make_mirror_cells : forall p m, wfp p -> m_src m < 64 -> m_dst m < 64 ->
  cells (make (mirror p) (mirror_move m)) = mirror_cells (cells (make p m)).
Proof.
  intros p m Hp Hs Hd. change (cells (make (mirror p) (mirror_move m))) with (cells (with_fm 0 (make (mirror p) (mirror_move m)))).
  rewrite make_mirror by assumption. reflexivity.
Qed.

(* when the source square is empty nothing happens on either side, full-move counter included *)
Theorem make_mirror_empty_src : forall p m, wfp p -> m_src m < 64 -> cell_at (cells p) (m_src m) = None ->
  make (mirror p) (mirror_move m) = mirror (make p m).
Proof. intros p m _ Hs E. apply make_mirror_empty; assumption. Qed.

(* the full-move counters of the two sides, explicitly *)
Theorem make_mirror_fm : forall p m c0 pc, wfp p -> m_src m < 64 -> m_dst m < 64 ->
  cell_at (cells p) (m_src m) = Some (c0, pc) ->
  fm (make (mirror p) (mirror_move m)) = (match stm p with White => fm p + 1 | Black => fm p end)
  /\ fm (mirror (make p m)) = (match stm p with White => fm p | Black => fm p + 1 end).
Proof.
  intros p m c0 pc Hp Hs Hd E. split.
  - rewrite (make_mirror_full' p m Hp Hs Hd c0 pc E). reflexivity.
  - rewrite (ApplyFacts.make_unfold _ _ _ _ E). reflexivity.
Qed.

Lemma make_wfp : forall p m, wfp p -> wfp (make p m).
Proof.
  intros p m Hp. destruct (cell_at (cells p) (m_src m)) as [[c0 pc]|] eqn:E.
  - unfold wfp. rewrite (ApplyFacts.make_cells _ _ _ _ E).
    unfold ApplyFacts.mk_cs3, ApplyFacts.mk_cs2, ApplyFacts.mk_cs1.
    destruct (ApplyFacts.mk_castle m pc); [destruct (file_of (m_dst m) =? 6)|];
      destruct (ApplyFacts.mk_ep_capture p m pc); rewrite ?ApplyFacts.cell_set_length; exact Hp.
  - unfold make. rewrite E. exact Hp.
Qed.

Lemma move_eta : forall m, m = mk (m_src m) (m_dst m) (m_promo m).
Proof. intros []; reflexivity. Qed.

Lemma mirror_move_invol_all : forall m, mirror_move (mirror_move m) = m.
Proof.
  intros m. unfold mirror_move. cbn [mk m_src m_dst m_promo]. rewrite !mirror_sq_invol_all. symmetry. apply move_eta.
Qed.

Lemma mirror_move_invol : forall m, m_src m < 64 -> m_dst m < 64 -> mirror_move (mirror_move m) = m.
Proof. intros m _ _. apply mirror_move_invol_all. Qed.

(* ------------------------------------------------------------------ *)
(** * 5. Pseudo-legal moves *)

Lemma flat_map_map_in : forall (A B C : Type) (h : A -> A) (k : B -> C) (G' : A -> list C) (G : A -> list B) l,
  (forall t, In t l -> G' (h t) = map k (G t)) -> flat_map G' (map h l) = map k (flat_map G l).
Proof.
  intros A B C h k G' G l. induction l as [|a l IH]; intros H; cbn [map flat_map]; [reflexivity|].
  rewrite map_app, H by (left; reflexivity). rewrite IH; [reflexivity|]. intros t Ht. apply H. right. exact Ht.
Qed.

Lemma eqb_flip : forall a b, a < 8 -> b < 8 -> (7 - a =? 7 - b) = (a =? b).
Proof. intros a b Ha Hb. destruct (N.eqb_spec a b), (N.eqb_spec (7 - a) (7 - b)); try reflexivity; lia. Qed.

Lemma last_rank_lt : forall c, last_rank c < 8. Proof. intros []; cbn; lia. Qed.
Lemma home_rank_lt : forall c, home_rank c < 8. Proof. intros []; cbn; lia. Qed.
Lemma start_rank_lt : forall c, start_rank c < 8. Proof. intros []; cbn; lia. Qed.
Lemma ep_capture_rank_lt : forall c, ep_capture_rank c < 8. Proof. intros []; cbn; lia. Qed.
Lemma ep_pawn_rank_lt : forall c, ep_pawn_rank c < 8. Proof. intros []; cbn; lia. Qed.

Lemma with_promos_mirror : forall c s d, d < 64 ->
  with_promos (opp c) (mirror_sq s) (mirror_sq d) = map mirror_move (with_promos c s d).
Proof.
  intros c s d Hd. unfold with_promos. rewrite rank_of_mirror_sq, last_rank_opp by exact Hd.
  rewrite eqb_flip by (try apply rank_of_lt; try apply last_rank_lt; exact Hd).
  destruct (rank_of d =? last_rank c); [|reflexivity]. rewrite map_map. reflexivity.
Qed.

Section Pseudo.
  Variable p : position.
  Hypothesis Hp : wfp p.
  Let cs := cells p.
  Let c := stm p.

  Lemma is_ep_target_mirror : forall t, t < 64 ->
    is_ep_target (mirror p) (opp c) (mirror_sq t) = is_ep_target p c t.
  Proof.
    intros t Ht. unfold is_ep_target. cbn [mirror epf]. destruct (epf p) as [f|]; [|reflexivity].
    rewrite file_of_mirror_sq, rank_of_mirror_sq by exact Ht.
    destruct (N.eqb_spec (file_of t) f) as [E|_]; [|reflexivity]. cbn [andb].
    assert (Hf : f < 8) by (rewrite <- E; apply file_of_lt).
    rewrite ep_capture_rank_opp, ep_pawn_rank_opp.
    rewrite eqb_flip by (try apply rank_of_lt; try apply ep_capture_rank_lt; exact Ht).
    rewrite (mk_sq_mirror f _ Hf (ep_pawn_rank_lt c)).
    change (cells (mirror p)) with (mirror_cells (cells p)).
    rewrite (occupied_mirror (cells p) Hp), (is_piece_mirror (cells p) Hp). reflexivity.
  Qed.

  Lemma pawn_moves_mirror : forall s, s < 64 ->
    pawn_moves_from (mirror p) (mirror_sq s) = map mirror_move (pawn_moves_from p s).
  Proof.
    intros s Hs. unfold pawn_moves_from. cbv zeta.
    change (cells (mirror p)) with (mirror_cells (cells p)). change (stm (mirror p)) with (opp (stm p)).
    fold cs c. rewrite map_app. f_equal.
    - (* pushes *)
      rewrite fwd_opp. rewrite sq_off_mirror by exact Hs.
      destruct (sq_off s 0 (fwd c)) as [t1|] eqn:E1; cbn [option_map]; [|reflexivity].
      pose proof (BridgeFacts.sq_off_lt _ _ _ _ E1) as Ht1.
      unfold cs. rewrite (occupied_mirror (cells p) Hp). fold cs.
      destruct (occupied cs t1); [reflexivity|].
      rewrite map_app, with_promos_mirror by exact Ht1. f_equal.
      rewrite rank_of_mirror_sq, start_rank_opp by exact Hs.
      rewrite eqb_flip by (try apply rank_of_lt; try apply start_rank_lt; exact Hs).
      destruct (rank_of s =? start_rank c); [|reflexivity].
      replace (2 * - fwd c)%Z with (- (2 * fwd c))%Z by lia.
      rewrite sq_off_mirror by exact Hs.
      destruct (sq_off s 0 (2 * fwd c)) as [t2|] eqn:E2; cbn [option_map]; [|reflexivity].
      unfold cs. rewrite (occupied_mirror (cells p) Hp). fold cs.
      destruct (occupied cs t2); reflexivity.
    - (* captures *)
      replace [((-1)%Z, fwd (opp c)); (1%Z, fwd (opp c))] with (map flipo [((-1)%Z, fwd c); (1%Z, fwd c)])
        by (destruct c; reflexivity).
      rewrite offs_mirror by exact Hs. apply flat_map_map_in.
      intros t Hin. pose proof (BridgeFacts.offs_lt _ _ _ Hin) as Ht.
      rewrite opp_opp. rewrite <- (opp_opp c) at 1. unfold cs.
      rewrite (has_color_mirror (cells p) Hp). fold cs.
      rewrite is_ep_target_mirror by exact Ht. rewrite with_promos_mirror by exact Ht.
      destruct (has_color cs (opp c) t); [reflexivity|]. destruct (is_ep_target p c t); reflexivity.
  Qed.

  Lemma step_moves_mirror : forall l s m, flip_closed l -> s < 64 ->
    In m (map (fun t => mk s t None) (filter (fun t => negb (has_color cs c t)) (offs s l))) ->
    In (mirror_move m) (map (fun t => mk (mirror_sq s) t None)
                            (filter (fun t => negb (has_color (mirror_cells cs) (opp c) t)) (offs (mirror_sq s) l))).
  Proof.
    intros l s m Hc Hs H. apply in_map_iff in H. destruct H as [t [<- H]]. apply filter_In in H. destruct H as [A B].
    apply in_map_iff. exists (mirror_sq t). split; [reflexivity|]. apply filter_In. split.
    - apply offs_closed_in; assumption.
    - unfold cs. rewrite (has_color_mirror (cells p) Hp). exact B.
  Qed.

  Definition dirs_closed (ds : list dir) : Prop := forall d, In d ds -> In (dflip d) ds.
  Lemma rook_dirs_closed : dirs_closed rook_dirs.
  Proof. intros d H. cbn in H. repeat (destruct H as [<-|H]; [cbn; tauto|]). contradiction. Qed.
  Lemma bishop_dirs_closed : dirs_closed bishop_dirs.
  Proof. intros d H. cbn in H. repeat (destruct H as [<-|H]; [cbn; tauto|]). contradiction. Qed.
  Lemma all_dirs_closed : dirs_closed all_dirs.
  Proof. intros d H. cbn in H. repeat (destruct H as [<-|H]; [cbn; tauto|]). contradiction. Qed.

  Lemma slide_moves_mirror : forall ds s m, dirs_closed ds -> s < 64 ->
    In m (map (fun t => mk s t None) (flat_map (fun d => slide_targets cs c (ray d s)) ds)) ->
    In (mirror_move m) (map (fun t => mk (mirror_sq s) t None)
                            (flat_map (fun d => slide_targets (mirror_cells cs) (opp c) (ray d (mirror_sq s))) ds)).
  Proof.
    intros ds s m Hc Hs H. apply in_map_iff in H. destruct H as [t [<- H]]. apply in_flat_map in H.
    destruct H as [d [A B]].
    apply in_map_iff. exists (mirror_sq t). split; [reflexivity|]. apply in_flat_map. exists (dflip d).
    split; [apply Hc, A|]. rewrite ray_mirror by exact Hs. unfold cs.
    rewrite (slide_targets_mirror (cells p) Hp). apply in_map. exact B.
  Qed.

  Lemma piece_moves_mirror : forall s pc m, s < 64 ->
    In m (piece_moves_from p s pc) -> In (mirror_move m) (piece_moves_from (mirror p) (mirror_sq s) pc).
  Proof.
    intros s pc m Hs H. unfold piece_moves_from in *. cbv zeta in *.
    change (cells (mirror p)) with (mirror_cells (cells p)). change (stm (mirror p)) with (opp (stm p)).
    fold cs c in H |- *. destruct pc.
    - rewrite pawn_moves_mirror by exact Hs. apply in_map, H.
    - apply step_moves_mirror; [apply knight_closed|exact Hs|exact H].
    - apply slide_moves_mirror; [apply bishop_dirs_closed|exact Hs|exact H].
    - apply slide_moves_mirror; [apply rook_dirs_closed|exact Hs|exact H].
    - apply slide_moves_mirror; [apply all_dirs_closed|exact Hs|exact H].
    - apply step_moves_mirror; [apply king_closed|exact Hs|exact H].
  Qed.

  Lemma can_castle_right_mirror : forall sd, can_castle_right (mirror p) (opp c) sd = can_castle_right p c sd.
  Proof. intros sd. unfold can_castle_right. destruct c, sd; reflexivity. Qed.

  Lemma castle_moves_mirror : castle_moves (mirror p) = map mirror_move (castle_moves p).
  Proof.
    unfold castle_moves. cbv zeta.
    change (cells (mirror p)) with (mirror_cells (cells p)). change (stm (mirror p)) with (opp (stm p)).
    fold cs c. rewrite home_rank_opp.
    pose proof (home_rank_lt c) as Hr. set (r := home_rank c) in *.
    rewrite !(fun f Hf => mk_sq_mirror f r Hf Hr) by lia.
    assert (Hk : forall f, f < 8 -> mk_sq f r < 64) by (intros f Hf; apply ApplyFacts.mk_sq_lt; assumption).
    unfold cs.
    rewrite !(is_piece_mirror (cells p) Hp), !(occupied_mirror (cells p) Hp).
    rewrite !(attacked_by_mirror_cells (cells p) Hp) by (apply Hk; lia).
    rewrite !can_castle_right_mirror. fold cs.
    destruct (negb (is_piece cs c King (mk_sq 4 r)) || attacked_by cs (opp c) (mk_sq 4 r)); [reflexivity|].
    rewrite map_app. f_equal.
    - match goal with |- (if ?b then _ else _) = _ => destruct b end; reflexivity.
    - match goal with |- (if ?b then _ else _) = _ => destruct b end; reflexivity.
  Qed.

  Lemma pseudo_mirror_fwd : forall m, In m (pseudo p) -> In (mirror_move m) (pseudo (mirror p)).
  Proof.
    intros m H. rewrite ApplyFacts.pseudo_unfold in *. apply in_app_or in H. apply in_or_app. destruct H as [H|H].
    - left. apply in_flat_map in H. destruct H as [s [Hin H]]. apply sq_list_lt in Hin.
      apply in_flat_map. exists (mirror_sq s). split; [apply in_sq_list, mirror_sq_lt, Hin|].
      rewrite mirror_cell_at by (apply mirror_sq_lt, Hin). rewrite mirror_sq_invol_all.
      destruct (cell_at (cells p) s) as [[c' pc]|]; [|contradiction]. cbn [mirror_cell].
      change (stm (mirror p)) with (opp (stm p)). rewrite color_eqb_opp.
      destruct (color_eqb c' (stm p)); [|contradiction]. apply piece_moves_mirror; assumption.
    - right. rewrite castle_moves_mirror. apply in_map, H.
  Qed.
End Pseudo.

Theorem pseudo_mirror : forall p m, wfp p -> (In (mirror_move m) (pseudo (mirror p)) <-> In m (pseudo p)).
Proof.
  intros p m Hp. split; [|apply pseudo_mirror_fwd, Hp].
  intros H. apply (pseudo_mirror_fwd (mirror p) (mirror_wfp p)) in H.
  rewrite mirror_move_invol_all, (mirror_invol p Hp) in H. exact H.
Qed.

(* ------------------------------------------------------------------ *)
(** * 6. Shape of pseudo-legal moves; kings are preserved by make *)

Lemma is_piece_true : forall cs c pc s, is_piece cs c pc s = true <-> cell_at cs s = Some (c, pc).
Proof.
  intros cs c pc s. unfold is_piece. destruct (cell_at cs s) as [[c' p']|]; [|split; discriminate].
  rewrite andb_true_iff, BridgeFacts.color_eqb_eq, BridgeFacts.piece_eqb_eq'. split.
  - intros [-> ->]. reflexivity.
  - intros E. injection E as -> ->. split; reflexivity.
Qed.

Lemma with_promos_in : forall c s d m, In m (with_promos c s d) ->
  m_src m = s /\ m_dst m = d /\ m_promo m <> Some King.
Proof.
  intros c s d m H. unfold with_promos in H. destruct (rank_of d =? last_rank c).
  - apply in_map_iff in H. destruct H as [q [<- Hq]]. cbn [mk m_src m_dst m_promo]. repeat split.
    unfold promo_pieces in Hq. cbn [In] in Hq. intros E. injection E as ->.
    repeat (destruct Hq as [Hq|Hq]; [discriminate Hq|]). contradiction.
  - destruct H as [<-|[]]. cbn [mk m_src m_dst m_promo]. repeat split. discriminate.
Qed.

Lemma pawn_moves_shape : forall p s m, In m (pawn_moves_from p s) ->
  m_src m = s /\ m_dst m < 64 /\ m_promo m <> Some King.
Proof.
  intros p s m H. unfold pawn_moves_from in H. cbv zeta in H. apply in_app_or in H. destruct H as [H|H].
  - destruct (sq_off s 0 (fwd (stm p))) as [t1|] eqn:E1; [|contradiction].
    pose proof (BridgeFacts.sq_off_lt _ _ _ _ E1) as Ht1.
    destruct (occupied (cells p) t1); [contradiction|]. apply in_app_or in H. destruct H as [H|H].
    + destruct (with_promos_in _ _ _ _ H) as (A & B & C). rewrite A, B. repeat split; assumption.
    + destruct (rank_of s =? start_rank (stm p)); [|contradiction].
      destruct (sq_off s 0 (2 * fwd (stm p))) as [t2|] eqn:E2; [|contradiction].
      pose proof (BridgeFacts.sq_off_lt _ _ _ _ E2) as Ht2.
      destruct (occupied (cells p) t2); [contradiction|]. destruct H as [<-|[]].
      cbn [mk m_src m_dst m_promo]. repeat split; [exact Ht2|discriminate].
  - apply in_flat_map in H. destruct H as [t [Hin H]]. pose proof (BridgeFacts.offs_lt _ _ _ Hin) as Ht.
    destruct (has_color (cells p) (opp (stm p)) t).
    + destruct (with_promos_in _ _ _ _ H) as (A & B & C). rewrite A, B. repeat split; assumption.
    + destruct (is_ep_target p (stm p) t); [|contradiction]. destruct H as [<-|[]].
      cbn [mk m_src m_dst m_promo]. repeat split; [exact Ht|discriminate].
Qed.

Lemma piece_moves_shape : forall p s pc m, In m (piece_moves_from p s pc) ->
  m_src m = s /\ m_dst m < 64 /\ m_promo m <> Some King.
Proof.
  intros p s pc m H. unfold piece_moves_from in H. cbv zeta in H.
  assert (Hstep : forall l f, In m (map (fun t => mk s t None) (filter f (offs s l))) ->
                  m_src m = s /\ m_dst m < 64 /\ m_promo m <> Some King).
  { intros l f K. apply in_map_iff in K. destruct K as [t [<- K]]. apply filter_In in K. destruct K as [K _].
    cbn [mk m_src m_dst m_promo]. repeat split; [apply (BridgeFacts.offs_lt _ _ _ K)|discriminate]. }
  assert (Hslide : forall cs c ds, In m (map (fun t => mk s t None) (flat_map (fun d => slide_targets cs c (ray d s)) ds)) ->
                  m_src m = s /\ m_dst m < 64 /\ m_promo m <> Some King).
  { intros cs c ds K. apply in_map_iff in K. destruct K as [t [<- K]]. apply in_flat_map in K. destruct K as [d [_ K]].
    apply ApplyFacts.slide_targets_spec in K. destruct K as [K _].
    cbn [mk m_src m_dst m_promo]. repeat split; [apply (BridgeFacts.ray_lt _ _ _ K)|discriminate]. }
  destruct pc.
  - apply pawn_moves_shape with (p := p), H.
  - apply (Hstep _ _ H).
  - apply (Hslide _ _ _ H).
  - apply (Hslide _ _ _ H).
  - apply (Hslide _ _ _ H).
  - apply (Hstep _ _ H).
Qed.

Lemma castle_moves_shape : forall p m, In m (castle_moves p) ->
  m_src m < 64 /\ m_dst m < 64 /\ cell_at (cells p) (m_src m) = Some (stm p, King) /\ m_promo m <> Some King.
Proof.
  intros p m H. unfold castle_moves in H. cbv zeta in H.
  pose proof (home_rank_lt (stm p)) as Hr. set (r := home_rank (stm p)) in *.
  destruct (is_piece (cells p) (stm p) King (mk_sq 4 r)) eqn:Ek; [|contradiction].
  cbn [negb orb] in H. destruct (attacked_by (cells p) (opp (stm p)) (mk_sq 4 r)); [contradiction|].
  apply is_piece_true in Ek.
  apply in_app_or in H. destruct H as [H|H];
    match type of H with In _ (if ?b then _ else _) => destruct b end; try contradiction;
    destruct H as [<-|[]]; cbn [mk m_src m_dst m_promo];
    (repeat split; [apply ApplyFacts.mk_sq_lt; lia|apply ApplyFacts.mk_sq_lt; lia|exact Ek|discriminate]).
Qed.

Theorem pseudo_shape : forall p m, In m (pseudo p) ->
  m_src m < 64 /\ m_dst m < 64 /\ (exists pc, cell_at (cells p) (m_src m) = Some (stm p, pc)) /\ m_promo m <> Some King.
Proof.
  intros p m H. rewrite ApplyFacts.pseudo_unfold in H. apply in_app_or in H. destruct H as [H|H].
  - apply in_flat_map in H. destruct H as [s [Hin H]]. apply sq_list_lt in Hin.
    destruct (cell_at (cells p) s) as [[c' pc]|] eqn:E; [|contradiction].
    destruct (color_eqb c' (stm p)) eqn:Ec; [|contradiction]. apply BridgeFacts.color_eqb_eq in Ec. subst c'.
    destruct (piece_moves_shape _ _ _ _ H) as (A & B & C). rewrite A. repeat split; try assumption.
    exists pc. exact E.
  - destruct (castle_moves_shape _ _ H) as (A & B & C & D). repeat split; try assumption. exists King. exact C.
Qed.

Lemma pseudo_lt : forall p m, wfp p -> In m (pseudo p) -> m_src m < 64 /\ m_dst m < 64.
Proof. intros p m _ H. destruct (pseudo_shape p m H) as (A & B & _). split; assumption. Qed.

(* kings of colour c after cell_set *)
Lemma king_cell_set : forall cs y v c x, (N.to_nat y < length cs)%nat ->
  is_piece (cell_set cs y v) c King x = true ->
  (x = y /\ v = Some (c, King)) \/ (x <> y /\ is_piece cs c King x = true).
Proof.
  intros cs y v c x Hy H. apply is_piece_true in H. rewrite ApplyFacts.cell_at_cell_set in H by exact Hy.
  destruct (N.eqb_spec x y) as [E|N]; [left; split; assumption|right; split; [exact N|apply is_piece_true, H]].
Qed.

Lemma king_cell_set_sub : forall cs y v c x, (N.to_nat y < length cs)%nat -> v <> Some (c, King) ->
  is_piece (cell_set cs y v) c King x = true -> is_piece cs c King x = true.
Proof.
  intros cs y v c x Hy Hv H. destruct (king_cell_set _ _ _ _ _ Hy H) as [[_ E]|[_ K]]; [contradiction|exact K].
Qed.

Section MakeKings.
  Variables (p : position) (m : move) (pc : piece).
  Hypothesis Hp : wfp p.
  Hypothesis Hs : m_src m < 64.
  Hypothesis Hd : m_dst m < 64.
  Hypothesis Hsrc : cell_at (cells p) (m_src m) = Some (stm p, pc).
  Hypothesis Hpromo : m_promo m <> Some King.

  Lemma make_king : forall x, is_piece (cells (make p m)) (stm p) King x = true ->
    (x <> m_dst m /\ x <> m_src m /\ is_piece (cells p) (stm p) King x = true)
    \/ (x = m_dst m /\ is_piece (cells p) (stm p) King (m_src m) = true).
  Proof.
    intros x H. rewrite (ApplyFacts.make_cells _ _ _ _ Hsrc) in H.
    assert (Hrs : rank_of (m_src m) < 8) by (apply rank_of_lt, Hs).
    assert (L1 : length (ApplyFacts.mk_cs1 p m pc) = 64%nat).
    { unfold ApplyFacts.mk_cs1. rewrite !ApplyFacts.cell_set_length. exact Hp. }
    assert (L2 : length (ApplyFacts.mk_cs2 p m pc) = 64%nat).
    { unfold ApplyFacts.mk_cs2. destruct (ApplyFacts.mk_ep_capture p m pc); rewrite ?ApplyFacts.cell_set_length; exact L1. }
    assert (Hsq : forall f, f < 8 -> (N.to_nat (mk_sq f (rank_of (m_src m))) < 64)%nat).
    { intros f Hf. pose proof (ApplyFacts.mk_sq_lt f _ Hf Hrs). lia. }
    assert (H2 : is_piece (ApplyFacts.mk_cs2 p m pc) (stm p) King x = true).
    { unfold ApplyFacts.mk_cs3 in H. destruct (ApplyFacts.mk_castle m pc); [|exact H].
      destruct (file_of (m_dst m) =? 6).
      - apply king_cell_set_sub in H; [|rewrite ApplyFacts.cell_set_length, L2; apply Hsq; lia|discriminate].
        apply king_cell_set_sub in H; [exact H|rewrite L2; apply Hsq; lia|discriminate].
      - apply king_cell_set_sub in H; [|rewrite ApplyFacts.cell_set_length, L2; apply Hsq; lia|discriminate].
        apply king_cell_set_sub in H; [exact H|rewrite L2; apply Hsq; lia|discriminate]. }
    assert (H1 : is_piece (ApplyFacts.mk_cs1 p m pc) (stm p) King x = true).
    { unfold ApplyFacts.mk_cs2 in H2. destruct (ApplyFacts.mk_ep_capture p m pc); [|exact H2].
      apply king_cell_set_sub in H2; [exact H2|rewrite L1; apply Hsq, file_of_lt|discriminate]. }
    unfold ApplyFacts.mk_cs1 in H1.
    apply king_cell_set in H1; [|rewrite ApplyFacts.cell_set_length, Hp; lia].
    destruct H1 as [[E V]|[N K]].
    - right. split; [exact E|]. apply is_piece_true. rewrite Hsrc. f_equal. f_equal.
      unfold ApplyFacts.mk_placed in V. destruct (m_promo m) as [q|].
      + exfalso. apply Hpromo. injection V as ->. reflexivity.
      + injection V as ->. reflexivity.
    - left. apply king_cell_set in K; [|rewrite Hp; lia].
      destruct K as [[_ V]|[N' K]]; [discriminate V|]. repeat split; assumption.
  Qed.

  Lemma make_uniq_king : uniq_king p (stm p) -> uniq_king (make p m) (stm p).
  Proof.
    intros Hu a b Ha Hb Ka Kb. apply make_king in Ka, Kb.
    destruct Ka as [(A1 & A2 & A3)|(A1 & A2)], Kb as [(B1 & B2 & B3)|(B1 & B2)].
    - apply Hu; assumption.
    - exfalso. apply A2. apply Hu; assumption.
    - exfalso. apply B2. apply Hu; assumption.
    - congruence.
  Qed.
End MakeKings.

(* ------------------------------------------------------------------ *)
(** * 7. Legal moves, status *)

Lemma legal_mirror : forall p m, wfp p -> uniq_king p (stm p) -> In m (pseudo p) ->
  legal (mirror p) (mirror_move m) = legal p m.
Proof.
  intros p m Hp Hu H. destruct (pseudo_shape p m H) as (Hs & Hd & [pc Hsrc] & Hpr).
  unfold legal. rewrite make_mirror_cells by assumption. change (stm (mirror p)) with (opp (stm p)).
  rewrite in_check_cells_mirror; [reflexivity|apply make_wfp, Hp|].
  apply (make_uniq_king p m pc); assumption.
Qed.

Lemma legal_moves_mirror_fwd : forall p m, wfp p -> uniq_king p (stm p) ->
  In m (legal_moves p) -> In (mirror_move m) (legal_moves (mirror p)).
Proof.
  intros p m Hp Hu H. unfold legal_moves in *. apply filter_In in H. destruct H as [A B]. apply filter_In. split.
  - apply pseudo_mirror; assumption.
  - rewrite legal_mirror; assumption.
Qed.

Lemma uniq_king_cells_mirror : forall cs c, length cs = 64%nat -> uniq_king_cells cs c ->
  uniq_king_cells (mirror_cells cs) (opp c).
Proof.
  intros cs c Hl Hu a b Ha Hb Ka Kb. apply mirror_sq_inj.
  rewrite <- (mirror_sq_invol_all a), (is_piece_mirror cs Hl) in Ka.
  rewrite <- (mirror_sq_invol_all b), (is_piece_mirror cs Hl) in Kb.
  apply Hu; try assumption; apply mirror_sq_lt; assumption.
Qed.

Lemma uniq_king_mirror : forall p, wfp p -> uniq_king p (stm p) -> uniq_king (mirror p) (stm (mirror p)).
Proof. intros p Hp Hu. unfold uniq_king. rewrite cells_mirror. apply uniq_king_cells_mirror; assumption. Qed.

Theorem legal_moves_mirror : forall p m, wfp p -> uniq_king p (stm p) ->
  (In (mirror_move m) (legal_moves (mirror p)) <-> In m (legal_moves p)).
Proof.
  intros p m Hp Hu. split; [|apply legal_moves_mirror_fwd; assumption].
  intros H. apply (legal_moves_mirror_fwd (mirror p) _ (mirror_wfp p) (uniq_king_mirror p Hp Hu)) in H.
  rewrite mirror_move_invol_all, (mirror_invol p Hp) in H. exact H.
Qed.

Lemma legal_moves_nil_mirror : forall p, wfp p -> uniq_king p (stm p) ->
  match legal_moves (mirror p) with [] => true | _ => false end = match legal_moves p with [] => true | _ => false end.
Proof.
  intros p Hp Hu. destruct (legal_moves p) as [|m l] eqn:E, (legal_moves (mirror p)) as [|m' l'] eqn:E'; try reflexivity; exfalso.
  - assert (K : In (mirror_move m') (legal_moves p)).
    { apply (legal_moves_mirror p _ Hp Hu). rewrite mirror_move_invol_all, E'. left. reflexivity. }
    rewrite E in K. exact K.
  - assert (K : In (mirror_move m) (legal_moves (mirror p))).
    { apply (legal_moves_mirror p _ Hp Hu). rewrite E. left. reflexivity. }
    rewrite E' in K. exact K.
Qed.

Theorem classify_mirror : forall p, wfp p -> uniq_king p (stm p) -> classify (mirror p) = classify p.
Proof.
  intros p Hp Hu. unfold classify. cbv zeta.
  rewrite legal_moves_nil_mirror, in_check_mirror by assumption. reflexivity.
Qed.

Theorem is_mate_mirror : forall p, wfp p -> uniq_king p (stm p) -> is_mate (mirror p) = is_mate p.
Proof. intros p Hp Hu. unfold is_mate. rewrite classify_mirror by assumption. reflexivity. Qed.

(* ------------------------------------------------------------------ *)
(** * 8. The extra hypotheses are needed: counterexamples; playable positions satisfy them *)

(* two white kings a1, a8; black rook b8; black king h1; White to move.
   king_square finds a1 (not attacked); in the mirror image it finds the mirror image of a8 (attacked). *)
Definition cx_two_kings : position :=
  {| cells := cell_set (cell_set (cell_set (cell_set (repeat None 64) 0 (Some (White, King))) 56 (Some (White, King)))
                                 57 (Some (Black, Rook))) 7 (Some (Black, King));
     stm := White; cr_wk := false; cr_wq := false; cr_bk := false; cr_bq := false; epf := None; hm := 0; fm := 1 |}.

Lemma mirror_needs_uniq_king :
  wfp cx_two_kings
  /\ in_check cx_two_kings = false /\ in_check (mirror cx_two_kings) = true
  /\ classify cx_two_kings = Running /\ classify (mirror cx_two_kings) = Check
  /\ existsb (move_eqb (mk 0 8 None)) (legal_moves cx_two_kings) = true
  /\ existsb (move_eqb (mirror_move (mk 0 8 None))) (legal_moves (mirror cx_two_kings)) = false.
Proof. vm_compute. repeat split; reflexivity. Qed.

(* the full-move counter is not mirrored by make: 1.e4 from the starting position *)
Lemma make_mirror_fm_counterexample :
  fm (make (mirror start_position) (mirror_move (mk 12 28 None))) = 1
  /\ fm (mirror (make start_position (mk 12 28 None))) = 0.
Proof. vm_compute. split; reflexivity. Qed.

Lemma filter_one : forall (A : Type) (f : A -> bool) l x, In x l -> f x = true -> (1 <= length (filter f l))%nat.
Proof.
  intros A f l x Hin Hf. assert (K : In x (filter f l)) by (apply filter_In; split; assumption).
  destruct (filter f l); [contradiction|cbn [length]; lia].
Qed.

Lemma filter_two : forall (A : Type) (f : A -> bool) d l a b, (a < b)%nat -> (b < length l)%nat ->
  f (nth a l d) = true -> f (nth b l d) = true -> (2 <= length (filter f l))%nat.
Proof.
  intros A f d l. induction l as [|x l IH]; intros a b Hab Hb Fa Fb; cbn [length] in Hb; [lia|].
  destruct b as [|b]; [lia|]. cbn [nth] in Fb. destruct a as [|a].
  - cbn [nth] in Fa. cbn [filter]. rewrite Fa. cbn [length].
    assert (Hb' : (b < length l)%nat) by lia.
    pose proof (filter_one A f l (nth b l d) (nth_In l d Hb') Fb). lia.
  - cbn [nth] in Fa. pose proof (IH a b ltac:(lia) ltac:(lia) Fa Fb) as K.
    cbn [filter]. destruct (f x); cbn [length]; lia.
Qed.

Lemma count_one_uniq : forall cs c, length cs = 64%nat ->
  count_cells (fun x => cell_eqb x (Some (c, King))) cs = 1 -> uniq_king_cells cs c.
Proof.
  intros cs c Hl Hc a b Ha Hb Ka Kb. unfold count_cells in Hc.
  apply is_piece_true in Ka, Kb. unfold cell_at in Ka, Kb.
  set (f := fun x : cell => cell_eqb x (Some (c, King))) in *.
  assert (Hf : f (Some (c, King)) = true).
  { unfold f, cell_eqb. rewrite BridgeFacts.piece_eqb_refl. destruct c; reflexivity. }
  destruct (N.lt_total a b) as [L|[E|L]]; [|exact E|]; exfalso.
  - pose proof (filter_two _ f None cs (N.to_nat a) (N.to_nat b) ltac:(lia) ltac:(lia)) as K.
    rewrite Ka, Kb in K. specialize (K Hf Hf). lia.
  - pose proof (filter_two _ f None cs (N.to_nat b) (N.to_nat a) ltac:(lia) ltac:(lia)) as K.
    rewrite Ka, Kb in K. specialize (K Hf Hf). lia.
Qed.

Theorem playable_wfp_uniq : forall p, playable p = true -> wfp p /\ forall c, uniq_king p c.
Proof.
  intros p H. unfold playable in H. cbv zeta in H. rewrite !andb_true_iff in H.
  destruct H as ((((((((((H0 & HW) & HB) & _) & _) & _) & _) & _) & _) & _) & _).
  apply Nat.eqb_eq in H0. apply N.eqb_eq in HW, HB. split; [exact H0|].
  intros []; apply count_one_uniq; assumption.
Qed.

Corollary legal_moves_mirror_playable : forall p m, playable p = true ->
  (In (mirror_move m) (legal_moves (mirror p)) <-> In m (legal_moves p)).
Proof. intros p m H. destruct (playable_wfp_uniq p H) as [Hp Hu]. apply legal_moves_mirror; [exact Hp|apply Hu]. Qed.

Corollary classify_mirror_playable : forall p, playable p = true -> classify (mirror p) = classify p.
Proof. intros p H. destruct (playable_wfp_uniq p H) as [Hp Hu]. apply classify_mirror; [exact Hp|apply Hu]. Qed.

(* ------------------------------------------------------------------ *)
(** * 9. The same facts as permutations (multiplicities included) *)

Lemma perm_filter : forall (A : Type) (f : A -> bool) l l', Permutation l l' -> Permutation (filter f l) (filter f l').
Proof.
  intros A f l l' H. induction H as [|x l l' H IH|x y l|l l' l'' H1 IH1 H2 IH2]; cbn [filter].
  - constructor.
  - destruct (f x); [constructor|]; exact IH.
  - destruct (f x), (f y); try apply Permutation_refl. apply perm_swap.
  - eapply Permutation_trans; eassumption.
Qed.

Lemma perm_flat_map_pointwise : forall (A B : Type) (f g : A -> list B) l,
  (forall x, In x l -> Permutation (f x) (g x)) -> Permutation (flat_map f l) (flat_map g l).
Proof.
  intros A B f g l. induction l as [|a l IH]; intros H; cbn [flat_map]; [constructor|].
  apply Permutation_app; [apply H; left; reflexivity|]. apply IH. intros x Hx. apply H. right. exact Hx.
Qed.

Lemma flat_map_map' : forall (A B C : Type) (h : A -> B) (f : B -> list C) l,
  flat_map f (map h l) = flat_map (fun x => f (h x)) l.
Proof. intros A B C h f l. induction l as [|a l IH]; cbn [map flat_map]; [reflexivity|]. rewrite IH. reflexivity. Qed.

Lemma map_flat_map : forall (A B C : Type) (k : B -> C) (f : A -> list B) l,
  map k (flat_map f l) = flat_map (fun x => map k (f x)) l.
Proof. intros A B C k f l. induction l as [|a l IH]; cbn [map flat_map]; [reflexivity|]. rewrite map_app, IH. reflexivity. Qed.

Lemma filter_map_comm : forall (A B : Type) (h : A -> B) (f : B -> bool) l,
  filter f (map h l) = map h (filter (fun x => f (h x)) l).
Proof.
  intros A B h f l. induction l as [|a l IH]; cbn [map filter]; [reflexivity|].
  destruct (f (h a)); cbn [map]; rewrite IH; reflexivity.
Qed.

Lemma sq_list_NoDup : NoDup sq_list.
Proof. rewrite sq_list_seq. apply FinFun.Injective_map_NoDup; [|apply seq_NoDup]. intros a b H. apply Nat2N.inj, H. Qed.

Lemma sq_list_mirror_perm : Permutation sq_list (map mirror_sq sq_list).
Proof.
  apply NoDup_Permutation.
  - apply sq_list_NoDup.
  - apply FinFun.Injective_map_NoDup; [|apply sq_list_NoDup]. intros a b H. apply mirror_sq_inj, H.
  - intros x. split.
    + intros H. apply in_map_iff. exists (mirror_sq x). split; [apply mirror_sq_invol_all|].
      apply in_sq_list, mirror_sq_lt, sq_list_lt, H.
    + intros H. apply in_map_iff in H. destruct H as [y [<- H]]. apply in_sq_list, mirror_sq_lt, sq_list_lt, H.
Qed.

Lemma flipo_inj : forall a b, flipo a = flipo b -> a = b.
Proof. intros a b H. rewrite <- (flipo_invol a), H. apply flipo_invol. Qed.

Lemma closed_perm : forall l, NoDup l -> flip_closed l -> Permutation l (map flipo l).
Proof.
  intros l Hn Hc. apply NoDup_Permutation; [exact Hn| |].
  - apply FinFun.Injective_map_NoDup; [|exact Hn]. intros a b H. apply flipo_inj, H.
  - intros x. split.
    + intros H. apply in_map_iff. exists (flipo x). split; [apply flipo_invol|apply Hc, H].
    + intros H. apply in_map_iff in H. destruct H as [y [<- H]]. apply Hc, H.
Qed.

Lemma knight_offs_NoDup : NoDup knight_offs.
Proof. unfold knight_offs. repeat (constructor; [cbn [In]; intros H; repeat (destruct H as [H|H]; [discriminate H|]); exact H|]). constructor. Qed.
Lemma king_offs_NoDup : NoDup king_offs.
Proof. unfold king_offs. repeat (constructor; [cbn [In]; intros H; repeat (destruct H as [H|H]; [discriminate H|]); exact H|]). constructor. Qed.

Lemma dflip_inj : forall a b, dflip a = dflip b -> a = b.
Proof. intros a b H. rewrite <- (dflip_invol a), H. apply dflip_invol. Qed.

Lemma dirs_closed_perm : forall ds, NoDup ds -> dirs_closed ds -> Permutation ds (map dflip ds).
Proof.
  intros l Hn Hc. apply NoDup_Permutation; [exact Hn| |].
  - apply FinFun.Injective_map_NoDup; [|exact Hn]. intros a b H. apply dflip_inj, H.
  - intros x. split.
    + intros H. apply in_map_iff. exists (dflip x). split; [apply dflip_invol|apply Hc, H].
    + intros H. apply in_map_iff in H. destruct H as [y [<- H]]. apply Hc, H.
Qed.

Lemma rook_dirs_NoDup : NoDup rook_dirs.
Proof. unfold rook_dirs. repeat (constructor; [cbn [In]; intros H; repeat (destruct H as [H|H]; [discriminate H|]); exact H|]). constructor. Qed.
Lemma bishop_dirs_NoDup : NoDup bishop_dirs.
Proof. unfold bishop_dirs. repeat (constructor; [cbn [In]; intros H; repeat (destruct H as [H|H]; [discriminate H|]); exact H|]). constructor. Qed.
Lemma all_dirs_NoDup : NoDup all_dirs.
Proof.
  unfold all_dirs, rook_dirs, bishop_dirs. cbn [app].
  repeat (constructor; [cbn [In]; intros H; repeat (destruct H as [H|H]; [discriminate H|]); exact H|]). constructor.
Qed.

Lemma offs_perm : forall l s, NoDup l -> flip_closed l -> s < 64 ->
  Permutation (offs (mirror_sq s) l) (map mirror_sq (offs s l)).
Proof.
  intros l s Hn Hc Hs. rewrite <- offs_mirror by exact Hs. unfold offs. apply Permutation_flat_map, closed_perm; assumption.
Qed.

Section PseudoPerm.
  Variable p : position.
  Hypothesis Hp : wfp p.
  Let cs := cells p.
  Let c := stm p.

  Lemma step_moves_perm : forall l s, NoDup l -> flip_closed l -> s < 64 ->
    Permutation (map (fun t => mk (mirror_sq s) t None)
                     (filter (fun t => negb (has_color (mirror_cells cs) (opp c) t)) (offs (mirror_sq s) l)))
                (map mirror_move (map (fun t => mk s t None) (filter (fun t => negb (has_color cs c t)) (offs s l)))).
  Proof.
    intros l s Hn Hc Hs. rewrite map_map.
    eapply Permutation_trans.
    - apply Permutation_map, perm_filter, offs_perm; assumption.
    - rewrite filter_map_comm, map_map.
      rewrite (filter_ext (fun x => negb (has_color (mirror_cells cs) (opp c) (mirror_sq x))) (fun t => negb (has_color cs c t))).
      + apply Permutation_refl.
      + intros t. unfold cs. rewrite (has_color_mirror (cells p) Hp). reflexivity.
  Qed.

  Lemma slide_moves_perm : forall ds s, NoDup ds -> dirs_closed ds -> s < 64 ->
    Permutation (map (fun t => mk (mirror_sq s) t None)
                     (flat_map (fun d => slide_targets (mirror_cells cs) (opp c) (ray d (mirror_sq s))) ds))
                (map mirror_move (map (fun t => mk s t None) (flat_map (fun d => slide_targets cs c (ray d s)) ds))).
  Proof.
    intros ds s Hn Hc Hs. rewrite map_map.
    eapply Permutation_trans.
    - apply Permutation_map. apply Permutation_flat_map, (dirs_closed_perm ds Hn Hc).
    - rewrite flat_map_map'.
      rewrite (flat_map_ext _ (fun d => map mirror_sq (slide_targets cs c (ray d s)))).
      + rewrite <- map_flat_map, map_map. apply Permutation_refl.
      + intros d. rewrite ray_mirror by exact Hs. unfold cs. apply (slide_targets_mirror (cells p) Hp).
  Qed.

  Lemma piece_moves_perm : forall s pc, s < 64 ->
    Permutation (piece_moves_from (mirror p) (mirror_sq s) pc) (map mirror_move (piece_moves_from p s pc)).
  Proof.
    intros s pc Hs. unfold piece_moves_from. cbv zeta.
    change (cells (mirror p)) with (mirror_cells (cells p)). change (stm (mirror p)) with (opp (stm p)).
    fold cs c. destruct pc.
    - rewrite (pawn_moves_mirror p Hp) by exact Hs. apply Permutation_refl.
    - apply step_moves_perm; [apply knight_offs_NoDup|apply knight_closed|exact Hs].
    - apply slide_moves_perm; [apply bishop_dirs_NoDup|apply bishop_dirs_closed|exact Hs].
    - apply slide_moves_perm; [apply rook_dirs_NoDup|apply rook_dirs_closed|exact Hs].
    - apply slide_moves_perm; [apply all_dirs_NoDup|apply all_dirs_closed|exact Hs].
    - apply step_moves_perm; [apply king_offs_NoDup|apply king_closed|exact Hs].
  Qed.

  Theorem pseudo_mirror_perm : Permutation (pseudo (mirror p)) (map mirror_move (pseudo p)).
  Proof.
    rewrite !ApplyFacts.pseudo_unfold. rewrite map_app. apply Permutation_app.
    - eapply Permutation_trans; [apply Permutation_flat_map, sq_list_mirror_perm|].
      rewrite flat_map_map', map_flat_map. apply perm_flat_map_pointwise. intros s Hin. apply sq_list_lt in Hin.
      rewrite mirror_cell_at by (apply mirror_sq_lt, Hin). rewrite mirror_sq_invol_all.
      destruct (cell_at (cells p) s) as [[c' pc]|]; [|apply Permutation_refl]. cbn [mirror_cell].
      change (stm (mirror p)) with (opp (stm p)). rewrite color_eqb_opp.
      destruct (color_eqb c' (stm p)); [|apply Permutation_refl]. apply piece_moves_perm, Hin.
    - rewrite (castle_moves_mirror p Hp). apply Permutation_refl.
  Qed.

  Theorem legal_moves_mirror_perm : uniq_king p (stm p) ->
    Permutation (legal_moves (mirror p)) (map mirror_move (legal_moves p)).
  Proof.
    intros Hu. unfold legal_moves. eapply Permutation_trans; [apply perm_filter, pseudo_mirror_perm|].
    rewrite filter_map_comm.
    rewrite (filter_ext_in (fun x => legal (mirror p) (mirror_move x)) (legal p)); [apply Permutation_refl|].
    intros m H. apply legal_mirror; assumption.
  Qed.
End PseudoPerm.

(* ------------------------------------------------------------------ *)
(** * 10. The hypotheses travel along a game: make and mirror preserve them *)

Lemma opp_neq : forall c, c <> opp c.
Proof. intros []; discriminate. Qed.

Lemma make_king_opp : forall p m x, wfp p -> m_src m < 64 -> m_dst m < 64 ->
  is_piece (cells (make p m)) (opp (stm p)) King x = true -> is_piece (cells p) (opp (stm p)) King x = true.
Proof.
  intros p m x Hp Hs Hd H. destruct (cell_at (cells p) (m_src m)) as [[c0 pc]|] eqn:Hsrc;
    [|unfold make in H; rewrite Hsrc in H; exact H].
  rewrite (ApplyFacts.make_cells _ _ _ _ Hsrc) in H.
  assert (Hrs : rank_of (m_src m) < 8) by (apply rank_of_lt, Hs).
  assert (L1 : length (ApplyFacts.mk_cs1 p m pc) = 64%nat).
  { unfold ApplyFacts.mk_cs1. rewrite !ApplyFacts.cell_set_length. exact Hp. }
  assert (L2 : length (ApplyFacts.mk_cs2 p m pc) = 64%nat).
  { unfold ApplyFacts.mk_cs2. destruct (ApplyFacts.mk_ep_capture p m pc); rewrite ?ApplyFacts.cell_set_length; exact L1. }
  assert (Hsq : forall f, f < 8 -> (N.to_nat (mk_sq f (rank_of (m_src m))) < 64)%nat).
  { intros f Hf. pose proof (ApplyFacts.mk_sq_lt f _ Hf Hrs). lia. }
  assert (Hne : forall q, Some (stm p, q) <> Some (opp (stm p), King)).
  { intros q E. injection E as E _. apply (opp_neq _ E). }
  assert (H2 : is_piece (ApplyFacts.mk_cs2 p m pc) (opp (stm p)) King x = true).
  { unfold ApplyFacts.mk_cs3 in H. destruct (ApplyFacts.mk_castle m pc); [|exact H].
    destruct (file_of (m_dst m) =? 6).
    - apply king_cell_set_sub in H; [|rewrite ApplyFacts.cell_set_length, L2; apply Hsq; lia|apply Hne].
      apply king_cell_set_sub in H; [exact H|rewrite L2; apply Hsq; lia|discriminate].
    - apply king_cell_set_sub in H; [|rewrite ApplyFacts.cell_set_length, L2; apply Hsq; lia|apply Hne].
      apply king_cell_set_sub in H; [exact H|rewrite L2; apply Hsq; lia|discriminate]. }
  assert (H1 : is_piece (ApplyFacts.mk_cs1 p m pc) (opp (stm p)) King x = true).
  { unfold ApplyFacts.mk_cs2 in H2. destruct (ApplyFacts.mk_ep_capture p m pc); [|exact H2].
    apply king_cell_set_sub in H2; [exact H2|rewrite L1; apply Hsq, file_of_lt|discriminate]. }
  unfold ApplyFacts.mk_cs1 in H1.
  apply king_cell_set_sub in H1; [|rewrite ApplyFacts.cell_set_length, Hp; lia|apply Hne].
  apply king_cell_set_sub in H1; [exact H1|rewrite Hp; lia|discriminate].
Qed.

Theorem make_uniq_kings : forall p m, wfp p -> In m (pseudo p) ->
  (forall c, uniq_king p c) -> forall c, uniq_king (make p m) c.
Proof.
  intros p m Hp H Hu c. destruct (pseudo_shape p m H) as (Hs & Hd & [pc Hsrc] & Hpr).
  assert (E : c = stm p \/ c = opp (stm p)) by (destruct c, (stm p); auto).
  destruct E as [->| ->].
  - apply (make_uniq_king p m pc); try assumption. apply Hu.
  - intros a b Ha Hb Ka Kb. apply (Hu (opp (stm p))); try assumption; apply (make_king_opp p m); assumption.
Qed.

Theorem mirror_uniq_kings : forall p, wfp p -> (forall c, uniq_king p c) -> forall c, uniq_king (mirror p) c.
Proof.
  intros p Hp Hu c. unfold uniq_king. rewrite cells_mirror. rewrite <- (opp_opp c).
  apply uniq_king_cells_mirror; [exact Hp|apply Hu].
Qed.

(* evaluation-relevant content of a position is untouched by with_fm *)
Lemma with_fm_cells : forall n p, cells (with_fm n p) = cells p. Proof. reflexivity. Qed.
Lemma with_fm_stm : forall n p, stm (with_fm n p) = stm p. Proof. reflexivity. Qed.
Lemma with_fm_mirror : forall n p, mirror (with_fm n p) = with_fm n (mirror p). Proof. reflexivity. Qed.
Lemma with_fm_pseudo : forall n p, pseudo (with_fm n p) = pseudo p. Proof. reflexivity. Qed.
Lemma with_fm_make : forall n p m, exists n', make (with_fm n p) m = with_fm n' (make p m).
Proof.
  intros n p m. unfold make. cbn [with_fm cells stm cr_wk cr_wq cr_bk cr_bq epf hm fm].
  destruct (cell_at (cells p) (m_src m)) as [[c0 pc]|].
  - eexists. unfold with_fm. cbn [cells stm cr_wk cr_wq cr_bk cr_bq epf hm fm]. reflexivity.
  - exists n. reflexivity.
Qed.
Lemma with_fm_legal_moves : forall n p, legal_moves (with_fm n p) = legal_moves p.
Proof.
  intros n p. unfold legal_moves. rewrite with_fm_pseudo. apply filter_ext. intros m. unfold legal.
  destruct (with_fm_make n p m) as [n' ->]. reflexivity.
Qed.
Lemma with_fm_classify : forall n p, classify (with_fm n p) = classify p.
Proof. intros n p. unfold classify. cbv zeta. rewrite with_fm_legal_moves. reflexivity. Qed.

(* the exact successor of the mirrored position, for use along a game *)
Theorem make_mirror_exact : forall p m, wfp p -> m_src m < 64 -> m_dst m < 64 ->
  exists n, make (mirror p) (mirror_move m) = with_fm n (mirror (make p m)).
Proof.
  intros p m Hp Hs Hd. destruct (cell_at (cells p) (m_src m)) as [[c0 pc]|] eqn:E.
  - eexists. apply (make_mirror_full' p m Hp Hs Hd c0 pc E).
  - exists (fm (mirror (make p m))). rewrite (make_mirror_empty p m Hs E).
    destruct (mirror (make p m)); reflexivity.
Qed.
