(* C13 groundwork -- the link between the SEARCH MODEL (model/Search.v) and abstract GAME TREES
   (spec/GameTree.v):
   - [atree]      : the game tree the model's alphabeta explores below a move;
   - [ab_tree]    : a completed run of Search.alphabeta returns GameTree.alphabeta of that tree;
   - [root_tree]  : the tree below the root (all legal root moves, in [legals] order);
   - [pass_root]  : a completed deepening pass IS GameTree.root over the moves in the order visited;
   - [pass_minimax_order] / [pass_minimax] : its score is the minimax value;
   - [atree_fuel_enough] : on Good boards the tree exists as soon as the fuel exceeds depth + men.
   Independent of the rules of chess: apply / legals_gen / eval / insufficient_material / mg_drain are
   never unfolded.  Axiom-free. *)
From Coq Require Import NArith ZArith List Bool Lia ZifyBool ZifyN Permutation.
From Chess Require Import base.Bits base.Types base.BitBoard model.Score model.Board model.MoveGen model.Apply
  model.Search proofs.BitsFacts proofs.BitBoardFacts spec.IterSpec proofs.IterFacts proofs.ScoreOrder
  proofs.SearchOrder proofs.SearchFacts.
From Chess Require spec.GameTree proofs.GameTreeFacts.
Import ListNotations.
Local Open Scope N_scope.

Module GT := Chess.spec.GameTree.
Module GF := Chess.proofs.GameTreeFacts.
Notation tree := GT.tree.

(* ------------------------------------------------------------------ *)
(** * Colours and GameTree's "White to move" boolean *)

(* GameTree: worst true = SMin, better true = ltb : [true] is the maximising side, White *)
Definition wbool (c : color) : bool := match c with White => true | Black => false end.

Lemma wbool_opp : forall c, wbool (opp c) = negb (wbool c).
Proof. intros []; reflexivity. Qed.
Lemma worst_wbool : forall c, worst c = GT.worst (wbool c).
Proof. intros []; reflexivity. Qed.
Lemma is_better_wbool : forall c sc new, is_better c sc new = GT.better (wbool c) sc new.
Proof. intros []; reflexivity. Qed.
Lemma pick_wbool : forall c sc new, (if is_better c sc new then new else sc) = GT.pick (wbool c) sc new.
Proof. intros c sc new. unfold GT.pick. rewrite is_better_wbool. reflexivity. Qed.
(* NB the argument order differs: Search.upd_alpha c alpha sc, GameTree.upd_alpha w sc alpha *)
Lemma upd_alpha_wbool : forall c alpha sc, upd_alpha c alpha sc = GT.upd_alpha (wbool c) sc alpha.
Proof. intros []; reflexivity. Qed.
Lemma upd_beta_wbool : forall c beta sc, upd_beta c beta sc = GT.upd_beta (wbool c) sc beta.
Proof. intros []; reflexivity. Qed.

(* ------------------------------------------------------------------ *)
(** * all-or-nothing lists of options *)

Fixpoint opt_all {A : Type} (l : list (option A)) : option (list A) :=
  match l with
  | [] => Some []
  | x :: r => match x, opt_all r with Some a, Some r' => Some (a :: r') | _, _ => None end
  end.

Lemma opt_all_cons : forall (A : Type) (x : option A) r l,
  opt_all (x :: r) = Some l -> exists a r', x = Some a /\ opt_all r = Some r' /\ l = a :: r'.
Proof.
  intros A x r l H. cbn [opt_all] in H. destruct x as [a|]; [|discriminate].
  destruct (opt_all r) as [r'|]; [|discriminate]. injection H as <-. exists a, r'. repeat split.
Qed.

Lemma opt_all_some : forall (A B : Type) (f : A -> option B) l,
  (forall x, In x l -> f x <> None) -> opt_all (map f l) <> None.
Proof.
  intros A B f l. induction l as [|x l IH]; intros H; cbn [map opt_all]; [discriminate|].
  pose proof (H x (or_introl eq_refl)) as Hx. destruct (f x) as [a|]; [|contradiction Hx; reflexivity].
  assert (opt_all (map f l) <> None) as Hl by (apply IH; intros y Hy; apply H; right; exact Hy).
  destruct (opt_all (map f l)); [discriminate|contradiction Hl; reflexivity].
Qed.

Lemma opt_all_ext : forall (A B : Type) (f g : A -> option B) l cs,
  (forall x t, In x l -> f x = Some t -> g x = Some t) ->
  opt_all (map f l) = Some cs -> opt_all (map g l) = Some cs.
Proof.
  intros A B f g l. induction l as [|x l IH]; intros cs H Hf; [exact Hf|].
  cbn [map] in Hf |- *. destruct (opt_all_cons _ _ _ _ Hf) as (a & r' & Ha & Hr & ->).
  cbn [opt_all]. rewrite (H x a (or_introl eq_refl) Ha).
  rewrite (IH r' (fun y t Hy => H y t (or_intror Hy)) Hr). reflexivity.
Qed.

(* the forced version of a partial child function *)
Definition force (o : option tree) : tree := match o with Some t => t | None => GT.Leaf (SRaw 0) end.

Lemma opt_all_force : forall (A : Type) (f : A -> option tree) l cs,
  opt_all (map f l) = Some cs ->
  cs = map (fun x => force (f x)) l /\ (forall x, In x l -> f x = Some (force (f x))).
Proof.
  intros A f l. induction l as [|x l IH]; intros cs H.
  - injection H as <-. split; [reflexivity|intros x []].
  - cbn [map] in H. destruct (opt_all_cons _ _ _ _ H) as (a & r' & Ha & Hr & ->).
    destruct (IH r' Hr) as (-> & Hall). split.
    + cbn [map]. rewrite Ha. reflexivity.
    + intros y [<-|Hy]; [rewrite Ha; reflexivity|apply Hall, Hy].
Qed.

(* ------------------------------------------------------------------ *)
(** * The tree explored below one move *)

(* the game tree the model's alphabeta explores below the move mv played on old; None = fuel exhausted.
   Same case analysis as Search.alphabeta (SearchFacts.alphabeta_S). *)
Fixpoint atree (tf : threefold) (fuel : nat) (c : color) (old : board) (mv : move) (remaining current : N)
         (bl : blist) : option tree :=
  match fuel with
  | O => None
  | S fuel' =>
    let b := apply old mv in
    let wc := was_capture old mv in
    let bl' := if wc then bl_new tf b else bl_add bl tf b in
    if wc && insufficient_material b then Some (GT.Leaf (SRaw 0))
    else
      let g := legals_gen b in
      if mg_is_empty g then Some (GT.Leaf (if in_check b then mate_score c current else SRaw 0))
      else if 100 <=? b_half b then Some (GT.Leaf (SRaw 0))
      else if bl_head_count bl' =? 3 then Some (GT.Leaf (SRaw 0))
      else
        let g1 := if (remaining =? 0) && wc then mg_set_mask g (colors b (opp c)) else g in
        let complete := (remaining =? 0) && (if wc then mg_is_empty g1 else true) in
        if complete then Some (GT.Leaf (eval b))
        else option_map GT.Node
               (opt_all (map (fun m => atree tf fuel' (opp c) b m (sat_sub1 remaining) (current + 1) bl') (mg_drain g1)))
  end.

Lemma atree_0 : forall tf c old mv remaining current bl, atree tf O c old mv remaining current bl = None.
Proof. reflexivity. Qed.

Lemma atree_S : forall tf fuel' c old mv remaining current bl,
  atree tf (S fuel') c old mv remaining current bl =
  let b := apply old mv in
  let wc := was_capture old mv in
  let bl' := if wc then bl_new tf b else bl_add bl tf b in
  if wc && insufficient_material b then Some (GT.Leaf (SRaw 0))
  else
    let g := legals_gen b in
    if mg_is_empty g then Some (GT.Leaf (if in_check b then mate_score c current else SRaw 0))
    else if 100 <=? b_half b then Some (GT.Leaf (SRaw 0))
    else if bl_head_count bl' =? 3 then Some (GT.Leaf (SRaw 0))
    else
      let g1 := if (remaining =? 0) && wc then mg_set_mask g (colors b (opp c)) else g in
      let complete := (remaining =? 0) && (if wc then mg_is_empty g1 else true) in
      if complete then Some (GT.Leaf (eval b))
      else option_map GT.Node
             (opt_all (map (fun m => atree tf fuel' (opp c) b m (sat_sub1 remaining) (current + 1) bl') (mg_drain g1))).
Proof. reflexivity. Qed.

(* ------------------------------------------------------------------ *)
(** * The child loop of Search.alphabeta is GameTree.ab_loop *)

(* The two loops have the same update rules (is_better / upd_alpha / upd_beta / leb cutoff); the only
   differences are the threaded poll state (irrelevant once a value is returned) and the argument order
   of upd_alpha / upd_beta. *)
Lemma ab_loop_tree : forall k rec c (f : move -> option tree),
  (forall m a b st new st2 t, f m = Some t -> rec m a b st = AVal new st2 ->
     new = GT.alphabeta (negb (wbool c)) a b t) ->
  forall moves cs sc alpha beta st v st',
  opt_all (map f moves) = Some cs ->
  ab_loop k rec c moves sc alpha beta st = AVal v st' ->
  v = GT.ab_loop (wbool c) (GT.alphabeta (negb (wbool c))) cs alpha beta sc.
Proof.
  intros k rec c f Hrec moves. induction moves as [|m rest IH]; intros cs sc alpha beta st v st' Hcs H.
  - injection Hcs as <-. rewrite ab_loop_nil in H. injection H as <- _. reflexivity.
  - cbn [map] in Hcs. destruct (opt_all_cons _ _ _ _ Hcs) as (t & cs' & Ht & Hcs' & ->).
    rewrite ab_loop_cons in H. destruct (expired k st); [discriminate|].
    destruct (rec m alpha beta (bump_poll st)) as [new st2| |] eqn:E; [|discriminate|discriminate].
    pose proof (Hrec _ _ _ _ _ _ _ Ht E) as Hnew.
    cbn [GT.ab_loop]. rewrite <- Hnew.
    rewrite pick_wbool, upd_alpha_wbool, upd_beta_wbool in H.
    destruct (leb _ _).
    + injection H as <- _. reflexivity.
    + apply (IH _ _ _ _ _ _ _ Hcs' H).
Qed.

(* a run that returned AVal saw no expiry, so no hypothesis on k is needed *)
Theorem ab_tree : forall k tf fuel c old mv remaining current alpha beta bl st v st' t,
  atree tf fuel c old mv remaining current bl = Some t ->
  Search.alphabeta k tf fuel c old mv remaining current alpha beta bl st = AVal v st' ->
  v = GT.alphabeta (wbool c) alpha beta t.
Proof.
  intros k tf fuel. induction fuel as [|f IH]; intros c old mv remaining current alpha beta bl st v st' t Ht H.
  - rewrite atree_0 in Ht. discriminate.
  - rewrite atree_S in Ht. rewrite alphabeta_S in H. cbv zeta in Ht, H.
    revert Ht H. generalize (apply old mv) as b. intros b.
    generalize (was_capture old mv) as wc. intros wc Ht H.
    destruct (wc && insufficient_material b); [injection Ht as <-; injection H as <- _; reflexivity|].
    destruct (mg_is_empty (legals_gen b)); [injection Ht as <-; injection H as <- _; reflexivity|].
    destruct (100 <=? b_half b); [injection Ht as <-; injection H as <- _; reflexivity|].
    destruct (bl_head_count (if wc then bl_new tf b else bl_add bl tf b) =? 3);
      [injection Ht as <-; injection H as <- _; reflexivity|].
    revert Ht H.
    set (g1 := if (remaining =? 0) && wc then mg_set_mask (legals_gen b) (colors b (opp c)) else legals_gen b).
    intros Ht H.
    destruct ((remaining =? 0) && (if wc then mg_is_empty g1 else true));
      [injection Ht as <-; injection H as <- _; reflexivity|].
    destruct (opt_all _) as [cs|] eqn:Hcs in Ht; [|discriminate]. cbn [option_map] in Ht. injection Ht as <-.
    cbn [GT.alphabeta]. rewrite worst_wbool in H.
    refine (ab_loop_tree k _ c _ _ _ _ _ _ _ _ _ _ Hcs H).
    intros m a b' st0 new st2 t0 Hm E. unfold child_call in E.
    rewrite <- wbool_opp. exact (IH _ _ _ _ _ _ _ _ _ _ _ _ Hm E).
Qed.

(* the tree does not depend on the fuel once there is enough of it *)
Lemma atree_fuel_mono : forall tf fuel fuel' c old mv remaining current bl t, (fuel <= fuel')%nat ->
  atree tf fuel c old mv remaining current bl = Some t -> atree tf fuel' c old mv remaining current bl = Some t.
Proof.
  intros tf fuel. induction fuel as [|f IH]; intros fuel' c old mv remaining current bl t Hle Ht.
  - rewrite atree_0 in Ht. discriminate.
  - destruct fuel' as [|f']; [lia|]. rewrite atree_S in Ht |- *. cbv zeta in Ht |- *.
    revert Ht. generalize (apply old mv) as b. intros b.
    generalize (was_capture old mv) as wc. intros wc Ht.
    destruct (wc && insufficient_material b); [exact Ht|].
    destruct (mg_is_empty (legals_gen b)); [exact Ht|].
    destruct (100 <=? b_half b); [exact Ht|].
    destruct (bl_head_count (if wc then bl_new tf b else bl_add bl tf b) =? 3); [exact Ht|].
    revert Ht.
    set (g1 := if (remaining =? 0) && wc then mg_set_mask (legals_gen b) (colors b (opp c)) else legals_gen b).
    intros Ht.
    destruct ((remaining =? 0) && (if wc then mg_is_empty g1 else true)); [exact Ht|].
    destruct (opt_all _) as [cs|] eqn:Hcs in Ht; [|discriminate].
    assert (Hle' : (f <= f')%nat) by lia.
    pose proof (opt_all_ext _ _ _ (fun m => atree tf f' (opp c) b m (sat_sub1 remaining) (current + 1)
                                           (if wc then bl_new tf b else bl_add bl tf b)) _ cs
                  (fun x t0 _ Hx => IH f' _ _ _ _ _ _ _ Hle' Hx) Hcs) as Hcs'.
    rewrite Hcs'. exact Ht.
Qed.

(* ------------------------------------------------------------------ *)
(** * Game-tree facts needed at the root (no well-formedness / properness hypotheses) *)

(* White at the root: alpha equals the running score, beta stays Max; the final score is the
   running maximum of the children's minimax values -- for ANY trees, and also when the score
   has already reached Max (the window is then empty, but nothing can be better than Max). *)
Lemma root_loop_white_score {A : Type} : forall (cs : list (A * tree)) sc best,
  snd (GT.root_loop true cs sc SMax sc best) =
  fold_left (GT.pick true) (map (fun mt => GT.minimax false (snd mt)) cs) sc.
Proof.
  induction cs as [|[m c] cs IH]; intros sc best; [reflexivity|].
  cbn [GT.root_loop map fold_left snd negb GT.upd_alpha GT.upd_beta].
  destruct (GF.SO.lt_total sc SMax) as [Hsc|[Hsc|Hsc]].
  - pose proof (GF.window_cases _ _ _ _ (GF.AB_window_gen c false sc SMax Hsc)) as Hc. cbn zeta in Hc.
    revert Hc. generalize (GT.alphabeta false sc SMax c) as new. generalize (GT.minimax false c) as v.
    intros v new Hc. GF.bounds v. GF.bounds new.
    destruct (GF.better_true_cases sc new) as [(B1 & B2)|(B1 & B2)]; rewrite B2.
    + assert (new = v) as -> by (destruct Hc as [(A1 & A2)|[(A1 & A2)|(A1 & A2 & A3)]]; GF.SOT.order).
      rewrite (GF.smax_idem_ge v sc) by GF.SOT.order.
      assert (GT.pick true sc v = v) as ->
        by (destruct (GF.pick_true_cases sc v) as [(P1 & P2)|(P1 & P2)]; rewrite P2; GF.SOT.order).
      apply IH.
    + assert (GF.sle v sc) as Hvs
        by (destruct Hc as [(A1 & A2)|[(A1 & A2)|(A1 & A2 & A3)]]; GF.SOT.order).
      rewrite (GF.smax_idem_ge sc sc) by GF.SOT.order.
      assert (GT.pick true sc v = sc) as ->
        by (destruct (GF.pick_true_cases sc v) as [(P1 & P2)|(P1 & P2)]; rewrite P2; GF.SOT.order).
      apply IH.
  - unfold GF.SO.eq in Hsc. subst sc.
    generalize (GT.alphabeta false SMax SMax c) as new. generalize (GT.minimax false c) as v.
    intros v new. GF.bounds v. GF.bounds new.
    destruct (GF.better_true_cases SMax new) as [(B1 & B2)|(B1 & B2)]; [exfalso; GF.SOT.order|]. rewrite B2.
    rewrite (GF.smax_idem_ge SMax SMax) by GF.SOT.order.
    assert (GT.pick true SMax v = SMax) as ->
      by (destruct (GF.pick_true_cases SMax v) as [(P1 & P2)|(P1 & P2)]; rewrite P2; GF.SOT.order).
    apply IH.
  - exfalso. GF.bounds sc. GF.SOT.order.
Qed.

(* GameTreeFacts.root_best without its hypotheses (score component only) *)
Theorem root_score_gen {A : Type} : forall w (cs : list (A * tree)),
  snd (GT.root w cs) = GT.minimax w (GT.Node (map snd cs)).
Proof.
  intros w cs. destruct w.
  - unfold GT.root. cbn [GT.worst]. rewrite root_loop_white_score.
    cbn [GT.minimax negb GT.worst]. rewrite map_map. reflexivity.
  - pose proof (GF.root_neg true (map GF.neg_move cs)) as HR. rewrite GF.neg_move_involutive in HR.
    cbn [negb] in HR. rewrite HR. cbn [snd].
    unfold GT.root. cbn [GT.worst]. rewrite root_loop_white_score.
    rewrite map_map. cbn [GF.neg_move snd].
    change (fold_left (GT.pick true) (map (fun x : A * tree => GT.minimax false (GT.neg_tree (snd x))) cs) SMin)
      with (fold_left (GT.pick true) (map (fun x : A * tree => GT.minimax false (GT.neg_tree (snd x))) cs) (GT.worst true)).
    rewrite <- (map_map snd (fun t => GT.minimax false (GT.neg_tree t))).
    rewrite <- (map_map GT.neg_tree (GT.minimax false)).
    change (fold_left (GT.pick true) (map (GT.minimax false) (map GT.neg_tree (map snd cs))) (GT.worst true))
      with (GT.minimax true (GT.neg_tree (GT.Node (map snd cs)))).
    rewrite (GF.minimax_neg _ false), neg_involutive. reflexivity.
Qed.

(* the running best of a list depends only on the SET of its elements *)
Lemma fold_pick_true_char : forall l a,
  let r := fold_left (GT.pick true) l a in
  GF.sle a r /\ (forall x, In x l -> GF.sle x r) /\ (r = a \/ In r l).
Proof.
  induction l as [|x l IH]; intros a; cbn zeta; cbn [fold_left].
  - split; [GF.SOT.order|split; [intros x []|left; reflexivity]].
  - destruct (IH (GT.pick true a x)) as (H1 & H2 & H3). revert H1 H2 H3.
    generalize (fold_left (GT.pick true) l (GT.pick true a x)) as r. intros r H1 H2 H3.
    destruct (GF.pick_true_cases a x) as [(P1 & P2)|(P1 & P2)]; rewrite P2 in *.
    + split; [GF.SOT.order|split].
      * intros y [<-|Hy]; [exact H1|apply H2, Hy].
      * right. destruct H3 as [->|H3]; [left; reflexivity|right; exact H3].
    + split; [exact H1|split].
      * intros y [<-|Hy]; [GF.SOT.order|apply H2, Hy].
      * destruct H3 as [H3|H3]; [left; exact H3|right; right; exact H3].
Qed.

Lemma fold_pick_false_char : forall l a,
  let r := fold_left (GT.pick false) l a in
  GF.sle r a /\ (forall x, In x l -> GF.sle r x) /\ (r = a \/ In r l).
Proof.
  induction l as [|x l IH]; intros a; cbn zeta; cbn [fold_left].
  - split; [GF.SOT.order|split; [intros x []|left; reflexivity]].
  - destruct (IH (GT.pick false a x)) as (H1 & H2 & H3). revert H1 H2 H3.
    generalize (fold_left (GT.pick false) l (GT.pick false a x)) as r. intros r H1 H2 H3.
    destruct (GF.pick_false_cases a x) as [(P1 & P2)|(P1 & P2)]; rewrite P2 in *.
    + split; [GF.SOT.order|split].
      * intros y [<-|Hy]; [exact H1|apply H2, Hy].
      * right. destruct H3 as [->|H3]; [left; reflexivity|right; exact H3].
    + split; [exact H1|split].
      * intros y [<-|Hy]; [GF.SOT.order|apply H2, Hy].
      * destruct H3 as [H3|H3]; [left; exact H3|right; right; exact H3].
Qed.

Lemma fold_pick_same_set : forall w l l' a, (forall x, In x l <-> In x l') ->
  fold_left (GT.pick w) l a = fold_left (GT.pick w) l' a.
Proof.
  intros w l l' a Hset. destruct w.
  - destruct (fold_pick_true_char l a) as (A1 & A2 & A3). destruct (fold_pick_true_char l' a) as (B1 & B2 & B3).
    revert A1 A2 A3 B1 B2 B3.
    generalize (fold_left (GT.pick true) l a) as r. generalize (fold_left (GT.pick true) l' a) as r'.
    intros r' r A1 A2 A3 B1 B2 B3.
    assert (GF.sle r r') as H1 by (destruct A3 as [->|A3]; [exact B1|apply B2, Hset, A3]).
    assert (GF.sle r' r) as H2 by (destruct B3 as [->|B3]; [exact A1|apply A2, Hset, B3]).
    GF.SOT.order.
  - destruct (fold_pick_false_char l a) as (A1 & A2 & A3). destruct (fold_pick_false_char l' a) as (B1 & B2 & B3).
    revert A1 A2 A3 B1 B2 B3.
    generalize (fold_left (GT.pick false) l a) as r. generalize (fold_left (GT.pick false) l' a) as r'.
    intros r' r A1 A2 A3 B1 B2 B3.
    assert (GF.sle r' r) as H1 by (destruct A3 as [->|A3]; [exact B1|apply B2, Hset, A3]).
    assert (GF.sle r r') as H2 by (destruct B3 as [->|B3]; [exact A1|apply A2, Hset, B3]).
    GF.SOT.order.
Qed.

(* minimax of a node depends only on the set of its children (stronger than GameTreeFacts.minimax_perm) *)
Theorem minimax_same_set : forall w cs cs', (forall t, In t cs <-> In t cs') ->
  GT.minimax w (GT.Node cs) = GT.minimax w (GT.Node cs').
Proof.
  intros w cs cs' Hset. cbn [GT.minimax]. apply fold_pick_same_set.
  intros x. rewrite !in_map_iff. split; intros (t & <- & Ht); exists t; (split; [reflexivity|apply Hset, Ht]).
Qed.

(* ------------------------------------------------------------------ *)
(** * The root loop of one pass is GameTree.root_loop *)

Section RootPhase.
  Variables (k : N) (tf : threefold) (fuel : nat) (root : board) (depth : N).

  (* the subtree below the root move m (c = side to move at the root) *)
  Definition rchild (c : color) (m : move) : option tree := atree tf fuel (opp c) root m depth 1 (bl_new tf root).
  Definition rpair (c : color) (m : move) : move * tree := (m, force (rchild c m)).

  Lemma root_phase_tree : forall c moves sc best alpha beta st sc' best' a' b' st',
    (forall m, In m moves -> rchild c m <> None) ->
    root_phase k tf fuel c root depth moves sc best alpha beta st = RVal sc' best' a' b' st' ->
    (best', sc') = GT.root_loop (wbool c) (map (rpair c) moves) alpha beta sc best.
  Proof.
    intros c moves. induction moves as [|m rest IH]; intros sc best alpha beta st sc' best' a' b' st' Hall H.
    - rewrite root_phase_nil in H. injection H as <- <- _ _ _. reflexivity.
    - rewrite root_phase_cons in H.
      destruct (alphabeta k tf fuel (opp c) root m depth 1 alpha beta (bl_new tf root) st) as [new st1| |] eqn:E;
        [|discriminate|discriminate].
      destruct (expired k st1); [discriminate|].
      assert (rchild c m = Some (force (rchild c m))) as Hm.
      { pose proof (Hall m (or_introl eq_refl)) as Hne. destruct (rchild c m); [reflexivity|contradiction Hne; reflexivity]. }
      pose proof (ab_tree _ _ _ _ _ _ _ _ _ _ _ _ _ _ _ Hm E) as Hnew. rewrite wbool_opp in Hnew.
      cbn [map GT.root_loop rpair]. rewrite <- Hnew.
      rewrite upd_alpha_wbool, upd_beta_wbool, !pick_wbool, is_better_wbool in H.
      unfold GT.pick. 
      apply (IH _ _ _ _ _ _ _ _ _ _ (fun x Hx => Hall x (or_intror Hx))) in H.
      unfold GT.pick in H. exact H.
  Qed.

  Lemma root_phase_app : forall c l1 l2 sc best alpha beta st,
    root_phase k tf fuel c root depth (l1 ++ l2) sc best alpha beta st =
    match root_phase k tf fuel c root depth l1 sc best alpha beta st with
    | RVal sc1 best1 a1 b1 st1 => root_phase k tf fuel c root depth l2 sc1 best1 a1 b1 st1
    | RTimeout => RTimeout
    | RFuel => RFuel
    end.
  Proof.
    intros c l1 l2. induction l1 as [|m rest IH]; intros sc best alpha beta st.
    - rewrite app_nil_l, root_phase_nil. reflexivity.
    - rewrite <- app_comm_cons, !root_phase_cons.
      destruct (alphabeta k tf fuel (opp c) root m depth 1 alpha beta (bl_new tf root) st) as [new st1| |];
        [|reflexivity|reflexivity].
      destruct (expired k st1); [reflexivity|]. apply IH.
  Qed.
End RootPhase.

(* the moves of one pass, in the order they are searched *)
Definition pass_order (root : board) (prev : option move) : list move :=
  (match prev with Some mv => [mv] | None => [] end) ++ cap_moves root prev ++ quiet_moves root prev.

Lemma pass_root_phase : forall k tf fuel root depth prev st sc best st',
  pass k tf fuel root depth prev st = PassDone sc best st' ->
  exists a b st3,
    root_phase k tf fuel (b_turn root) root depth (pass_order root prev) (worst (b_turn root)) None SMin SMax st
    = RVal sc best a b st3.
Proof.
  intros k tf fuel root depth prev st sc best st' H. rewrite pass_eq in H.
  unfold pass_order. rewrite root_phase_app.
  assert (root_phase k tf fuel (b_turn root) root depth (match prev with Some mv => [mv] | None => [] end)
            (worst (b_turn root)) None SMin SMax st = first_phase k tf fuel root depth prev st) as ->
    by (unfold first_phase; destruct prev; reflexivity).
  destruct (first_phase k tf fuel root depth prev st) as [sc1 best1 a1 b1 st1| |]; [|discriminate|discriminate].
  rewrite root_phase_app.
  destruct (root_phase k tf fuel (b_turn root) root depth (cap_moves root prev) sc1 best1 a1 b1 st1)
    as [sc2 best2 a2 b2 st2| |]; [|discriminate|discriminate].
  destruct (root_phase k tf fuel (b_turn root) root depth (quiet_moves root prev) sc2 best2 a2 b2 st2)
    as [sc3 best3 a3 b3 st3| |]; [|discriminate|discriminate].
  destruct (expired k st3); [discriminate|]. injection H as <- <- _.
  exists a3, b3, st3. reflexivity.
Qed.

(* which moves a pass searches: the previous best move, and every legal move that does not share
   source and destination with it (mg_remove_move drops ALL promotions of a pawn to one square) *)
Lemma pass_order_in : forall root prev x, prev_legal root prev ->
  In x (pass_order root prev) <->
  match prev with
  | None => In x (legals root)
  | Some mv => x = mv \/ (In x (legals root) /\ same_src_dst mv x = false)
  end.
Proof.
  intros root prev x Hprev. unfold pass_order.
  pose proof (pass_lists_perm root prev (small_root_all root)) as HP.
  pose proof (legals_perm_content root (small_root_all root)) as HL.
  assert (forall y, In y (content (legals_gen root)) <-> In y (legals root)) as Hleg.
  { intros y. split; intros Hy; [apply (Permutation_in y (Permutation_sym HL) Hy)|apply (Permutation_in y HL Hy)]. }
  assert (forall y, In y (cap_moves root prev ++ quiet_moves root prev) <-> In y (content (root_gen1 root prev))) as Hcq.
  { intros y. split; intros Hy; [apply (Permutation_in y HP Hy)|apply (Permutation_in y (Permutation_sym HP) Hy)]. }
  destruct prev as [mv|].
  - change ([mv] ++ cap_moves root (Some mv) ++ quiet_moves root (Some mv))
      with (mv :: (cap_moves root (Some mv) ++ quiet_moves root (Some mv))).
    cbn [In]. rewrite Hcq. unfold root_gen1.
    destruct (remove_move_spec (legals_gen root) mv (legals_gen_wf root) (legals_gen_promo0 root)) as (Hc & _).
    rewrite Hc, filter_In, Hleg, negb_true_iff.
    split; intros [E|E]; [left; symmetry; exact E|right; exact E|left; symmetry; exact E|right; exact E].
  - rewrite app_nil_l, Hcq. unfold root_gen1. apply Hleg.
Qed.

(* ------------------------------------------------------------------ *)
(** * The root tree and the value of a pass *)

Definition moves_tree (tf : threefold) (fuel : nat) (root : board) (depth : N) (ms : list move) : option tree :=
  option_map GT.Node (opt_all (map (rchild tf fuel root depth (b_turn root)) ms)).

(* the root: all legal root moves, in legals order *)
Definition root_tree (tf : threefold) (fuel : nat) (root : board) (depth : N) : option tree :=
  moves_tree tf fuel root depth (legals root).

Lemma moves_tree_some : forall tf fuel root depth ms t, moves_tree tf fuel root depth ms = Some t ->
  t = GT.Node (map (fun m => force (rchild tf fuel root depth (b_turn root) m)) ms) /\
  (forall m, In m ms -> rchild tf fuel root depth (b_turn root) m <> None).
Proof.
  intros tf fuel root depth ms t H. unfold moves_tree in H.
  destruct (opt_all _) as [cs|] eqn:E in H; [|discriminate]. injection H as <-.
  destruct (opt_all_force _ _ _ _ E) as (-> & Hall). split; [reflexivity|].
  intros m Hm. rewrite (Hall m Hm). discriminate.
Qed.

Lemma moves_tree_exists : forall tf fuel root depth ms,
  (forall m, In m ms -> rchild tf fuel root depth (b_turn root) m <> None) ->
  exists t, moves_tree tf fuel root depth ms = Some t.
Proof.
  intros tf fuel root depth ms H. unfold moves_tree.
  pose proof (opt_all_some _ _ (rchild tf fuel root depth (b_turn root)) ms H) as Hne.
  destruct (opt_all _) as [cs|]; [|contradiction Hne; reflexivity]. eexists. reflexivity.
Qed.

(* A completed pass IS GameTree.root (move and score) over the moves in the order searched. *)
Theorem pass_root : forall k tf fuel root depth prev st sc best st',
  (forall m, In m (pass_order root prev) -> rchild tf fuel root depth (b_turn root) m <> None) ->
  pass k tf fuel root depth prev st = PassDone sc best st' ->
  (best, sc) = GT.root (wbool (b_turn root)) (map (rpair tf fuel root depth (b_turn root)) (pass_order root prev)).
Proof.
  intros k tf fuel root depth prev st sc best st' Hall H.
  destruct (pass_root_phase _ _ _ _ _ _ _ _ _ _ H) as (a & b & st3 & HR).
  pose proof (root_phase_tree k tf fuel root depth _ _ _ _ _ _ _ _ _ _ _ _ Hall HR) as E.
  unfold GT.root. rewrite <- worst_wbool. exact E.
Qed.

(* ... hence its score is the minimax value of the tree of the moves searched *)
Theorem pass_minimax_order : forall k tf fuel root depth prev st sc best st' t,
  moves_tree tf fuel root depth (pass_order root prev) = Some t ->
  pass k tf fuel root depth prev st = PassDone sc best st' ->
  sc = GT.minimax (wbool (b_turn root)) t.
Proof.
  intros k tf fuel root depth prev st sc best st' t Ht H.
  destruct (moves_tree_some _ _ _ _ _ _ Ht) as (-> & Hall).
  pose proof (pass_root _ _ _ _ _ _ _ _ _ _ Hall H) as E.
  apply (f_equal snd) in E. cbn [snd] in E. rewrite E, root_score_gen, map_map. reflexivity.
Qed.

(* the previous best move is the only legal move with its source and destination
   (true of every non-promotion move; FALSE for a promotion, whose three sibling promotions are
   removed from the generator together with it and are then not searched in this pass) *)
Definition prev_unique (root : board) (prev : option move) : Prop :=
  forall p x, prev = Some p -> In x (legals root) -> same_src_dst p x = true -> x = p.

Lemma prev_unique_none : forall root, prev_unique root None.
Proof. intros root p x H. discriminate H. Qed.

Theorem pass_minimax : forall k tf fuel root depth prev st sc best st' t,
  prev_legal root prev -> prev_unique root prev ->
  root_tree tf fuel root depth = Some t ->
  pass k tf fuel root depth prev st = PassDone sc best st' ->
  sc = GT.minimax (wbool (b_turn root)) t.
Proof.
  intros k tf fuel root depth prev st sc best st' t Hprev Huniq Ht H.
  destruct (moves_tree_some _ _ _ _ _ _ Ht) as (-> & Hall).
  assert (forall x, In x (pass_order root prev) <-> In x (legals root)) as Hset.
  { intros x. rewrite (pass_order_in root prev x Hprev). destruct prev as [mv|]; [|reflexivity].
    split.
    - intros [->|[Hx _]]; [apply Hprev; reflexivity|exact Hx].
    - intros Hx. destruct (same_src_dst mv x) eqn:E; [left; apply (Huniq mv x eq_refl Hx E)|right; split; [exact Hx|reflexivity]]. }
  destruct (moves_tree_exists tf fuel root depth (pass_order root prev)) as (t' & Ht').
  { intros m Hm. apply Hall, Hset, Hm. }
  rewrite (pass_minimax_order _ _ _ _ _ _ _ _ _ _ _ Ht' H).
  destruct (moves_tree_some _ _ _ _ _ _ Ht') as (-> & _).
  apply minimax_same_set. intros t0. rewrite !in_map_iff.
  split; intros (m & <- & Hm); exists m; (split; [reflexivity|apply Hset, Hm]).
Qed.

(* the statement as first proposed (no prev_unique) holds for the first pass of a search *)
Corollary first_pass_minimax : forall k tf fuel root depth st sc best st' t,
  root_tree tf fuel root depth = Some t ->
  pass k tf fuel root depth None st = PassDone sc best st' ->
  sc = GT.minimax (wbool (b_turn root)) t.
Proof.
  intros k tf fuel root depth st sc best st' t Ht H.
  apply (pass_minimax k tf fuel root depth None st sc best st' t); [intros p Hp; discriminate Hp|apply prev_unique_none|exact Ht|exact H].
Qed.

(* ------------------------------------------------------------------ *)
(** * Fuel: the tree exists as soon as fuel > remaining depth + capture measure *)

Section Fuel.
  Variable Inv : board -> Prop.
  Variable mu : board -> nat.
  Hypothesis step : capture_measure Inv mu.

  Theorem atree_fuel_enough_rel : forall tf fuel c old mv remaining current bl,
    Inv old -> In mv (content (legals_gen old)) -> (N.to_nat remaining + mu old < fuel)%nat ->
    atree tf fuel c old mv remaining current bl <> None.
  Proof.
    intros tf fuel. induction fuel as [|f IH]; intros c old mv remaining current bl Hinv Hin Hfuel.
    - lia.
    - rewrite atree_S. cbv zeta.
      pose proof (child_measure Inv mu step old mv remaining Hinv Hin) as Hmeas.
      destruct (step old mv Hinv Hin) as (Hinv' & _ & _).
      revert Hmeas Hinv'. generalize (apply old mv) as b. intros b.
      generalize (was_capture old mv) as wc. intros wc Hmeas Hinv'.
      destruct (wc && insufficient_material b); [discriminate|].
      destruct (mg_is_empty (legals_gen b)); [discriminate|].
      destruct (100 <=? b_half b); [discriminate|].
      destruct (bl_head_count (if wc then bl_new tf b else bl_add bl tf b) =? 3); [discriminate|].
      set (g1 := if (remaining =? 0) && wc then mg_set_mask (legals_gen b) (colors b (opp c)) else legals_gen b).
      destruct ((remaining =? 0) && (if wc then mg_is_empty g1 else true)) eqn:Hcomplete; [discriminate|].
      assert (sub_gen g1 (legals_gen b)) as Hsub.
      { assert (sub_gen (legals_gen b) (legals_gen b)) as H0
          by (apply sub_gen_refl; [apply legals_gen_wf|apply legals_gen_promo0]).
        subst g1. destruct ((remaining =? 0) && wc); [apply sub_gen_set_mask, H0|exact H0]. }
      assert ((remaining =? 0) && negb wc = false) as Hc.
      { destruct (remaining =? 0); [|reflexivity]. destruct wc; [reflexivity|discriminate Hcomplete]. }
      specialize (Hmeas Hc).
      assert (opt_all (map (fun m => atree tf f (opp c) b m (sat_sub1 remaining) (current + 1)
                                       (if wc then bl_new tf b else bl_add bl tf b)) (mg_drain g1)) <> None) as Hne.
      { apply opt_all_some. intros m Hm.
        apply IH; [exact Hinv'|apply (sub_gen_drain_in g1 (legals_gen b) m Hsub Hm)|lia]. }
      destruct (opt_all _); [discriminate|contradiction Hne; reflexivity].
  Qed.

  Theorem root_tree_exists_rel : forall tf fuel root depth,
    Inv root -> (N.to_nat depth + mu root < fuel)%nat -> exists t, root_tree tf fuel root depth = Some t.
  Proof.
    intros tf fuel root depth Hinv Hfuel. apply moves_tree_exists. intros m Hm. unfold rchild.
    apply atree_fuel_enough_rel; [exact Hinv|apply legals_in_content, Hm|exact Hfuel].
  Qed.

  (* one completed pass at depth d from a root with enough fuel: the root tree exists, the pass does not
     run out of fuel, and if it completes its score is the minimax value of the root tree *)
  Theorem search_depth_score_rel : forall k tf fuel root depth prev st,
    Inv root -> prev_legal root prev -> prev_unique root prev -> (N.to_nat depth + mu root < fuel)%nat ->
    exists t, root_tree tf fuel root depth = Some t /\
      pass k tf fuel root depth prev st <> PassFuel /\
      forall sc best st', pass k tf fuel root depth prev st = PassDone sc best st' ->
        sc = GT.minimax (wbool (b_turn root)) t.
  Proof.
    intros k tf fuel root depth prev st Hinv Hprev Huniq Hfuel.
    destruct (root_tree_exists_rel tf fuel root depth Hinv Hfuel) as (t & Ht).
    exists t. split; [exact Ht|split].
    - apply (pass_no_fuel_rel Inv mu step); [exact Hinv|apply small_root_all|exact Hprev|exact Hfuel].
    - intros sc best st' H. apply (pass_minimax _ _ _ _ _ _ _ _ _ _ _ Hprev Huniq Ht H).
  Qed.
End Fuel.

(* ------------------------------------------------------------------ *)
(** * Instances on Good boards (the only chess-specific part: Good is preserved, captures remove a man,
      and a non-promotion move is determined by its source and destination) *)

From Chess Require proofs.HashFacts proofs.InvFacts proofs.LegalDefs proofs.AttackFacts proofs.FreshFacts proofs.ReachableMore.

Theorem atree_fuel_enough : forall tf fuel c old mv remaining current bl,
  LegalDefs.Good old -> In mv (content (legals_gen old)) -> (N.to_nat remaining + men old < fuel)%nat ->
  atree tf fuel c old mv remaining current bl <> None.
Proof. exact (atree_fuel_enough_rel LegalDefs.Good men ReachableMore.capture_measure_good). Qed.

Theorem root_tree_exists : forall tf fuel root depth,
  LegalDefs.Good root -> (N.to_nat depth + men root < fuel)%nat -> exists t, root_tree tf fuel root depth = Some t.
Proof. exact (root_tree_exists_rel LegalDefs.Good men ReachableMore.capture_measure_good). Qed.

Lemma nonpromo_unique : forall b p x, HashFacts.Part b -> InvFacts.own_king b ->
  InvFacts.gen_move b p -> InvFacts.gen_move b x -> m_promo p = None -> same_src_dst p x = true -> x = p.
Proof.
  intros b p x P K Gp Gx Hnp Hsd.
  destruct (InvFacts.gen_move_ok b p P K Gp) as (pc & pr & MOp).
  destruct (InvFacts.gen_move_ok b x P K Gx) as (pc' & pr' & MOx).
  unfold same_src_dst in Hsd. apply andb_true_iff in Hsd. destruct Hsd as [Hs Hd].
  apply N.eqb_eq in Hs. apply N.eqb_eq in Hd.
  pose proof (InvFacts.mo_raw _ _ _ _ MOp) as Rp. pose proof (InvFacts.mo_raw _ _ _ _ MOx) as Rx.
  rewrite Hs, Rp in Rx. injection Rx as <-.
  assert (pr = false) as ->.
  { pose proof (InvFacts.mo_promo _ _ _ _ MOp) as H. destruct pr; [|reflexivity].
    destruct H as (q & _ & Hq). rewrite Hnp in Hq. discriminate Hq. }
  assert (pr' = false) as ->.
  { destruct pr'; [|reflexivity]. exfalso.
    pose proof (InvFacts.mo_src _ _ _ _ MOp) as Hlt.
    assert (piece_eqb pc Pawn && (rank_of (m_src p) =? InvFacts.seventh_rank (b_turn b)) = true) as H7.
    { destruct (InvFacts.mo_kind _ _ _ _ MOx) as [_ E|f _ _ _ _ E|sd _ _ _ _ E]; [|discriminate E|discriminate E].
      rewrite <- Hs. symmetry. exact E. }
    destruct (InvFacts.mo_kind _ _ _ _ MOp) as [_ E|f Epc _ _ Hr _|sd Epc _ _ _ _].
    - rewrite H7 in E. discriminate E.
    - apply andb_true_iff in H7. destruct H7 as [_ H7]. apply N.eqb_eq in H7.
      rewrite mem_from_rank in Hr by (try exact Hlt; destruct (b_turn b); cbn; lia).
      apply N.eqb_eq in Hr. unfold rank_of in H7. rewrite Hr in H7.
      destruct (b_turn b); cbn in H7; lia.
    - subst pc. discriminate H7. }
  pose proof (InvFacts.mo_promo _ _ _ _ MOx) as Hx. cbv beta iota in Hx.
  destruct x as [xs xd xp], p as [ps pd pp]. cbn [m_src m_dst m_promo] in *. subst. reflexivity.
Qed.

Lemma legals_gen_move : forall b m, In m (legals b) -> InvFacts.gen_move b m.
Proof. intros b m H. apply ReachableMore.content_gen_move, legals_in_content, H. Qed.

(* on a Good root every non-promotion previous move satisfies prev_unique *)
Theorem prev_unique_nonpromo : forall root prev, LegalDefs.Good root -> prev_legal root prev ->
  (forall p, prev = Some p -> m_promo p = None) -> prev_unique root prev.
Proof.
  intros root prev G Hprev Hnp p x E Hx Hsd.
  apply (nonpromo_unique root p x (AttackFacts.Good_Part root G) (FreshFacts.Good_own_king root G));
    [apply legals_gen_move, Hprev, E|apply legals_gen_move, Hx|apply Hnp, E|exact Hsd].
Qed.

(* C13 interface: one completed pass at depth d from a Good root with enough fuel.  The root tree exists, the
   pass never stops for lack of fuel, and if it completes its score is the minimax value of the root tree --
   provided the previous best move is not one of several promotions on the same square. *)
Corollary search_depth_score : forall k tf fuel root depth prev st,
  LegalDefs.Good root -> prev_legal root prev -> prev_unique root prev -> (N.to_nat depth + men root < fuel)%nat ->
  exists t, root_tree tf fuel root depth = Some t /\
    pass k tf fuel root depth prev st <> PassFuel /\
    forall sc best st', pass k tf fuel root depth prev st = PassDone sc best st' ->
      sc = GT.minimax (wbool (b_turn root)) t.
Proof. exact (search_depth_score_rel LegalDefs.Good men ReachableMore.capture_measure_good). Qed.

Corollary search_depth_score_nonpromo : forall k tf fuel root depth prev st,
  LegalDefs.Good root -> prev_legal root prev -> (forall p, prev = Some p -> m_promo p = None) ->
  (N.to_nat depth + men root < fuel)%nat ->
  exists t, root_tree tf fuel root depth = Some t /\
    pass k tf fuel root depth prev st <> PassFuel /\
    forall sc best st', pass k tf fuel root depth prev st = PassDone sc best st' ->
      sc = GT.minimax (wbool (b_turn root)) t.
Proof.
  intros k tf fuel root depth prev st G Hprev Hnp Hfuel.
  apply search_depth_score; [exact G|exact Hprev|apply prev_unique_nonpromo; assumption|exact Hfuel].
Qed.

(* ------------------------------------------------------------------ *)
(** * The score search returns comes from one completed pass *)

Lemma deepen_last_pass : forall k tf root passes fuel depth best bsc maxd st m sc d f,
  prev_legal root best ->
  deepen k tf passes fuel root depth best bsc maxd st = (Some m, sc, d, f) ->
  (best = Some m /\ sc = bsc /\ d = maxd) \/
  exists prev st1 st2, prev_legal root prev /\
    pass k tf (fuel + N.to_nat d) root d prev st1 = PassDone sc (Some m) st2.
Proof.
  intros k tf root passes. induction passes as [|p IH]; intros fuel depth best bsc maxd st m sc d f Hbest H.
  - rewrite deepen_0 in H. injection H as -> -> -> _. left. repeat split.
  - rewrite deepen_S in H.
    destruct (pass k tf (fuel + N.to_nat depth) root depth best st) as [| |sc1 b1 st1] eqn:Hp.
    + injection H as -> -> -> _. left. repeat split.
    + injection H as -> -> -> _. left. repeat split.
    + destruct b1 as [m1|]; [|discriminate].
      assert (exists prev st1 st2, prev_legal root prev /\
                pass k tf (fuel + N.to_nat depth) root depth prev st1 = PassDone sc1 (Some m1) st2) as Hhere
        by (exists best, st, st1; split; [exact Hbest|exact Hp]).
      destruct (is_mate_score sc1); [injection H as <- <- <- _; right; exact Hhere|].
      destruct (depth =? 65535); [injection H as <- <- <- _; right; exact Hhere|].
      pose proof (pass_best_legal_all _ _ _ _ _ _ _ _ _ _ Hbest Hp) as Hm1.
      assert (prev_legal root (Some m1)) as Hnext by (intros q Hq; injection Hq as <-; exact Hm1).
      destruct (IH _ _ _ _ _ _ _ _ _ _ Hnext H) as [(E1 & E2 & E3)|Hlater]; [|right; exact Hlater].
      injection E1 as <-. subst sc d. right. exact Hhere.
Qed.

Theorem search_last_pass : forall k tf passes fuel root m sc d f,
  search k tf passes fuel root = (Some m, sc, d, f) ->
  exists prev st1 st2, prev_legal root prev /\
    pass k tf (fuel + N.to_nat d) root d prev st1 = PassDone sc (Some m) st2.
Proof.
  intros k tf passes fuel root m sc d f H. unfold search in H.
  assert (prev_legal root None) as Hnone by (intros q Hq; discriminate Hq).
  destruct (deepen_last_pass _ _ _ _ _ _ _ _ _ _ _ _ _ _ Hnone H) as [(E & _)|Hp]; [discriminate E|exact Hp].
Qed.

(* The score returned by search on a Good root (fuel > men) is the minimax value of the tree of the root
   moves searched in the last completed pass: depth d, previous best move first. *)
Theorem search_score_minimax : forall k tf passes fuel root m sc d f,
  LegalDefs.Good root -> (men root < fuel)%nat ->
  search k tf passes fuel root = (Some m, sc, d, f) ->
  exists prev t, prev_legal root prev /\
    moves_tree tf (fuel + N.to_nat d) root d (pass_order root prev) = Some t /\
    sc = GT.minimax (wbool (b_turn root)) t /\
    (prev_unique root prev -> exists t', root_tree tf (fuel + N.to_nat d) root d = Some t' /\
                                         sc = GT.minimax (wbool (b_turn root)) t').
Proof.
  intros k tf passes fuel root m sc d f G Hfuel H.
  destruct (search_last_pass _ _ _ _ _ _ _ _ _ H) as (prev & st1 & st2 & Hprev & Hp).
  assert (N.to_nat d + men root < fuel + N.to_nat d)%nat as Hf by lia.
  destruct (root_tree_exists tf (fuel + N.to_nat d) root d G Hf) as (t' & Ht').
  destruct (moves_tree_some _ _ _ _ _ _ Ht') as (_ & Hall).
  destruct (moves_tree_exists tf (fuel + N.to_nat d) root d (pass_order root prev)) as (t & Ht).
  { intros x Hx. apply Hall. apply (pass_order_in root prev x Hprev) in Hx.
    destruct prev as [mv|]; [|exact Hx]. destruct Hx as [->|[Hx _]]; [apply Hprev; reflexivity|exact Hx]. }
  exists prev, t. split; [exact Hprev|split; [exact Ht|split]].
  - exact (pass_minimax_order _ _ _ _ _ _ _ _ _ _ _ Ht Hp).
  - intros Hu. exists t'. split; [exact Ht'|]. exact (pass_minimax _ _ _ _ _ _ _ _ _ _ _ Hprev Hu Ht' Hp).
Qed.

(* ------------------------------------------------------------------ *)
(** * Counterexample: without [prev_unique] a pass does NOT return the minimax value of the root tree

   Position 7n/4P1k1/8/RR6/8/2r2b1q/5P1P/6K1 w - - 0 1.  Black threatens Qg2 mate.  The first pass (depth 0)
   prefers e7e8=Q.  In the second pass (depth 1) e7e8=Q is searched first and mg_remove_move removes ALL FOUR
   promotions e7-e8 from the generator (defect "remove_move removes all 4 promotions"), so the saving
   under-promotion e7e8=N+ is never searched: the pass scores -750 (Rb5-g5+), the minimax value of the
   depth-1 root tree is -530 (e7e8=N+). *)
From Chess Require model.Fen.

Definition cex_fen : list N :=
  [55;110;47;52;80;49;107;49;47;56;47;82;82;54;47;56;47;50;114;50;98;49;113;47;53;80;49;80;47;54;75;49;
   32;119;32;45;32;45;32;48;32;49].
Definition cex_root : board := match Fen.parse_fen cex_fen with Some b => b | None => standard end.
Definition cex_e8q : move := {| m_src := 52; m_dst := 60; m_promo := Some Queen |}.
Definition cex_st0 : sst := {| s_polls := 0; s_evals := 0 |}.

Example cex_parses : Fen.parse_fen cex_fen = Some cex_root.
Proof. vm_compute. reflexivity. Qed.

Example cex_first_pass :
  pass 1000000 [] 40 cex_root 0 None cex_st0 = PassDone (SRaw 50) (Some cex_e8q) {| s_polls := 25; s_evals := 24 |}.
Proof. vm_compute. reflexivity. Qed.

Example cex_second_pass :
  prev_legal cex_root (Some cex_e8q) /\
  pass 1000000 [] 40 cex_root 1 (Some cex_e8q) cex_st0
    = PassDone (SRaw (-750)) (Some {| m_src := 33; m_dst := 38; m_promo := None |}) {| s_polls := 342; s_evals := 297 |} /\
  option_map (GT.minimax true) (root_tree [] 40 cex_root 1) = Some (SRaw (-530)).
Proof.
  split; [|split].
  - intros p E. injection E as <-. vm_compute. left. reflexivity.
  - vm_compute. reflexivity.
  - vm_compute. reflexivity.
Qed.

(* the same through Engine::search (two passes): depth 1, score -750, although the depth-1 minimax value is -530 *)
Example cex_search :
  search 1000000 [] 2 40 cex_root = (Some {| m_src := 33; m_dst := 38; m_promo := None |}, SRaw (-750), 1, true).
Proof. vm_compute. reflexivity. Qed.

Print Assumptions ab_tree.
Print Assumptions atree_fuel_mono.
Print Assumptions root_score_gen.
Print Assumptions minimax_same_set.
Print Assumptions pass_root.
Print Assumptions pass_minimax_order.
Print Assumptions pass_minimax.
Print Assumptions first_pass_minimax.
Print Assumptions atree_fuel_enough.
Print Assumptions root_tree_exists.
Print Assumptions prev_unique_nonpromo.
Print Assumptions search_depth_score.
Print Assumptions search_depth_score_nonpromo.
Print Assumptions search_score_minimax.
Print Assumptions cex_second_pass.
Print Assumptions cex_search.
