(* Good boards with at most 16 men per side pass Board::validate, are fixed points of update_pin_info and
   survive the FEN round trip; the bound "at most 16 men per side" is kept by make-move.
     apply_men, apply_men_le16   the number of men of either colour never grows under a generated move
     good_validate               Good b -> men_le16 b -> validate b = None
     good_update_pin_info        Good b -> update_pin_info b = b
     good_roundtrip              parse_fen (write_fen b) = Some b
     parse_men_le16              parsed boards have at most 16 men per side
   Axiom-free. *)
From Coq Require Import NArith ZArith List Bool Lia ZifyBool ZifyN.
From Chess Require Import base.Bits base.Types base.BitBoard base.Sweep geom.Geometry model.Board model.Fen model.MoveGen model.Apply spec.Rules.
From Chess Require Import proofs.BitsFacts proofs.BitBoardFacts.
From Chess Require proofs.SiteFacts proofs.BridgeFacts proofs.FenFacts proofs.FenRoundTrip.
From Chess Require Import spec.IterSpec proofs.HashFacts proofs.InvFacts proofs.LegalDefs proofs.AttackDefs proofs.AttackFacts.
From Chess Require proofs.SafeFacts.
Import ListNotations.
Local Open Scope N_scope.

Definition men_le16 (b : board) : Prop := count (b_white b) <= 16 /\ count (b_black b) <= 16.

(* ------------------------------------------------------------------ *)
(** * Counting through an injection *)

Lemma NoDup_map_inj_on : forall (f : N -> N) l, NoDup l ->
  (forall x y, In x l -> In y l -> f x = f y -> x = y) -> NoDup (map f l).
Proof.
  intros f l H. induction H as [|x l Hx Hl IH]; intros Hinj; [constructor|].
  cbn [map]. constructor.
  - intros Hin. apply in_map_iff in Hin. destruct Hin as (y & Hy & Hyl).
    assert (E : y = x) by (apply Hinj; [right; exact Hyl|left; reflexivity|exact Hy]).
    subst y. exact (Hx Hyl).
  - apply IH. intros a c Ha Hc. apply Hinj; right; assumption.
Qed.

Lemma count_inj_le : forall A B (f : N -> N), wf64 A -> wf64 B ->
  (forall s, s < 64 -> mem A s = true -> f s < 64 /\ mem B (f s) = true) ->
  (forall s t, s < 64 -> t < 64 -> mem A s = true -> mem A t = true -> f s = f t -> s = t) ->
  count A <= count B.
Proof.
  intros A B f WA WB Hf Hinj. rewrite (count_spec A WA), (count_spec B WB).
  assert (L : (length (elements A) <= length (elements B))%nat).
  { rewrite <- (map_length f (elements A)). apply NoDup_incl_length.
    - apply NoDup_map_inj_on; [apply elements_NoDup|].
      intros x y Hx Hy. apply elements_spec in Hx, Hy. destruct Hx as [X1 X2], Hy as [Y1 Y2].
      apply Hinj; assumption.
    - intros y Hy. apply in_map_iff in Hy. destruct Hy as (x & <- & Hx).
      apply elements_spec in Hx. destruct Hx as [X1 X2]. apply elements_spec. apply Hf; assumption. }
  lia.
Qed.

(* the squares of one colour, through raw_get *)
Lemma colors_mem_raw : forall b c s, HashFacts.Part b -> s < 64 ->
  (mem (colors b c) s = true <-> exists p, raw_get b s = Some (c, p)).
Proof.
  intros b c s P Hs. split.
  - intros H. destruct (raw_get b s) as [[c' p]|] eqn:E.
    + rewrite (raw_mem_colors b s c' p c P Hs E) in H. apply BridgeFacts.color_eqb_eq in H. subst c'.
      exists p. reflexivity.
    + rewrite (raw_none_colors b s c P Hs E) in H. discriminate H.
  - intros [p H]. exact (raw_some_color b s c p P Hs H).
Qed.

(* ------------------------------------------------------------------ *)
(** * The placement after a move, colour by colour *)

Lemma moved_cases : forall b m pc s c p, moved b m pc s = Some (c, p) ->
  s <> m_src m /\ ((s = m_dst m /\ c = b_turn b /\ p = pc) \/ (s <> m_dst m /\ raw_get b s = Some (c, p))).
Proof.
  intros b m pc s c p H. unfold moved in H.
  destruct (N.eqb_spec s (m_src m)) as [E|N1]; [discriminate H|]. split; [exact N1|].
  destruct (N.eqb_spec s (m_dst m)) as [E|N2].
  - left. injection H as H1 H2. repeat split; [exact E|symmetry; exact H1|symmetry; exact H2].
  - right. split; assumption.
Qed.

Lemma after5_cases : forall b m pc s c p, after5 b m pc s = Some (c, p) ->
  (c = b_turn b /\ s = m_dst m)
  \/ (is_castle_move pc m = true /\ mem (castle_rook_mv (b_turn b) m) s = true /\ moved b m pc s = None
      /\ c = b_turn b /\ p = Rook)
  \/ moved b m pc s = Some (c, p).
Proof.
  intros b m pc s c p H. unfold after5 in H. cbv zeta in H.
  assert (CB : (if is_castle_move pc m
                then (if mem (castle_rook_mv (b_turn b) m) s
                      then match moved b m pc s with Some _ => None | None => Some (b_turn b, Rook) end
                      else moved b m pc s)
                else moved b m pc s) = Some (c, p) ->
               (c = b_turn b /\ s = m_dst m)
               \/ (is_castle_move pc m = true /\ mem (castle_rook_mv (b_turn b) m) s = true /\ moved b m pc s = None
                   /\ c = b_turn b /\ p = Rook)
               \/ moved b m pc s = Some (c, p)).
  { intros X. destruct (is_castle_move pc m); [|right; right; exact X].
    destruct (mem (castle_rook_mv (b_turn b) m) s); [|right; right; exact X].
    destruct (moved b m pc s) as [x|]; [discriminate X|].
    injection X as X1 X2. right; left. repeat split; symmetry; assumption. }
  destruct pc.
  - destruct (m_promo m) as [pr|].
    + destruct (N.eqb_spec s (m_dst m)) as [E|_]; [|right; right; exact H].
      left. injection H as H1 _. split; [symmetry; exact H1|exact E].
    + destruct (is_double_push _ m); [right; right; exact H|].
      destruct (enpassant_pos b) as [ep|]; [|right; right; exact H].
      destruct (m_dst m =? ep); [|right; right; exact H].
      destruct (s =? ep_victim_sq (b_turn b) m); [discriminate H|right; right; exact H].
  - right; right; exact H.
  - exact (CB H).
  - exact (CB H).
  - exact (CB H).
  - exact (CB H).
Qed.

(* men of the side that did not move: they stand where they stood *)
Lemma after5_opp : forall b m pc s p, after5 b m pc s = Some (opp (b_turn b), p) ->
  raw_get b s = Some (opp (b_turn b), p).
Proof.
  intros b m pc s p H. destruct (after5_cases b m pc s _ _ H) as [[E _]|[(_ & _ & _ & E & _)|X]].
  - exfalso. exact (opp_neq _ E).
  - exfalso. exact (opp_neq _ E).
  - destruct (moved_cases b m pc s _ _ X) as (_ & [(_ & E & _)|(_ & R)]); [|exact R].
    exfalso. exact (opp_neq _ E).
Qed.

(* --- castling: the two rook squares --- *)
Definition rk_to (d : N) : N := if d =? 6 then 5 else if d =? 2 then 3 else if d =? 62 then 61 else 59.
Definition rk_from (d : N) : N := if d =? 6 then 7 else if d =? 2 then 0 else if d =? 62 then 63 else 56.

Definition chk_rk (s : N) : bool :=
  all_sides (fun sd c => let d := castle_dest sd c in
    Bool.eqb (mem (rook_bb c d) s) ((s =? rk_from d) || (s =? rk_to d))
    && (rk_from d =? rook_home sd c) && mem (castle_tiles sd c) (rk_to d)
    && (rk_from d <? 64) && (rk_to d <? 64) && negb (rk_from d =? rk_to d)).
Lemma sweep_rk : all_sq chk_rk = true.
Proof. vm_compute. reflexivity. Qed.

Lemma castle_facts : forall b m pc promo, HashFacts.Part b -> rights_ok b -> ep_ok b -> move_ok b m pc promo ->
  is_castle_move pc m = true ->
  let d := m_dst m in
  rk_from d < 64 /\ rk_to d < 64 /\ rk_from d <> rk_to d
  /\ raw_get b (rk_from d) = Some (b_turn b, Rook) /\ raw_get b (rk_to d) = None
  /\ (forall s, s < 64 -> mem (castle_rook_mv (b_turn b) m) s = (s =? rk_from d) || (s =? rk_to d)).
Proof.
  intros b m pc promo P RO EP MO Hc. cbv zeta.
  destruct MO as [Hs Hd Hraw Kd X1 X2 X3].
  pose proof (kind_dest b pc _ _ promo P EP Kd Hd) as Hfree.
  pose proof (src_dst_ne b m pc Hraw Hfree) as Hne.
  pose proof Hc as Hc'.
  unfold is_castle_move in Hc. apply andb_true_iff in Hc. destruct Hc as [Hk Hsub].
  apply piece_eqb_King in Hk. subst pc.
  destruct (mv_bb_ends _ _ Hs Hd Hne) as [M1 M2].
  pose proof (subset_eqb _ _ _ Hsub M1) as C1. pose proof (subset_eqb _ _ _ Hsub M2) as C2.
  destruct Kd as [Hstep _|f Epc _ _ _ _|sd _ Hr Hn Hcd _].
  - exfalso. unfold pseudo_legals in Hstep. rewrite mem_and in Hstep. apply andb_true_iff in Hstep.
    destruct Hstep as [Hg _].
    pose proof (all_sq2_spec _ sweep_king_step _ _ Hs Hd) as S. unfold chk_king_step in S.
    rewrite Hg, C1, C2 in S. discriminate S.
  - discriminate Epc.
  - pose proof (all_sides_spec _ (all_sq_spec _ sweep_castle_dest _ Hd) sd (b_turn b)) as S. cbv beta in S.
    rewrite Hcd in S. cbn [implb] in S. apply N.eqb_eq in S.
    destruct (proj2 RO sd (b_turn b) Hr) as (_ & Rk & _).
    assert (F : forall s, s < 64 ->
      mem (rook_bb (b_turn b) (m_dst m)) s = (s =? rk_from (m_dst m)) || (s =? rk_to (m_dst m))
      /\ rk_from (m_dst m) = rook_home sd (b_turn b) /\ mem (castle_tiles sd (b_turn b)) (rk_to (m_dst m)) = true
      /\ rk_from (m_dst m) < 64 /\ rk_to (m_dst m) < 64 /\ rk_from (m_dst m) <> rk_to (m_dst m)).
    { intros s Hlt.
      pose proof (all_sides_spec _ (all_sq_spec _ sweep_rk _ Hlt) sd (b_turn b)) as S2. cbv beta zeta in S2.
      rewrite <- S in S2. rewrite !andb_true_iff in S2.
      destruct S2 as (((((A1 & A2) & A3) & A4) & A5) & A6).
      apply Bool.eqb_prop in A1. apply N.eqb_eq in A2. apply N.ltb_lt in A4, A5.
      apply negb_true_iff, N.eqb_neq in A6. repeat split; assumption. }
    destruct (F 0 ltac:(lia)) as (_ & F2 & F3 & F4 & F5 & F6).
    split; [exact F4|split; [exact F5|split; [exact F6|split; [|split]]]].
    + rewrite F2. exact Rk.
    + apply raw_none_of_occ; [exact P|exact F5|]. exact (none_and_mem _ _ _ Hn F3).
    + intros s Hlt. rewrite castle_rook_mv_eq. apply (F s Hlt).
Qed.

(* where a man of the mover's colour on the successor board came from *)
Definition back (m : move) (pc : piece) (s : N) : N :=
  if s =? m_dst m then m_src m
  else if is_castle_move pc m && (s =? rk_to (m_dst m)) then rk_from (m_dst m) else s.

Lemma after5_own : forall b m pc promo s p, LegalDefs.Good b -> move_ok b m pc promo -> s < 64 ->
  after5 b m pc s = Some (b_turn b, p) ->
  back m pc s < 64 /\ (exists p', raw_get b (back m pc s) = Some (b_turn b, p'))
  /\ s <> m_src m /\ (is_castle_move pc m = true -> s <> rk_from (m_dst m)).
Proof.
  intros b m pc promo s p G MO Hlt H. pose proof (good_inv b G) as I.
  pose proof (move_dest_free b m pc promo I MO) as Hfree.
  destruct I as [P C RO EP].
  pose proof (mo_src _ _ _ _ MO) as Hs. pose proof (mo_dst _ _ _ _ MO) as Hd.
  pose proof (mo_raw _ _ _ _ MO) as Hraw.
  pose proof (src_dst_ne b m pc Hraw Hfree) as Hne.
  pose proof (castle_facts b m pc promo P RO EP MO) as CF. cbv zeta in CF.
  pose proof (castle_conditions b m pc promo P RO EP MO) as CC.
  unfold back.
  destruct (N.eqb_spec s (m_dst m)) as [Es|Nd].
  - subst s. split; [exact Hs|split; [exists pc; exact Hraw|split; [intros E; apply Hne; symmetry; exact E|]]].
    intros Hc E. destruct (CF Hc) as (F1 & F2 & F3 & F4 & F5 & F6).
    rewrite <- E in F4. destruct Hfree as [X|[cp X]]; rewrite X in F4; [discriminate F4|].
    injection F4 as F4 _. exact (opp_neq _ F4).
  - destruct (after5_cases b m pc s _ _ H) as [[_ E]|[(Hc & Hm & Hmv & _ & _)|X]]; [contradiction| |].
    + (* the castling rook arrives *)
      destruct (CF Hc) as (F1 & F2 & F3 & F4 & F5 & F6).
      destruct (CC Hc s Hlt Hm) as (N1 & _ & _).
      rewrite (F6 s Hlt) in Hm. rewrite Hc. cbn [andb].
      assert (Nf : s <> rk_from (m_dst m)).
      { intros E. subst s. unfold moved in Hmv. apply N.eqb_neq in N1, Nd. rewrite N1, Nd, F4 in Hmv. discriminate Hmv. }
      apply N.eqb_neq in Nf. rewrite Nf in Hm. cbn [orb] in Hm. rewrite Hm.
      split; [exact F1|split; [exists Rook; exact F4|split; [exact N1|]]].
      intros _. apply N.eqb_neq. exact Nf.
    + destruct (moved_cases b m pc s _ _ X) as (N1 & [(E & _)|(_ & R)]); [contradiction|].
      assert (Nf : is_castle_move pc m = true -> s <> rk_from (m_dst m) /\ (s =? rk_to (m_dst m)) = false).
      { intros Hc. destruct (CF Hc) as (F1 & F2 & F3 & F4 & F5 & F6). split.
        - intros E. subst s.
          (* the rook's home square is emptied *)
          assert (Hm : mem (castle_rook_mv (b_turn b) m) (rk_from (m_dst m)) = true)
            by (rewrite (F6 _ F1), N.eqb_refl; reflexivity).
          unfold after5 in H. cbv zeta in H. rewrite X in H.
          unfold is_castle_move in Hc. pose proof Hc as Hc'. apply andb_true_iff in Hc. destruct Hc as [Hk _].
          apply piece_eqb_King in Hk. subst pc. fold (is_castle_move King m) in Hc'. rewrite Hc', Hm in H. discriminate H.
        - apply N.eqb_neq. intros E. subst s. rewrite F5 in R. discriminate R. }
      destruct (is_castle_move pc m) eqn:Hc.
      * destruct (Nf eq_refl) as [A1 A2]. rewrite A2. cbn [andb].
        split; [exact Hlt|split; [exists p; exact R|split; [exact N1|intros _; exact A1]]].
      * cbn [andb]. split; [exact Hlt|split; [exists p; exact R|split; [exact N1|intros Y; discriminate Y]]].
Qed.

Lemma back_inj : forall b m pc promo s t, HashFacts.Part b -> rights_ok b -> ep_ok b -> move_ok b m pc promo ->
  s <> m_src m -> t <> m_src m ->
  (is_castle_move pc m = true -> s <> rk_from (m_dst m)) -> (is_castle_move pc m = true -> t <> rk_from (m_dst m)) ->
  back m pc s = back m pc t -> s = t.
Proof.
  intros b m pc promo s t P RO EP MO Ns Nt Cs Ct H.
  pose proof (castle_facts b m pc promo P RO EP MO) as CF. cbv zeta in CF.
  pose proof (mo_raw _ _ _ _ MO) as Hraw.
  assert (Nfs : is_castle_move pc m = true -> rk_from (m_dst m) <> m_src m).
  { intros Hc E. destruct (CF Hc) as (F1 & F2 & F3 & F4 & F5 & F6). rewrite E, Hraw in F4.
    injection F4 as F4. unfold is_castle_move in Hc. rewrite F4 in Hc. discriminate Hc. }
  unfold back in H.
  destruct (N.eqb_spec s (m_dst m)) as [Es|Ns'], (N.eqb_spec t (m_dst m)) as [Et|Nt'].
  - congruence.
  - exfalso. destruct (is_castle_move pc m) eqn:Hc; cbn [andb] in H.
    + destruct (N.eqb_spec t (rk_to (m_dst m))) as [E|_].
      * apply (Nfs eq_refl). symmetry. exact H.
      * apply Nt. symmetry. exact H.
    + apply Nt. symmetry. exact H.
  - exfalso. destruct (is_castle_move pc m) eqn:Hc; cbn [andb] in H.
    + destruct (N.eqb_spec s (rk_to (m_dst m))) as [E|_].
      * apply (Nfs eq_refl). exact H.
      * apply Ns. exact H.
    + apply Ns. exact H.
  - destruct (is_castle_move pc m) eqn:Hc; cbn [andb] in H; [|exact H].
    destruct (N.eqb_spec s (rk_to (m_dst m))) as [E1|N1], (N.eqb_spec t (rk_to (m_dst m))) as [E2|N2].
    + congruence.
    + exfalso. apply (Ct eq_refl). symmetry. exact H.
    + exfalso. apply (Cs eq_refl). exact H.
    + exact H.
Qed.

(* ------------------------------------------------------------------ *)
(** * The number of men of either colour does not grow *)

Theorem apply_men : forall b m c, LegalDefs.Good b -> gen_move b m -> count (colors (apply b m) c) <= count (colors b c).
Proof.
  intros b m c G Hg. pose proof (good_inv b G) as I. pose proof (inv_part b I) as P.
  destruct (gen_move_ok b m P (SafeFacts.Good_own_king b G) Hg) as (pc & promo & MO).
  destruct (after_move b m pc promo G MO) as [P' RG].
  pose proof (part_wf_colors _ P' c) as W'. pose proof (part_wf_colors _ P c) as W.
  destruct (color_cases c (b_turn b)) as [->| ->].
  - (* the mover *)
    apply (count_inj_le _ _ (back m pc) W' W).
    + intros s Hs Hm. apply (colors_mem_raw _ _ _ P' Hs) in Hm. destruct Hm as [p Hr]. rewrite (RG s Hs) in Hr.
      destruct (after5_own b m pc promo s p G MO Hs Hr) as (A1 & [p' A2] & _).
      split; [exact A1|]. exact (raw_some_color b _ _ p' P A1 A2).
    + intros s t Hs Ht Hms Hmt.
      apply (colors_mem_raw _ _ _ P' Hs) in Hms. destruct Hms as [p Hr]. rewrite (RG s Hs) in Hr.
      apply (colors_mem_raw _ _ _ P' Ht) in Hmt. destruct Hmt as [q Hq]. rewrite (RG t Ht) in Hq.
      destruct (after5_own b m pc promo s p G MO Hs Hr) as (_ & _ & A3 & A4).
      destruct (after5_own b m pc promo t q G MO Ht Hq) as (_ & _ & B3 & B4).
      exact (back_inj b m pc promo s t P (inv_rights b I) (inv_ep b I) MO A3 B3 A4 B4).
  - (* the other side *)
    apply (count_inj_le _ _ (fun s => s) W' W).
    + intros s Hs Hm. apply (colors_mem_raw _ _ _ P' Hs) in Hm. destruct Hm as [p Hr]. rewrite (RG s Hs) in Hr.
      split; [exact Hs|]. exact (raw_some_color b _ _ p P Hs (after5_opp b m pc s p Hr)).
    + intros s t _ _ _ _ E. exact E.
Qed.

Lemma colors_white : forall x, colors x White = b_white x. Proof. reflexivity. Qed.
Lemma colors_black : forall x, colors x Black = b_black x. Proof. reflexivity. Qed.

Theorem apply_men_le16 : forall b m, LegalDefs.Good b -> men_le16 b -> gen_move b m -> men_le16 (apply b m).
Proof.
  intros b m G [H1 H2] Hg. split.
  - pose proof (apply_men b m White G Hg) as A. rewrite !colors_white in A. lia.
  - pose proof (apply_men b m Black G Hg) as A. rewrite !colors_black in A. lia.
Qed.

(* ------------------------------------------------------------------ *)
(** * The total number of men: never grows, shrinks on a capture *)

Lemma count_all_occ : forall x t, HashFacts.Part x ->
  count (all_occ x) = count (colors x t) + count (colors x (opp t)).
Proof.
  intros x t P. unfold all_occ.
  pose proof (part_wf_colors x P White) as Ww. pose proof (part_wf_colors x P Black) as Wb. cbn [colors] in Ww, Wb.
  rewrite (SiteFacts.count_or_disj _ _ Ww Wb (part_colors_disjoint x P)).
  destruct t; cbn [colors opp]; lia.
Qed.

Theorem apply_men_total : forall b m, LegalDefs.Good b -> gen_move b m -> count (all_occ (apply b m)) <= count (all_occ b).
Proof.
  intros b m G Hg. pose proof (good_inv b G) as I. pose proof (inv_part b I) as P.
  destruct (gen_move_ok b m P (SafeFacts.Good_own_king b G) Hg) as (pc & promo & MO).
  destruct (after_move b m pc promo G MO) as [P' _].
  rewrite (count_all_occ _ White P'), (count_all_occ _ White P).
  pose proof (apply_men b m White G Hg). pose proof (apply_men b m (opp White) G Hg). lia.
Qed.

Lemma count_cleared : forall a s, wf64 a -> s < 64 -> mem a s = true -> count a = count (cleared a s) + 1.
Proof.
  intros a s W Hs Hm.
  assert (E : a = bb_or (cleared a s) (from_pos s)).
  { apply ext64; [exact W|apply wf64_or; [apply wf64_cleared|apply wf64_from_pos]|].
    intros t Ht. rewrite mem_or, mem_cleared, mem_from_pos by assumption.
    destruct (N.eqb_spec t s) as [->|_]; [rewrite Hm; reflexivity|].
    cbn [negb]. rewrite andb_true_r, orb_false_r. reflexivity. }
  rewrite E at 1. rewrite SiteFacts.count_or_disj.
  - rewrite (count_from_pos s Hs). reflexivity.
  - apply wf64_cleared.
  - apply wf64_from_pos.
  - apply N.eqb_eq. apply eqb0_true_intro. intros t. rewrite mem_and, mem_from_pos_full.
    destruct (N.ltb_spec t 64) as [Ht|_]; [|apply andb_false_r].
    rewrite mem_cleared by exact Ht. cbn [andb]. destruct (t =? s); [|apply andb_false_r].
    cbn [negb]. rewrite andb_false_r. reflexivity.
Qed.

Lemma after5_opp_ne : forall b m pc s p, after5 b m pc s = Some (opp (b_turn b), p) -> s <> m_dst m.
Proof.
  intros b m pc s p H. destruct (after5_cases b m pc s _ _ H) as [[E _]|[(_ & _ & _ & E & _)|X]].
  - exfalso. exact (opp_neq _ E).
  - exfalso. exact (opp_neq _ E).
  - destruct (moved_cases b m pc s _ _ X) as (_ & [(_ & E & _)|(N2 & _)]); [|exact N2].
    exfalso. exact (opp_neq _ E).
Qed.

Theorem apply_men_capture : forall b m, LegalDefs.Good b -> gen_move b m -> raw_get b (m_dst m) <> None ->
  count (all_occ (apply b m)) < count (all_occ b).
Proof.
  intros b m G Hg Hcap. pose proof (good_inv b G) as I. pose proof (inv_part b I) as P.
  destruct (gen_move_ok b m P (SafeFacts.Good_own_king b G) Hg) as (pc & promo & MO).
  destruct (after_move b m pc promo G MO) as [P' RG].
  pose proof (mo_dst _ _ _ _ MO) as Hd.
  destruct (move_dest_free b m pc promo I MO) as [X|[cp X]]; [contradiction|].
  pose proof (raw_some_color b _ _ cp P Hd X) as Hm.
  pose proof (part_wf_colors _ P' (opp (b_turn b))) as W'. pose proof (part_wf_colors _ P (opp (b_turn b))) as W.
  assert (L : count (colors (apply b m) (opp (b_turn b))) <= count (cleared (colors b (opp (b_turn b))) (m_dst m))).
  { apply (count_inj_le _ _ (fun s => s) W' (wf64_cleared _ _)).
    - intros s Hs Hs'. apply (colors_mem_raw _ _ _ P' Hs) in Hs'. destruct Hs' as [p Hr]. rewrite (RG s Hs) in Hr.
      split; [exact Hs|]. rewrite mem_cleared by exact Hs.
      rewrite (raw_some_color b _ _ p P Hs (after5_opp b m pc s p Hr)).
      pose proof (after5_opp_ne b m pc s p Hr) as Ne. apply N.eqb_neq in Ne. rewrite Ne. reflexivity.
    - intros s t _ _ _ _ E. exact E. }
  rewrite (count_all_occ _ (b_turn b) P'), (count_all_occ _ (b_turn b) P).
  pose proof (apply_men b m (b_turn b) G Hg) as A.
  pose proof (count_cleared _ _ W Hd Hm) as Cc. lia.
Qed.

(* ------------------------------------------------------------------ *)
(** * Good boards pass Board::validate *)

Lemma king_occ : forall b s, HashFacts.Part b -> mem (b_king b) s = true -> mem (all_occ b) s = true.
Proof.
  intros b s P H. rewrite <- (part_cover b P). unfold piece_union. rewrite !mem_or, H. apply orb_true_r.
Qed.

Lemma king_union : forall b, HashFacts.Part b ->
  b_king b = bb_or (bb_and (b_king b) (b_white b)) (bb_and (b_king b) (b_black b)).
Proof.
  intros b P. pose proof (part_wf_pieces b P King) as Wk. cbn [pieces] in Wk.
  apply ext64; [exact Wk|apply wf64_or; apply wf64_land_l; exact Wk|].
  intros s Hs. rewrite mem_or, !mem_and. destruct (mem (b_king b) s) eqn:E; [|reflexivity].
  pose proof (king_occ b s P E) as H. unfold all_occ in H. rewrite mem_or in H. cbn [andb]. symmetry. exact H.
Qed.

Lemma good_has_kings : forall b, LegalDefs.Good b -> has_kings b = true.
Proof.
  intros b G. pose proof (Good_Part b G) as P.
  pose proof (part_wf_pieces b P King) as Wk. cbn [pieces] in Wk.
  assert (K1 : count (bb_and (b_king b) (b_white b)) = 1).
  { pose proof (good_wk b G) as H. unfold one_king in H. cbn [colors] in H. unfold bb_and in *. rewrite N.land_comm. exact H. }
  assert (K2 : count (bb_and (b_king b) (b_black b)) = 1).
  { pose proof (good_bk b G) as H. unfold one_king in H. cbn [colors] in H. unfold bb_and in *. rewrite N.land_comm. exact H. }
  assert (K : count (b_king b) = 2).
  { rewrite (king_union b P) at 1. rewrite SiteFacts.count_or_disj.
    - rewrite K1, K2. reflexivity.
    - apply wf64_land_l; exact Wk.
    - apply wf64_land_l; exact Wk.
    - apply N.eqb_eq. apply eqb0_true_intro. intros s. rewrite !mem_and.
      pose proof (SiteFacts.disj_mem _ _ (part_colors_disjoint b P) s) as D.
      destruct (mem (b_king b) s), (mem (b_white b) s), (mem (b_black b) s); try reflexivity; discriminate D. }
  unfold has_kings. cbv zeta. rewrite K, K1, K2. reflexivity.
Qed.

Lemma good_validate_ep : forall b, ep_ok b -> validate_en_passant b = true.
Proof.
  intros b EP. unfold validate_en_passant. destruct (b_ep b) as [f|] eqn:E; [|reflexivity].
  destruct (EP f E) as (_ & E1 & E2). rewrite E1, E2. destruct (b_turn b); reflexivity.
Qed.

Lemma raw_get_is : forall b s c p, raw_get b s = Some (c, p) -> get_is b s c p = true.
Proof.
  intros b s c p H. unfold get_is. rewrite H. rewrite BridgeFacts.color_eqb_refl, BridgeFacts.piece_eqb_refl. reflexivity.
Qed.

Lemma vcr_rook : forall b sd c, rights_ok b ->
  negb (cr_contains (b_rights b) sd c) || get_is b (rook_home sd c) c Rook = true.
Proof.
  intros b sd c RO. destruct (cr_contains (b_rights b) sd c) eqn:E; [|reflexivity].
  destruct (proj2 RO sd c E) as (_ & R & _). cbn [negb orb]. exact (raw_get_is _ _ _ _ R).
Qed.

Lemma vcr_king : forall b c, rights_ok b ->
  negb (cr_contains_color (b_rights b) c) || get_is b (king_home c) c King = true.
Proof.
  intros b c RO. unfold cr_contains_color.
  destruct (cr_contains (b_rights b) KingSide c) eqn:E1.
  - destruct (proj2 RO KingSide c E1) as (K & _). cbn [negb orb]. exact (raw_get_is _ _ _ _ K).
  - destruct (cr_contains (b_rights b) QueenSide c) eqn:E2; [|reflexivity].
    destruct (proj2 RO QueenSide c E2) as (K & _). cbn [negb orb]. exact (raw_get_is _ _ _ _ K).
Qed.

Lemma good_validate_rights : forall b, rights_ok b -> validate_castle_rights b = true.
Proof.
  intros b RO. unfold validate_castle_rights. cbv zeta.
  pose proof (vcr_rook b KingSide White RO) as A1. pose proof (vcr_rook b QueenSide White RO) as A2.
  pose proof (vcr_rook b KingSide Black RO) as A3. pose proof (vcr_rook b QueenSide Black RO) as A4.
  pose proof (vcr_king b White RO) as A5. pose proof (vcr_king b Black RO) as A6.
  cbn [rook_home king_home] in A1, A2, A3, A4, A5, A6.
  rewrite A1, A2, A3, A4, A5, A6. reflexivity.
Qed.

Theorem good_validate : forall b, LegalDefs.Good b -> men_le16 b -> validate b = None.
Proof.
  intros b G [M1 M2]. pose proof (good_inv b G) as I.
  unfold validate. rewrite (good_has_kings b G). cbn [negb].
  destruct (N.ltb_spec 16 (count (b_white b))) as [L|_]; [lia|].
  destruct (N.ltb_spec 16 (count (b_black b))) as [L|_]; [lia|]. cbn [orb].
  rewrite (good_validate_ep b (inv_ep b I)), (good_validate_rights b (inv_rights b I)). cbn [negb].
  rewrite any_none. pose proof (good_opp b G) as H. unfold opp_safe in H. rewrite H. reflexivity.
Qed.

(* ------------------------------------------------------------------ *)
(** * Good boards are fixed points of update_pin_info *)

Lemma set_pins_self : forall x, set_pins x (b_pinned x) (b_checkers x) = x.
Proof. intros x. destruct x. reflexivity. Qed.

Lemma set_pins_pinned : forall x p c, b_pinned (set_pins x p c) = p. Proof. reflexivity. Qed.
Lemma set_pins_checkers : forall x p c, b_checkers (set_pins x p c) = c. Proof. reflexivity. Qed.

Theorem good_update_pin_info : forall b, LegalDefs.Good b -> update_pin_info b = b.
Proof.
  intros b G. destruct (good_fresh b G) as [F1 F2].
  destruct (FenRoundTrip.update_pin_info_shape b) as (x & y & E).
  rewrite E in F1, F2. rewrite set_pins_pinned in F1. rewrite set_pins_checkers in F2.
  rewrite E, <- F1, <- F2. apply set_pins_self.
Qed.

(* ------------------------------------------------------------------ *)
(** * The FEN round trip *)

Lemma Part_fen : forall b, HashFacts.Part b -> FenRoundTrip.Part b.
Proof.
  intros b P. constructor.
  - exact (part_wf_colors b P).
  - exact (part_wf_pieces b P).
  - exact (part_colors_disjoint b P).
  - exact (part_pieces_disjoint b P).
  - exact (part_cover b P).
Qed.

Lemma scratch_eq : forall b, HashFacts.scratch_piece_hash b = FenRoundTrip.scratch_piece_hash b.
Proof. intros b. unfold HashFacts.scratch_piece_hash, FenRoundTrip.scratch_piece_hash. reflexivity. Qed.

Theorem good_roundtrip : forall b, LegalDefs.Good b -> men_le16 b -> b_half b <= 9999 -> b_full b <= 9999 ->
  Fen.parse_fen (Fen.write_fen b) = Some b.
Proof.
  intros b G M Hh Hf. pose proof (good_inv b G) as I. destruct I as [P C RO EP].
  unfold Fen.parse_fen.
  rewrite (FenRoundTrip.write_parse_roundtrip_exact b (Part_fen b P)); [reflexivity| | | | | | |].
  - exact (proj1 RO).
  - intros f Ef. exact (proj1 (EP f Ef)).
  - exact Hh.
  - exact Hf.
  - unfold consistent in C. rewrite scratch_eq in C. exact C.
  - exact (good_validate b G M).
  - exact (good_update_pin_info b G).
Qed.

(* ------------------------------------------------------------------ *)
(** * Parsed boards *)

Lemma validate_men : forall b, validate b = None -> men_le16 b.
Proof.
  intros b. unfold validate.
  destruct (has_kings b); cbn [negb]; [|discriminate].
  destruct (N.ltb_spec 16 (count (b_white b))) as [L|L1]; [discriminate|].
  destruct (N.ltb_spec 16 (count (b_black b))) as [L|L2]; [discriminate|].
  intros _. split; assumption.
Qed.

Theorem parse_men_le16 : forall s b, Fen.parse_fen_t s = Ret (POk b) -> men_le16 b.
Proof.
  intros s b H. apply FenFacts.parse_ok_shape in H.
  destruct H as (raw & rest & turn & r & epv & half & full & _ & E & Hv & _).
  subst b. destruct (FenFacts.update_pin_info_fields (FenFacts.pre_board raw turn r epv half full)) as (_ & _ & _ & _ & _ & _ & Ew & Ek & _).
  unfold men_le16. rewrite Ew, Ek. exact (validate_men _ Hv).
Qed.

Print Assumptions apply_men.
Print Assumptions apply_men_le16.
Print Assumptions good_validate.
Print Assumptions good_update_pin_info.
Print Assumptions good_roundtrip.
Print Assumptions parse_men_le16.
Print Assumptions apply_men_total.
Print Assumptions apply_men_capture.
