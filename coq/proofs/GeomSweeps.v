(* C09: the regenerated geometry tables, the lib.rs constants and the generator helpers equal
   their coordinate definitions. Complete sweeps of finite domains inside the kernel (vm_compute),
   lifted to universally quantified statements; each sweep has a find-based counter-example twin. *)
From Coq Require Import NArith ZArith List Bool Lia.
From Chess Require Import base.Bits base.Types base.BitBoard base.Sweep geom.Geometry geom.Lookup geom.GenFns.
Import ListNotations.
Local Open Scope N_scope.

Definition both (P : color -> bool) : bool := P White && P Black.
Lemma both_spec : forall P, both P = true -> forall c, P c = true.
Proof. intros P H c. unfold both in H. apply andb_prop in H. destruct H, c; assumption. Qed.

(* ---- per-square tables ---- *)
Definition chk_knight s := lk_knight s =? knight_geo s.
Definition chk_king s := lk_king s =? king_geo s.
Definition chk_rook_rays s := lk_rook_rays s =? rook_rays_geo s.
Definition chk_bishop_rays s := lk_bishop_rays s =? bishop_rays_geo s.
Definition chk_pawn_att s := both (fun c => lk_pawn_attacks_moves s c =? pawn_att_geo c s).
Definition chk_pawn_quiet s := both (fun c => lk_pawn_quiets_tbl s c =? pawn_push_geo c s).

Lemma sweep_knight : all_sq chk_knight = true. Proof. vm_compute. reflexivity. Qed.
Lemma sweep_king : all_sq chk_king = true. Proof. vm_compute. reflexivity. Qed.
Lemma sweep_rook_rays : all_sq chk_rook_rays = true. Proof. vm_compute. reflexivity. Qed.
Lemma sweep_bishop_rays : all_sq chk_bishop_rays = true. Proof. vm_compute. reflexivity. Qed.
Lemma sweep_pawn_att : all_sq chk_pawn_att = true. Proof. vm_compute. reflexivity. Qed.
Lemma sweep_pawn_quiet : all_sq chk_pawn_quiet = true. Proof. vm_compute. reflexivity. Qed.

Lemma knight_table_geo : forall s, s < 64 -> lk_knight s = knight_geo s.
Proof. intros s H. apply N.eqb_eq. exact (all_sq_spec _ sweep_knight s H). Qed.
Lemma king_table_geo : forall s, s < 64 -> lk_king s = king_geo s.
Proof. intros s H. apply N.eqb_eq. exact (all_sq_spec _ sweep_king s H). Qed.
Lemma rook_rays_table_geo : forall s, s < 64 -> lk_rook_rays s = rook_rays_geo s.
Proof. intros s H. apply N.eqb_eq. exact (all_sq_spec _ sweep_rook_rays s H). Qed.
Lemma bishop_rays_table_geo : forall s, s < 64 -> lk_bishop_rays s = bishop_rays_geo s.
Proof. intros s H. apply N.eqb_eq. exact (all_sq_spec _ sweep_bishop_rays s H). Qed.
Lemma pawn_att_table_geo : forall s c, s < 64 -> lk_pawn_attacks_moves s c = pawn_att_geo c s.
Proof. intros s c H. apply N.eqb_eq. exact (both_spec _ (all_sq_spec _ sweep_pawn_att s H) c). Qed.
Lemma pawn_quiet_table_geo : forall s c, s < 64 -> lk_pawn_quiets_tbl s c = pawn_push_geo c s.
Proof. intros s c H. apply N.eqb_eq. exact (both_spec _ (all_sq_spec _ sweep_pawn_quiet s H) c). Qed.

(* ---- pair tables ---- *)
Definition chk_between a b := lk_between a b =? between_geo a b.
Definition chk_line a b := lk_line a b =? line_geo a b.
Definition chk_distance a b := lk_distance a b =? dist_geo a b.
(* empty for non-aligned pairs (and for a = b); between is inside line *)
Definition chk_nonaligned a b :=
  if aligned all_dirs a b then true else (lk_between a b =? 0) && (lk_line a b =? 0).
Definition chk_between_sub_line a b := N.land (lk_between a b) (lk_line a b) =? lk_between a b.

Lemma sweep_between : all_sq2 chk_between = true. Proof. vm_compute. reflexivity. Qed.
Lemma sweep_line : all_sq2 chk_line = true. Proof. vm_compute. reflexivity. Qed.
Lemma sweep_distance : all_sq2 chk_distance = true. Proof. vm_compute. reflexivity. Qed.
Lemma sweep_nonaligned : all_sq2 chk_nonaligned = true. Proof. vm_compute. reflexivity. Qed.
Lemma sweep_between_sub_line : all_sq2 chk_between_sub_line = true. Proof. vm_compute. reflexivity. Qed.

Lemma between_table_geo : forall a b, a < 64 -> b < 64 -> lk_between a b = between_geo a b.
Proof. intros a b Ha Hb. apply N.eqb_eq. exact (all_sq2_spec _ sweep_between a b Ha Hb). Qed.
Lemma line_table_geo : forall a b, a < 64 -> b < 64 -> lk_line a b = line_geo a b.
Proof. intros a b Ha Hb. apply N.eqb_eq. exact (all_sq2_spec _ sweep_line a b Ha Hb). Qed.
Lemma distance_geo : forall a b, a < 64 -> b < 64 -> lk_distance a b = dist_geo a b.
Proof. intros a b Ha Hb. apply N.eqb_eq. exact (all_sq2_spec _ sweep_distance a b Ha Hb). Qed.
Lemma nonaligned_empty : forall a b, a < 64 -> b < 64 -> aligned all_dirs a b = false ->
  lk_between a b = 0 /\ lk_line a b = 0.
Proof.
  intros a b Ha Hb Hal. pose proof (all_sq2_spec _ sweep_nonaligned a b Ha Hb) as H.
  unfold chk_nonaligned in H. rewrite Hal in H. apply andb_prop in H. destruct H as [H1 H2].
  split; apply N.eqb_eq; assumption.
Qed.
Lemma between_sub_line : forall a b, a < 64 -> b < 64 -> N.land (lk_between a b) (lk_line a b) = lk_between a b.
Proof. intros a b Ha Hb. apply N.eqb_eq. exact (all_sq2_spec _ sweep_between_sub_line a b Ha Hb). Qed.

(* ---- constants of lib.rs against coordinate definitions (per square membership) ---- *)
Definition rank_in (s : N) (rs : list N) : bool := existsb (N.eqb (rank_of s)) rs.
Definition file_in (s : N) (fs : list N) : bool := existsb (N.eqb (file_of s)) fs.
Definition chk_consts s :=
     Bool.eqb (mem PAWN_DOUBLE_SOURCE s) (rank_in s [1; 6])
  && Bool.eqb (mem PAWN_DOUBLE_DEST s) (rank_in s [3; 4])
  && Bool.eqb (mem (BACKRANK_BB White) s) (rank_in s [0]) && Bool.eqb (mem (BACKRANK_BB Black) s) (rank_in s [7])
  && Bool.eqb (mem CASTLE_MOVES s) (existsb (N.eqb s) [mk_sq 2 0; mk_sq 4 0; mk_sq 6 0; mk_sq 2 7; mk_sq 4 7; mk_sq 6 7])
  && Bool.eqb (mem (PAWN_DOUBLE_MOVE White) s) (rank_in s [1; 3]) && Bool.eqb (mem (PAWN_DOUBLE_MOVE Black) s) (rank_in s [4; 6])
  && Bool.eqb (mem ROOK_CASTLE_QUEENSIDE s) (file_in s [0; 3]) && Bool.eqb (mem ROOK_CASTLE_KINGSIDE s) (file_in s [7; 5])
  && Bool.eqb (mem KINGSIDE_CASTLE_FILES s) (file_in s [5; 6]) && Bool.eqb (mem QUEENSIDE_CASTLE_FILES s) (file_in s [1; 2; 3])
  && Bool.eqb (mem KINGSIDE_CASTLE_SAFE_FILES s) (file_in s [5; 6]) && Bool.eqb (mem QUEENSIDE_CASTLE_SAFE_FILES s) (file_in s [2; 3]).
Lemma sweep_consts : all_sq chk_consts = true. Proof. vm_compute. reflexivity. Qed.

(* ADJACENT_FILES[f] / ADJACENT_RANKS[r]: neighbours at distance exactly one, no wrap *)
Definition chk_adjacent (i : N) : bool :=
  forallb (fun s => Bool.eqb (mem (ADJACENT_FILES i) s) (absdiff (file_of s) i =? 1)
                 && Bool.eqb (mem (ADJACENT_RANKS i) s) (absdiff (rank_of s) i =? 1)) sq_list.
Lemma sweep_adjacent : all_below 8 chk_adjacent = true. Proof. vm_compute. reflexivity. Qed.
Definition chk_castle_rook (f : N) : bool :=
  (CASTLE_ROOK_START f =? (if f <? 4 then 0 else 7)) && (CASTLE_ROOK_END f =? (if f <? 4 then 3 else 5)).
Lemma sweep_castle_rook : all_below 8 chk_castle_rook = true. Proof. vm_compute. reflexivity. Qed.
Lemma rank_constants :
  PROMOTION_RANK White = 7 /\ PROMOTION_RANK Black = 0 /\ BACKRANK White = 0 /\ BACKRANK Black = 7 /\
  PAWN_DOUBLE_MOVE_SOURCE_RANK White = 1 /\ PAWN_DOUBLE_MOVE_SOURCE_RANK Black = 6 /\
  PAWN_DOUBLE_MOVE_DEST_RANK White = 3 /\ PAWN_DOUBLE_MOVE_DEST_RANK Black = 4.
Proof. repeat split. Qed.

Lemma consts_geo : forall s, s < 64 -> chk_consts s = true.
Proof. exact (all_sq_spec _ sweep_consts). Qed.
Lemma adjacent_geo : forall i s, i < 8 -> s < 64 ->
  mem (ADJACENT_FILES i) s = (absdiff (file_of s) i =? 1) /\ mem (ADJACENT_RANKS i) s = (absdiff (rank_of s) i =? 1).
Proof.
  intros i s Hi Hs. pose proof (all_below_spec 8 _ sweep_adjacent i Hi) as H.
  unfold chk_adjacent in H. rewrite forallb_forall in H. specialize (H s (in_sq_list s Hs)).
  apply andb_prop in H. destruct H as [H1 H2]. split; apply Bool.eqb_prop; assumption.
Qed.

(* ---- generator helper functions = geometry = checked-in tables ---- *)
Definition chk_gen s :=
     (gen_rook_rays s =? rook_rays_geo s) && (gen_bishop_rays s =? bishop_rays_geo s)
  && (gen_knight_moves s =? knight_geo s) && (gen_king_moves s =? king_geo s)
  && both (fun c => gen_pawn_attacks s c =? pawn_att_geo c s)
  && both (fun c => gen_pawn_quiets s c =? pawn_push_geo c s).
Lemma sweep_gen : all_sq chk_gen = true. Proof. vm_compute. reflexivity. Qed.
Lemma gen_helpers_geo : forall s, s < 64 -> chk_gen s = true.
Proof. exact (all_sq_spec _ sweep_gen). Qed.

(* counter-example twins (evaluated by the check when a sweep stops type-checking) *)
Definition cex_C09 : list (N * option N) :=
  [(1, cex_sq chk_knight); (2, cex_sq chk_king); (3, cex_sq chk_rook_rays); (4, cex_sq chk_bishop_rays);
   (5, cex_sq chk_pawn_att); (6, cex_sq chk_pawn_quiet); (7, cex_sq chk_consts); (8, cex_sq chk_gen)].
Definition cex_C09_pairs : list (N * option (N * N)) :=
  [(1, cex_sq2 chk_between); (2, cex_sq2 chk_line); (3, cex_sq2 chk_distance); (4, cex_sq2 chk_nonaligned);
   (5, cex_sq2 chk_between_sub_line)].
