(* Generic facts about 64-bit words modelled as N (base/Bits.v): every word operation is
   characterised bit by bit, for ALL words.  Axiom-free. *)
From Coq Require Import NArith ZArith List Bool Lia ZifyBool ZifyN Sorted.
From Chess Require Import base.Bits.
Import ListNotations.
Local Open Scope N_scope.

Arguments N.shiftl : simpl never.
Arguments N.shiftr : simpl never.
Arguments N.land : simpl never.
Arguments N.lor : simpl never.
Arguments N.lxor : simpl never.
Arguments N.ldiff : simpl never.
Arguments N.testbit : simpl never.
Arguments N.ones : simpl never.
Arguments N.pow : simpl never.
Arguments N.div : simpl never.
Arguments N.modulo : simpl never.
Arguments N.mul : simpl never.
Arguments N.add : simpl never.
Arguments N.sub : simpl never.

(* lia extended with division / modulo by constants *)
Ltac lia_dm := zify; Z.div_mod_to_equations; lia.

(* ------------------------------------------------------------------ *)
(** * Squares *)

Fixpoint seqN (k : N) (len : nat) : list N :=
  match len with O => [] | S l => k :: seqN (N.succ k) l end.

Lemma sq_list_seqN : sq_list = seqN 0 64.
Proof. reflexivity. Qed.

Lemma In_seqN : forall len k s, In s (seqN k len) <-> k <= s < k + N.of_nat len.
Proof.
  induction len as [|len IH]; intros k s; cbn [seqN In].
  - lia.
  - rewrite IH. lia.
Qed.

Lemma In_sq_list : forall s, In s sq_list <-> s < 64.
Proof.
  intros s. rewrite sq_list_seqN, In_seqN.
  change (N.of_nat 64) with 64. lia.
Qed.

Lemma sq_list_complete : forall s, s < 64 -> In s sq_list.
Proof. intros s H. apply In_sq_list, H. Qed.

(* lifting of a finite check over all squares *)
Lemma forall_sq : forall P : N -> bool,
  forallb P sq_list = true -> forall s, s < 64 -> P s = true.
Proof.
  intros P H s Hs. rewrite forallb_forall in H. apply H, sq_list_complete, Hs.
Qed.

Lemma seqN_sorted : forall len k, StronglySorted N.lt (seqN k len).
Proof.
  induction len as [|len IH]; intros k; cbn [seqN]; constructor.
  - apply IH.
  - apply Forall_forall. intros x Hx. apply In_seqN in Hx. lia.
Qed.

Lemma filter_sorted : forall (f : N -> bool) l,
  StronglySorted N.lt l -> StronglySorted N.lt (filter f l).
Proof.
  intros f l H. induction H as [|a l Hl IH Ha]; cbn [filter].
  - constructor.
  - destruct (f a); [constructor|]; auto.
    apply Forall_forall. intros x Hx. apply filter_In in Hx.
    rewrite Forall_forall in Ha. apply Ha, Hx.
Qed.

Lemma sorted_NoDup : forall l, StronglySorted N.lt l -> NoDup l.
Proof.
  intros l H. induction H as [|a l Hl IH Ha]; constructor; auto.
  intros Hin. rewrite Forall_forall in Ha. apply Ha in Hin. lia.
Qed.

(* two strictly ascending lists with the same members are equal *)
Lemma sorted_ext : forall l1 l2,
  StronglySorted N.lt l1 -> StronglySorted N.lt l2 ->
  (forall x, In x l1 <-> In x l2) -> l1 = l2.
Proof.
  intros l1 l2 H1. revert l2.
  induction H1 as [|a l1 Hl1 IH Ha]; intros l2 H2 Hext.
  - destruct l2 as [|b l2]; [reflexivity|].
    exfalso. apply (Hext b). left; reflexivity.
  - destruct H2 as [|b l2 Hl2 Hb].
    + exfalso. apply (Hext a). left; reflexivity.
    + rewrite Forall_forall in Ha, Hb.
      assert (a = b) as ->.
      { assert (In a (b :: l2)) as Hab by (apply Hext; left; reflexivity).
        assert (In b (a :: l1)) as Hba by (apply Hext; left; reflexivity).
        destruct Hab as [Hab|Hab]; [auto|].
        destruct Hba as [Hba|Hba]; [auto|].
        apply Ha in Hba. apply Hb in Hab. lia. }
      f_equal. apply IH; [assumption|].
      intros x; split; intros Hx.
      * assert (In x (b :: l2)) as [Hx'|Hx'] by (apply Hext; right; exact Hx); [|assumption].
        subst x. apply Ha in Hx. lia.
      * assert (In x (b :: l1)) as [Hx'|Hx'] by (apply Hext; right; exact Hx); [|assumption].
        subst x. apply Hb in Hx. lia.
Qed.

Lemma filter_length_le' : forall (A : Type) (f : A -> bool) l, (length (filter f l) <= length l)%nat.
Proof.
  intros A f l. induction l as [|a l IH]; cbn [filter length]; [lia|].
  destruct (f a); cbn [length]; lia.
Qed.

(* ------------------------------------------------------------------ *)
(** * wf64, extensionality *)

Lemma ones_testbit : forall n m, N.testbit (N.ones n) m = (m <? n).
Proof.
  intros n m. destruct (N.ltb_spec m n).
  - apply N.ones_spec_low; assumption.
  - apply N.ones_spec_high; assumption.
Qed.

Lemma wf64_testbit : forall x, wf64 x <-> (forall i, 64 <= i -> N.testbit x i = false).
Proof.
  intros x. unfold wf64. split.
  - intros H i Hi. destruct (N.eq_dec x 0) as [->|Hx]; [apply N.bits_0|].
    apply N.bits_above_log2.
    apply N.log2_lt_pow2 in H; lia.
  - intros H.
    assert (x = N.land x (N.ones 64)) as ->.
    { apply N.bits_inj. intros i. rewrite N.land_spec, ones_testbit.
      destruct (N.ltb_spec i 64).
      - rewrite andb_true_r; reflexivity.
      - rewrite (H i) by assumption. reflexivity. }
    rewrite N.land_ones. apply N.mod_lt. discriminate.
Qed.

Lemma wf64_high : forall x i, wf64 x -> 64 <= i -> mem x i = false.
Proof. intros x i H. apply wf64_testbit, H. Qed.

Lemma wf64b_spec : forall x, wf64b x = true <-> wf64 x.
Proof. intros x. unfold wf64b, wf64. apply N.ltb_lt. Qed.

Lemma wf64_0 : wf64 0.
Proof. reflexivity. Qed.

Lemma wf64_mask64 : wf64 mask64.
Proof. reflexivity. Qed.

Lemma ext64 : forall a b, wf64 a -> wf64 b ->
  (forall s, s < 64 -> mem a s = mem b s) -> a = b.
Proof.
  intros a b Ha Hb H. apply N.bits_inj. intros i.
  destruct (N.lt_ge_cases i 64) as [Hi|Hi].
  - apply H, Hi.
  - transitivity false; [|symmetry]; apply wf64_high; assumption.
Qed.

Lemma mem_0 : forall s, mem 0 s = false.
Proof. intros s. apply N.bits_0. Qed.

Lemma mem_mask64 : forall s, mem mask64 s = (s <? 64).
Proof. intros s. apply ones_testbit. Qed.

(* ------------------------------------------------------------------ *)
(** * trunc64, not64, shl64, shr64 and the bitwise connectives *)

Lemma mem_trunc64_full : forall a s, mem (trunc64 a) s = (s <? 64) && mem a s.
Proof.
  intros a s. unfold mem, trunc64, mask64.
  rewrite N.land_spec, ones_testbit. apply andb_comm.
Qed.

Lemma mem_trunc64 : forall a s, s < 64 -> mem (trunc64 a) s = mem a s.
Proof.
  intros a s Hs. rewrite mem_trunc64_full.
  apply N.ltb_lt in Hs. rewrite Hs. reflexivity.
Qed.

Lemma wf64_trunc64 : forall a, wf64 (trunc64 a).
Proof.
  intros a. apply wf64_testbit. intros i Hi.
  change (mem (trunc64 a) i = false). rewrite mem_trunc64_full.
  apply N.ltb_ge in Hi. rewrite Hi. reflexivity.
Qed.

Lemma trunc64_mod : forall a, trunc64 a = a mod 2 ^ 64.
Proof. intros a. apply N.land_ones. Qed.

Lemma trunc64_id : forall a, wf64 a -> trunc64 a = a.
Proof. intros a H. rewrite trunc64_mod. apply N.mod_small, H. Qed.

Lemma mem_not64_full : forall a s, mem (not64 a) s = (s <? 64) && negb (mem a s).
Proof.
  intros a s. unfold not64, mem. rewrite N.lxor_spec.
  change (xorb (mem (trunc64 a) s) (mem mask64 s) = (s <? 64) && negb (mem a s)).
  rewrite mem_trunc64_full, mem_mask64.
  destruct (s <? 64), (mem a s); reflexivity.
Qed.

Lemma mem_not64 : forall a s, s < 64 -> mem (not64 a) s = negb (mem a s).
Proof.
  intros a s Hs. rewrite mem_not64_full.
  apply N.ltb_lt in Hs. rewrite Hs. reflexivity.
Qed.

Lemma wf64_not64 : forall a, wf64 (not64 a).
Proof.
  intros a. apply wf64_testbit. intros i Hi.
  change (mem (not64 a) i = false). rewrite mem_not64_full.
  apply N.ltb_ge in Hi. rewrite Hi. reflexivity.
Qed.

Lemma testbit_shiftl : forall a n s,
  N.testbit (N.shiftl a n) s = (n <=? s) && N.testbit a (s - n).
Proof.
  intros a n s. destruct (N.leb_spec n s).
  - apply N.shiftl_spec_high'; assumption.
  - apply N.shiftl_spec_low; assumption.
Qed.

Lemma mem_shl64_full : forall a n s,
  mem (shl64 a n) s = (s <? 64) && (n <=? s) && mem a (s - n).
Proof.
  intros a n s. unfold shl64. rewrite mem_trunc64_full.
  unfold mem. rewrite testbit_shiftl. apply andb_assoc.
Qed.

Lemma mem_shl64 : forall a n s, s < 64 ->
  mem (shl64 a n) s = (n <=? s) && mem a (s - n).
Proof.
  intros a n s Hs. rewrite mem_shl64_full.
  apply N.ltb_lt in Hs. rewrite Hs. reflexivity.
Qed.

Lemma wf64_shl64 : forall a n, wf64 (shl64 a n).
Proof. intros a n. apply wf64_trunc64. Qed.

Lemma mem_shr64 : forall a n s, mem (shr64 a n) s = mem a (s + n).
Proof. intros a n s. apply N.shiftr_spec'. Qed.

Lemma wf64_shr64 : forall a n, wf64 a -> wf64 (shr64 a n).
Proof.
  intros a n Ha. apply wf64_testbit. intros i Hi.
  change (mem (shr64 a n) i = false). rewrite mem_shr64.
  apply wf64_high; [assumption|lia].
Qed.

Lemma mem_lor : forall a b s, mem (N.lor a b) s = mem a s || mem b s.
Proof. intros. apply N.lor_spec. Qed.
Lemma mem_land : forall a b s, mem (N.land a b) s = mem a s && mem b s.
Proof. intros. apply N.land_spec. Qed.
Lemma mem_lxor : forall a b s, mem (N.lxor a b) s = xorb (mem a s) (mem b s).
Proof. intros. apply N.lxor_spec. Qed.
Lemma mem_ldiff : forall a b s, mem (N.ldiff a b) s = mem a s && negb (mem b s).
Proof. intros. apply N.ldiff_spec. Qed.
Lemma mem_diff64 : forall a b s, mem (diff64 a b) s = mem a s && negb (mem b s).
Proof. intros. apply N.ldiff_spec. Qed.

Lemma wf64_lor : forall a b, wf64 a -> wf64 b -> wf64 (N.lor a b).
Proof.
  intros a b Ha Hb. apply wf64_testbit. intros i Hi.
  change (mem (N.lor a b) i = false).
  rewrite mem_lor, !wf64_high by assumption. reflexivity.
Qed.
Lemma wf64_land_l : forall a b, wf64 a -> wf64 (N.land a b).
Proof.
  intros a b Ha. apply wf64_testbit. intros i Hi.
  change (mem (N.land a b) i = false).
  rewrite mem_land, (wf64_high a) by assumption. reflexivity.
Qed.
Lemma wf64_land_r : forall a b, wf64 b -> wf64 (N.land a b).
Proof. intros a b Hb. rewrite N.land_comm. apply wf64_land_l, Hb. Qed.
Lemma wf64_lxor : forall a b, wf64 a -> wf64 b -> wf64 (N.lxor a b).
Proof.
  intros a b Ha Hb. apply wf64_testbit. intros i Hi.
  change (mem (N.lxor a b) i = false).
  rewrite mem_lxor, !wf64_high by assumption. reflexivity.
Qed.
Lemma wf64_ldiff : forall a b, wf64 a -> wf64 (N.ldiff a b).
Proof.
  intros a b Ha. apply wf64_testbit. intros i Hi.
  change (mem (N.ldiff a b) i = false).
  rewrite mem_ldiff, (wf64_high a) by assumption. reflexivity.
Qed.

(* single bits *)
Lemma mem_bit : forall n s, mem (bit n) s = (s =? n).
Proof.
  intros n s. unfold mem, bit. rewrite N.shiftl_1_l, N.pow2_bits_eqb. apply N.eqb_sym.
Qed.

Lemma mem_shl64_1 : forall n s, mem (shl64 1 n) s = (s <? 64) && (s =? n).
Proof.
  intros n s. unfold shl64. rewrite mem_trunc64_full.
  change (N.shiftl 1 n) with (bit n). rewrite mem_bit. reflexivity.
Qed.

Lemma shl64_1_bit : forall n, n < 64 -> shl64 1 n = bit n.
Proof.
  intros n Hn. apply N.bits_inj. intros s.
  change (mem (shl64 1 n) s = mem (bit n) s). rewrite mem_shl64_1, mem_bit.
  destruct (N.eqb_spec s n); [subst|apply andb_false_r].
  apply N.ltb_lt in Hn. rewrite Hn. reflexivity.
Qed.

(* ------------------------------------------------------------------ *)
(** * trailing zeros *)

Lemma tz64_0 : tz64 0 = 64.
Proof. reflexivity. Qed.

Lemma pos_tz_spec : forall p,
  N.testbit (Npos p) (pos_tz p) = true /\ (forall t, t < pos_tz p -> N.testbit (Npos p) t = false).
Proof.
  induction p as [p IH|p IH|]; cbn [pos_tz].
  - split; [reflexivity|]. intros t Ht. lia.
  - destruct IH as [IH1 IH2].
    change (N.pos p~0) with (2 * N.pos p). split.
    + rewrite N.testbit_even_succ by lia. exact IH1.
    + intros t Ht. destruct (N.eq_dec t 0) as [->|Hnz].
      * apply N.testbit_even_0.
      * replace t with (N.succ (N.pred t)) by lia.
        rewrite N.testbit_even_succ by lia. apply IH2. lia.
  - split; [reflexivity|]. intros t Ht. lia.
Qed.

Lemma tz64_spec : forall a, a <> 0 ->
  mem a (tz64 a) = true /\ (forall t, t < tz64 a -> mem a t = false).
Proof.
  intros [|p] H; [congruence|]. apply pos_tz_spec.
Qed.

Lemma tz64_lt : forall a, wf64 a -> a <> 0 -> tz64 a < 64.
Proof.
  intros a Ha Hnz. destruct (tz64_spec a Hnz) as [H1 _].
  destruct (N.lt_ge_cases (tz64 a) 64) as [H|H]; [assumption|].
  rewrite wf64_high in H1 by assumption. discriminate.
Qed.

(* tz64 is THE least set bit *)
Lemma tz64_unique : forall a s,
  mem a s = true -> (forall t, t < s -> mem a t = false) -> tz64 a = s.
Proof.
  intros a s Hs Hmin.
  assert (a <> 0) as Hnz by (intros ->; rewrite mem_0 in Hs; discriminate).
  destruct (tz64_spec a Hnz) as [H1 H2].
  destruct (N.lt_trichotomy (tz64 a) s) as [H|[H|H]]; [|assumption|].
  - rewrite Hmin in H1 by assumption. discriminate.
  - rewrite H2 in Hs by assumption. discriminate.
Qed.

Lemma tz64_bit : forall n, tz64 (bit n) = n.
Proof.
  intros n. apply tz64_unique.
  - rewrite mem_bit. apply N.eqb_refl.
  - intros t Ht. rewrite mem_bit. apply N.eqb_neq. lia.
Qed.

Lemma nonzero_mem : forall a, a <> 0 -> exists s, mem a s = true.
Proof. intros a H. exists (tz64 a). apply tz64_spec, H. Qed.

(* ------------------------------------------------------------------ *)
(** * elements and popcount *)

Lemma elements_spec : forall a s, In s (elements a) <-> s < 64 /\ mem a s = true.
Proof.
  intros a s. unfold elements. rewrite filter_In, In_sq_list. reflexivity.
Qed.

Lemma sq_list_sorted : StronglySorted N.lt sq_list.
Proof. rewrite sq_list_seqN. apply seqN_sorted. Qed.

Lemma elements_sorted : forall a, StronglySorted N.lt (elements a).
Proof. intros a. apply filter_sorted, sq_list_sorted. Qed.

Lemma elements_NoDup : forall a, NoDup (elements a).
Proof. intros a. apply sorted_NoDup, elements_sorted. Qed.

Lemma elements_lt64 : forall a s, In s (elements a) -> s < 64.
Proof. intros a s H. apply elements_spec in H. apply H. Qed.

Lemma elements_length_le : forall a, (length (elements a) <= 64)%nat.
Proof. intros a. apply (filter_length_le' _ (fun s => N.testbit a s) sq_list). Qed.

Lemma elements_0 : elements 0 = [].
Proof. reflexivity. Qed.

Lemma elements_nil : forall a, wf64 a -> elements a = [] -> a = 0.
Proof.
  intros a Ha H. apply ext64; [assumption|apply wf64_0|].
  intros s Hs. rewrite mem_0. destruct (mem a s) eqn:E; [|reflexivity].
  assert (In s (elements a)) as Hin by (apply elements_spec; auto).
  rewrite H in Hin. destruct Hin.
Qed.

Lemma elements_inj : forall a b, wf64 a -> wf64 b -> elements a = elements b -> a = b.
Proof.
  intros a b Ha Hb H. apply ext64; try assumption.
  intros s Hs. destruct (mem a s) eqn:Ea, (mem b s) eqn:Eb; try reflexivity.
  - assert (In s (elements b)) as Hin by (rewrite <- H; apply elements_spec; auto).
    apply elements_spec in Hin. destruct Hin; congruence.
  - assert (In s (elements a)) as Hin by (rewrite H; apply elements_spec; auto).
    apply elements_spec in Hin. destruct Hin; congruence.
Qed.

(* the elements of a word are determined by membership *)
Lemma elements_ext : forall a l, StronglySorted N.lt l ->
  (forall s, In s l <-> s < 64 /\ mem a s = true) -> elements a = l.
Proof.
  intros a l Hl H. apply sorted_ext; [apply elements_sorted|assumption|].
  intros x. rewrite elements_spec, H. reflexivity.
Qed.

Definition cnt (a k : N) (len : nat) : nat := length (filter (fun s => N.testbit a s) (seqN k len)).

Lemma cnt_succ : forall len a k, cnt a (N.succ k) len = cnt (N.div2 a) k len.
Proof.
  unfold cnt. induction len as [|len IH]; intros a k; cbn [seqN filter]; [reflexivity|].
  rewrite N.testbit_succ_r_div2 by lia.
  destruct (N.testbit (N.div2 a) k); cbn [length]; rewrite IH; reflexivity.
Qed.

Lemma popcount_step : forall a,
  popcount a = (if N.testbit a 0 then 1 else 0) + popcount (N.div2 a).
Proof.
  intros [|[p|p|]]; try reflexivity.
  cbn [popcount pos_popcount N.div2]. change (N.testbit (N.pos p~1) 0) with true.
  cbv iota. lia.
Qed.

Lemma cnt_S : forall a k len,
  cnt a k (S len) = ((if N.testbit a k then 1 else 0) + cnt a (N.succ k) len)%nat.
Proof.
  intros a k len. unfold cnt. cbn [seqN filter].
  destruct (N.testbit a k); reflexivity.
Qed.

Lemma popcount_cnt : forall len a, a < 2 ^ N.of_nat len -> popcount a = N.of_nat (cnt a 0 len).
Proof.
  induction len as [|len IH]; intros a Ha.
  - change (2 ^ N.of_nat 0) with 1 in Ha. assert (a = 0) as -> by lia. reflexivity.
  - rewrite popcount_step.
    assert (N.div2 a < 2 ^ N.of_nat len) as Hd.
    { rewrite Nnat.Nat2N.inj_succ, N.pow_succ_r' in Ha.
      rewrite N.div2_div. apply N.div_lt_upper_bound; lia. }
    rewrite (IH _ Hd), cnt_S, cnt_succ.
    destruct (N.testbit a 0); lia.
Qed.

Lemma popcount_elements : forall a, wf64 a -> popcount a = N.of_nat (length (elements a)).
Proof.
  intros a Ha. rewrite (popcount_cnt 64 a) by exact Ha.
  unfold cnt, elements. rewrite sq_list_seqN. reflexivity.
Qed.

Lemma popcount_le64 : forall a, wf64 a -> popcount a <= 64.
Proof.
  intros a Ha. rewrite popcount_elements by assumption.
  pose proof (elements_length_le a). lia.
Qed.

(* ------------------------------------------------------------------ *)
(** * byte swap *)

Lemma testbit_255 : forall m, N.testbit 255 m = (m <? 8).
Proof. intros m. change 255 with (N.ones 8). apply ones_testbit. Qed.

Lemma bswap_term : forall x i s, i <= 7 ->
  N.testbit (N.shiftl (byte_of x i) (8 * (7 - i))) s
  = (s / 8 =? 7 - i) && N.testbit x (s mod 8 + 8 * i).
Proof.
  intros x i s Hi. unfold byte_of.
  rewrite testbit_shiftl, N.land_spec, N.shiftr_spec', testbit_255.
  destruct (N.eqb_spec (s / 8) (7 - i)) as [E|E].
  - assert (8 * (7 - i) <= s) as H1 by lia_dm.
    assert (s - 8 * (7 - i) < 8) as H2 by lia_dm.
    apply N.leb_le in H1. apply N.ltb_lt in H2. rewrite H1, H2.
    cbn [andb]. rewrite andb_true_r. f_equal. apply N.leb_le in H1. lia_dm.
  - cbn [andb]. destruct (N.leb_spec (8 * (7 - i)) s) as [H1|H1]; [|reflexivity].
    cbn [andb]. assert (8 <= s - 8 * (7 - i)) as H2 by lia_dm.
    apply N.ltb_ge in H2. rewrite H2. apply andb_false_r.
Qed.

Lemma lxor_56 : forall s, s < 64 -> N.lxor s 56 = 8 * (7 - s / 8) + s mod 8.
Proof.
  intros s Hs. apply N.eqb_eq.
  apply (forall_sq (fun s => N.lxor s 56 =? 8 * (7 - s / 8) + s mod 8)); [|assumption].
  vm_compute. reflexivity.
Qed.

Lemma bswap64_unfold : forall x s,
  mem (bswap64 x) s =
  existsb (fun i => (s / 8 =? 7 - i) && N.testbit x (s mod 8 + 8 * i)) [0;1;2;3;4;5;6;7].
Proof.
  intros x s. unfold mem, bswap64. cbn [fold_left existsb].
  rewrite !N.lor_spec, N.bits_0, !bswap_term by lia.
  cbn [orb]. rewrite orb_false_r, !orb_assoc. reflexivity.
Qed.

Lemma mem_bswap64 : forall a s, s < 64 -> mem (bswap64 a) s = mem a (N.lxor s 56).
Proof.
  intros a s Hs. rewrite bswap64_unfold, lxor_56 by assumption.
  assert (s / 8 < 8) as Hj by lia_dm.
  generalize dependent (s / 8). generalize (s mod 8). clear s Hs.
  intros r j Hj. unfold mem. cbn [existsb].
  repeat match goal with
  | |- context [N.eqb j ?b] => destruct (N.eqb_spec j b); try (exfalso; lia)
  end; cbn [andb orb]; rewrite ?orb_false_r; f_equal; lia.
Qed.

Lemma wf64_bswap64 : forall a, wf64 (bswap64 a).
Proof.
  intros a. apply wf64_testbit. intros s Hs.
  change (mem (bswap64 a) s = false). rewrite bswap64_unfold.
  assert (8 <= s / 8) as Hj by lia_dm.
  cbn [existsb].
  repeat match goal with
  | |- context [N.eqb (s / 8) ?b] => destruct (N.eqb_spec (s / 8) b) as [E|_]; [exfalso; lia|]
  end.
  reflexivity.
Qed.

(* ------------------------------------------------------------------ *)
(** * PDEP selects the n-th set bit *)

Fixpoint pdep_spec (src msk : N) (l : list N) (k : N) : N :=
  match l with
  | [] => 0
  | m :: l' =>
    if N.testbit msk m
    then N.lor (if N.testbit src k then bit m else 0) (pdep_spec src msk l' (N.succ k))
    else pdep_spec src msk l' k
  end.

Lemma pdep_fold : forall src msk l dest k,
  fst (fold_left (fun (st : N * N) m =>
                    let '(dest, k) := st in
                    if N.testbit msk m
                    then ((if N.testbit src k then N.lor dest (bit m) else dest), N.succ k)
                    else (dest, k)) l (dest, k))
  = N.lor dest (pdep_spec src msk l k).
Proof.
  intros src msk. induction l as [|m l IH]; intros dest k; cbn [fold_left pdep_spec].
  - cbn [fst]. rewrite N.lor_0_r. reflexivity.
  - destruct (N.testbit msk m); [|apply IH].
    rewrite IH. destruct (N.testbit src k).
    + rewrite N.lor_assoc. reflexivity.
    + rewrite N.lor_0_l. reflexivity.
Qed.

Lemma pdep64_spec : forall src msk, pdep64 src msk = pdep_spec src msk sq_list 0.
Proof.
  intros src msk. unfold pdep64. rewrite pdep_fold. apply N.lor_0_l.
Qed.

Lemma pdep_spec_bit_high : forall n msk l k, n < k -> pdep_spec (bit n) msk l k = 0.
Proof.
  intros n msk. induction l as [|m l IH]; intros k Hk; cbn [pdep_spec]; [reflexivity|].
  destruct (N.testbit msk m); [|apply IH, Hk].
  change (N.testbit (bit n) k) with (mem (bit n) k). rewrite mem_bit.
  destruct (N.eqb_spec k n); [lia|]. rewrite N.lor_0_l. apply IH. lia.
Qed.

Lemma pdep_spec_bit : forall n msk l k, k <= n ->
  pdep_spec (bit n) msk l k =
  match nth_error (filter (fun s => N.testbit msk s) l) (N.to_nat (n - k)) with
  | Some t => bit t
  | None => 0
  end.
Proof.
  intros n msk. induction l as [|m l IH]; intros k Hk; cbn [pdep_spec filter].
  - destruct (N.to_nat (n - k)); reflexivity.
  - destruct (N.testbit msk m); [|apply IH, Hk].
    change (N.testbit (bit n) k) with (mem (bit n) k). rewrite mem_bit.
    destruct (N.eqb_spec k n) as [->|Hne].
    + rewrite N.sub_diag. cbn [N.to_nat nth_error].
      rewrite pdep_spec_bit_high by lia. apply N.lor_0_r.
    + rewrite N.lor_0_l, IH by lia.
      replace (n - k) with (N.succ (n - N.succ k)) by lia.
      rewrite Nnat.N2Nat.inj_succ. reflexivity.
Qed.

Lemma pdep64_bit : forall n a,
  pdep64 (bit n) a =
  match nth_error (elements a) (N.to_nat n) with Some t => bit t | None => 0 end.
Proof.
  intros n a. rewrite pdep64_spec, pdep_spec_bit by lia.
  rewrite N.sub_0_r. unfold elements. reflexivity.
Qed.

Lemma pdep64_select : forall a n, wf64 a -> n < popcount a ->
  tz64 (pdep64 (shl64 1 n) a) = nth (N.to_nat n) (elements a) 64.
Proof.
  intros a n Ha Hn.
  pose proof (elements_length_le a) as Hle.
  rewrite popcount_elements in Hn by assumption.
  rewrite shl64_1_bit by lia. rewrite pdep64_bit.
  assert (N.to_nat n < length (elements a))%nat as Hlen by lia.
  destruct (nth_error (elements a) (N.to_nat n)) as [t|] eqn:E.
  - rewrite tz64_bit. symmetry. apply nth_error_nth, E.
  - apply nth_error_None in E. lia.
Qed.
