(* Proofs for C20: per-thread view of tracing-enabled = own override, else latest global setting;
   other threads change only the global; take/restore returns the override to the saved state.
   All statements are over arbitrary traces: any length, any number of threads. *)
From Coq Require Import NArith List Bool Lia ZifyBool ZifyN.
From Chess Require Import model.Tracing.
Import ListNotations.
Local Open Scope N_scope.

(* ---------- association list ---------- *)

Lemma lookup_update_same : forall l t f, lookup (update l t f) t = f.
Proof.
  induction l as [|[u f'] r IH]; intros t f; cbn.
  - rewrite N.eqb_refl; reflexivity.
  - destruct (N.eqb u t) eqn:E; cbn.
    + rewrite N.eqb_refl; reflexivity.
    + rewrite E; apply IH.
Qed.

Lemma lookup_update_other : forall l t u f, u <> t -> lookup (update l u f) t = lookup l t.
Proof.
  induction l as [|[v f'] r IH]; intros t u f Hne; cbn.
  - apply N.eqb_neq in Hne; rewrite Hne; reflexivity.
  - destruct (N.eqb v u) eqn:E; cbn.
    + apply N.eqb_eq in E; subst v.
      apply N.eqb_neq in Hne; rewrite Hne; reflexivity.
    + destruct (N.eqb v t); [reflexivity | apply IH; exact Hne].
Qed.

Lemma get_set_same : forall s t f, get_loc (set_loc s t f) t = f.
Proof. intros s t f; apply lookup_update_same. Qed.

Lemma get_set_other : forall s t u f, u <> t -> get_loc (set_loc s u f) t = get_loc s t.
Proof. intros s t u f Hne; apply lookup_update_other; exact Hne. Qed.

Lemma get_set_g : forall s b t, get_loc (set_g s b) t = get_loc s t.
Proof. reflexivity. Qed.

Lemma g_set_loc : forall s t f, g (set_loc s t f) = g s.
Proof. reflexivity. Qed.

Lemma g_set_g : forall s b, g (set_g s b) = b.
Proof. reflexivity. Qed.

(* ---------- one step ---------- *)

Lemma step_own : forall s t o, get_loc (step_st s t o) t = lstep (get_loc s t) o.
Proof.
  intros s t o; destruct o; unfold step_st; cbn [step fst lstep];
    rewrite ?get_set_g, ?get_set_same; reflexivity.
Qed.

Lemma step_other : forall s t u o, u <> t -> get_loc (step_st s u o) t = get_loc s t.
Proof.
  intros s t u o Hne; destruct o; unfold step_st; cbn [step fst];
    rewrite ?get_set_g, ?get_set_other by exact Hne; reflexivity.
Qed.

Lemma step_g : forall s t o, g (step_st s t o) = gstep (g s) o.
Proof. intros s t o; destruct o; reflexivity. Qed.

Lemma gstep_nonglobal : forall b o, is_global_op o = false -> gstep b o = b.
Proof. intros b o H; destruct o; try reflexivity; discriminate H. Qed.

(* is_enabled returns the caller's view and changes nothing; no other call returns a bool *)
Lemma view_spec : forall s t,
  step s t OIsEnabled = (s, Some (view s t), None) /\
  view s t = match get_loc s t with FGlobal => g s | FEnabled => true | FDisabled => false end.
Proof. intros s t; split; reflexivity. Qed.

Lemma only_is_enabled_answers : forall s t o,
  o <> OIsEnabled -> snd (fst (step s t o)) = None.
Proof. intros s t o H; destruct o; try reflexivity; contradiction H; reflexivity. Qed.

(* the view after any step is again: own override if any, else the new global *)
Lemma view_after_step : forall s u o t,
  view (step_st s u o) t =
  match get_loc (step_st s u o) t with
  | FGlobal => gstep (g s) o | FEnabled => true | FDisabled => false
  end.
Proof. intros s u o t; unfold view; rewrite step_g; reflexivity. Qed.

(* a step by another thread changes t's view only through g *)
Lemma other_threads_only_global : forall s t u o,
  u <> t ->
  get_loc (step_st s u o) t = get_loc s t /\
  (get_loc s t <> FGlobal -> view (step_st s u o) t = view s t) /\
  (get_loc s t = FGlobal -> view (step_st s u o) t = g (step_st s u o)).
Proof.
  intros s t u o Hne.
  pose proof (step_other s t u o Hne) as Hl.
  split; [exact Hl|]. unfold view; rewrite Hl. split.
  - intros Hov. destruct (get_loc s t); [contradiction Hov|..]; reflexivity.
  - intros Hg; rewrite Hg; reflexivity.
Qed.

(* ---------- traces ---------- *)

Lemma run_app : forall tr1 tr2 s, run s (tr1 ++ tr2) = run (run s tr1) tr2.
Proof.
  induction tr1 as [|[t o] r IH]; intros tr2 s; cbn; [reflexivity | apply IH].
Qed.

(* t's cell after a trace is a function of t's cell before and of t's own calls, in order *)
Lemma loc_determined : forall tr s t, get_loc (run s tr) t = lfold (get_loc s t) t tr.
Proof.
  induction tr as [|[u o] r IH]; intros s t; cbn; [reflexivity|].
  rewrite IH. destruct (N.eqb u t) eqn:E.
  - apply N.eqb_eq in E; subst u. rewrite step_own; reflexivity.
  - apply N.eqb_neq in E. rewrite step_other by exact E; reflexivity.
Qed.

Lemma lfold_filter : forall tr f t, lfold f t (filter (by_thread t) tr) = lfold f t tr.
Proof.
  induction tr as [|[u o] r IH]; intros f t; cbn; [reflexivity|].
  unfold by_thread at 1; cbn [fst]. destruct (N.eqb u t) eqn:E; cbn.
  - rewrite E; apply IH.
  - apply IH.
Qed.

(* generalised: the two runs may even start from different states and globals,
   as long as t's own cell agrees *)
Lemma noninterference_gen : forall tr s s' t,
  get_loc s t = get_loc s' t ->
  get_loc (run s tr) t = get_loc (run s' (filter (by_thread t) tr)) t.
Proof.
  intros tr s s' t H. rewrite !loc_determined, lfold_filter, H; reflexivity.
Qed.

Lemma noninterference : forall s tr t,
  get_loc (run s tr) t = get_loc (run s (filter (fun e => N.eqb (fst e) t) tr)) t.
Proof. intros s tr t; apply (noninterference_gen tr s s t); reflexivity. Qed.

(* a trace containing no call by t leaves t's override untouched *)
Lemma others_never_touch : forall s tr t,
  Forall (fun e => fst e <> t) tr -> get_loc (run s tr) t = get_loc s t.
Proof.
  intros s tr t H. rewrite loc_determined. revert H.
  generalize (get_loc s t) as f.
  induction tr as [|[u o] r IH]; intros f H; cbn; [reflexivity|].
  inversion H as [|e l Hne Hr]; subst. cbn in Hne.
  apply N.eqb_neq in Hne; rewrite Hne. apply IH; exact Hr.
Qed.

Lemma global_determined : forall tr s, g (run s tr) = gfold (g s) tr.
Proof.
  induction tr as [|[u o] r IH]; intros s; cbn; [reflexivity|].
  rewrite IH, step_g; reflexivity.
Qed.

Lemma gfold_app : forall tr1 tr2 b, gfold b (tr1 ++ tr2) = gfold (gfold b tr1) tr2.
Proof.
  induction tr1 as [|[u o] r IH]; intros tr2 b; cbn; [reflexivity | apply IH].
Qed.

Lemma gfold_nonglobal : forall tr b,
  Forall (fun e => is_global_op (snd e) = false) tr -> gfold b tr = b.
Proof.
  induction tr as [|[u o] r IH]; intros b H; cbn; [reflexivity|].
  inversion H as [|e l Ho Hr]; subst. cbn in Ho.
  rewrite gstep_nonglobal by exact Ho. apply IH; exact Hr.
Qed.

(* gfold sees only the global ops *)
Lemma gfold_filter : forall tr b,
  gfold b (filter (fun e => is_global_op (snd e)) tr) = gfold b tr.
Proof.
  induction tr as [|[u o] r IH]; intros b; cbn; [reflexivity|].
  destruct (is_global_op o) eqn:E; cbn.
  - apply IH.
  - rewrite gstep_nonglobal by exact E. apply IH.
Qed.

Lemma global_projection : forall tr s,
  g (run s tr) = gfold (g s) (filter (fun e => is_global_op (snd e)) tr).
Proof. intros tr s; rewrite gfold_filter; apply global_determined. Qed.

(* latest global write wins *)
Lemma last_write_wins : forall s pre u post,
  Forall (fun e => is_global_op (snd e) = false) post ->
  g (run s (pre ++ (u, OEnable) :: post)) = true /\
  g (run s (pre ++ (u, ODisable) :: post)) = false /\
  g (run s (pre ++ (u, OToggle) :: post)) = negb (g (run s pre)).
Proof.
  intros s pre u post H.
  rewrite !global_determined, !gfold_app; cbn [gfold gstep].
  rewrite !gfold_nonglobal by exact H. repeat split; reflexivity.
Qed.

(* the full view after a trace: t's own calls decide the override, else the global ops decide *)
Lemma view_run : forall s tr t,
  view (run s tr) t =
  match lfold (get_loc s t) t (filter (by_thread t) tr) with
  | FGlobal => gfold (g s) (filter (fun e => is_global_op (snd e)) tr)
  | FEnabled => true
  | FDisabled => false
  end.
Proof.
  intros s tr t. unfold view.
  rewrite loc_determined, lfold_filter, global_projection; reflexivity.
Qed.

(* ---------- take / restore ---------- *)

Lemma take_resets : forall s t,
  snd (step s t OLocalTake) = Some (get_loc s t) /\
  get_loc (step_st s t OLocalTake) t = FGlobal /\
  g (step_st s t OLocalTake) = g s.
Proof.
  intros s t. split; [reflexivity|]. split; [|reflexivity].
  rewrite step_own; reflexivity.
Qed.

(* strong form: whatever any threads (t included) do between the take and the restore *)
Lemma take_restore : forall s t s1 r f sigma,
  step s t OLocalTake = (s1, r, Some f) ->
  get_loc (step_st (run s1 sigma) t (ORestore f)) t = get_loc s t.
Proof.
  intros s t s1 r f sigma H. cbn in H. inversion H; subst.
  rewrite step_own; reflexivity.
Qed.

(* and the restore touches nothing else: not the global, not another thread's override *)
Lemma restore_frame : forall s t f,
  g (step_st s t (ORestore f)) = g s /\
  forall u, u <> t -> get_loc (step_st s t (ORestore f)) u = get_loc s u.
Proof.
  intros s t f; split; [reflexivity|].
  intros u Hne. apply step_other. intro E; apply Hne; symmetry; exact E.
Qed.

(* if in between only other threads ran, t's view after restore is its view before the take
   up to the global: same override, so same view whenever that override is not Global *)
Lemma take_restore_view : forall s t s1 r f sigma,
  step s t OLocalTake = (s1, r, Some f) ->
  get_loc s t <> FGlobal ->
  view (step_st (run s1 sigma) t (ORestore f)) t = view s t.
Proof.
  intros s t s1 r f sigma H Hov.
  pose proof (take_restore s t s1 r f sigma H) as Hl.
  unfold view. rewrite Hl.
  destruct (get_loc s t); [contradiction Hov|..]; reflexivity.
Qed.

(* ---------- observations ---------- *)

Lemma run_obs_state : forall ths tr s, fst (run_obs ths s tr) = run s tr.
Proof.
  induction tr as [|[t o] r IH]; intros s; cbn; [reflexivity|].
  specialize (IH (step_st s t o)).
  destruct (run_obs ths (step_st s t o) r) as [sf obs]. exact IH.
Qed.

Lemma run_obs_length : forall ths tr s, length (snd (run_obs ths s tr)) = length tr.
Proof.
  induction tr as [|[t o] r IH]; intros s; cbn; [reflexivity|].
  specialize (IH (step_st s t o)).
  destruct (run_obs ths (step_st s t o) r) as [sf obs]. cbn in *. rewrite IH; reflexivity.
Qed.

(* the n-th observation is the views in the state reached by the first n+1 steps *)
Lemma run_obs_nth : forall ths tr s n,
  (n < length tr)%nat ->
  nth n (snd (run_obs ths s tr)) [] = views (run s (firstn (S n) tr)) ths.
Proof.
  induction tr as [|[t o] r IH]; intros s n Hn; cbn in Hn; [lia|].
  cbn [run_obs]. specialize (IH (step_st s t o)).
  destruct (run_obs ths (step_st s t o) r) as [sf obs]. cbn [snd] in *.
  destruct n as [|n].
  - cbn. reflexivity.
  - cbn [nth]. rewrite IH by lia. reflexivity.
Qed.

(* ---------- stack traces refine plain traces ---------- *)

Lemma sstep_step : forall s k t o,
  fst (sstep s k t o) = step_st s t (resolve_op (get_stack k t) o).
Proof.
  intros s k t o. unfold sstep, step_st.
  destruct (step s t (resolve_op (get_stack k t) o)) as [[s' b] tok]. reflexivity.
Qed.

Lemma run_stack_refines : forall ths tr s k,
  fst (fst (run_stack_from ths s k tr)) = run s (resolve s k tr) /\
  snd (run_stack_from ths s k tr) = snd (run_obs ths s (resolve s k tr)).
Proof.
  induction tr as [|[t o] r IH]; intros s k; cbn [run_stack_from resolve]; [split; reflexivity|].
  pose proof (sstep_step s k t o) as Hs.
  destruct (sstep s k t o) as [s' k']. cbn [fst] in Hs.
  specialize (IH s' k').
  destruct (run_stack_from ths s' k' r) as [[sf kf] obs]. cbn [fst snd] in *.
  cbn [run run_obs]. rewrite <- Hs.
  destruct (run_obs ths s' (resolve s' k' r)) as [sf' obs']. cbn [fst snd] in *.
  destruct IH as [IH1 IH2]. split; [exact IH1 | rewrite IH2; reflexivity].
Qed.

Lemma run_stack_agrees : forall ths tr,
  run_stack ths tr = snd (run_obs ths init (resolve init [] tr)) /\
  run_stack_final tr = run init (resolve init [] tr).
Proof.
  intros ths tr. unfold run_stack, run_stack_final. split.
  - apply run_stack_refines.
  - apply (run_stack_refines [] tr init []).
Qed.

Lemma get_set_stack_same : forall k t l, get_stack (set_stack k t l) t = l.
Proof.
  induction k as [|[u l'] r IH]; intros t l; cbn.
  - rewrite N.eqb_refl; reflexivity.
  - destruct (N.eqb u t) eqn:E; cbn.
    + rewrite N.eqb_refl; reflexivity.
    + rewrite E; apply IH.
Qed.

(* SLocalTake immediately followed (for the stack) by SRestoreTop of the same thread, with any
   plain-state activity in between, restores the override: the popped token is the saved flag *)
Lemma stack_take_restore : forall s k t s1 k1 s2,
  sstep s k t SLocalTake = (s1, k1) ->
  get_loc (fst (sstep s2 k1 t SRestoreTop)) t = get_loc s t /\
  get_stack (snd (sstep s2 k1 t SRestoreTop)) t = get_stack k t.
Proof.
  intros s k t s1 k1 s2 H. unfold sstep in H. cbn in H. inversion H; subst. clear H.
  unfold sstep. rewrite get_set_stack_same. cbn [resolve_op step fst snd].
  rewrite get_set_same, get_set_stack_same. split; reflexivity.
Qed.

(* ---------- non-vacuity ---------- *)

(* thread 0 overrides to Disabled, thread 1 disables/enables globally, thread 0 takes,
   sees the global, restores, sees its override again; thread 2 never calls anything *)
Example tracing_example :
  run_stack [0; 1; 2]
    [ (0, SLocalDisable); (1, SDisable); (1, SLocalTake); (1, SToggle);
      (0, SLocalTake); (1, SDisable); (0, SRestoreTop); (1, SRestoreTop); (0, SRestoreTop) ]
  = [ [false; true;  true ];   (* 0 overridden, others follow global = true *)
      [false; false; false];   (* global false; 1 also overrides itself to Disabled *)
      [false; false; false];   (* 1 took its override: follows global = false *)
      [false; true;  true ];   (* toggle: global true; 1 is Global so stays Global *)
      [true;  true;  true ];   (* 0 took its override: follows global *)
      [false; false; false];   (* global false, 1 overridden Disabled *)
      [false; false; false];   (* 0 restored Disabled *)
      [false; false; false];   (* 1 restored Disabled (token saved at step 3) *)
      [false; false; false] ]  (* empty stack: no-op *)
  /\ get_loc (run_stack_final [(0, SLocalEnable); (1, SDisable); (1, SLocalToggle)]) 0 = FEnabled
  /\ view (run init [(0, OLocalEnable); (1, ODisable)]) 0 = true
  /\ view (run init [(0, OLocalEnable); (1, ODisable)]) 2 = false
  /\ snd (fst (step (run init [(1, ODisable); (1, OLocalTake)]) 1 OIsEnabled)) = Some false.
Proof. vm_compute. repeat split. Qed.
