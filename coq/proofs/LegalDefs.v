(* C01 - shared vocabulary and the statements of the component lemmas.
   Goal: on every GOOD board the move generator model yields exactly the legal moves of the rules spec:
       gen_move b m  <->  In m (Rules.legal_moves (Board.abs b)).
   Route: legality at the rules level = pseudo-legality + "the mover's king is not attacked in the
   successor"; the successor is `apply b m` (C02: abs (apply b m) = make (Board.abs b) m) and the attack test
   is the bitboard one (bridge); so legality becomes `safe_after`, a bitboard-level predicate, which is then
   compared case by case with what the generator does (pin / check masks, king safety, castling, en passant).
   This file contains definitions and statements only. *)
From Coq Require Import NArith ZArith List Bool.
From Chess Require Import base.Bits base.Types base.BitBoard geom.Geometry model.Board model.MoveGen model.Apply spec.Rules.
From Chess Require Import spec.IterSpec proofs.HashFacts proofs.InvFacts.
Import ListNotations.
Local Open Scope N_scope.

(* the mover's king is not attacked after the move (bitboard level, on the successor board) *)
Definition safe_after (b : board) (m : move) : bool :=
  let b' := apply b m in
  none (attackers_of b' (b_turn b') (king_sq b' (b_turn b)) (all_occ b')).

Definition one_king (b : board) (c : color) : Prop := count (bb_and (colors b c) (b_king b)) = 1.
(* pinned / checkers are the from-scratch ones *)
Definition fresh (b : board) : Prop :=
  b_pinned b = b_pinned (update_pin_info b) /\ b_checkers b = b_checkers (update_pin_info b).
(* the side NOT to move is not in check *)
Definition opp_safe (b : board) : Prop :=
  none (attackers_of b (b_turn b) (king_sq b (opp (b_turn b))) (all_occ b)) = true.

Record Good (b : board) : Prop := {
  good_inv : InvFacts.Inv b;
  good_wk : one_king b White;
  good_bk : one_king b Black;
  good_fresh : fresh b;
  good_opp : opp_safe b }.

Definition own (b : board) : N := colors b (b_turn b).
Definition ksq (b : board) : N := king_sq b (b_turn b).

(* how a destination arises for the man (turn, pc) on src, before any king-safety filtering *)
Inductive pkind (b : board) (pc : piece) (src d : N) : Prop :=
| PK_step :
    mem (pseudo_legals pc src (b_turn b) (all_occ b) (bb_not (own b))) d = true -> pkind b pc src d
| PK_ep : forall f,
    pc = Pawn -> b_ep b = Some f -> d = mk_sq f (ep_capture_rank_of (b_turn b)) ->
    mem (bb_and (from_rank (ep_pawn_rank_of (b_turn b))) (adjacent_files f)) src = true ->
    pkind b pc src d.

(* the promotion field that goes with (pc, src): four pieces for a pawn on its seventh rank, none otherwise *)
Definition promo_ok (b : board) (pc : piece) (src : N) (pr : option piece) : Prop :=
  if piece_eqb pc Pawn && (rank_of src =? (match b_turn b with White => 6 | Black => 1 end))
  then exists p, In p promo_pieces /\ pr = Some p
  else pr = None.

Definition noncastle_pseudo (p : position) : list move :=
  flat_map (fun s => match Rules.cell_at (Rules.cells p) s with
                     | Some (c, pc) => if color_eqb c (Rules.stm p) then Rules.piece_moves_from p s pc else []
                     | None => [] end) sq_list.

(* the generator's filter for a non-king man moving src -> d (ordinary moves) *)
Definition step_filter (b : board) (src d : N) : bool :=
  let k := ksq b in
  if none (b_checkers b) then negb (mem (b_pinned b) src) || mem (line_geo src k) d
  else if count (b_checkers b) =? 1 then negb (mem (b_pinned b) src) && mem (check_mask b true k) d
  else false.

(* ------------------------------------------------------------------ component statements *)

(* (A) legality = pseudo-legality + safe successor *)
Definition legal_iff_safe_statement : Prop :=
  forall b m, Good b -> (In m (legal_moves (Board.abs b)) <-> In m (pseudo (Board.abs b)) /\ safe_after b m = true).

(* (S) the mailbox pseudo-moves (castling aside) are the bitboard pseudo-moves *)
Definition pseudo_shape_statement : Prop :=
  forall b m, Good b ->
    (In m (noncastle_pseudo (Board.abs b)) <->
     exists pc, m_src m < 64 /\ m_dst m < 64 /\ raw_get b (m_src m) = Some (b_turn b, pc)
                /\ pkind b pc (m_src m) (m_dst m) /\ promo_ok b pc (m_src m) (m_promo m)).

(* (P) pins and check masks: for a NON-king man and an ordinary (PK_step) destination *)
Definition pin_filter_statement : Prop :=
  forall b src d pc pr, Good b -> pc <> King ->
    src < 64 -> d < 64 -> raw_get b src = Some (b_turn b, pc) ->
    mem (pseudo_legals pc src (b_turn b) (all_occ b) (bb_not (own b))) d = true ->
    promo_ok b pc src pr ->
    safe_after b {| m_src := src; m_dst := d; m_promo := pr |} = step_filter b src d.

(* (K) king steps *)
Definition king_step_statement : Prop :=
  forall b d, Good b -> d < 64 ->
    mem (pseudo_legals King (ksq b) (b_turn b) (all_occ b) (bb_not (own b))) d = true ->
    safe_after b {| m_src := ksq b; m_dst := d; m_promo := None |} = is_legal_king_position b d.

(* (C) castling: the generator adds the castling destination exactly when the rules allow it, and it is safe *)
Definition gen_castle (b : board) (sd : side) : bool :=
  none (b_checkers b)
  && cr_contains (b_rights b) sd (b_turn b)
  && none (bb_and (bb_and (match sd with KingSide => KINGSIDE_FILES | QueenSide => QUEENSIDE_FILES end)
                          (BACKRANK_BB_of (b_turn b))) (all_occ b))
  && forallb (is_legal_king_position b)
             (elements (bb_and (match sd with KingSide => KINGSIDE_FILES | QueenSide => QUEENSIDE_SAFE_FILES end)
                               (BACKRANK_BB_of (b_turn b)))).
Definition castle_dst (c : color) (sd : side) : N :=
  mk_sq (match sd with KingSide => 6 | QueenSide => 2 end) (match c with White => 0 | Black => 7 end).
Definition castle_statement : Prop :=
  forall b sd, Good b ->
    (gen_castle b sd = true <->
     In {| m_src := ksq b; m_dst := castle_dst (b_turn b) sd; m_promo := None |} (castle_moves (Board.abs b)))
    /\ (gen_castle b sd = true ->
        safe_after b {| m_src := ksq b; m_dst := castle_dst (b_turn b) sd; m_promo := None |} = true).

(* (E) en passant *)
Definition ep_statement : Prop :=
  forall b src f, Good b -> b_ep b = Some f -> src < 64 ->
    raw_get b src = Some (b_turn b, Pawn) ->
    mem (bb_and (from_rank (ep_pawn_rank_of (b_turn b))) (adjacent_files f)) src = true ->
    safe_after b {| m_src := src; m_dst := mk_sq f (ep_capture_rank_of (b_turn b)); m_promo := None |}
    = is_legal_en_passant b src (mk_sq f (ep_capture_rank_of (b_turn b))) (mk_sq f (ep_pawn_rank_of (b_turn b))) (ksq b).

(* (G) the goal *)
Definition movegen_exact_statement : Prop :=
  forall b m, Good b -> (gen_move b m <-> In m (legal_moves (Board.abs b))).
Definition movegen_nodup_statement : Prop :=
  forall b, Good b -> NoDup (flat_map IterSpec.entry_moves (collect_moves b bb_full)).
