(* The bridge between the bitboard model (model/Board.v) and the mailbox rules (spec/Rules.v):
   cells of `abs b` = raw_get, raw_get = membership in the colour / piece sets under the partition
   invariant `Part`, set_of / offsets_set membership, sliding (first_occupied vs slide_ray), and
   attacked_by (spec) = any (attackers_of ...) (model).  Needed by C01, C03, C06.
   Everything is generic in the occupancy; only finite facts about the 64 squares are sweeps. *)
From Coq Require Import NArith ZArith List Bool Lia ZifyBool ZifyN.
From Chess Require Import base.Bits base.Types base.BitBoard base.Sweep geom.Geometry model.Board spec.Rules.
From Chess Require Import proofs.BitsFacts proofs.BitBoardFacts.
Import ListNotations.
Local Open Scope N_scope.

(* ------------------------------------------------------------------ *)
(* generic list facts                                                   *)

Lemma existsb_ext_in : forall (A : Type) (f g : A -> bool) l,
  (forall x, In x l -> f x = g x) -> existsb f l = existsb g l.
Proof.
  intros A f g l. induction l as [|a l IH]; intros H; cbn [existsb]; [reflexivity|].
  rewrite (H a) by (left; reflexivity). f_equal. apply IH. intros x Hx. apply H. right. exact Hx.
Qed.

Lemma existsb_flat_map : forall (A B : Type) (f : B -> bool) (g : A -> list B) l,
  existsb f (flat_map g l) = existsb (fun a => existsb f (g a)) l.
Proof.
  intros A B f g l. induction l as [|a l IH]; cbn [flat_map existsb]; [reflexivity|].
  rewrite existsb_app, IH. reflexivity.
Qed.

Lemma existsb_eqb_In : forall t l, existsb (N.eqb t) l = true <-> In t l.
Proof.
  intros t l. rewrite existsb_exists. split.
  - intros [x [Hin He]]. apply N.eqb_eq in He. subst. exact Hin.
  - intros Hin. exists t. split; [exact Hin|apply N.eqb_refl].
Qed.

Lemma filter_map_length : forall (A B : Type) (f : B -> bool) (g : A -> B) l,
  length (filter f (map g l)) = length (filter (fun a => f (g a)) l).
Proof.
  intros A B f g l. induction l as [|a l IH]; cbn [map filter]; [reflexivity|].
  destruct (f (g a)); cbn [length]; rewrite IH; reflexivity.
Qed.

Lemma filter_ext_in' : forall (A : Type) (f g : A -> bool) l,
  (forall x, In x l -> f x = g x) -> filter f l = filter g l.
Proof.
  intros A f g l. induction l as [|a l IH]; intros H; cbn [filter]; [reflexivity|].
  rewrite (H a) by (left; reflexivity). rewrite IH; [reflexivity|].
  intros x Hx. apply H. right. exact Hx.
Qed.

Lemma find_hd_filter : forall (A : Type) (f : A -> bool) l, find f l = hd_error (filter f l).
Proof.
  intros A f l. induction l as [|a l IH]; cbn [find filter]; [reflexivity|].
  destruct (f a); [reflexivity|exact IH].
Qed.

(* ------------------------------------------------------------------ *)
(* 1. the cells of abs b                                                *)

Lemma cells_abs : forall b, cells (abs b) = map (raw_get b) sq_list.
Proof. reflexivity. Qed.

Lemma nth_sq_list : forall n, (n < 64)%nat -> nth n sq_list 0 = N.of_nat n.
Proof.
  intros n Hn. rewrite sq_list_seq.
  change 0 with (N.of_nat 0%nat). rewrite map_nth. rewrite seq_nth by exact Hn. reflexivity.
Qed.

Lemma sq_list_length : length sq_list = 64%nat.
Proof. rewrite sq_list_seq, map_length, seq_length. reflexivity. Qed.

Lemma abs_length : forall b, length (cells (abs b)) = 64%nat.
Proof. intros b. rewrite cells_abs, map_length. apply sq_list_length. Qed.

Lemma abs_cell : forall b s, s < 64 -> cell_at (cells (abs b)) s = raw_get b s.
Proof.
  intros b s Hs. rewrite cells_abs. unfold cell_at.
  assert (Hn : (N.to_nat s < 64)%nat) by lia.
  rewrite (nth_indep (map (raw_get b) sq_list) None (raw_get b 0))
    by (rewrite map_length, sq_list_length; exact Hn).
  rewrite map_nth, nth_sq_list by exact Hn. rewrite N2Nat.id. reflexivity.
Qed.

(* ------------------------------------------------------------------ *)
(* 2. the partition invariant and raw_get                               *)

Record Part (b : board) : Prop := {
  part_wf_colors : forall c, wf64 (colors b c);
  part_wf_pieces : forall p, wf64 (pieces b p);
  part_colors_disj : bb_and (b_white b) (b_black b) = 0;
  part_pieces_disj : forall p q, p <> q -> bb_and (pieces b p) (pieces b q) = 0;
  part_union :
    bb_or (bb_or (bb_or (bb_or (bb_or (b_pawn b) (b_knight b)) (b_bishop b)) (b_rook b)) (b_queen b)) (b_king b)
    = all_occ b }.

Lemma all_occ_unfold : forall b, all_occ b = bb_or (b_white b) (b_black b).
Proof. reflexivity. Qed.

Lemma wf64_all_occ : forall b, Part b -> wf64 (all_occ b).
Proof.
  intros b P. rewrite all_occ_unfold. apply wf64_or; [exact (part_wf_colors b P White)|exact (part_wf_colors b P Black)].
Qed.

Lemma mem_all_occ : forall b s, mem (all_occ b) s = mem (b_white b) s || mem (b_black b) s.
Proof. intros b s. rewrite all_occ_unfold. apply mem_or. Qed.

Lemma part_colors_excl : forall b s, Part b -> mem (b_white b) s && mem (b_black b) s = false.
Proof.
  intros b s P. rewrite <- mem_and, (part_colors_disj b P). apply mem_0.
Qed.

Lemma part_pieces_excl : forall b s p q, Part b -> p <> q -> mem (pieces b p) s && mem (pieces b q) s = false.
Proof.
  intros b s p q P Hpq. rewrite <- mem_and, (part_pieces_disj b P p q Hpq). apply mem_0.
Qed.

Lemma part_union_mem : forall b s, Part b ->
  mem (b_pawn b) s || mem (b_knight b) s || mem (b_bishop b) s || mem (b_rook b) s || mem (b_queen b) s
  || mem (b_king b) s = mem (all_occ b) s.
Proof.
  intros b s P. rewrite <- (part_union b P), !mem_or. reflexivity.
Qed.

Lemma color_of_unfold : forall b s, color_of b s =
  if contains (b_white b) s then Some White else if contains (b_black b) s then Some Black else None.
Proof. reflexivity. Qed.

Lemma piece_of_unchecked_unfold : forall b s, piece_of_unchecked b s =
  if contains (bb_or (bb_or (b_pawn b) (b_knight b)) (b_bishop b)) s
  then (if contains (b_pawn b) s then Pawn else if contains (b_knight b) s then Knight else Bishop)
  else if contains (b_rook b) s then Rook else if contains (b_queen b) s then Queen else King.
Proof. reflexivity. Qed.

Lemma raw_get_unfold : forall b s, raw_get b s =
  match color_of b s with Some c => Some (c, piece_of_unchecked b s) | None => None end.
Proof. reflexivity. Qed.

Lemma color_of_spec : forall b s c, Part b -> s < 64 ->
  (color_of b s = Some c <-> mem (colors b c) s = true).
Proof.
  intros b s c P Hs. rewrite color_of_unfold, !contains_spec by exact Hs.
  pose proof (part_colors_excl b s P) as Hx.
  destruct c; cbn [colors]; destruct (mem (b_white b) s), (mem (b_black b) s); cbn [andb] in Hx;
    split; intros H; try reflexivity; try discriminate.
Qed.

Lemma color_of_none : forall b s, s < 64 -> (color_of b s = None <-> mem (all_occ b) s = false).
Proof.
  intros b s Hs. rewrite color_of_unfold, !contains_spec, mem_all_occ by exact Hs.
  destruct (mem (b_white b) s), (mem (b_black b) s); cbn [orb]; split; intros H; try reflexivity; try discriminate.
Qed.

Lemma piece_of_unchecked_spec : forall b s p, Part b -> s < 64 -> mem (all_occ b) s = true ->
  (piece_of_unchecked b s = p <-> mem (pieces b p) s = true).
Proof.
  intros b s p P Hs Hocc. rewrite piece_of_unchecked_unfold, !contains_spec, !mem_or by exact Hs.
  pose proof (part_union_mem b s P) as Hu. rewrite Hocc in Hu.
  assert (Hx : forall p q, p <> q -> mem (pieces b p) s && mem (pieces b q) s = false)
    by (intros; apply part_pieces_excl; assumption).
  pose proof (Hx Pawn Knight ltac:(discriminate)) as H01. pose proof (Hx Pawn Bishop ltac:(discriminate)) as H02.
  pose proof (Hx Pawn Rook ltac:(discriminate)) as H03. pose proof (Hx Pawn Queen ltac:(discriminate)) as H04.
  pose proof (Hx Pawn King ltac:(discriminate)) as H05. pose proof (Hx Knight Bishop ltac:(discriminate)) as H12.
  pose proof (Hx Knight Rook ltac:(discriminate)) as H13. pose proof (Hx Knight Queen ltac:(discriminate)) as H14.
  pose proof (Hx Knight King ltac:(discriminate)) as H15. pose proof (Hx Bishop Rook ltac:(discriminate)) as H23.
  pose proof (Hx Bishop Queen ltac:(discriminate)) as H24. pose proof (Hx Bishop King ltac:(discriminate)) as H25.
  pose proof (Hx Rook Queen ltac:(discriminate)) as H34. pose proof (Hx Rook King ltac:(discriminate)) as H35.
  pose proof (Hx Queen King ltac:(discriminate)) as H45.
  clear Hx. cbn [pieces] in *.
  destruct (mem (b_pawn b) s) eqn:E0, (mem (b_knight b) s) eqn:E1, (mem (b_bishop b) s) eqn:E2,
           (mem (b_rook b) s) eqn:E3, (mem (b_queen b) s) eqn:E4, (mem (b_king b) s) eqn:E5;
    cbn [andb orb] in *; try discriminate;
    destruct p; cbn [pieces]; split; intros H; try reflexivity; try discriminate; try assumption; congruence.
Qed.

Lemma raw_get_some : forall b s c p, Part b -> s < 64 ->
  (raw_get b s = Some (c, p) <-> mem (colors b c) s = true /\ mem (pieces b p) s = true).
Proof.
  intros b s c p P Hs. rewrite raw_get_unfold. split.
  - destruct (color_of b s) as [c'|] eqn:Ec; [|discriminate].
    intros H. injection H as -> Hp.
    apply (color_of_spec b s c P Hs) in Ec. split; [exact Ec|].
    apply (piece_of_unchecked_spec b s p P Hs); [|exact Hp].
    rewrite mem_all_occ. destruct c; cbn [colors] in Ec; rewrite Ec; [reflexivity|apply orb_true_r].
  - intros [Hc Hp]. pose proof Hc as Hc'. apply (color_of_spec b s c P Hs) in Hc'. rewrite Hc'.
    f_equal. f_equal. apply (piece_of_unchecked_spec b s p P Hs); [|exact Hp].
    rewrite mem_all_occ. destruct c; cbn [colors] in Hc; rewrite Hc; [reflexivity|apply orb_true_r].
Qed.

Lemma raw_get_none : forall b s, s < 64 -> (raw_get b s = None <-> mem (all_occ b) s = false).
Proof.
  intros b s Hs. rewrite raw_get_unfold, <- (color_of_none b s Hs).
  destruct (color_of b s); split; intros H; try reflexivity; discriminate.
Qed.

Theorem raw_get_spec : forall b s, Part b -> s < 64 ->
  (forall c p, raw_get b s = Some (c, p) <-> mem (colors b c) s = true /\ mem (pieces b p) s = true)
  /\ (raw_get b s = None <-> mem (all_occ b) s = false).
Proof.
  intros b s P Hs. split; [intros c p; apply raw_get_some; assumption|apply raw_get_none; assumption].
Qed.

Lemma color_eqb_refl : forall c, color_eqb c c = true.
Proof. destruct c; reflexivity. Qed.
Lemma color_eqb_eq : forall a b, color_eqb a b = true <-> a = b.
Proof. intros [] []; cbn; split; intros H; try reflexivity; discriminate. Qed.
Lemma piece_eqb_refl : forall p, piece_eqb p p = true.
Proof. destruct p; reflexivity. Qed.
Lemma piece_eqb_eq' : forall a b, piece_eqb a b = true <-> a = b.
Proof. intros a b; destruct a, b; cbn; split; intros H; try reflexivity; try discriminate. Qed.

Lemma occupied_unfold : forall cs s, occupied cs s = match cell_at cs s with Some _ => true | None => false end.
Proof. reflexivity. Qed.
Lemma is_piece_unfold : forall cs c p s, is_piece cs c p s =
  match cell_at cs s with Some (c', p') => color_eqb c c' && piece_eqb p p' | None => false end.
Proof. reflexivity. Qed.
Lemma has_color_unfold : forall cs c s, has_color cs c s =
  match cell_at cs s with Some (c', _) => color_eqb c c' | None => false end.
Proof. reflexivity. Qed.

Lemma occupied_abs : forall b s, s < 64 -> occupied (cells (abs b)) s = mem (all_occ b) s.
Proof.
  intros b s Hs. rewrite occupied_unfold, abs_cell by exact Hs.
  destruct (raw_get b s) as [x|] eqn:E.
  - destruct (mem (all_occ b) s) eqn:Em; [reflexivity|].
    apply (raw_get_none b s Hs) in Em. congruence.
  - apply (raw_get_none b s Hs) in E. rewrite E. reflexivity.
Qed.

Lemma is_piece_abs : forall b c p s, Part b -> s < 64 ->
  is_piece (cells (abs b)) c p s = mem (colors b c) s && mem (pieces b p) s.
Proof.
  intros b c p s P Hs. rewrite is_piece_unfold, abs_cell by exact Hs.
  destruct (raw_get b s) as [[c' p']|] eqn:E.
  - apply (raw_get_some b s c' p' P Hs) in E. destruct E as [Ec Ep].
    destruct (color_eqb c c') eqn:Hc.
    + apply color_eqb_eq in Hc. subst c'. rewrite Ec. cbn [andb].
      destruct (piece_eqb p p') eqn:Hp.
      * apply piece_eqb_eq' in Hp. subst p'. rewrite Ep. reflexivity.
      * assert (Hne : p' <> p) by (intros ->; rewrite piece_eqb_refl in Hp; discriminate).
        pose proof (part_pieces_excl b s p' p P Hne) as Hx. rewrite Ep in Hx. cbn [andb] in Hx.
        rewrite Hx. reflexivity.
    + cbn [andb]. assert (Hm : mem (colors b c) s = false); [|rewrite Hm; reflexivity].
      pose proof (part_colors_excl b s P) as Hx.
      destruct c, c'; cbn [colors color_eqb] in *; try discriminate; rewrite Ec in Hx.
      * rewrite andb_true_r in Hx. exact Hx.
      * cbn [andb] in Hx. exact Hx.
  - apply (raw_get_none b s Hs) in E. rewrite mem_all_occ in E. apply orb_false_elim in E. destruct E as [E1 E2].
    destruct c; cbn [colors]; [rewrite E1|rewrite E2]; reflexivity.
Qed.

Lemma has_color_abs : forall b c s, Part b -> s < 64 ->
  has_color (cells (abs b)) c s = mem (colors b c) s.
Proof.
  intros b c s P Hs. rewrite has_color_unfold, abs_cell by exact Hs.
  destruct (raw_get b s) as [[c' p']|] eqn:E.
  - apply (raw_get_some b s c' p' P Hs) in E. destruct E as [Ec _].
    pose proof (part_colors_excl b s P) as Hx.
    destruct c, c'; cbn [colors color_eqb] in *; rewrite Ec in *; try reflexivity.
    + cbn [andb] in Hx. rewrite andb_true_r in Hx. symmetry. exact Hx.
    + cbn [andb] in Hx. symmetry. exact Hx.
  - apply (raw_get_none b s Hs) in E. rewrite mem_all_occ in E. apply orb_false_elim in E. destruct E as [E1 E2].
    destruct c; cbn [colors]; [rewrite E1|rewrite E2]; reflexivity.
Qed.

(* get_is (the accessor validate_castle_rights uses) is is_piece on the abstraction *)
Lemma get_is_abs : forall b s c p, s < 64 -> get_is b s c p = is_piece (cells (abs b)) c p s.
Proof. intros b s c p Hs. rewrite is_piece_unfold, abs_cell by exact Hs. reflexivity. Qed.

(* ------------------------------------------------------------------ *)
(* 3. set_of / offsets_set                                              *)

Lemma mem_fold_bit : forall l acc t,
  mem (fold_left (fun a s => N.lor a (bit s)) l acc) t = mem acc t || existsb (N.eqb t) l.
Proof.
  induction l as [|s l IH]; intros acc t; cbn [fold_left existsb].
  - rewrite orb_false_r. reflexivity.
  - rewrite IH, mem_lor, mem_bit, orb_assoc. reflexivity.
Qed.

Lemma mem_set_of : forall l t, mem (set_of l) t = existsb (N.eqb t) l.
Proof. intros l t. unfold set_of. rewrite mem_fold_bit, mem_0. reflexivity. Qed.

Lemma mem_set_of_In : forall l t, mem (set_of l) t = true <-> In t l.
Proof. intros l t. rewrite mem_set_of. apply existsb_eqb_In. Qed.

Lemma wf64_set_of : forall l, (forall s, In s l -> s < 64) -> wf64 (set_of l).
Proof.
  intros l H. apply wf64_testbit. intros i Hi. change (mem (set_of l) i = false).
  destruct (mem (set_of l) i) eqn:E; [|reflexivity].
  apply mem_set_of_In in E. apply H in E. lia.
Qed.

Lemma offsets_set_offs : forall s l, offsets_set s l = set_of (offs s l).
Proof. reflexivity. Qed.

Lemma mem_offsets_set : forall s l t, mem (offsets_set s l) t = existsb (N.eqb t) (offs s l).
Proof. intros s l t. rewrite offsets_set_offs. apply mem_set_of. Qed.

Lemma sq_off_lt : forall s df dr t, sq_off s df dr = Some t -> t < 64.
Proof.
  intros s df dr t. unfold sq_off.
  destruct ((0 <=? Z.of_N (s mod 8) + df)%Z && (Z.of_N (s mod 8) + df <? 8)%Z
            && (0 <=? Z.of_N (s / 8) + dr)%Z && (Z.of_N (s / 8) + dr <? 8)%Z) eqn:E; [|discriminate].
  intros H. injection H as <-. lia.
Qed.

Lemma offs_lt : forall s l t, In t (offs s l) -> t < 64.
Proof.
  intros s l t H. unfold offs in H. apply in_flat_map in H. destruct H as [d [_ H]].
  destruct (sq_off s (fst d) (snd d)) as [u|] eqn:E; cbn [opt_list In] in H; [|contradiction].
  destruct H as [<-|[]]. exact (sq_off_lt _ _ _ _ E).
Qed.

Lemma wf64_offsets_set : forall s l, wf64 (offsets_set s l).
Proof. intros s l. rewrite offsets_set_offs. apply wf64_set_of. intros t. apply offs_lt. Qed.

Lemma ray_fuel_lt : forall n d s t, In t (ray_fuel n d s) -> t < 64.
Proof.
  induction n as [|n IH]; intros d s t; cbn [ray_fuel]; [intros []|].
  destruct (step d s) as [u|] eqn:E; [|intros []].
  intros [<-|H]; [exact (sq_off_lt _ _ _ _ E)|exact (IH _ _ _ H)].
Qed.

Lemma ray_lt : forall d s t, In t (ray d s) -> t < 64.
Proof. intros d s t. apply ray_fuel_lt. Qed.

(* any over unions / intersections with an explicit set *)
Lemma any_false_iff : forall a, any a = false <-> a = 0.
Proof. intros a. unfold any. rewrite negb_false_iff. apply N.eqb_eq. Qed.

Lemma any_or : forall a b, any (bb_or a b) = any a || any b.
Proof.
  intros a b. unfold any, bb_or.
  destruct (N.eqb_spec a 0) as [->|Ha]; cbn [negb orb].
  - rewrite N.lor_0_l. reflexivity.
  - destruct (N.eqb_spec (N.lor a b) 0) as [H|H]; [|reflexivity].
    apply N.lor_eq_0_iff in H. destruct H. contradiction.
Qed.

Lemma any_iff : forall a, any a = true <-> exists s, mem a s = true.
Proof.
  intros a. unfold any. rewrite negb_true_iff. split.
  - intros H. apply N.eqb_neq in H. exact (nonzero_mem a H).
  - intros [s Hs]. exact (eqb0_false_intro a s Hs).
Qed.

Lemma any_and_set_of : forall a l, any (bb_and a (set_of l)) = existsb (mem a) l.
Proof.
  intros a l. apply eq_iff_eq_true. rewrite any_iff, existsb_exists. split.
  - intros [s Hm]. rewrite mem_and in Hm. apply andb_prop in Hm. destruct Hm as [H1 H2].
    exists s. split; [apply mem_set_of_In; exact H2|exact H1].
  - intros [s [Hin Hm]]. exists s.
    rewrite mem_and, Hm. apply mem_set_of_In in Hin. rewrite Hin. reflexivity.
Qed.

(* ------------------------------------------------------------------ *)
(* 4. sliding: first_occupied (rules) against slide_ray (ray casting)   *)

Lemma slide_ray_incl : forall occ l t, In t (slide_ray occ l) -> In t l.
Proof.
  intros occ l. induction l as [|x r IH]; intros t; cbn [slide_ray]; [intros []|].
  intros [->|H]; [left; reflexivity|]. right.
  destruct (N.testbit occ x); [destruct H|apply IH; exact H].
Qed.

(* the first occupied square of l is the only occupied square ray casting reaches
   (no distinctness of l is needed) *)
Theorem first_occupied_slide_ray : forall cs occ l t,
  (forall u, In u l -> occupied cs u = mem occ u) ->
  (first_occupied cs l = Some t <-> In t (slide_ray occ l) /\ mem occ t = true).
Proof.
  intros cs occ l t. induction l as [|x r IH]; intros Hocc; cbn [first_occupied slide_ray].
  - split; [discriminate|intros [[] _]].
  - rewrite (Hocc x) by (left; reflexivity). change (N.testbit occ x) with (mem occ x).
    assert (Hr : forall u, In u r -> occupied cs u = mem occ u) by (intros u Hu; apply Hocc; right; exact Hu).
    destruct (mem occ x) eqn:Ex.
    + split.
      * intros H. injection H as <-. split; [left; reflexivity|exact Ex].
      * intros [[->|[]] _]. reflexivity.
    + rewrite (IH Hr). split.
      * intros [H1 H2]. split; [right; exact H1|exact H2].
      * intros [[->|H1] H2]; [congruence|split; assumption].
Qed.

(* the form used by attacked_by: "the first occupied square satisfies P" = "some reached square
   satisfies P", for any P that implies occupancy *)
Lemma first_occupied_existsb : forall cs occ (P : N -> bool) l,
  (forall u, In u l -> occupied cs u = mem occ u) ->
  (forall u, In u l -> P u = true -> mem occ u = true) ->
  match first_occupied cs l with Some t => P t | None => false end = existsb P (slide_ray occ l).
Proof.
  intros cs occ P l. induction l as [|x r IH]; intros Hocc HP; cbn [first_occupied slide_ray existsb]; [reflexivity|].
  rewrite (Hocc x) by (left; reflexivity). change (N.testbit occ x) with (mem occ x).
  destruct (mem occ x) eqn:Ex.
  - cbn [existsb]. rewrite orb_false_r. reflexivity.
  - rewrite IH.
    + destruct (P x) eqn:Px; [|reflexivity].
      rewrite (HP x (or_introl eq_refl) Px) in Ex. discriminate.
    + intros u Hu. apply Hocc. right. exact Hu.
    + intros u Hu. apply HP. right. exact Hu.
Qed.

Lemma slide_unfold : forall ds s occ, slide ds s occ = set_of (flat_map (fun d => slide_ray occ (ray d s)) ds).
Proof. reflexivity. Qed.

Lemma slide_lt : forall ds s occ t, In t (flat_map (fun d => slide_ray occ (ray d s)) ds) -> t < 64.
Proof.
  intros ds s occ t H. apply in_flat_map in H. destruct H as [d [_ H]].
  apply slide_ray_incl in H. exact (ray_lt _ _ _ H).
Qed.

Lemma wf64_slide : forall ds s occ, wf64 (slide ds s occ).
Proof. intros. rewrite slide_unfold. apply wf64_set_of. intros t. apply slide_lt. Qed.

Lemma mem_slide : forall ds s occ t,
  mem (slide ds s occ) t = existsb (fun d => existsb (N.eqb t) (slide_ray occ (ray d s))) ds.
Proof. intros. rewrite slide_unfold, mem_set_of. apply existsb_flat_map. Qed.

(* slider part of attacked_by = slider part of attackers_of, for any set X of men (subset of occ) *)
Theorem slider_bridge : forall cs occ X ds s,
  (forall u, u < 64 -> occupied cs u = mem occ u) ->
  (forall u, mem X u = true -> mem occ u = true) ->
  existsb (fun d => match first_occupied cs (ray d s) with Some t => mem X t | None => false end) ds
  = any (bb_and X (slide ds s occ)).
Proof.
  intros cs occ X ds s Hocc Hsub.
  rewrite slide_unfold, any_and_set_of, existsb_flat_map.
  apply existsb_ext_in. intros d _.
  apply first_occupied_existsb.
  - intros u Hu. apply Hocc. exact (ray_lt _ _ _ Hu).
  - intros u _. apply Hsub.
Qed.

(* finite facts about the rays from one square (8 x 64 sweep): duplicate-free, pairwise disjoint *)
Fixpoint nodupb (l : list N) : bool :=
  match l with [] => true | x :: r => negb (existsb (N.eqb x) r) && nodupb r end.
Lemma nodupb_NoDup : forall l, nodupb l = true -> NoDup l.
Proof.
  induction l as [|x r IH]; cbn [nodupb]; intros H; constructor.
  - apply andb_prop in H. destruct H as [H _]. apply negb_true_iff in H.
    intros Hin. apply existsb_eqb_In in Hin. congruence.
  - apply IH. apply andb_prop in H. apply H.
Qed.
Definition chk_rays_nodup (s : N) : bool := nodupb (flat_map (fun d => ray d s) all_dirs).
Lemma sweep_rays_nodup : all_sq chk_rays_nodup = true.
Proof. vm_compute. reflexivity. Qed.

Lemma in_all_dirs : forall d, In d all_dirs.
Proof. destruct d; unfold all_dirs, rook_dirs, bishop_dirs; cbn [app In]; tauto. Qed.

Lemma NoDup_app_l : forall (A : Type) (l1 l2 : list A), NoDup (l1 ++ l2) -> NoDup l1.
Proof.
  intros A l1 l2. induction l1 as [|a l1 IH]; intros H; [constructor|].
  cbn [app] in H. inversion H as [|x l Hn Hd]; subst. constructor.
  - intros Hin. apply Hn. apply in_or_app. left. exact Hin.
  - apply IH. exact Hd.
Qed.
Lemma NoDup_app_r : forall (A : Type) (l1 l2 : list A), NoDup (l1 ++ l2) -> NoDup l2.
Proof.
  intros A l1 l2. induction l1 as [|a l1 IH]; intros H; [exact H|].
  cbn [app] in H. inversion H; subst. apply IH. assumption.
Qed.
Lemma NoDup_app_disj : forall (A : Type) (l1 l2 : list A) x, NoDup (l1 ++ l2) -> In x l1 -> In x l2 -> False.
Proof.
  intros A l1 l2 x. induction l1 as [|a l1 IH]; intros H H1 H2; [destruct H1|].
  cbn [app] in H. inversion H as [|y l Hn Hd]; subst. destruct H1 as [->|H1].
  - apply Hn. apply in_or_app. right. exact H2.
  - exact (IH Hd H1 H2).
Qed.

Lemma NoDup_flat_map_each : forall (A : Type) (g : A -> list N) l a,
  NoDup (flat_map g l) -> In a l -> NoDup (g a).
Proof.
  intros A g l a. induction l as [|x l IH]; intros H Hin; [destruct Hin|].
  cbn [flat_map] in H. destruct Hin as [->|Hin].
  - exact (NoDup_app_l _ _ _ H).
  - apply IH; [exact (NoDup_app_r _ _ _ H)|exact Hin].
Qed.

Lemma NoDup_flat_map_disj : forall (A : Type) (g : A -> list N) l a a' t,
  NoDup l -> NoDup (flat_map g l) -> In a l -> In a' l -> In t (g a) -> In t (g a') -> a = a'.
Proof.
  intros A g l a a' t Hl. induction Hl as [|x l Hx Hl IH]; intros H Ha Ha' Ht Ht'; [destruct Ha|].
  cbn [flat_map] in H.
  destruct Ha as [->|Ha], Ha' as [->|Ha'].
  - reflexivity.
  - exfalso. apply (NoDup_app_disj _ _ _ t H Ht). apply in_flat_map. exists a'. split; assumption.
  - exfalso. apply (NoDup_app_disj _ _ _ t H Ht'). apply in_flat_map. exists a. split; assumption.
  - apply IH; try assumption. exact (NoDup_app_r _ _ _ H).
Qed.

Lemma all_dirs_NoDup : NoDup all_dirs.
Proof.
  unfold all_dirs, rook_dirs, bishop_dirs. cbn [app].
  repeat (constructor; [cbn [In]; intros H; repeat (destruct H as [H|H]; [discriminate|]); exact H|]).
  constructor.
Qed.

Lemma rays_all_NoDup : forall s, s < 64 -> NoDup (flat_map (fun d => ray d s) all_dirs).
Proof. intros s Hs. apply nodupb_NoDup. exact (all_sq_spec _ sweep_rays_nodup s Hs). Qed.

Theorem ray_NoDup : forall d s, s < 64 -> NoDup (ray d s).
Proof.
  intros d s Hs. apply (NoDup_flat_map_each _ (fun d => ray d s) all_dirs d (rays_all_NoDup s Hs) (in_all_dirs d)).
Qed.

Theorem rays_disjoint : forall d d' s t, s < 64 -> In t (ray d s) -> In t (ray d' s) -> d = d'.
Proof.
  intros d d' s t Hs H1 H2.
  exact (NoDup_flat_map_disj _ (fun d => ray d s) all_dirs d d' t all_dirs_NoDup (rays_all_NoDup s Hs)
           (in_all_dirs d) (in_all_dirs d') H1 H2).
Qed.

(* ------------------------------------------------------------------ *)
(* 5. attacked_by (rules) = attackers_of (bitboards)                    *)

Lemma attacked_by_unfold : forall cs c s, attacked_by cs c s =
     existsb (is_piece cs c Knight) (offs s knight_offs)
  || existsb (is_piece cs c King) (offs s king_offs)
  || existsb (is_piece cs c Pawn) (offs s [(-1, - fwd c); (1, - fwd c)]%Z)
  || existsb (fun d => match first_occupied cs (ray d s) with
                       | Some t => is_piece cs c Rook t || is_piece cs c Queen t | None => false end) rook_dirs
  || existsb (fun d => match first_occupied cs (ray d s) with
                       | Some t => is_piece cs c Bishop t || is_piece cs c Queen t | None => false end) bishop_dirs.
Proof. reflexivity. Qed.

Lemma attackers_of_unfold : forall b c s occ, attackers_of b c s occ =
  bb_or (bb_or (bb_and (bb_and (bb_or (b_bishop b) (b_queen b)) (colors b c)) (bishop_attacks s occ))
               (bb_and (bb_and (bb_or (b_rook b) (b_queen b)) (colors b c)) (rook_attacks s occ)))
        (bb_or (bb_and (bb_and (knight_geo s) (b_knight b)) (colors b c))
               (bb_or (bb_and (bb_and (king_geo s) (b_king b)) (colors b c))
                      (bb_and (bb_and (pawn_att_geo (opp c) s) (b_pawn b)) (colors b c)))).
Proof. reflexivity. Qed.

Lemma pawn_att_geo_opp : forall c s, pawn_att_geo (opp c) s = set_of (offs s [(-1, - fwd c); (1, - fwd c)]%Z).
Proof. intros [] s; reflexivity. Qed.
Lemma knight_geo_offs : forall s, knight_geo s = set_of (offs s knight_offs).
Proof. reflexivity. Qed.
Lemma king_geo_offs : forall s, king_geo s = set_of (offs s king_offs).
Proof. reflexivity. Qed.

(* the men of colour c and kind p standing on one of the squares of l *)
Lemma leaper_bridge : forall b c p l, Part b -> (forall t, In t l -> t < 64) ->
  existsb (is_piece (cells (abs b)) c p) l = any (bb_and (bb_and (set_of l) (pieces b p)) (colors b c)).
Proof.
  intros b c p l P Hl.
  assert (E : bb_and (bb_and (set_of l) (pieces b p)) (colors b c)
              = bb_and (bb_and (colors b c) (pieces b p)) (set_of l)).
  { unfold bb_and. rewrite (N.land_comm (set_of l)), <- N.land_assoc, (N.land_comm (set_of l)), N.land_assoc.
    rewrite (N.land_comm (pieces b p)). reflexivity. }
  rewrite E, any_and_set_of.
  apply existsb_ext_in. intros t Ht. rewrite mem_and. apply is_piece_abs; [exact P|exact (Hl t Ht)].
Qed.

Lemma slider_piece_bridge : forall b c p ds s, Part b ->
  existsb (fun d => match first_occupied (cells (abs b)) (ray d s) with
                    | Some t => is_piece (cells (abs b)) c p t || is_piece (cells (abs b)) c Queen t
                    | None => false end) ds
  = any (bb_and (bb_and (bb_or (pieces b p) (b_queen b)) (colors b c)) (slide ds s (all_occ b))).
Proof.
  intros b c p ds s P.
  set (X := bb_and (bb_or (pieces b p) (b_queen b)) (colors b c)).
  rewrite <- (slider_bridge (cells (abs b)) (all_occ b) X ds s).
  - apply existsb_ext_in. intros d _.
    destruct (first_occupied (cells (abs b)) (ray d s)) as [t|] eqn:E; [|reflexivity].
    assert (Ht : t < 64).
    { apply (first_occupied_slide_ray (cells (abs b)) (all_occ b)) in E.
      - destruct E as [E _]. apply slide_ray_incl in E. exact (ray_lt _ _ _ E).
      - intros u Hu. apply occupied_abs. exact (ray_lt _ _ _ Hu). }
    rewrite !is_piece_abs by assumption. unfold X. rewrite mem_and, mem_or. cbn [pieces].
    destruct (mem (colors b c) t), (mem (pieces b p) t), (mem (b_queen b) t); reflexivity.
  - intros u Hu. apply occupied_abs. exact Hu.
  - intros u Hu. unfold X in Hu. rewrite mem_and in Hu. apply andb_prop in Hu. destruct Hu as [_ Hu].
    rewrite mem_all_occ. destruct c; cbn [colors] in Hu; rewrite Hu; [reflexivity|apply orb_true_r].
Qed.

Theorem attacked_by_bridge : forall b c s, Part b -> s < 64 ->
  attacked_by (cells (abs b)) c s = any (attackers_of b c s (all_occ b)).
Proof.
  intros b c s P Hs.
  rewrite attacked_by_unfold, attackers_of_unfold, !any_or.
  rewrite (leaper_bridge b c Knight _ P (offs_lt s knight_offs)).
  rewrite (leaper_bridge b c King _ P (offs_lt s king_offs)).
  rewrite (leaper_bridge b c Pawn _ P (offs_lt s _)).
  rewrite (slider_piece_bridge b c Rook rook_dirs s P).
  rewrite (slider_piece_bridge b c Bishop bishop_dirs s P).
  rewrite <- knight_geo_offs, <- king_geo_offs, <- pawn_att_geo_opp. cbn [pieces].
  change (slide rook_dirs s (all_occ b)) with (rook_attacks s (all_occ b)).
  change (slide bishop_dirs s (all_occ b)) with (bishop_attacks s (all_occ b)).
  destruct (any (bb_and (bb_and (knight_geo s) (b_knight b)) (colors b c))),
           (any (bb_and (bb_and (king_geo s) (b_king b)) (colors b c))),
           (any (bb_and (bb_and (pawn_att_geo (opp c) s) (b_pawn b)) (colors b c))),
           (any (bb_and (bb_and (bb_or (b_rook b) (b_queen b)) (colors b c)) (rook_attacks s (all_occ b)))),
           (any (bb_and (bb_and (bb_or (b_bishop b) (b_queen b)) (colors b c)) (bishop_attacks s (all_occ b))));
    reflexivity.
Qed.

(* ------------------------------------------------------------------ *)
(* the king square                                                      *)

Lemma elements_unfold : forall x, elements x = filter (fun s => N.testbit x s) sq_list.
Proof. reflexivity. Qed.

Lemma pop_unfold : forall a, pop a = if N.eqb a 0 then None else Some (tz64 a, N.lxor a (shl64 1 (tz64 a))).
Proof. reflexivity. Qed.

Lemma hd_elements : forall a, wf64 a -> a <> 0 -> hd_error (elements a) = Some (tz64 a).
Proof.
  intros a Ha Hnz.
  assert (Hp : pop a = Some (tz64 a, N.lxor a (shl64 1 (tz64 a)))).
  { rewrite pop_unfold. destruct (N.eqb_spec a 0); [contradiction|reflexivity]. }
  rewrite (pop_elements a _ _ Ha Hp). reflexivity.
Qed.

Lemma find_ext_in : forall (A : Type) (f g : A -> bool) l,
  (forall x, In x l -> f x = g x) -> find f l = find g l.
Proof.
  intros A f g l. induction l as [|a l IH]; intros H; cbn [find]; [reflexivity|].
  rewrite (H a) by (left; reflexivity). destruct (g a); [reflexivity|].
  apply IH. intros x Hx. apply H. right. exact Hx.
Qed.

Lemma king_square_unfold : forall cs c, king_square cs c = find (is_piece cs c King) sq_list.
Proof. reflexivity. Qed.
Lemma king_sq_unfold : forall b c, king_sq b c = tz64 (bb_and (colors b c) (b_king b)).
Proof. reflexivity. Qed.

Lemma wf64_color_piece : forall b c p, Part b -> wf64 (bb_and (colors b c) (pieces b p)).
Proof. intros b c p P. apply wf64_land_l. exact (part_wf_colors b P c). Qed.

Theorem king_square_abs : forall b c, Part b -> bb_and (colors b c) (b_king b) <> 0 ->
  king_square (cells (abs b)) c = Some (king_sq b c).
Proof.
  intros b c P Hnz. rewrite king_square_unfold, king_sq_unfold.
  rewrite (find_ext_in _ _ (fun s => N.testbit (bb_and (colors b c) (b_king b)) s)).
  - rewrite find_hd_filter, <- elements_unfold. apply hd_elements; [|exact Hnz].
    exact (wf64_color_piece b c King P).
  - intros s Hs. apply sq_list_lt in Hs. rewrite (is_piece_abs b c King s P Hs).
    symmetry. apply (mem_and (colors b c) (b_king b) s).
Qed.

Theorem king_square_abs_none : forall b c, Part b -> bb_and (colors b c) (b_king b) = 0 ->
  king_square (cells (abs b)) c = None.
Proof.
  intros b c P Hz. rewrite king_square_unfold.
  destruct (find (is_piece (cells (abs b)) c King) sq_list) as [k|] eqn:E; [|reflexivity].
  apply find_some in E. destruct E as [Hin Hk]. apply sq_list_lt in Hin.
  rewrite (is_piece_abs b c King k P Hin) in Hk. cbn [pieces] in Hk.
  rewrite <- mem_and, Hz, mem_0 in Hk. discriminate.
Qed.

Lemma count_0 : count 0 = 0.
Proof. reflexivity. Qed.

Lemma king_sq_lt : forall b c, Part b -> bb_and (colors b c) (b_king b) <> 0 -> king_sq b c < 64.
Proof. intros b c P H. rewrite king_sq_unfold. apply tz64_lt; [exact (wf64_color_piece b c King P)|exact H]. Qed.

Lemma king_sq_mem : forall b c, bb_and (colors b c) (b_king b) <> 0 ->
  mem (colors b c) (king_sq b c) = true /\ mem (b_king b) (king_sq b c) = true.
Proof.
  intros b c H. rewrite king_sq_unfold. destruct (tz64_spec _ H) as [Hm _].
  rewrite mem_and in Hm. apply andb_prop in Hm. exact Hm.
Qed.

Lemma in_check_cells_unfold : forall cs c, in_check_cells cs c =
  match king_square cs c with Some k => attacked_by cs (opp c) k | None => false end.
Proof. reflexivity. Qed.

Lemma opp_opp : forall c, opp (opp c) = c.
Proof. destruct c; reflexivity. Qed.

(* "colour c is in check" on the abstraction = the attack test validate / is_legal_king_position use *)
Theorem in_check_cells_bridge : forall b c, Part b -> bb_and (colors b c) (b_king b) <> 0 ->
  in_check_cells (cells (abs b)) c = any (attackers_of b (opp c) (king_sq b c) (all_occ b)).
Proof.
  intros b c P Hnz. rewrite in_check_cells_unfold, (king_square_abs b c P Hnz).
  apply attacked_by_bridge; [exact P|exact (king_sq_lt b c P Hnz)].
Qed.

(* ------------------------------------------------------------------ *)
(* 7. the check flag computed by update_pin_info                        *)

Lemma before_unfold : forall b x r, before b (x :: r) =
  if x =? b then Some [] else match before b r with Some p => Some (x :: p) | None => None end.
Proof. reflexivity. Qed.

(* ray casting reaches s iff s is on the list and nothing strictly before it is occupied *)
Lemma slide_ray_before : forall occ l s,
  In s (slide_ray occ l) <-> exists p, before s l = Some p /\ forallb (fun u => negb (mem occ u)) p = true.
Proof.
  intros occ l s. induction l as [|x r IH].
  - cbn [slide_ray before]. split; [intros []|intros [p [H _]]; discriminate].
  - cbn [slide_ray]. rewrite before_unfold. change (N.testbit occ x) with (mem occ x). split.
    + intros [->|Hin].
      * rewrite N.eqb_refl. exists []. split; reflexivity.
      * destruct (N.eqb_spec x s) as [_|Hne]; [exists []; split; reflexivity|].
        destruct (mem occ x) eqn:Ex; [destruct Hin|].
        apply IH in Hin. destruct Hin as [p [Hb Hp]]. rewrite Hb.
        exists (x :: p). split; [reflexivity|]. cbn [forallb]. rewrite Ex. exact Hp.
    + intros [p [Hb Hp]]. destruct (N.eqb_spec x s) as [->|Hne]; [left; reflexivity|].
      right. destruct (before s r) as [p'|] eqn:Eb; [|discriminate].
      injection Hb as <-. cbn [forallb] in Hp. apply andb_prop in Hp. destruct Hp as [Hx Hp].
      apply negb_true_iff in Hx. rewrite Hx. apply IH. exists p'. split; [reflexivity|exact Hp].
Qed.

(* 64 x 8 x 7 sweep: for s on the ray from k in direction d, between_geo k s is exactly the set of
   squares strictly before s on that ray *)
Definition chk_between_ray (k : N) : bool :=
  forallb (fun d => forallb (fun s => match before s (ray d k) with
                                      | Some p => between_geo k s =? set_of p
                                      | None => false end) (ray d k)) all_dirs.
Lemma sweep_between_ray : all_sq chk_between_ray = true.
Proof. vm_compute. reflexivity. Qed.

Lemma between_ray : forall k d s, k < 64 -> In s (ray d k) ->
  exists p, before s (ray d k) = Some p /\ between_geo k s = set_of p.
Proof.
  intros k d s Hk Hin. pose proof (all_sq_spec _ sweep_between_ray k Hk) as H.
  unfold chk_between_ray in H. rewrite forallb_forall in H. specialize (H d (in_all_dirs d)).
  rewrite forallb_forall in H. specialize (H s Hin).
  destruct (before s (ray d k)) as [p|]; [|discriminate].
  exists p. split; [reflexivity|apply N.eqb_eq; exact H].
Qed.

Lemma rays_set_unfold : forall ds s, rays_set ds s = set_of (flat_map (fun d => ray d s) ds).
Proof. reflexivity. Qed.

Lemma mem_rays_set : forall ds k s, mem (rays_set ds k) s = true <-> exists d, In d ds /\ In s (ray d k).
Proof. intros ds k s. rewrite rays_set_unfold, mem_set_of_In, in_flat_map. reflexivity. Qed.

Lemma mem_slide_iff : forall ds k occ s,
  mem (slide ds k occ) s = true <-> exists d, In d ds /\ In s (slide_ray occ (ray d k)).
Proof. intros ds k occ s. rewrite slide_unfold, mem_set_of_In, in_flat_map. reflexivity. Qed.

Lemma slide_sub_rays : forall ds k occ s, mem (slide ds k occ) s = true -> mem (rays_set ds k) s = true.
Proof.
  intros ds k occ s H. apply mem_slide_iff in H. destruct H as [d [Hd H]].
  apply mem_rays_set. exists d. split; [exact Hd|exact (slide_ray_incl _ _ _ H)].
Qed.

Lemma existsb_forallb_neg : forall (A : Type) (f : A -> bool) l,
  forallb (fun u => negb (f u)) l = negb (existsb f l).
Proof.
  intros A f l. induction l as [|a l IH]; cbn [forallb existsb]; [reflexivity|].
  rewrite IH, negb_orb. reflexivity.
Qed.

(* on the rays of k: reached by ray casting  <->  nothing between k and s *)
Theorem slide_between : forall ds k occ s, k < 64 -> mem (rays_set ds k) s = true ->
  mem (slide ds k occ) s = none (bb_and occ (between_geo k s)).
Proof.
  intros ds k occ s Hk Hr. apply mem_rays_set in Hr. destruct Hr as [d [Hd Hin]].
  destruct (between_ray k d s Hk Hin) as [p [Hb ->]].
  assert (Hn : none (bb_and occ (set_of p)) = forallb (fun u => negb (mem occ u)) p).
  { rewrite existsb_forallb_neg, <- any_and_set_of. unfold any. rewrite negb_involutive. reflexivity. }
  rewrite Hn. apply eq_iff_eq_true. rewrite mem_slide_iff. split.
  - intros [d' [Hd' H]]. assert (d' = d) as -> by exact (rays_disjoint d' d k s Hk (slide_ray_incl _ _ _ H) Hin).
    apply slide_ray_before in H. destruct H as [p' [Hb' Hp']]. congruence.
  - intros Hp. exists d. split; [exact Hd|]. apply slide_ray_before. exists p. split; assumption.
Qed.

(* the checkers collected by the slider loop *)
Definition scan_step (occ k : N) (acc : N * N) (s : N) : N * N :=
  let '(pinned, checkers) := acc in
  let btw := bb_and occ (between_geo k s) in
  if none btw then (pinned, bb_with checkers s)
  else if count btw =? 1 then (bb_or pinned btw, checkers)
  else (pinned, checkers).

Lemma scan_sliders_unfold : forall occ k l, scan_sliders occ k l = fold_left (scan_step occ k) l (0, 0).
Proof. reflexivity. Qed.

Lemma scan_step_snd : forall occ k pi ch x,
  snd (scan_step occ k (pi, ch) x) = if none (bb_and occ (between_geo k x)) then bb_with ch x else ch.
Proof.
  intros occ k pi ch x. unfold scan_step. cbv beta iota zeta.
  destruct (none (bb_and occ (between_geo k x))); [reflexivity|].
  destruct (count (bb_and occ (between_geo k x)) =? 1); reflexivity.
Qed.

Lemma bb_with_unfold : forall a s, bb_with a s = bb_or a (from_pos s).
Proof. reflexivity. Qed.

Lemma scan_checkers_mem : forall occ k l acc s,
  mem (snd (fold_left (scan_step occ k) l acc)) s
  = mem (snd acc) s || existsb (fun x => (s <? 64) && (s =? x) && none (bb_and occ (between_geo k x))) l.
Proof.
  intros occ k l. induction l as [|x l IH]; intros acc s; cbn [fold_left existsb].
  - rewrite orb_false_r. reflexivity.
  - rewrite IH. destruct acc as [pi ch]. rewrite scan_step_snd. cbn [snd].
    destruct (none (bb_and occ (between_geo k x))).
    + rewrite bb_with_unfold, mem_or, mem_from_pos_full, andb_true_r, orb_assoc. reflexivity.
    + rewrite andb_false_r. reflexivity.
Qed.

Lemma scan_sliders_mem : forall occ k l s,
  mem (snd (scan_sliders occ k l)) s
  = existsb (fun x => (s <? 64) && (s =? x) && none (bb_and occ (between_geo k x))) l.
Proof.
  intros occ k l s. rewrite scan_sliders_unfold, scan_checkers_mem.
  change (snd (0, 0)) with 0. rewrite mem_0. apply orb_false_l.
Qed.

Lemma bishop_rays_geo_unfold : forall k, bishop_rays_geo k = rays_set bishop_dirs k.
Proof. reflexivity. Qed.
Lemma rook_rays_geo_unfold : forall k, rook_rays_geo k = rays_set rook_dirs k.
Proof. reflexivity. Qed.
Lemma bishop_attacks_unfold : forall k occ, bishop_attacks k occ = slide bishop_dirs k occ.
Proof. reflexivity. Qed.
Lemma rook_attacks_unfold : forall k occ, rook_attacks k occ = slide rook_dirs k occ.
Proof. reflexivity. Qed.
Lemma stm_abs : forall b, stm (abs b) = b_turn b.
Proof. reflexivity. Qed.

Lemma update_pin_info_checkers : forall b,
  b_checkers (update_pin_info b) =
  bb_or (bb_or (snd (scan_sliders (all_occ b) (king_sq b (b_turn b))
                       (elements (bb_and (colors b (opp (b_turn b)))
                          (bb_or (bb_and (bb_or (b_bishop b) (b_queen b)) (bishop_rays_geo (king_sq b (b_turn b))))
                                 (bb_and (bb_or (b_rook b) (b_queen b)) (rook_rays_geo (king_sq b (b_turn b)))))))))
               (bb_and (bb_and (knight_geo (king_sq b (b_turn b))) (b_knight b)) (colors b (opp (b_turn b)))))
        (bb_and (bb_and (pawn_att_geo (b_turn b) (king_sq b (b_turn b))) (b_pawn b)) (colors b (opp (b_turn b)))).
Proof.
  intros b. unfold update_pin_info.
  destruct (scan_sliders (all_occ b) (king_sq b (b_turn b)) _) as [p c]. reflexivity.
Qed.

Theorem slider_checkers : forall X Y cb k occ, k < 64 ->
  any (snd (scan_sliders occ k
         (elements (bb_and cb (bb_or (bb_and X (bishop_rays_geo k)) (bb_and Y (rook_rays_geo k)))))))
  = any (bb_and (bb_and X cb) (bishop_attacks k occ)) || any (bb_and (bb_and Y cb) (rook_attacks k occ)).
Proof.
  intros X Y cb k occ Hk. apply eq_iff_eq_true.
  rewrite bishop_rays_geo_unfold, rook_rays_geo_unfold, bishop_attacks_unfold, rook_attacks_unfold.
  rewrite orb_true_iff, !any_iff.
  split.
  - intros [s Hs]. rewrite scan_sliders_mem in Hs.
    apply existsb_exists in Hs. destruct Hs as [x [Hx Hs]].
    apply andb_prop in Hs. destruct Hs as [Hs Hn]. apply andb_prop in Hs. destruct Hs as [_ Hs].
    apply N.eqb_eq in Hs. subst x. apply elements_spec in Hx. destruct Hx as [_ Hm].
    rewrite mem_and, mem_or, !mem_and in Hm. apply andb_prop in Hm. destruct Hm as [Hc Hm].
    apply orb_prop in Hm. destruct Hm as [Hm|Hm]; apply andb_prop in Hm; destruct Hm as [Hp Hr].
    + left. exists s. rewrite !mem_and, Hp, Hc, (slide_between _ k occ s Hk Hr), Hn. reflexivity.
    + right. exists s. rewrite !mem_and, Hp, Hc, (slide_between _ k occ s Hk Hr), Hn. reflexivity.
  - intros H.
    assert (G : exists s, s < 64 /\ mem cb s = true /\ none (bb_and occ (between_geo k s)) = true
                /\ (mem X s && mem (rays_set bishop_dirs k) s || mem Y s && mem (rays_set rook_dirs k) s) = true).
    { destruct H as [[s Hs]|[s Hs]]; rewrite !mem_and in Hs; apply andb_prop in Hs; destruct Hs as [Hs Hsl];
        apply andb_prop in Hs; destruct Hs as [Hp Hc]; exists s;
        pose proof (slide_sub_rays _ _ _ _ Hsl) as Hr;
        (split; [apply mem_slide_iff in Hsl; destruct Hsl as [d [_ Hsl]]; apply slide_ray_incl in Hsl; exact (ray_lt _ _ _ Hsl)|]);
        (split; [exact Hc|]); (split; [rewrite <- (slide_between _ k occ s Hk Hr); exact Hsl|]);
        rewrite Hp, Hr; [reflexivity|apply orb_true_r]. }
    destruct G as [s [Hs [Hc [Hn Hm]]]]. exists s.
    rewrite scan_sliders_mem.
    apply existsb_exists. exists s. split.
    + apply elements_spec. split; [exact Hs|]. rewrite mem_and, mem_or, !mem_and, Hc, Hm. reflexivity.
    + apply N.ltb_lt in Hs. rewrite Hs, N.eqb_refl, Hn. reflexivity.
Qed.

Lemma board_in_check_unfold : forall b, Board.in_check b = any (b_checkers b).
Proof. reflexivity. Qed.
Lemma rules_in_check_unfold : forall p, Rules.in_check p = in_check_cells (cells p) (stm p).
Proof. reflexivity. Qed.

(* C03: the check flag of a freshly scanned board = the rules' notion of check, provided the side to
   move has a king and the enemy king does not stand next to it (validate guarantees both) *)
Theorem in_check_bridge : forall b, Part b ->
  bb_and (colors b (b_turn b)) (b_king b) <> 0 ->
  any (bb_and (bb_and (king_geo (king_sq b (b_turn b))) (b_king b)) (colors b (opp (b_turn b)))) = false ->
  Board.in_check (update_pin_info b) = Rules.in_check (abs b).
Proof.
  intros b P Hnz Hkk.
  rewrite rules_in_check_unfold, stm_abs.
  rewrite (in_check_cells_bridge b (b_turn b) P Hnz).
  rewrite board_in_check_unfold, update_pin_info_checkers, attackers_of_unfold, opp_opp, !any_or.
  rewrite (slider_checkers _ _ _ _ _ (king_sq_lt b (b_turn b) P Hnz)), Hkk.
  destruct (any (bb_and (bb_and (bb_or (b_bishop b) (b_queen b)) (colors b (opp (b_turn b))))
                        (bishop_attacks (king_sq b (b_turn b)) (all_occ b)))),
           (any (bb_and (bb_and (bb_or (b_rook b) (b_queen b)) (colors b (opp (b_turn b))))
                        (rook_attacks (king_sq b (b_turn b)) (all_occ b)))),
           (any (bb_and (bb_and (knight_geo (king_sq b (b_turn b))) (b_knight b)) (colors b (opp (b_turn b))))),
           (any (bb_and (bb_and (pawn_att_geo (b_turn b) (king_sq b (b_turn b))) (b_pawn b)) (colors b (opp (b_turn b)))));
    reflexivity.
Qed.

(* ------------------------------------------------------------------ *)
(* Part: pointwise introduction and preservation by the raw-board setters *)

Lemma Part_intro : forall b,
  (forall c, wf64 (colors b c)) -> (forall p, wf64 (pieces b p)) ->
  (forall t, mem (b_white b) t && mem (b_black b) t = false) ->
  (forall t p q, p <> q -> mem (pieces b p) t && mem (pieces b q) t = false) ->
  (forall t, mem (b_pawn b) t || mem (b_knight b) t || mem (b_bishop b) t || mem (b_rook b) t || mem (b_queen b) t
             || mem (b_king b) t = mem (all_occ b) t) ->
  Part b.
Proof.
  intros b Hc Hp Hcd Hpd Hu. constructor; try assumption.
  - apply N.bits_inj_0. intros t. change (mem (bb_and (b_white b) (b_black b)) t = false).
    rewrite mem_and. apply Hcd.
  - intros p q Hpq. apply N.bits_inj_0. intros t. change (mem (bb_and (pieces b p) (pieces b q)) t = false).
    rewrite mem_and. apply Hpd. exact Hpq.
  - apply N.bits_inj. intros t.
    change (mem (bb_or (bb_or (bb_or (bb_or (bb_or (b_pawn b) (b_knight b)) (b_bishop b)) (b_rook b)) (b_queen b)) (b_king b)) t
            = mem (all_occ b) t).
    rewrite !mem_or. apply Hu.
Qed.

Lemma Part_same : forall b b', (forall c, colors b' c = colors b c) -> (forall p, pieces b' p = pieces b p) ->
  Part b -> Part b'.
Proof.
  intros b b' Hc Hp P.
  assert (Ew : b_white b' = b_white b) by exact (Hc White). assert (Eb : b_black b' = b_black b) by exact (Hc Black).
  assert (Eo : all_occ b' = all_occ b) by (rewrite !all_occ_unfold, Ew, Eb; reflexivity).
  constructor.
  - intros c. rewrite Hc. exact (part_wf_colors b P c).
  - intros p. rewrite Hp. exact (part_wf_pieces b P p).
  - rewrite Ew, Eb. exact (part_colors_disj b P).
  - intros p q Hpq. rewrite !Hp. exact (part_pieces_disj b P p q Hpq).
  - rewrite Eo, <- (part_union b P).
    change (b_pawn b') with (pieces b' Pawn). change (b_knight b') with (pieces b' Knight).
    change (b_bishop b') with (pieces b' Bishop). change (b_rook b') with (pieces b' Rook).
    change (b_queen b') with (pieces b' Queen). change (b_king b') with (pieces b' King).
    rewrite !Hp. reflexivity.
Qed.

Lemma Part_set_zob : forall b z, Part b -> Part (set_zob b z).
Proof. intros b z. apply Part_same; intros []; reflexivity. Qed.
Lemma Part_set_meta : forall b t r e h f p c, Part b -> Part (set_meta b t r e h f p c).
Proof. intros b t r e h f p c. apply Part_same; intros []; reflexivity. Qed.
Lemma Part_set_pins : forall b p c, Part b -> Part (set_pins b p c).
Proof. intros b p c. apply Part_set_meta. Qed.

Lemma Part_empty_board : Part empty_board.
Proof.
  apply Part_intro.
  - intros []; exact wf64_0.
  - intros []; exact wf64_0.
  - intros t. change (mem 0 t && mem 0 t = false). rewrite mem_0. reflexivity.
  - intros t p q _. destruct p, q; change (mem 0 t && mem 0 t = false); rewrite mem_0; reflexivity.
  - intros t. change (mem 0 t || mem 0 t || mem 0 t || mem 0 t || mem 0 t || mem 0 t = mem (bb_or 0 0) t).
    rewrite mem_or, mem_0. reflexivity.
Qed.

Lemma colors_raw_set : forall b c p s c', colors (raw_set_unchecked b c p s) c' =
  if color_eqb c c' then bb_with (colors b c) s else colors b c'.
Proof. intros b c p s c'. destruct c, c'; reflexivity. Qed.

Lemma pieces_raw_set : forall b c p s q, pieces (raw_set_unchecked b c p s) q =
  if piece_eqb p q then bb_with (pieces b p) s else pieces b q.
Proof. intros b c p s q. destruct c, q; reflexivity. Qed.

Lemma mem_with_full : forall a s t, mem (bb_with a s) t = mem a t || ((t <? 64) && (t =? s)).
Proof. intros a s t. rewrite bb_with_unfold, mem_or, mem_from_pos_full. reflexivity. Qed.

(* putting a man on an empty square keeps the partition *)
Theorem Part_raw_set_unchecked : forall b c p s, Part b -> mem (all_occ b) s = false ->
  Part (raw_set_unchecked b c p s).
Proof.
  intros b c p s P Hfree.
  assert (Hnew : forall t, (t <? 64) && (t =? s) = true ->
            mem (b_white b) t = false /\ mem (b_black b) t = false /\ forall q, mem (pieces b q) t = false).
  { intros t Ht. apply andb_prop in Ht. destruct Ht as [_ Ht]. apply N.eqb_eq in Ht. subst t.
    pose proof Hfree as Hf. rewrite mem_all_occ in Hf. apply orb_false_elim in Hf. destruct Hf as [Hw Hb].
    split; [exact Hw|]. split; [exact Hb|].
    pose proof (part_union_mem b s P) as Hu. rewrite Hfree in Hu.
    repeat (apply orb_false_elim in Hu; let H := fresh "Hq" in destruct Hu as [Hu H]).
    intros []; cbn [pieces]; assumption. }
  assert (Hcol : forall c' t, mem (colors (raw_set_unchecked b c p s) c') t
                 = mem (colors b c') t || (color_eqb c c' && ((t <? 64) && (t =? s)))).
  { intros c' t. rewrite colors_raw_set. destruct (color_eqb c c') eqn:E.
    - apply color_eqb_eq in E. subst c'. rewrite mem_with_full. reflexivity.
    - rewrite orb_false_r. reflexivity. }
  assert (Hpc : forall q t, mem (pieces (raw_set_unchecked b c p s) q) t
                 = mem (pieces b q) t || (piece_eqb p q && ((t <? 64) && (t =? s)))).
  { intros q t. rewrite pieces_raw_set. destruct (piece_eqb p q) eqn:E.
    - apply piece_eqb_eq' in E. subst q. rewrite mem_with_full. reflexivity.
    - rewrite orb_false_r. reflexivity. }
  apply Part_intro.
  - intros c'. rewrite colors_raw_set. destruct (color_eqb c c').
    + apply wf64_with. exact (part_wf_colors b P c).
    + exact (part_wf_colors b P c').
  - intros q. rewrite pieces_raw_set. destruct (piece_eqb p q).
    + apply wf64_with. exact (part_wf_pieces b P p).
    + exact (part_wf_pieces b P q).
  - intros t. change (b_white (raw_set_unchecked b c p s)) with (colors (raw_set_unchecked b c p s) White).
    change (b_black (raw_set_unchecked b c p s)) with (colors (raw_set_unchecked b c p s) Black).
    rewrite !Hcol. cbn [colors].
    destruct ((t <? 64) && (t =? s)) eqn:E.
    + destruct (Hnew t E) as [-> [-> _]]. destruct c; reflexivity.
    + rewrite !andb_false_r, !orb_false_r. exact (part_colors_excl b t P).
  - intros t q1 q2 Hq. rewrite !Hpc.
    destruct ((t <? 64) && (t =? s)) eqn:E.
    + destruct (Hnew t E) as [_ [_ Hz]]. rewrite !Hz. cbn [orb]. rewrite !andb_true_r.
      destruct (piece_eqb p q1) eqn:E1; [|reflexivity]. destruct (piece_eqb p q2) eqn:E2; [|reflexivity].
      apply piece_eqb_eq' in E1, E2. congruence.
    + rewrite !andb_false_r, !orb_false_r. exact (part_pieces_excl b t q1 q2 P Hq).
  - intros t.
    change (b_pawn (raw_set_unchecked b c p s)) with (pieces (raw_set_unchecked b c p s) Pawn).
    change (b_knight (raw_set_unchecked b c p s)) with (pieces (raw_set_unchecked b c p s) Knight).
    change (b_bishop (raw_set_unchecked b c p s)) with (pieces (raw_set_unchecked b c p s) Bishop).
    change (b_rook (raw_set_unchecked b c p s)) with (pieces (raw_set_unchecked b c p s) Rook).
    change (b_queen (raw_set_unchecked b c p s)) with (pieces (raw_set_unchecked b c p s) Queen).
    change (b_king (raw_set_unchecked b c p s)) with (pieces (raw_set_unchecked b c p s) King).
    rewrite mem_all_occ.
    change (b_white (raw_set_unchecked b c p s)) with (colors (raw_set_unchecked b c p s) White).
    change (b_black (raw_set_unchecked b c p s)) with (colors (raw_set_unchecked b c p s) Black).
    rewrite !Hpc, !Hcol. cbn [colors pieces].
    destruct ((t <? 64) && (t =? s)) eqn:E.
    + destruct (Hnew t E) as [-> [-> Hz]].
      pose proof (Hz Pawn) as H0; pose proof (Hz Knight) as H1; pose proof (Hz Bishop) as H2;
        pose proof (Hz Rook) as H3; pose proof (Hz Queen) as H4; pose proof (Hz King) as H5.
      cbn [pieces] in H0, H1, H2, H3, H4, H5. rewrite H0, H1, H2, H3, H4, H5.
      destruct c, p; reflexivity.
    + rewrite !andb_false_r, !orb_false_r, <- mem_all_occ. exact (part_union_mem b t P).
Qed.

Lemma all_occ_raw_set : forall b c p s t,
  mem (all_occ (raw_set_unchecked b c p s)) t = mem (all_occ b) t || ((t <? 64) && (t =? s)).
Proof.
  intros b c p s t. rewrite !mem_all_occ.
  change (b_white (raw_set_unchecked b c p s)) with (colors (raw_set_unchecked b c p s) White).
  change (b_black (raw_set_unchecked b c p s)) with (colors (raw_set_unchecked b c p s) Black).
  rewrite !colors_raw_set. destruct c; cbn [color_eqb colors]; rewrite mem_with_full;
    destruct (mem (b_white b) t), (mem (b_black b) t), ((t <? 64) && (t =? s)); reflexivity.
Qed.

(* ------------------------------------------------------------------ *)
(* symmetry of the leaper / pawn attack relations (64 x 64 sweeps) *)
Definition chk_leaper_sym (a b : N) : bool :=
  Bool.eqb (mem (king_geo a) b) (mem (king_geo b) a) && Bool.eqb (mem (knight_geo a) b) (mem (knight_geo b) a)
  && Bool.eqb (mem (pawn_att_geo White a) b) (mem (pawn_att_geo Black b) a).
Lemma sweep_leaper_sym : all_sq2 chk_leaper_sym = true.
Proof. vm_compute. reflexivity. Qed.
Lemma king_geo_sym : forall a b, a < 64 -> b < 64 -> mem (king_geo a) b = mem (king_geo b) a.
Proof.
  intros a b Ha Hb. pose proof (all_sq2_spec _ sweep_leaper_sym a b Ha Hb) as H.
  unfold chk_leaper_sym in H. apply andb_prop in H. destruct H as [H _]. apply andb_prop in H. destruct H as [H _].
  apply eqb_prop. exact H.
Qed.
Lemma knight_geo_sym : forall a b, a < 64 -> b < 64 -> mem (knight_geo a) b = mem (knight_geo b) a.
Proof.
  intros a b Ha Hb. pose proof (all_sq2_spec _ sweep_leaper_sym a b Ha Hb) as H.
  unfold chk_leaper_sym in H. apply andb_prop in H. destruct H as [H _]. apply andb_prop in H. destruct H as [_ H].
  apply eqb_prop. exact H.
Qed.
(* t is attacked by a c-pawn standing on s  <->  s is where a pawn of the other colour on t would capture *)
Lemma pawn_att_geo_sym : forall c a b, a < 64 -> b < 64 -> mem (pawn_att_geo c a) b = mem (pawn_att_geo (opp c) b) a.
Proof.
  intros c a b Ha Hb. destruct c; cbn [opp].
  - pose proof (all_sq2_spec _ sweep_leaper_sym a b Ha Hb) as H.
    unfold chk_leaper_sym in H. apply andb_prop in H. destruct H as [_ H]. apply eqb_prop. exact H.
  - pose proof (all_sq2_spec _ sweep_leaper_sym b a Hb Ha) as H.
    unfold chk_leaper_sym in H. apply andb_prop in H. destruct H as [_ H]. apply eqb_prop in H. symmetry. exact H.
Qed.
(* the squares from which a c-pawn attacks s (as attacked_by enumerates them) *)
Lemma pawn_attackers_offs : forall c s t, s < 64 -> t < 64 ->
  existsb (N.eqb t) (offs s [(-1, - fwd c); (1, - fwd c)]%Z) = mem (pawn_att_geo c t) s.
Proof.
  intros c s t Hs Ht. rewrite <- mem_set_of, <- pawn_att_geo_opp, (pawn_att_geo_sym (opp c) s t Hs Ht), opp_opp.
  reflexivity.
Qed.

Print Assumptions abs_cell.
Print Assumptions raw_get_spec.
Print Assumptions is_piece_abs.
Print Assumptions first_occupied_slide_ray.
Print Assumptions slider_bridge.
Print Assumptions rays_disjoint.
Print Assumptions attacked_by_bridge.
Print Assumptions king_square_abs.
Print Assumptions in_check_cells_bridge.
Print Assumptions slide_between.
Print Assumptions in_check_bridge.
Print Assumptions Part_raw_set_unchecked.
Print Assumptions pawn_attackers_offs.
