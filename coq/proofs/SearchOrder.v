(* Facts about scores the search relies on (C11-C13). *)
From Coq Require Import NArith ZArith List Bool Lia.
From Chess Require Import base.Types model.Score proofs.ScoreOrder model.Search.
Local Open Scope N_scope.

(* a mate in one for the mover is the best non-sentinel score (mate distances start at 1) *)
Definition realistic (s : score) : Prop :=
  match s with SMin | SMax => False | SBlackMateIn n | SWhiteMateIn n => 1 <= n | SRaw _ => True end.

Lemma white_mate1_best : forall s, realistic s -> cmp s (SWhiteMateIn 1) <> Gt.
Proof.
  intros s H. destruct s as [| n | z | n |].
  - exact (False_ind _ H).
  - vm_compute. discriminate.
  - vm_compute. discriminate.
  - change (cmp (SWhiteMateIn n) (SWhiteMateIn 1)) with (1 ?= n). intros E.
    rewrite N.compare_gt_iff in E. change (1 <= n) in H. lia.
  - exact (False_ind _ H).
Qed.
Lemma black_mate1_best : forall s, realistic s -> cmp s (SBlackMateIn 1) <> Lt.
Proof.
  intros s H. destruct s as [| n | z | n |].
  - exact (False_ind _ H).
  - change (cmp (SBlackMateIn n) (SBlackMateIn 1)) with (n ?= 1). intros E.
    rewrite N.compare_lt_iff in E. change (1 <= n) in H. lia.
  - vm_compute. discriminate.
  - vm_compute. discriminate.
  - exact (False_ind _ H).
Qed.
(* once the mover holds a mate-in-one score no later child replaces it (is_better is strict) *)
Lemma mate1_kept : forall c s, realistic s ->
  is_better c (match c with White => SWhiteMateIn 1 | Black => SBlackMateIn 1 end) s = false.
Proof.
  intros [] s H; unfold is_better, ltb, gtb.
  - pose proof (white_mate1_best s H) as E. rewrite cmp_antisym. destruct (cmp s (SWhiteMateIn 1)); cbn; congruence.
  - pose proof (black_mate1_best s H) as E. rewrite cmp_antisym. destruct (cmp s (SBlackMateIn 1)); cbn; congruence.
Qed.
(* the first realistic child strictly improves on the sentinel start value *)
Lemma first_child_improves : forall c s, realistic s -> is_better c (worst c) s = true.
Proof. intros [] [| n | z | n |] H; try (exact (False_ind _ H)); reflexivity. Qed.
Lemma mate_score_realistic : forall c d, 1 <= d -> realistic (mate_score c d).
Proof. intros [] d H; exact H. Qed.
