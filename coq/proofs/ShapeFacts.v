(* C01, component (S): the mailbox pseudo-moves of the rules (castling aside) are exactly the bitboard
   pseudo-destinations of the generator model, with the right promotion field.

     pseudo_shape : pseudo_shape_statement
       forall b m, Good b ->
         (In m (noncastle_pseudo (Board.abs b)) <->
          exists pc, m_src m < 64 /\ m_dst m < 64 /\ raw_get b (m_src m) = Some (b_turn b, pc)
                     /\ pkind b pc (m_src m) (m_dst m) /\ promo_ok b pc (m_src m) (m_promo m)).

   Only `Part b` and `ep_ok b` of `Good b` are used (pseudo_shape_inv).  Per piece kind:
     slide_targets_iff   sliding along one ray: rules targets = slide_ray targets that are not own men
     leaper_targets_iff  knight / king offsets
     pawn_sound / pawn_complete   pushes, captures, en passant, promotions
   Axiom-free. *)
From Coq Require Import NArith ZArith List Bool Lia ZifyBool ZifyN.
From Chess Require Import base.Bits base.Types base.BitBoard base.Sweep geom.Geometry model.Board model.MoveGen model.Apply.
From Chess Require Import proofs.BitsFacts proofs.BitBoardFacts.
From Chess Require proofs.BridgeFacts.
From Chess Require Import spec.Rules.
From Chess Require Import proofs.HashFacts proofs.InvFacts proofs.LegalDefs.
Import ListNotations.
Local Open Scope N_scope.

(* ------------------------------------------------------------------ *)
(** * Small things *)

Lemma Part_bridge : forall b, Part b -> BridgeFacts.Part b.
Proof.
  intros b P. constructor.
  - apply (part_wf_colors b P).
  - apply (part_wf_pieces b P).
  - apply (part_colors_disjoint b P).
  - apply (part_pieces_disjoint b P).
  - exact (part_cover b P).
Qed.

Lemma move_eta : forall m, m = {| m_src := m_src m; m_dst := m_dst m; m_promo := m_promo m |}.
Proof. intros []; reflexivity. Qed.

Lemma color_eqb_sym : forall a c, color_eqb a c = color_eqb c a.
Proof. intros [] []; reflexivity. Qed.

Lemma color_eqb_opp : forall c c', color_eqb (opp c) c' = negb (color_eqb c c').
Proof. intros [] []; reflexivity. Qed.

(* what one cell of the abstraction says about the colour sets *)
Lemma cell_colors : forall b t, Part b -> t < 64 ->
  match raw_get b t with
  | None => mem (all_occ b) t = false /\ forall c, mem (colors b c) t = false
  | Some (c', _) => mem (all_occ b) t = true /\ forall c, mem (colors b c) t = color_eqb c c'
  end.
Proof.
  intros b t P Ht. pose proof (Part_bridge b P) as PB.
  pose proof (BridgeFacts.occupied_abs b t Ht) as Ho.
  assert (Hc : forall c, has_color (cells (abs b)) c t = mem (colors b c) t)
    by (intros c; apply BridgeFacts.has_color_abs; assumption).
  rewrite BridgeFacts.occupied_unfold, BridgeFacts.abs_cell in Ho by exact Ht.
  destruct (raw_get b t) as [[c' p']|] eqn:E.
  - split; [symmetry; exact Ho|]. intros c. rewrite <- Hc, BridgeFacts.has_color_unfold, BridgeFacts.abs_cell, E by exact Ht.
    reflexivity.
  - split; [symmetry; exact Ho|]. intros c. rewrite <- Hc, BridgeFacts.has_color_unfold, BridgeFacts.abs_cell, E by exact Ht.
    reflexivity.
Qed.

Lemma occ_split : forall b c t, mem (all_occ b) t = mem (colors b c) t || mem (colors b (opp c)) t.
Proof. intros b c t. rewrite BridgeFacts.mem_all_occ. destruct c; cbn [colors opp]; [reflexivity|apply orb_comm]. Qed.

Lemma colors_excl : forall b c t, Part b -> mem (colors b c) t && mem (colors b (opp c)) t = false.
Proof.
  intros b c t P. pose proof (BridgeFacts.part_colors_excl b t (Part_bridge b P)) as H.
  destruct c; cbn [colors opp]; [exact H|rewrite andb_comm; exact H].
Qed.

Lemma own_occ : forall b c t, mem (colors b c) t = true -> mem (all_occ b) t = true.
Proof. intros b c t H. rewrite (occ_split b c), H. reflexivity. Qed.

Lemma enemy_iff : forall b c t, Part b ->
  (mem (colors b (opp c)) t = true <-> mem (all_occ b) t = true /\ mem (colors b c) t = false).
Proof.
  intros b c t P. pose proof (colors_excl b c t P) as X. rewrite (occ_split b c).
  destruct (mem (colors b c) t), (mem (colors b (opp c)) t); cbn [andb orb] in *; split; intros H;
    try discriminate; try (destruct H; discriminate); auto.
Qed.

Lemma mem_not_own : forall b t, mem (bb_not (own b)) t = true <-> t < 64 /\ mem (colors b (b_turn b)) t = false.
Proof.
  intros b t. unfold own. rewrite mem_not_full, andb_true_iff, N.ltb_lt, negb_true_iff. reflexivity.
Qed.

(* ------------------------------------------------------------------ *)
(** * Promotion field *)

Lemma promo_ok_other : forall b pc s pr, pc <> Pawn -> (promo_ok b pc s pr <-> pr = None).
Proof.
  intros b pc s pr N. unfold promo_ok. rewrite (piece_eqb_Pawn_false pc N). cbn [andb]. reflexivity.
Qed.

Definition promo_field (flag : bool) (pr : option piece) : Prop :=
  if flag then exists p, In p promo_pieces /\ pr = Some p else pr = None.

Lemma promo_ok_pawn : forall b s pr,
  promo_ok b Pawn s pr <-> promo_field (rank_of s =? seventh_rank (b_turn b)) pr.
Proof. intros b s pr. reflexivity. Qed.

Lemma with_promos_iff : forall c s d m,
  In m (with_promos c s d) <-> m_src m = s /\ m_dst m = d /\ promo_field (rank_of d =? last_rank c) (m_promo m).
Proof.
  intros c s d m. unfold with_promos, promo_field. destruct (rank_of d =? last_rank c).
  - rewrite in_map_iff. split.
    + intros [p [<- Hp]]. cbn [mk m_src m_dst m_promo]. repeat split. exists p. split; [exact Hp|reflexivity].
    + intros (A & B & p & Hp & C). exists p. split; [|exact Hp]. rewrite (move_eta m), A, B, C. reflexivity.
  - split.
    + intros [<-|[]]. cbn [mk m_src m_dst m_promo]. repeat split.
    + intros (A & B & C). left. rewrite (move_eta m), A, B, C. reflexivity.
Qed.

(* ------------------------------------------------------------------ *)
(** * Sliders *)

Lemma slide_targets_iff : forall b c l t, Part b -> (forall u, In u l -> u < 64) ->
  (In t (slide_targets (cells (abs b)) c l) <-> In t (slide_ray (all_occ b) l) /\ mem (colors b c) t = false).
Proof.
  intros b c l t P. induction l as [|x l IH]; intros Hl.
  - cbn [slide_targets slide_ray In]. tauto.
  - assert (Hx : x < 64) by (apply Hl; left; reflexivity).
    assert (Hl' : forall u, In u l -> u < 64) by (intros u Hu; apply Hl; right; exact Hu).
    specialize (IH Hl'). cbn [slide_targets slide_ray].
    rewrite (BridgeFacts.abs_cell b x Hx). pose proof (cell_colors b x P Hx) as K.
    change (N.testbit (all_occ b) x) with (mem (all_occ b) x).
    destruct (raw_get b x) as [[c' p']|].
    + destruct K as [Ko Kc]. rewrite Ko. specialize (Kc c). destruct (color_eqb c c').
      * cbn [In]. split; [tauto|]. intros [[<-|[]] H]. congruence.
      * cbn [In]. split; [intros [<-|[]]; auto|tauto].
    + destruct K as [Ko Kc]. rewrite Ko. cbn [In]. rewrite IH. specialize (Kc c). split.
      * intros [<-|[A B]]; auto.
      * intros [[<-|A] B]; auto.
Qed.

Lemma slider_targets_iff : forall b ds s t, Part b ->
  (In t (flat_map (fun d => slide_targets (cells (abs b)) (b_turn b) (ray d s)) ds)
   <-> mem (bb_and (slide ds s (all_occ b)) (bb_not (own b))) t = true).
Proof.
  intros b ds s t P. rewrite mem_and, andb_true_iff, BridgeFacts.mem_slide_iff, mem_not_own, in_flat_map. split.
  - intros [d [Hd H]]. apply (slide_targets_iff b _ _ t P (fun u => BridgeFacts.ray_lt d s u)) in H.
    destruct H as [A B]. split; [exists d; auto|]. split; [|exact B].
    apply (BridgeFacts.ray_lt d s), (BridgeFacts.slide_ray_incl _ _ _ A).
  - intros [[d [Hd A]] [_ B]]. exists d. split; [exact Hd|].
    apply (slide_targets_iff b _ _ t P (fun u => BridgeFacts.ray_lt d s u)). auto.
Qed.

(* ------------------------------------------------------------------ *)
(** * Knight and king *)

Lemma leaper_targets_iff : forall b s l t, Part b ->
  (In t (filter (fun t => negb (has_color (cells (abs b)) (b_turn b) t)) (offs s l))
   <-> mem (bb_and (offsets_set s l) (bb_not (own b))) t = true).
Proof.
  intros b s l t P. rewrite filter_In, mem_and, andb_true_iff, mem_not_own, BridgeFacts.mem_offsets_set,
    BridgeFacts.existsb_eqb_In, negb_true_iff. split.
  - intros [A B]. pose proof (BridgeFacts.offs_lt _ _ _ A) as Ht.
    rewrite (BridgeFacts.has_color_abs b _ t (Part_bridge b P) Ht) in B. auto.
  - intros [A [Ht B]]. rewrite (BridgeFacts.has_color_abs b _ t (Part_bridge b P) Ht). auto.
Qed.

(* moves `mk s t None` over a target list *)
Lemma in_map_mk : forall s (L : list N) m,
  In m (map (fun t => mk s t None) L) <-> m_src m = s /\ m_promo m = None /\ In (m_dst m) L.
Proof.
  intros s L m. rewrite in_map_iff. split.
  - intros [t [<- Ht]]. cbn [mk m_src m_dst m_promo]. auto.
  - intros (A & B & C). exists (m_dst m). split; [|exact C]. rewrite (move_eta m), A, B. reflexivity.
Qed.

(* ------------------------------------------------------------------ *)
(** * Pawns: geometry sweeps *)

Definition pawn_caps (c : color) : list (Z * Z) := [(-1, fwd c); (1, fwd c)]%Z.

(* a single step or a capture reaches the last rank exactly from the seventh *)
Definition chk_promo_rank (c : color) (s : N) : bool :=
  forallb (fun t => Bool.eqb (rank_of t =? last_rank c) (rank_of s =? seventh_rank c))
          (offs s [(0, fwd c); (-1, fwd c); (1, fwd c)]%Z).
Lemma sweep_promo_rank : all_sq (chk_promo_rank White) && all_sq (chk_promo_rank Black) = true.
Proof. vm_compute. reflexivity. Qed.

Lemma promo_rank : forall c s t, s < 64 -> In t (offs s [(0, fwd c); (-1, fwd c); (1, fwd c)]%Z) ->
  (rank_of t =? last_rank c) = (rank_of s =? seventh_rank c).
Proof.
  intros c s t Hs H. pose proof sweep_promo_rank as W. apply andb_true_iff in W. destruct W as [W1 W2].
  assert (K : chk_promo_rank c s = true) by (destruct c; [exact (all_sq_spec _ W1 s Hs)|exact (all_sq_spec _ W2 s Hs)]).
  unfold chk_promo_rank in K. rewrite forallb_forall in K. apply Bool.eqb_prop, K, H.
Qed.

Lemma promo_rank_push : forall c s t, s < 64 -> sq_off s 0 (fwd c) = Some t ->
  (rank_of t =? last_rank c) = (rank_of s =? seventh_rank c).
Proof.
  intros c s t Hs E. apply promo_rank; [exact Hs|]. unfold offs. cbn [flat_map fst snd]. rewrite E. left. reflexivity.
Qed.

Lemma promo_rank_cap : forall c s t, s < 64 -> In t (offs s (pawn_caps c)) ->
  (rank_of t =? last_rank c) = (rank_of s =? seventh_rank c).
Proof.
  intros c s t Hs H. apply promo_rank; [exact Hs|]. unfold offs, pawn_caps in *. cbn [flat_map fst snd] in *.
  apply in_or_app. right. exact H.
Qed.

(* the en-passant source mask: the pawns that attack the capture square; they stand on the fifth rank *)
Definition ep_mask (c : color) (f : N) : N := bb_and (from_rank (ep_pawn_rank_of c)) (adjacent_files f).
Definition chk_ep_mask (c : color) (f : N) : bool :=
  forallb (fun s => Bool.eqb (mem (ep_mask c f) s)
                             (existsb (N.eqb (mk_sq f (ep_capture_rank_of c))) (offs s (pawn_caps c)))
                    && implb (mem (ep_mask c f) s) (rank_of s =? ep_pawn_rank_of c)) sq_list.
Lemma sweep_ep_mask : all_below 8 (chk_ep_mask White) && all_below 8 (chk_ep_mask Black) = true.
Proof. vm_compute. reflexivity. Qed.

Lemma ep_src_geo : forall c f s, f < 8 -> s < 64 ->
  (mem (ep_mask c f) s = true <-> In (mk_sq f (ep_capture_rank_of c)) (offs s (pawn_caps c)))
  /\ (mem (ep_mask c f) s = true -> rank_of s = ep_pawn_rank_of c).
Proof.
  intros c f s Hf Hs. pose proof sweep_ep_mask as W. apply andb_true_iff in W. destruct W as [W1 W2].
  assert (K : chk_ep_mask c f = true)
    by (destruct c; [exact (all_below_spec 8 _ W1 f Hf)|exact (all_below_spec 8 _ W2 f Hf)]).
  unfold chk_ep_mask in K. rewrite forallb_forall in K. specialize (K s (in_sq_list s Hs)).
  apply andb_true_iff in K. destruct K as [K1 K2]. apply Bool.eqb_prop in K1. split.
  - rewrite K1. apply BridgeFacts.existsb_eqb_In.
  - intros H. rewrite H in K2. cbn [implb] in K2. apply N.eqb_eq, K2.
Qed.

Lemma seventh_not_start : forall c r, r = start_rank c -> (r =? seventh_rank c) = false.
Proof. intros [] r ->; reflexivity. Qed.
Lemma seventh_not_ep : forall c r, r = ep_pawn_rank_of c -> (r =? seventh_rank c) = false.
Proof. intros [] r ->; reflexivity. Qed.

Lemma sq_decompose : forall t f r, file_of t = f -> rank_of t = r -> t = mk_sq f r.
Proof.
  intros t f r <- <-. unfold mk_sq, file_of, rank_of. rewrite (N.div_mod t 8) at 1 by discriminate. lia.
Qed.

(* ------------------------------------------------------------------ *)
(** * Pawns: the quiet set *)

Lemma pawn_quiet_iff : forall c s occ d,
  mem (pawn_quiets_spec c s occ) d = true <->
  exists t1, sq_off s 0 (fwd c) = Some t1 /\ mem occ t1 = false /\ mem occ d = false /\
             (d = t1 \/ (rank_of s = start_rank c /\ sq_off s 0 (2 * fwd c) = Some d)).
Proof.
  intros c s occ d. unfold pawn_quiets_spec.
  destruct (sq_off s 0 (fwd c)) as [t1|] eqn:E1.
  2:{ rewrite mem_0. split; [discriminate|]. intros (t1 & H & _). discriminate H. }
  change (N.testbit occ t1) with (mem occ t1). destruct (mem occ t1) eqn:O1.
  { rewrite mem_0. split; [discriminate|]. intros (t & H & H' & _). injection H as <-. congruence. }
  rewrite mem_ldiff, andb_true_iff, negb_true_iff. unfold pawn_push_geo.
  rewrite BridgeFacts.mem_offsets_set, BridgeFacts.existsb_eqb_In.
  unfold offs. rewrite flat_map_app, in_app_iff. cbn [flat_map fst snd]. rewrite E1. cbn [opt_list app In].
  split.
  - intros [[[A|[]]|A] B].
    + exists t1. repeat split; auto.
    + exists t1. repeat split; auto. right.
      destruct (N.eqb_spec (rank_of s) (start_rank c)) as [Er|Er]; [|destruct A].
      cbn [flat_map fst snd] in A. rewrite app_nil_r in A.
      destruct (sq_off s 0 (2 * fwd c)) as [t2|]; [|destruct A]. destruct A as [<-|[]]. auto.
  - intros (t & H & _ & B & A). injection H as <-. split; [|exact B].
    destruct A as [->|[Er E2]]; [left; left; reflexivity|right].
    rewrite Er, N.eqb_refl. cbn [flat_map fst snd]. rewrite E2. left. reflexivity.
Qed.

Lemma pawn_attack_iff : forall c s occ d,
  mem (pawn_attacks_spec c s occ) d = true <-> In d (offs s (pawn_caps c)) /\ mem occ d = true.
Proof.
  intros c s occ d. unfold pawn_attacks_spec, pawn_att_geo.
  rewrite mem_land, andb_true_iff, BridgeFacts.mem_offsets_set, BridgeFacts.existsb_eqb_In. reflexivity.
Qed.

Lemma pawn_step_iff : forall b s d, Part b ->
  (mem (pseudo_legals Pawn s (b_turn b) (all_occ b) (bb_not (own b))) d = true <->
   d < 64 /\
   ((exists t1, sq_off s 0 (fwd (b_turn b)) = Some t1 /\ mem (all_occ b) t1 = false /\ mem (all_occ b) d = false /\
                (d = t1 \/ (rank_of s = start_rank (b_turn b) /\ sq_off s 0 (2 * fwd (b_turn b)) = Some d)))
    \/ (In d (offs s (pawn_caps (b_turn b))) /\ mem (colors b (opp (b_turn b))) d = true))).
Proof.
  intros b s d P. unfold pseudo_legals, pawn_moves_spec.
  rewrite mem_and, andb_true_iff, mem_lor, orb_true_iff, pawn_quiet_iff, pawn_attack_iff, mem_not_own.
  rewrite (enemy_iff b (b_turn b) d P). split.
  - intros [[A|[A1 A2]] [Hd B]]; (split; [exact Hd|]); [left; exact A|right; auto].
  - intros [Hd [A|[A1 [A2 A3]]]].
    + split; [left; exact A|]. split; [exact Hd|].
      destruct A as (t1 & _ & _ & Od & _). destruct (mem (colors b (b_turn b)) d) eqn:E; [|reflexivity].
      rewrite (own_occ b _ d E) in Od. discriminate Od.
    + split; [right; auto|auto].
Qed.

(* ------------------------------------------------------------------ *)
(** * Pawns: rules moves = bitboard destinations *)

Section Pawn.
  Variable b : board.
  Hypothesis P : Part b.
  Hypothesis EP : ep_ok b.
  Let c := b_turn b.

  Lemma occ_abs : forall t, t < 64 -> occupied (cells (abs b)) t = mem (all_occ b) t.
  Proof. intros t Ht. apply BridgeFacts.occupied_abs, Ht. Qed.
  Lemma hc_abs : forall c' t, t < 64 -> has_color (cells (abs b)) c' t = mem (colors b c') t.
  Proof. intros c' t Ht. apply BridgeFacts.has_color_abs; [apply Part_bridge, P|exact Ht]. Qed.

  (* the en-passant test of the rules, on a board with a sound marker *)
  Lemma is_ep_target_iff : forall t, t < 64 ->
    (is_ep_target (abs b) c t = true <-> exists f, b_ep b = Some f /\ t = mk_sq f (ep_capture_rank_of c)).
  Proof.
    intros t Ht. unfold is_ep_target. change (epf (abs b)) with (b_ep b).
    destruct (b_ep b) as [f|] eqn:Ef.
    2:{ split; [discriminate|]. intros (f & H & _). discriminate H. }
    destruct (EP f Ef) as (Hf & E1 & E2). fold c in E1, E2.
    assert (Hcap : mk_sq f (ep_capture_rank_of c) < 64) by (unfold mk_sq, ep_capture_rank_of; destruct c; lia).
    assert (Hvic : mk_sq f (ep_pawn_rank_of c) < 64) by (unfold mk_sq, ep_pawn_rank_of; destruct c; lia).
    rewrite !andb_true_iff, !N.eqb_eq, negb_true_iff. split.
    - intros [[[A B] _] _]. exists f. split; [reflexivity|]. apply sq_decompose; assumption.
    - intros (f' & H & ->). injection H as <-. repeat split.
      + apply file_of_mk_sq, Hf.
      + apply rank_of_mk_sq, Hf.
      + rewrite BridgeFacts.occupied_unfold, BridgeFacts.abs_cell, E1 by exact Hcap. reflexivity.
      + change (ep_pawn_rank c) with (ep_pawn_rank_of c).
        rewrite BridgeFacts.is_piece_unfold, BridgeFacts.abs_cell, E2 by exact Hvic.
        rewrite BridgeFacts.color_eqb_refl. reflexivity.
  Qed.

  Lemma ep_square_empty : forall f, b_ep b = Some f ->
    mk_sq f (ep_capture_rank_of c) < 64 /\ mem (all_occ b) (mk_sq f (ep_capture_rank_of c)) = false.
  Proof.
    intros f Ef. destruct (EP f Ef) as (Hf & E1 & _). fold c in E1.
    assert (Hcap : mk_sq f (ep_capture_rank_of c) < 64) by (unfold mk_sq, ep_capture_rank_of; destruct c; lia).
    split; [exact Hcap|]. apply (raw_get_spec b P _ Hcap), E1.
  Qed.

  Lemma pawn_sound : forall s m, s < 64 -> In m (pawn_moves_from (abs b) s) ->
    m_src m = s /\ m_dst m < 64 /\ pkind b Pawn s (m_dst m) /\ promo_ok b Pawn s (m_promo m).
  Proof.
    intros s m Hs H. unfold pawn_moves_from in H. cbv zeta in H. change (stm (abs b)) with c in H.
    apply in_app_or in H. destruct H as [H|H].
    - (* pushes *)
      destruct (sq_off s 0 (fwd c)) as [t1|] eqn:E1; [|contradiction].
      pose proof (BridgeFacts.sq_off_lt _ _ _ _ E1) as Ht1.
      rewrite (occ_abs t1 Ht1) in H. destruct (mem (all_occ b) t1) eqn:O1; [contradiction|].
      apply in_app_or in H. destruct H as [H|H].
      + apply with_promos_iff in H. destruct H as (A1 & A2 & A3).
        rewrite (promo_rank_push c s t1 Hs E1) in A3. rewrite A2.
        split; [exact A1|]. split; [exact Ht1|]. split; [|apply promo_ok_pawn; exact A3].
        apply PK_step. apply (pawn_step_iff b s t1 P). split; [exact Ht1|]. left. exists t1. fold c. auto.
      + destruct (N.eqb_spec (rank_of s) (start_rank c)) as [Er|_]; [|contradiction].
        destruct (sq_off s 0 (2 * fwd c)) as [t2|] eqn:E2; [|contradiction].
        pose proof (BridgeFacts.sq_off_lt _ _ _ _ E2) as Ht2.
        rewrite (occ_abs t2 Ht2) in H. destruct (mem (all_occ b) t2) eqn:O2; [contradiction|].
        destruct H as [<-|[]]. cbn [mk m_src m_dst m_promo].
        split; [reflexivity|]. split; [exact Ht2|]. split.
        * apply PK_step. apply (pawn_step_iff b s t2 P). split; [exact Ht2|]. left. exists t1. fold c. repeat split; auto.
        * apply promo_ok_pawn. fold c. rewrite (seventh_not_start c _ Er). reflexivity.
    - (* captures *)
      apply in_flat_map in H. destruct H as [t [Hin H]]. fold (pawn_caps c) in Hin.
      pose proof (BridgeFacts.offs_lt _ _ _ Hin) as Ht.
      rewrite (hc_abs (opp c) t Ht) in H. destruct (mem (colors b (opp c)) t) eqn:Hc.
      + apply with_promos_iff in H. destruct H as (A1 & A2 & A3).
        rewrite (promo_rank_cap c s t Hs Hin) in A3. rewrite A2.
        split; [exact A1|]. split; [exact Ht|]. split; [|apply promo_ok_pawn; exact A3].
        apply PK_step. apply (pawn_step_iff b s t P). split; [exact Ht|]. right. fold c. auto.
      + destruct (is_ep_target (abs b) c t) eqn:Hep; [|contradiction].
        destruct H as [<-|[]]. cbn [mk m_src m_dst m_promo].
        apply (is_ep_target_iff t Ht) in Hep. destruct Hep as (f & Ef & Et).
        destruct (EP f Ef) as (Hf & _ & _). destruct (ep_src_geo c f s Hf Hs) as [G1 G2].
        assert (Hm : mem (ep_mask c f) s = true) by (apply G1; rewrite <- Et; exact Hin).
        split; [reflexivity|]. split; [exact Ht|]. split.
        * apply (PK_ep b Pawn s t f); [reflexivity|exact Ef|exact Et|exact Hm].
        * apply promo_ok_pawn. fold c. rewrite (seventh_not_ep c _ (G2 Hm)). reflexivity.
  Qed.

  Lemma pawn_complete : forall s d pr, s < 64 -> d < 64 -> pkind b Pawn s d -> promo_ok b Pawn s pr ->
    In {| m_src := s; m_dst := d; m_promo := pr |} (pawn_moves_from (abs b) s).
  Proof.
    intros s d pr Hs Hd K Hpr. change (promo_field (rank_of s =? seventh_rank c) pr) in Hpr.
    unfold pawn_moves_from. cbv zeta. change (stm (abs b)) with c. apply in_or_app.
    destruct K as [K|f _ Ef Ed Hm].
    - apply (pawn_step_iff b s d P) in K. fold c in K. destruct K as [_ [K|K]].
      + left. destruct K as (t1 & E1 & O1 & Od & K). rewrite E1.
        pose proof (BridgeFacts.sq_off_lt _ _ _ _ E1) as Ht1. rewrite (occ_abs t1 Ht1), O1.
        apply in_or_app. destruct K as [->|[Er E2]].
        * left. apply with_promos_iff. cbn [m_src m_dst m_promo]. rewrite (promo_rank_push c s t1 Hs E1). auto.
        * right. rewrite Er, N.eqb_refl, E2, (occ_abs d Hd), Od.
          rewrite (seventh_not_start c _ Er) in Hpr. cbn [promo_field] in Hpr. rewrite Hpr. left. reflexivity.
      + right. destruct K as [Hin Hc]. apply in_flat_map. exists d. split; [exact Hin|].
        rewrite (hc_abs (opp c) d Hd), Hc. apply with_promos_iff. cbn [m_src m_dst m_promo].
        rewrite (promo_rank_cap c s d Hs Hin). auto.
    - right. fold c in Ed, Hm. destruct (EP f Ef) as (Hf & _ & _). destruct (ep_src_geo c f s Hf Hs) as [G1 G2].
      change (mem (ep_mask c f) s = true) in Hm.
      rewrite (seventh_not_ep c _ (G2 Hm)) in Hpr. cbn [promo_field] in Hpr. subst pr.
      apply in_flat_map. exists d. split; [fold (pawn_caps c); rewrite Ed; apply G1, Hm|].
      destruct (ep_square_empty f Ef) as [_ Oe]. rewrite <- Ed in Oe.
      rewrite (hc_abs (opp c) d Hd).
      assert (Hc : mem (colors b (opp c)) d = false).
      { destruct (mem (colors b (opp c)) d) eqn:E; [|reflexivity]. rewrite (own_occ b _ d E) in Oe. discriminate Oe. }
      rewrite Hc. assert (Hep : is_ep_target (abs b) c d = true) by (apply (is_ep_target_iff d Hd); exists f; auto).
      rewrite Hep. left. reflexivity.
  Qed.
End Pawn.

(* ------------------------------------------------------------------ *)
(** * One man: the moves the rules give it = its bitboard destinations *)

Lemma pkind_step_only : forall b pc s d, pc <> Pawn ->
  (pkind b pc s d <-> mem (pseudo_legals pc s (b_turn b) (all_occ b) (bb_not (own b))) d = true).
Proof.
  intros b pc s d N. split.
  - intros [K|f E _ _ _]; [exact K|contradiction].
  - apply PK_step.
Qed.

Lemma step_dest_lt : forall b pc s d,
  mem (pseudo_legals pc s (b_turn b) (all_occ b) (bb_not (own b))) d = true -> d < 64.
Proof. intros b pc s d H. apply (pseudo_not_own pc s _ _ _ d H). Qed.

Lemma queen_dirs : forall b s t,
  mem (bb_and (slide all_dirs s (all_occ b)) (bb_not (own b))) t
  = mem (bb_and (bb_or (rook_attacks s (all_occ b)) (bishop_attacks s (all_occ b))) (bb_not (own b))) t.
Proof.
  intros b s t. rewrite !mem_and, mem_or. f_equal.
  apply eq_true_iff_eq. rewrite orb_true_iff, BridgeFacts.rook_attacks_unfold, BridgeFacts.bishop_attacks_unfold.
  rewrite !BridgeFacts.mem_slide_iff. unfold all_dirs. split.
  - intros [d [Hd H]]. apply in_app_or in Hd. destruct Hd as [Hd|Hd]; [left|right]; exists d; auto.
  - intros [[d [Hd H]]|[d [Hd H]]]; exists d; (split; [apply in_or_app; auto|exact H]).
Qed.

Theorem piece_moves_shape : forall b s pc m, Part b -> ep_ok b -> s < 64 ->
  (In m (piece_moves_from (abs b) s pc) <->
   m_src m = s /\ m_dst m < 64 /\ pkind b pc s (m_dst m) /\ promo_ok b pc s (m_promo m)).
Proof.
  intros b s pc m P EP Hs.
  assert (Simple : forall L, pc <> Pawn ->
            (forall t, In t L <-> mem (pseudo_legals pc s (b_turn b) (all_occ b) (bb_not (own b))) t = true) ->
            (In m (map (fun t => mk s t None) L) <->
             m_src m = s /\ m_dst m < 64 /\ pkind b pc s (m_dst m) /\ promo_ok b pc s (m_promo m))).
  { intros L N HL. rewrite in_map_mk, (promo_ok_other b pc s _ N), (pkind_step_only b pc s _ N), HL. split.
    - intros (A & B & C). pose proof (step_dest_lt b pc s _ C). auto.
    - intros (A & _ & C & B). auto. }
  unfold piece_moves_from. cbv zeta. change (stm (abs b)) with (b_turn b).
  destruct pc.
  - split.
    + apply (pawn_sound b P EP s m Hs).
    + intros (A & Hd & K & Hpr). rewrite (move_eta m), A. apply (pawn_complete b P EP); assumption.
  - apply Simple; [discriminate|]. intros t. unfold pseudo_legals, knight_geo. apply (leaper_targets_iff b s _ t P).
  - apply Simple; [discriminate|]. intros t. unfold pseudo_legals. rewrite BridgeFacts.bishop_attacks_unfold.
    apply (slider_targets_iff b _ s t P).
  - apply Simple; [discriminate|]. intros t. unfold pseudo_legals. rewrite BridgeFacts.rook_attacks_unfold.
    apply (slider_targets_iff b _ s t P).
  - apply Simple; [discriminate|]. intros t. unfold pseudo_legals. rewrite <- queen_dirs.
    apply (slider_targets_iff b _ s t P).
  - apply Simple; [discriminate|]. intros t. unfold pseudo_legals, king_geo. apply (leaper_targets_iff b s _ t P).
Qed.

(* ------------------------------------------------------------------ *)
(** * (S) *)

Theorem pseudo_shape_inv : forall b m, Part b -> ep_ok b ->
  (In m (noncastle_pseudo (abs b)) <->
   exists pc, m_src m < 64 /\ m_dst m < 64 /\ raw_get b (m_src m) = Some (b_turn b, pc)
              /\ pkind b pc (m_src m) (m_dst m) /\ promo_ok b pc (m_src m) (m_promo m)).
Proof.
  intros b m P EP. unfold noncastle_pseudo. rewrite in_flat_map. change (stm (abs b)) with (b_turn b). split.
  - intros [s [Hin H]]. apply sq_list_lt in Hin. rewrite (BridgeFacts.abs_cell b s Hin) in H.
    destruct (raw_get b s) as [[c pc]|] eqn:Hsrc; [|contradiction].
    destruct (color_eqb c (b_turn b)) eqn:Ec; [|contradiction].
    apply BridgeFacts.color_eqb_eq in Ec. subst c.
    apply (piece_moves_shape b s pc m P EP Hin) in H. destruct H as (A & Hd & K & Hpr).
    exists pc. rewrite A. auto.
  - intros (pc & Hs & Hd & Hsrc & K & Hpr). exists (m_src m). split; [apply in_sq_list, Hs|].
    rewrite (BridgeFacts.abs_cell b _ Hs), Hsrc, BridgeFacts.color_eqb_refl.
    apply (piece_moves_shape b (m_src m) pc m P EP Hs). auto.
Qed.

Theorem pseudo_shape : pseudo_shape_statement.
Proof.
  intros b m G. apply pseudo_shape_inv; [apply (inv_part b (good_inv b G))|apply (inv_ep b (good_inv b G))].
Qed.

Print Assumptions piece_moves_shape.
Print Assumptions pseudo_shape_inv.
Print Assumptions pseudo_shape.
