(* C17: complete in-kernel traversal of the regenerated opening book, lifted to "every path is a legal game". *)
From Coq Require Import NArith List Bool Lia.
From Chess Require Import base.Bits base.Types gen.T_book spec.Rules model.Book proofs.BookSweep.
Import ListNotations.
Local Open Scope N_scope.

Definition step_ok (d : nat) (lm : list move) (p : position) (acc : bool * N) (e : N * N * N) : bool * N :=
  let '(ok, n) := acc in
  let '(s, t, child) := e in
  let m := mk s t None in
  if existsb (move_eqb m) lm
  then let '(ok2, n2) := book_walk d child (make p m) in (ok && ok2, n + 1 + n2)
  else (false, n + 1).

Lemma fold_ok_false : forall d lm p sibs n, fst (fold_left (step_ok d lm p) sibs (false, n)) = false.
Proof.
  intros d lm p sibs. induction sibs as [|[[s t] c] r IH]; intros n; [reflexivity|].
  cbn [fold_left]. unfold step_ok at 2.
  destruct (existsb (move_eqb (mk s t None)) lm).
  - destruct (book_walk d c (make p (mk s t None))) as [ok2 n2]. cbn [andb]. apply IH.
  - apply IH.
Qed.

Lemma fold_ok_all : forall d lm p sibs ok n,
  fst (fold_left (step_ok d lm p) sibs (ok, n)) = true ->
  ok = true /\ forall s t c, In (s, t, c) sibs ->
     existsb (move_eqb (mk s t None)) lm = true /\ fst (book_walk d c (make p (mk s t None))) = true.
Proof.
  intros d lm p sibs. induction sibs as [|[[s0 t0] c0] r IH]; intros ok n H.
  - cbn in H. split; [exact H|]. intros s t c [].
  - cbn [fold_left] in H. unfold step_ok at 2 in H.
    destruct (existsb (move_eqb (mk s0 t0 None)) lm) eqn:El.
    + destruct (book_walk d c0 (make p (mk s0 t0 None))) as [ok2 n2] eqn:Ew.
      apply IH in H. destruct H as [Hand Hrest]. apply andb_prop in Hand. destruct Hand as [Hok Hok2].
      split; [exact Hok|]. intros s t c [Heq|Hin].
      * injection Heq as <- <- <-. rewrite El, Ew. split; [reflexivity|exact Hok2].
      * apply Hrest; exact Hin.
    + rewrite fold_ok_false in H. discriminate.
Qed.

Lemma book_walk_unfold : forall d idx p,
  book_walk (S d) idx p =
  match book_siblings 200 idx with
  | None => (false, 0)
  | Some sibs => fold_left (step_ok d (legal_moves p) p) sibs (true, 0)
  end.
Proof. intros. reflexivity. Qed.

(* nodes reachable from the root by following book moves *)
Inductive reach : N -> position -> Prop :=
| reach_root : reach INITIAL_BOOK start_position
| reach_step : forall idx p sibs s t c,
    reach idx p -> book_siblings 200 idx = Some sibs -> In (s, t, c) sibs ->
    reach c (make p (mk s t None)).

Lemma reach_walk : forall idx p, reach idx p -> exists d, fst (book_walk d idx p) = true.
Proof.
  intros idx p H. induction H as [|idx p sibs s t c Hr [d IH] Hs Hin].
  - exists 12%nat. rewrite book_walk_ok. reflexivity.
  - destruct d as [|d]; [discriminate IH|].
    rewrite book_walk_unfold, Hs in IH.
    apply fold_ok_all in IH. destruct IH as [_ IH].
    exists d. exact (proj2 (IH s t c Hin)).
Qed.

(* every node reachable from the root: traversal from it terminates inside the table, and each of its
   moves is legal (no promotion choice) in the position reached by the preceding moves *)
Theorem book_paths_legal : forall idx p, reach idx p ->
  exists sibs, book_siblings 200 idx = Some sibs /\
    forall s t c, In (s, t, c) sibs -> is_legal_move p (mk s t None) = true.
Proof.
  intros idx p H. destruct (reach_walk idx p H) as [d Hd].
  destruct d as [|d]; [discriminate Hd|].
  rewrite book_walk_unfold in Hd.
  destruct (book_siblings 200 idx) as [sibs|] eqn:Hs; [|discriminate Hd].
  exists sibs. split; [reflexivity|]. intros s t c Hin.
  apply fold_ok_all in Hd. destruct Hd as [_ Hd]. exact (proj1 (Hd s t c Hin)).
Qed.

Lemma land63_lt : forall x, N.land x 63 < 64.
Proof.
  intros x. change 63 with (N.ones 6). rewrite N.land_ones. change (2 ^ 6) with 64.
  apply N.mod_upper_bound. discriminate.
Qed.

(* what `book_siblings = Some` guarantees about the unchecked accesses *)
Lemma book_siblings_in_range : forall fuel idx sibs, book_siblings fuel idx = Some sibs ->
  idx < book_size /\ forall s t c, In (s, t, c) sibs -> s < 64 /\ t < 64 /\ c < idx.
Proof.
  induction fuel as [|f IH]; intros idx sibs H; [discriminate H|].
  cbn [book_siblings] in H. unfold book_next in H.
  destruct (idx <? book_size) eqn:Elt; cbn [negb] in H; [|discriminate H].
  apply N.ltb_lt in Elt. split; [exact Elt|].
  destruct (book_at idx =? 0) eqn:Eo.
  - injection H as <-. intros s t c [].
  - destruct (idx <? 2) eqn:E2; [discriminate H|]. apply N.ltb_ge in E2.
    destruct (idx <? book_at idx + 1) eqn:E3.
    + injection H as <-. intros s t c [].
    + apply N.ltb_ge in E3.
      destruct (idx - (book_at idx + 1) <? idx) eqn:E4; cbn [negb] in H; [|discriminate H].
      destruct (book_siblings f (idx - (book_at idx + 1))) as [l|] eqn:Er; [|discriminate H].
      injection H as <-. intros s t c [Heq|Hin].
      * injection Heq as <- <- <-. repeat split; [apply land63_lt|apply land63_lt|lia].
      * destruct (IH _ _ Er) as [Hlt Hall]. specialize (Hall s t c Hin). apply N.ltb_lt in E4. lia.
Qed.
