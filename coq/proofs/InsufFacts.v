(* C12 - "insufficient material" is never checkmate.
   The search model scores a capture that leaves insufficient material (no queen, rook or pawn, and at most one
   minor piece on the whole board) as a draw BEFORE testing for mate.  This file proves the chess fact that makes
   the early draw harmless for the mate-in-one property:
       insufficient_never_mate     : on a Good board with insufficient material the side to move is never mated;
       mating_move_mates_now_good  : SearchFacts.mating_move_mates_now without its capture side condition.
   Route: a Good board with insufficient material holds the two kings and at most one minor piece.  A checker is
   then that minor piece (kings never check), and a kernel sweep over (king, enemy king, minor, kind) shows that
   the checked king always has a safe step (possibly capturing the minor).  Axiom-free. *)
From Coq Require Import NArith ZArith List Bool Lia ZifyBool ZifyN Permutation.
From Chess Require Import base.Bits base.Types base.BitBoard base.Sweep geom.Geometry model.Board model.MoveGen model.Apply
  model.Search spec.Rules.
From Chess Require Import spec.IterSpec proofs.BitsFacts proofs.BitBoardFacts proofs.IterFacts proofs.HashFacts proofs.InvFacts
  proofs.LegalDefs proofs.AttackDefs.
From Chess Require proofs.BridgeFacts.
From Chess Require Import proofs.AttackFacts proofs.KingFacts proofs.ExactFacts proofs.StatusFacts proofs.ValidFacts
  proofs.Reachable proofs.SearchFacts proofs.InsufFactsAux.
Import ListNotations.
Local Open Scope N_scope.

(* ------------------------------------------------------------------ *)
(** * 2. Counting *)

Lemma count_le1_eq : forall a s t, wf64 a -> count a <= 1 -> s < 64 -> t < 64 ->
  mem a s = true -> mem a t = true -> s = t.
Proof.
  intros a s t W Hc Hs Ht Ms Mt.
  rewrite (count_cleared a s W Hs Ms) in Hc.
  assert (E0 : count (cleared a s) = 0) by lia.
  apply (count_0_iff _ (wf64_cleared a s)) in E0.
  pose proof (mem_cleared a s t Ht) as M. rewrite E0, mem_0, Mt in M. cbn [andb] in M.
  symmetry in M. apply negb_false_iff, N.eqb_eq in M. symmetry. exact M.
Qed.

Lemma count_mem_pos : forall a s, wf64 a -> mem a s = true -> count a <> 0.
Proof.
  intros a s W M E. apply (count_0_iff _ W) in E. rewrite E, mem_0 in M. discriminate M.
Qed.

(* ------------------------------------------------------------------ *)
(** * 3. The shape of a Good board with insufficient material *)

Section Shape.
  Variable b : board.
  Hypothesis G : Good b.
  Hypothesis Hi : insufficient_material b = true.

  Let P : HashFacts.Part b := Good_Part b G.

  Lemma insuf_empty : b_queen b = 0 /\ b_rook b = 0 /\ b_pawn b = 0.
  Proof.
    unfold insufficient_material in Hi.
    destruct (any (bb_or (bb_or (b_queen b) (b_rook b)) (b_pawn b))) eqn:E; [discriminate Hi|].
    apply BridgeFacts.any_false_iff in E. unfold bb_or in E.
    apply N.lor_eq_0_iff in E. destruct E as [E E3]. apply N.lor_eq_0_iff in E. destruct E as [E1 E2].
    repeat split; assumption.
  Qed.

  Lemma insuf_counts :
    count (b_knight b) <= 1 /\ count (b_bishop b) <= 1 /\ (count (b_knight b) = 0 \/ count (b_bishop b) = 0).
  Proof.
    unfold insufficient_material in Hi.
    destruct (any (bb_or (bb_or (b_queen b) (b_rook b)) (b_pawn b))); [discriminate Hi|].
    cbv zeta in Hi. lia.
  Qed.

  (* every man is a king, a knight or a bishop *)
  Lemma insuf_kinds : forall s c p, s < 64 -> raw_get b s = Some (c, p) -> p = King \/ p = Knight \/ p = Bishop.
  Proof.
    intros s c p Hs H. destruct insuf_empty as (Eq & Er & Ep).
    pose proof (raw_mem_pieces b s c p p P Hs H) as M. rewrite BridgeFacts.piece_eqb_refl in M.
    destruct p; cbn [pieces] in M; auto.
    - rewrite Ep, mem_0 in M. discriminate M.
    - rewrite Er, mem_0 in M. discriminate M.
    - rewrite Eq, mem_0 in M. discriminate M.
  Qed.

  (* there is at most one man that is not a king *)
  Lemma minor_unique : forall s t c1 p1 c2 p2, s < 64 -> t < 64 ->
    raw_get b s = Some (c1, p1) -> raw_get b t = Some (c2, p2) -> p1 <> King -> p2 <> King -> s = t.
  Proof.
    intros s t c1 p1 c2 p2 Hs Ht H1 H2 N1 N2.
    destruct insuf_counts as (Ck & Cb & C0).
    pose proof (part_wf_pieces b P Knight) as Wk. pose proof (part_wf_pieces b P Bishop) as Wb. cbn [pieces] in Wk, Wb.
    pose proof (raw_mem_pieces b s c1 p1 p1 P Hs H1) as M1. rewrite BridgeFacts.piece_eqb_refl in M1.
    pose proof (raw_mem_pieces b t c2 p2 p2 P Ht H2) as M2. rewrite BridgeFacts.piece_eqb_refl in M2.
    destruct (insuf_kinds s c1 p1 Hs H1) as [E1|[E1|E1]]; [contradiction|subst p1..];
      (destruct (insuf_kinds t c2 p2 Ht H2) as [E2|[E2|E2]]; [contradiction|subst p2..]); cbn [pieces] in M1, M2.
    - exact (count_le1_eq _ s t Wk Ck Hs Ht M1 M2).
    - exfalso. pose proof (count_mem_pos _ _ Wk M1). pose proof (count_mem_pos _ _ Wb M2). lia.
    - exfalso. pose proof (count_mem_pos _ _ Wb M1). pose proof (count_mem_pos _ _ Wk M2). lia.
    - exact (count_le1_eq _ s t Wb Cb Hs Ht M1 M2).
  Qed.
End Shape.

(* ------------------------------------------------------------------ *)
(** * 4. No checkmate with insufficient material *)

Lemma opp_neq : forall c : color, opp c <> c.
Proof. intros []; discriminate. Qed.

Lemma mem_occ3 : forall k e t s, k < 64 -> e < 64 -> t < 64 -> s < 64 ->
  mem (occ3 k e t) s = (s =? k) || ((s =? e) || (s =? t)).
Proof. intros k e t s Hk He Ht Hs. unfold occ3. rewrite !mem_or, !mem_from_pos by assumption. reflexivity. Qed.

Lemma wf64_occ3 : forall k e t, wf64 (occ3 k e t).
Proof. intros k e t. unfold occ3. apply wf64_or; [apply wf64_from_pos|apply wf64_or; apply wf64_from_pos]. Qed.

(* a generated move makes the generator non-empty *)
Lemma gen_move_not_empty : forall b m, gen_move b m -> mg_is_empty (legals_gen b) = false.
Proof.
  intros b m H. destruct (mg_is_empty (legals_gen b)) eqn:E; [exfalso|reflexivity].
  apply is_empty_legals in E. pose proof (legals_drain b) as Hp.
  unfold gen_move in H. apply (Permutation_in m (Permutation_sym Hp)) in H. rewrite E in H. destruct H.
Qed.

(* the board-shape premise made explicit: the checked side has a king step *)
Theorem insufficient_has_king_step : forall b, Good b -> insufficient_material b = true ->
  Board.in_check b = true ->
  exists d, gen_move b {| m_src := ksq b; m_dst := d; m_promo := None |}.
Proof.
  intros b G Hi Hc. pose proof (Good_Part b G) as P.
  destruct (kings b (b_turn b) G) as (Hk & Hkr & Hku & Hadj).
  destruct (kings b (opp (b_turn b)) G) as (He & Her & Heu & _).
  fold (ksq b) in Hk, Hkr, Hku, Hadj. set (k := ksq b) in *. set (e := king_sq b (opp (b_turn b))) in *.
  set (c := b_turn b) in *.
  (* the checker *)
  unfold Board.in_check in Hc. apply BridgeFacts.any_iff in Hc. destruct Hc as [t Hc].
  apply (checkers_spec b t G) in Hc. destruct Hc as (Ht & pc & Htr & Npc & Hatt).
  fold c in Htr, Hatt. fold k in Hatt.
  (* distinctness *)
  assert (Nke : k <> e).
  { intros E. rewrite <- E in Her. rewrite Hkr in Her. injection Her as Her. exact (opp_neq c (eq_sym Her)). }
  assert (Nkt : k <> t).
  { intros E. rewrite <- E in Htr. rewrite Hkr in Htr. injection Htr as Htr _. exact (opp_neq c (eq_sym Htr)). }
  assert (Net : e <> t).
  { intros E. rewrite <- E in Htr. rewrite Her in Htr. injection Htr as Htr. exact (Npc (eq_sym Htr)). }
  (* every man stands on k, e or t *)
  assert (Shape : forall s c' p, s < 64 -> raw_get b s = Some (c', p) -> s = k \/ s = e \/ s = t).
  { intros s c' p Hs Hr.
    assert (D : p = King \/ p <> King) by (destruct p; (left; reflexivity) || (right; discriminate)).
    destruct D as [->|Np].
    - destruct c', c; cbn [opp] in *;
        (left; exact (Hku s Hs Hr)) || (right; left; exact (Heu s Hs Hr)).
    - right; right. exact (minor_unique b G Hi s t c' p (opp c) pc Hs Ht Hr Htr Np Npc). }
  (* the occupancy *)
  assert (Hocc : all_occ b = occ3 k e t).
  { apply ext64; [unfold all_occ; apply wf64_or; [exact (part_wf_colors b P White)|exact (part_wf_colors b P Black)]
                 |apply wf64_occ3|].
    intros s Hs. rewrite (occ_of_raw b s P Hs), (mem_occ3 k e t s Hk He Ht Hs).
    destruct (raw_get b s) as [[c' p]|] eqn:Er.
    - destruct (Shape s c' p Hs Er) as [->|[->| ->]]; rewrite N.eqb_refl; cbn [orb]; rewrite ?orb_true_r; reflexivity.
    - destruct (N.eqb_spec s k) as [->|_]; [congruence|].
      destruct (N.eqb_spec s e) as [->|_]; [congruence|].
      destruct (N.eqb_spec s t) as [->|_]; [congruence|]. reflexivity. }
  (* the kind of the checker *)
  set (kind := match pc with Knight => true | _ => false end).
  assert (Hpc : pc = Knight \/ pc = Bishop).
  { destruct (insuf_kinds b G Hi t (opp c) pc Ht Htr) as [E|E]; [contradiction|exact E]. }
  assert (Hmatt : forall s occ, att_from pc (opp c) s occ t = matt kind s occ t).
  { intros s occ. destruct Hpc as [-> | ->]; reflexivity. }
  rewrite Hocc, Hmatt in Hatt.
  destruct (escape_exists kind k e t Hk He Ht Nke Nkt Net Hadj Hatt) as (d & Hd & Hg & Ndk & Nde & Hde & Hdt).
  exists d. apply (gen_char b _ G).
  exists King. cbn [m_src m_dst m_promo]. fold k.
  split; [exact Hk|]. split; [exact Hd|]. split; [exact Hkr|]. split; [exact eq_refl|].
  right; right; left. unfold king_chan. cbn [m_src m_dst]. fold k.
  split; [reflexivity|]. split; [reflexivity|]. split.
  - (* pseudo-legal: a step to a square not holding an own man *)
    unfold pseudo_legals. rewrite mem_and, Hg, (mem_not _ d Hd). cbn [andb]. apply negb_true_iff.
    unfold own. fold c.
    destruct (raw_get b d) as [[c' p]|] eqn:Er.
    + rewrite (raw_mem_colors b d c' p c P Hd Er).
      destruct (Shape d c' p Hd Er) as [E|[E|E]]; [contradiction|contradiction|].
      subst d. rewrite Htr in Er. injection Er as <- _. destruct c; reflexivity.
    + exact (raw_none_colors b d c P Hd Er).
  - (* safe *)
    apply (ilkp_spec slider_att b d P Hd). fold c. intros t' pc' Ht' Hr'.
    assert (Eox : occx b d = occx3 k e t d) by (unfold occx, occx3; rewrite Hocc; reflexivity).
    rewrite Eox.
    destruct (Shape t' (opp c) pc' Ht' Hr') as [E|[E|E]]; subst t'.
    + rewrite Hkr in Hr'. injection Hr' as Hr' _. exfalso. exact (opp_neq c (eq_sym Hr')).
    + rewrite Her in Hr'. injection Hr' as <-. cbn [att_from]. exact Hde.
    + rewrite Htr in Hr'. injection Hr' as <-. rewrite Hmatt. exact Hdt.
Qed.

Theorem insufficient_never_mate : forall b, Good b -> insufficient_material b = true ->
  ~ (mg_is_empty (legals_gen b) = true /\ Board.in_check b = true).
Proof.
  intros b G Hi [He Hc].
  destruct (insufficient_has_king_step b G Hi Hc) as [d Hd].
  rewrite (gen_move_not_empty b _ Hd) in He. discriminate He.
Qed.

Corollary mating_move_mates_now_good : forall k tf root m, Good root -> gen_move root m ->
  mg_is_empty (legals_gen (apply root m)) = true -> Board.in_check (apply root m) = true ->
  mates_now k tf root m.
Proof.
  intros k tf root m G Hg He Hc. apply mating_move_mates_now; [exact He|exact Hc|].
  destruct (insufficient_material (apply root m)) eqn:Ei; [exfalso|apply andb_false_r].
  exact (insufficient_never_mate (apply root m) (Good_apply_gen root m G Hg) Ei (conj He Hc)).
Qed.

Print Assumptions insufficient_never_mate.
Print Assumptions mating_move_mates_now_good.
