(* C10 -- the move iterator (model/MoveGen.v, the mg_ functions) refines the abstract (content, mask)
   semantics of spec/IterSpec.v.  Axiom-free. *)
From Coq Require Import NArith ZArith List Bool Lia ZifyBool ZifyN Sorted Permutation.
From Chess Require spec.Rules.
From Chess Require Import base.Bits base.Types base.BitBoard geom.Geometry model.Board model.MoveGen
  proofs.BitsFacts proofs.BitBoardFacts spec.IterSpec.
Import ListNotations.
Local Open Scope N_scope.

(* ------------------------------------------------------------------ *)
(** * List helpers *)

Lemma nth_error_mid : forall (A : Type) (pre : list A) e r, nth_error (pre ++ e :: r) (length pre) = Some e.
Proof. intros A pre e r. induction pre as [|x pre IH]; [reflexivity|exact IH]. Qed.

Lemma firstn_exact : forall (A : Type) (pre r : list A), firstn (length pre) (pre ++ r) = pre.
Proof. intros A pre r. induction pre as [|x pre IH]; [reflexivity|]. cbn [length app firstn]. rewrite IH. reflexivity. Qed.

Lemma skipn_exact : forall (A : Type) (pre r : list A), skipn (length pre) (pre ++ r) = r.
Proof. intros A pre r. induction pre as [|x pre IH]; [reflexivity|exact IH]. Qed.

Lemma skipn_S_exact : forall (A : Type) (pre : list A) e r, skipn (S (length pre)) (pre ++ e :: r) = r.
Proof. intros A pre e r. induction pre as [|x pre IH]; [reflexivity|exact IH]. Qed.

Lemma set_nth_mid : forall (A : Type) (pre : list A) e r v,
  Rules.set_nth (pre ++ e :: r) (length pre) v = pre ++ v :: r.
Proof.
  intros A pre e r v. induction pre as [|x pre IH]; [reflexivity|].
  cbn [length app Rules.set_nth]. rewrite IH. reflexivity.
Qed.

Lemma nth_error_split' : forall (A : Type) (l : list A) n e, nth_error l n = Some e ->
  exists pre r, l = pre ++ e :: r /\ length pre = n.
Proof.
  intros A l n e H. destruct (nth_error_split l n H) as (pre & r & H1 & H2). exists pre, r. auto.
Qed.

Lemma flat_map_ext_in : forall (A B : Type) (f g : A -> list B) l,
  (forall a, In a l -> f a = g a) -> flat_map f l = flat_map g l.
Proof.
  intros A B f g l. induction l as [|x l IH]; intros H; [reflexivity|].
  cbn [flat_map]. rewrite (H x (or_introl eq_refl)), IH; [reflexivity|].
  intros a Ha. apply H. right. exact Ha.
Qed.

Lemma filter_all_true : forall (B : Type) (P : B -> bool) l,
  (forall b, In b l -> P b = true) -> filter P l = l.
Proof.
  intros B P l. induction l as [|b l IH]; intros H; [reflexivity|].
  cbn [filter]. rewrite (H b (or_introl eq_refl)), IH; [reflexivity|].
  intros b' Hb'. apply H. right. exact Hb'.
Qed.

Lemma filter_all_false : forall (B : Type) (P : B -> bool) l,
  (forall b, In b l -> P b = false) -> filter P l = [].
Proof.
  intros B P l. induction l as [|b l IH]; intros H; [reflexivity|].
  cbn [filter]. rewrite (H b (or_introl eq_refl)). apply IH.
  intros b' Hb'. apply H. right. exact Hb'.
Qed.

Lemma filter_flat_map : forall (A B : Type) (P : B -> bool) (Q : A -> bool) (f : A -> list B) l,
  (forall a b, In b (f a) -> P b = Q a) ->
  filter P (flat_map f l) = flat_map f (filter Q l).
Proof.
  intros A B P Q f l H. induction l as [|x l IH]; [reflexivity|].
  cbn [flat_map filter]. rewrite filter_app, IH.
  destruct (Q x) eqn:E.
  - cbn [flat_map]. f_equal.
    apply filter_all_true. intros b Hb. rewrite (H x b Hb). exact E.
  - rewrite filter_all_false; [reflexivity|].
    intros b Hb. rewrite (H x b Hb). exact E.
Qed.

(* ------------------------------------------------------------------ *)
(** * Bitboard facts used by the iterator *)

Lemma elements_filter_mask : forall a m,
  filter (fun d => mem m d) (elements a) = elements (bb_and a m).
Proof.
  intros a m. symmetry. apply elements_ext.
  - apply filter_sorted, elements_sorted.
  - intros s. rewrite filter_In, elements_spec, mem_and. split.
    + intros [[H1 H2] H3]. rewrite H2, H3. auto.
    + intros [H1 H2]. apply andb_true_iff in H2. destruct H2 as [H2 H3]. auto.
Qed.

Lemma elements_diff : forall a bb,
  elements (bb_diff a bb) = filter (fun d => negb (mem bb d)) (elements a).
Proof.
  intros a bb. apply elements_ext.
  - apply filter_sorted, elements_sorted.
  - intros s. rewrite filter_In, elements_spec. split.
    + intros [[H1 H2] H3]. split; [assumption|]. rewrite mem_diff, H2, H3 by assumption. reflexivity.
    + intros [H1 H2]. rewrite mem_diff in H2 by assumption.
      apply andb_true_iff in H2. destruct H2 as [H2 H3]. auto.
Qed.

Lemma elements_cleared : forall a s,
  elements (cleared a s) = filter (fun d => negb (d =? s)) (elements a).
Proof.
  intros a s. apply elements_ext.
  - apply filter_sorted, elements_sorted.
  - intros t. rewrite filter_In, elements_spec. split.
    + intros [[H1 H2] H3]. split; [assumption|]. rewrite mem_cleared, H2, H3 by assumption. reflexivity.
    + intros [H1 H2]. rewrite mem_cleared in H2 by assumption.
      apply andb_true_iff in H2. destruct H2 as [H2 H3]. auto.
Qed.

Lemma elements_pop_perm : forall a d, d < 64 -> mem a d = true ->
  Permutation (elements a) (d :: elements (cleared a d)).
Proof.
  intros a d Hd Hm. apply NoDup_Permutation.
  - apply elements_NoDup.
  - constructor; [|apply elements_NoDup].
    intros Hin. apply elements_spec in Hin. destruct Hin as [_ Hin].
    rewrite mem_cleared, N.eqb_refl, andb_false_r in Hin by assumption. discriminate.
  - intros x. rewrite (pop_elements_In a d Hd Hm x), elements_spec. reflexivity.
Qed.

Lemma and_cleared : forall a m d, bb_and (cleared a d) m = cleared (bb_and a m) d.
Proof.
  intros a m d. apply N.bits_inj. intros i.
  change (mem (bb_and (cleared a d) m) i = mem (cleared (bb_and a m) d) i).
  unfold cleared. rewrite mem_and, !mem_diff_full, mem_and.
  destruct (mem a i), (mem m i), (i <? 64), (mem (from_pos d) i); reflexivity.
Qed.

Lemma any_false_0 : forall a, any a = false -> a = 0.
Proof. intros a H. unfold any in H. apply negb_false_iff, N.eqb_eq in H. exact H. Qed.

Lemma any_true_neq : forall a, any a = true -> a <> 0.
Proof. intros a H. unfold any in H. apply negb_true_iff, N.eqb_neq in H. exact H. Qed.

Lemma none_any : forall a, none a = negb (any a).
Proof. intros a. unfold none, any. rewrite negb_involutive. reflexivity. Qed.

(* a smaller set is dead when the bigger one is *)
Lemma dead_subset : forall a a' m, (forall s, mem a' s = true -> mem a s = true) ->
  any (bb_and a m) = false -> any (bb_and a' m) = false.
Proof.
  intros a a' m Hsub H. apply any_false_0 in H.
  unfold any. rewrite eqb0_true_intro; [reflexivity|].
  intros s. rewrite mem_and. destruct (mem a' s) eqn:E; [|reflexivity].
  assert (mem (bb_and a m) s = false) as H0 by (rewrite H; apply mem_0).
  rewrite mem_and, (Hsub s E) in H0. exact H0.
Qed.

(* the destination the iterator picks in a live entry *)
Lemma pick_spec : forall a m, wf64 a -> any (bb_and a m) = true ->
  let d := tz64 (bb_and a m) in
  d < 64 /\ mem a d = true /\ mem m d = true /\
  bb_xor (bb_and a m) (from_pos d) = bb_and (cleared a d) m.
Proof.
  intros a m Ha Hlive d.
  assert (wf64 (bb_and a m)) as Hw by (apply wf64_land_l, Ha).
  pose proof (any_true_neq _ Hlive) as Hnz.
  pose proof (tz64_lt _ Hw Hnz) as Hd.
  destruct (tz64_spec _ Hnz) as [Hm _]. fold d in Hd, Hm.
  pose proof Hm as Hm2. rewrite mem_and in Hm2. apply andb_true_iff in Hm2. destruct Hm2 as [H1 H2].
  repeat split; try assumption.
  rewrite and_cleared. apply (pop_xor_cleared (bb_and a m) d Hw Hd Hm).
Qed.

(* ------------------------------------------------------------------ *)
(** * skip_dead, the well-formedness invariant, the cursor *)

Lemma skip_dead_split : forall g l i0, exists dead rest,
  l = dead ++ rest /\ skip_dead g l i0 = (i0 + length dead)%nat /\
  (forall e, In e dead -> live g e = false) /\
  (rest = [] \/ exists e r, rest = e :: r /\ live g e = true).
Proof.
  intros g l. induction l as [|e l IH]; intros i0.
  - exists [], []. cbn [skip_dead app length]. repeat split; [lia|intros e []|left; reflexivity].
  - cbn [skip_dead]. destruct (live g e) eqn:E.
    + exists [], (e :: l). cbn [app length]. repeat split; [lia|intros e' []|].
      right. exists e, l. split; [reflexivity|exact E].
    + destruct (IH (S i0)) as (dead & rest & Hl & Hs & Hd & Hr).
      exists (e :: dead), rest. cbn [app length]. repeat split.
      * rewrite Hl. reflexivity.
      * rewrite Hs. lia.
      * intros e' [<-|He']; [exact E|apply Hd, He'].
      * exact Hr.
Qed.

Lemma skip_dead_mask : forall g g' l i0, g_mask g' = g_mask g -> skip_dead g' l i0 = skip_dead g l i0.
Proof.
  intros g g' l i0 Hm. revert i0. induction l as [|e l IH]; intros i0; [reflexivity|].
  cbn [skip_dead]. unfold live. rewrite Hm, IH. reflexivity.
Qed.

Record wf (g : movegen) : Prop := {
  wf_words : forall e, In e (g_moves g) -> wf64 (e_moves e);
  wf_promo : g_promo g < 4;
  wf_index : (g_index g <= length (g_moves g))%nat;
  (* the entries the iterator has gone past have nothing left under the current mask *)
  wf_passed : forall e, In e (firstn (g_index g) (g_moves g)) -> live g e = false;
  (* a promotion group in progress belongs to the entry the cursor stands on *)
  wf_group : g_promo g <> 0 ->
             exists e, nth_error (g_moves g) (cursor g) = Some e /\ e_promo e = true }.

Lemma cursor_split : forall g, wf g -> exists pre rest,
  g_moves g = pre ++ rest /\ length pre = cursor g /\
  (forall e, In e pre -> live g e = false) /\
  (rest = [] \/ exists e r, rest = e :: r /\ live g e = true) /\
  exists dead, skipn (g_index g) (g_moves g) = dead ++ rest /\
               (forall e, In e dead -> live g e = false).
Proof.
  intros g Hwf.
  destruct (skip_dead_split g (skipn (g_index g) (g_moves g)) (g_index g))
    as (dead & rest & Hl & Hs & Hd & Hr).
  exists (firstn (g_index g) (g_moves g) ++ dead), rest. repeat split.
  - rewrite <- app_assoc, <- Hl. symmetry. apply firstn_skipn.
  - unfold cursor. rewrite Hs, app_length, firstn_length, Nat.min_l; [reflexivity|apply (wf_index g Hwf)].
  - intros e He. apply in_app_or in He. destruct He as [He|He]; [apply (wf_passed g Hwf), He|apply Hd, He].
  - exact Hr.
  - exists dead. split; assumption.
Qed.

Lemma cursor_live : forall g pre e r, g_moves g = pre ++ e :: r -> (g_index g = length pre)%nat ->
  live g e = true -> cursor g = length pre.
Proof.
  intros g pre e r Hl Hi Hlive. unfold cursor. rewrite Hl, Hi, skipn_exact.
  cbn [skip_dead]. rewrite Hlive. reflexivity.
Qed.

(* content, once the list is split at the cursor *)
Lemma content_at : forall g pre e r, g_moves g = pre ++ e :: r -> length pre = cursor g ->
  content g = flat_map entry_moves pre
              ++ entry_moves_from (N.to_nat (g_promo g)) (tz64 (bb_and (e_moves e) (g_mask g))) e
              ++ flat_map entry_moves r.
Proof.
  intros g pre e r Hl Hc. unfold content. rewrite <- Hc, Hl.
  rewrite nth_error_mid, firstn_exact, skipn_S_exact. reflexivity.
Qed.

Lemma entry_moves_from_0 : forall d0 e, entry_moves_from O d0 e = entry_moves e.
Proof.
  intros d0 e. unfold entry_moves_from, entry_moves. apply flat_map_ext.
  intros d. destruct (d =? d0); reflexivity.
Qed.

Lemma content_promo0 : forall g, g_promo g = 0 -> content g = flat_map entry_moves (g_moves g).
Proof.
  intros g H0. unfold content. destruct (nth_error (g_moves g) (cursor g)) as [e|] eqn:E; [|reflexivity].
  destruct (nth_error_split' _ _ _ _ E) as (pre & r & Hl & Hlen).
  rewrite <- Hlen, Hl, firstn_exact, skipn_S_exact, H0.
  change (N.to_nat 0) with O. rewrite entry_moves_from_0, flat_map_app. cbn [flat_map]. reflexivity.
Qed.

Lemma content_end : forall g, nth_error (g_moves g) (cursor g) = None ->
  content g = flat_map entry_moves (g_moves g).
Proof. intros g H. unfold content. rewrite H. reflexivity. Qed.

(* ------------------------------------------------------------------ *)
(** * Moves of one entry *)

(* unfolding equations: always REWRITE with these; converting through [elements] makes Qed diverge *)
Lemma entry_moves_from_eq : forall k d0 e, entry_moves_from k d0 e
  = flat_map (fun d => dest_moves (e_src e) (e_promo e) (if d =? d0 then k else O) d) (elements (e_moves e)).
Proof. intros. unfold entry_moves_from. reflexivity. Qed.

Lemma entry_moves_eq : forall e, entry_moves e
  = flat_map (fun d => dest_moves (e_src e) (e_promo e) O d) (elements (e_moves e)).
Proof. intros. unfold entry_moves. reflexivity. Qed.

Lemma visible_eq : forall g, visible g = filter (in_mask (g_mask g)) (content g).
Proof. intros. unfold visible. reflexivity. Qed.

Definition with_moves (e : entry) (a : N) : entry :=
  {| e_src := e_src e; e_moves := a; e_promo := e_promo e |}.

Lemma dest_moves_In : forall src promo k d x, In x (dest_moves src promo k d) ->
  m_src x = src /\ m_dst x = d.
Proof.
  intros src promo k d x H. unfold dest_moves in H. destruct promo.
  - apply in_map_iff in H. destruct H as (p & <- & _). split; reflexivity.
  - destruct H as [<-|[]]. split; reflexivity.
Qed.

Lemma entry_moves_from_In : forall k d0 e x, In x (entry_moves_from k d0 e) ->
  m_src x = e_src e /\ m_dst x < 64 /\ mem (e_moves e) (m_dst x) = true.
Proof.
  intros k d0 e x H. rewrite entry_moves_from_eq in H. apply in_flat_map in H.
  destruct H as (d & Hd & Hx). destruct (dest_moves_In _ _ _ _ _ Hx) as [H1 H2].
  destruct (proj1 (elements_spec _ _) Hd) as [H3 H4].
  rewrite H2. split; [exact H1|split; [exact H3|exact H4]].
Qed.

Lemma entry_moves_In : forall e x, In x (entry_moves e) ->
  m_src x = e_src e /\ m_dst x < 64 /\ mem (e_moves e) (m_dst x) = true.
Proof. intros e x H. rewrite <- (entry_moves_from_0 0 e) in H. exact (entry_moves_from_In _ _ _ _ H). Qed.

Lemma filter_entry_from : forall (P : N -> bool) k d0 e,
  filter (fun x => P (m_dst x)) (entry_moves_from k d0 e)
  = flat_map (fun d => dest_moves (e_src e) (e_promo e) (if d =? d0 then k else O) d)
             (filter P (elements (e_moves e))).
Proof.
  intros P k d0 e. rewrite entry_moves_from_eq. apply filter_flat_map.
  intros d x Hx. apply dest_moves_In in Hx. destruct Hx as [_ ->]. reflexivity.
Qed.

Lemma filter_entry : forall (P : N -> bool) e,
  filter (fun x => P (m_dst x)) (entry_moves e)
  = flat_map (fun d => dest_moves (e_src e) (e_promo e) O d) (filter P (elements (e_moves e))).
Proof.
  intros P e. rewrite entry_moves_eq. apply filter_flat_map.
  intros d x Hx. apply dest_moves_In in Hx. destruct Hx as [_ ->]. reflexivity.
Qed.

Lemma visible_entry_from : forall M k d0 e,
  filter (in_mask M) (entry_moves_from k d0 e)
  = flat_map (fun d => dest_moves (e_src e) (e_promo e) (if d =? d0 then k else O) d)
             (elements (bb_and (e_moves e) M)).
Proof.
  intros M k d0 e. rewrite <- elements_filter_mask.
  apply (filter_entry_from (fun d => mem M d)).
Qed.

Lemma visible_entry : forall M e,
  filter (in_mask M) (entry_moves e)
  = flat_map (fun d => dest_moves (e_src e) (e_promo e) O d) (elements (bb_and (e_moves e) M)).
Proof.
  intros M e. rewrite <- elements_filter_mask. apply (filter_entry (fun d => mem M d)).
Qed.

Lemma visible_dead_entry : forall g e, live g e = false ->
  filter (in_mask (g_mask g)) (entry_moves e) = [].
Proof.
  intros g e H. rewrite visible_entry. unfold live in H. rewrite (any_false_0 _ H), elements_0. reflexivity.
Qed.

Lemma visible_dead_list : forall g l, (forall e, In e l -> live g e = false) ->
  filter (in_mask (g_mask g)) (flat_map entry_moves l) = [].
Proof.
  intros g l. induction l as [|e l IH]; intros H; [reflexivity|].
  cbn [flat_map]. rewrite filter_app, (visible_dead_entry g e (H e (or_introl eq_refl))), IH; [reflexivity|].
  intros e' He'. apply H. right. exact He'.
Qed.

(* one destination singled out *)
Lemma flat_map_cons' : forall (A B : Type) (f : A -> list B) x l, flat_map f (x :: l) = f x ++ flat_map f l.
Proof. reflexivity. Qed.

Lemma entry_from_perm : forall k d e e', d < 64 -> mem (e_moves e) d = true ->
  e_src e' = e_src e -> e_promo e' = e_promo e -> e_moves e' = cleared (e_moves e) d ->
  Permutation (entry_moves_from k d e) (dest_moves (e_src e) (e_promo e) k d ++ entry_moves e').
Proof.
  intros k d e e' Hd Hm Hs Hp He. rewrite entry_moves_from_eq, entry_moves_eq, Hs, Hp, He.
  generalize (elements_pop_perm (e_moves e) d Hd Hm).
  assert (forall x, In x (elements (cleared (e_moves e) d)) -> (x =? d) = false) as Hne.
  { intros x Hx. apply elements_spec in Hx. destruct Hx as [Hx Hmx].
    rewrite mem_cleared in Hmx by assumption. apply andb_true_iff in Hmx. destruct Hmx as [_ Hne].
    apply negb_true_iff in Hne. exact Hne. }
  revert Hne. generalize (elements (cleared (e_moves e) d)). generalize (elements (e_moves e)).
  intros L L' Hne Hperm.
  rewrite (Permutation_flat_map _ Hperm), flat_map_cons', N.eqb_refl.
  apply Permutation_app; [apply Permutation_refl|].
  rewrite (flat_map_ext_in _ _ _ (fun d0 => dest_moves (e_src e) (e_promo e) O d0) L'); [apply Permutation_refl|].
  intros x Hx. rewrite (Hne x Hx). reflexivity.
Qed.

Lemma entry_perm : forall d e e', d < 64 -> mem (e_moves e) d = true ->
  e_src e' = e_src e -> e_promo e' = e_promo e -> e_moves e' = cleared (e_moves e) d ->
  Permutation (entry_moves e) (dest_moves (e_src e) (e_promo e) O d ++ entry_moves e').
Proof. intros d e e' Hd Hm Hs Hp He. rewrite <- (entry_moves_from_0 d e). apply entry_from_perm; assumption. Qed.

Lemma promo_dest_step : forall src d k, k < 4 ->
  dest_moves src true (N.to_nat k) d
  = mk_move src d (Some (promo_at k)) :: dest_moves src true (S (N.to_nat k)) d.
Proof.
  intros src d k Hk.
  assert (k = 0 \/ k = 1 \/ k = 2 \/ k = 3) as Hc by lia.
  destruct Hc as [ -> | [ -> | [ -> | -> ] ] ]; reflexivity.
Qed.

Lemma promo_dest_done : forall src d, dest_moves src true 4 d = [].
Proof. reflexivity. Qed.

(* counting *)
Lemma length_dest_moves0 : forall src promo d,
  length (dest_moves src promo O d) = if promo then 4%nat else 1%nat.
Proof. intros src [|] d; reflexivity. Qed.

Lemma length_flat_dest0 : forall src promo L,
  length (flat_map (fun d => dest_moves src promo O d) L)
  = ((if promo then 4 else 1) * length L)%nat.
Proof.
  intros src promo L. induction L as [|d L IH]; [cbn [flat_map length]; lia|].
  cbn [flat_map]. rewrite app_length, IH, length_dest_moves0. cbn [length]. lia.
Qed.

Lemma length_dest_moves_k : forall src d k, (k <= 4)%nat ->
  (length (dest_moves src true k d) + k = 4)%nat.
Proof.
  intros src d k Hk. unfold dest_moves. rewrite map_length, skipn_length.
  change (length promo_pieces) with 4%nat. lia.
Qed.

Lemma length_flat_dest_k : forall src d0 k L, (k <= 4)%nat -> NoDup L -> In d0 L ->
  (length (flat_map (fun d => dest_moves src true (if (d =? d0)%N then k else O) d) L) + k
   = 4 * length L)%nat.
Proof.
  intros src d0 k L Hk. induction L as [|d L IH]; intros Hnd Hin; [destruct Hin|].
  cbn [flat_map]. rewrite app_length. inversion Hnd as [|d' L' Hnotin Hnd']. subst d' L'.
  destruct (N.eqb_spec d d0) as [->|Hne].
  - rewrite (flat_map_ext_in _ _ _ (fun d => dest_moves src true O d)).
    + rewrite (length_flat_dest0 src true L). pose proof (length_dest_moves_k src d0 k Hk). cbn [length]. lia.
    + intros x Hx. destruct (N.eqb_spec x d0) as [->|_]; [contradiction|reflexivity].
  - destruct Hin as [Heq|Hin]; [contradiction|].
    specialize (IH Hnd' Hin). rewrite length_dest_moves0. cbn [length]. lia.
Qed.

Lemma promo_entry_step : forall k d e, e_promo e = true -> d < 64 -> mem (e_moves e) d = true -> k < 4 ->
  Permutation (entry_moves_from (N.to_nat k) d e)
              (mk_move (e_src e) d (Some (promo_at k)) :: entry_moves_from (S (N.to_nat k)) d e).
Proof.
  intros k d e Hp Hd Hm Hk.
  pose (e' := with_moves e (cleared (e_moves e) d)).
  pose proof (entry_from_perm (N.to_nat k) d e e' Hd Hm eq_refl eq_refl eq_refl) as H1.
  pose proof (entry_from_perm (S (N.to_nat k)) d e e' Hd Hm eq_refl eq_refl eq_refl) as H2.
  rewrite Hp in H1, H2. rewrite (promo_dest_step _ _ _ Hk) in H1.
  rewrite <- app_comm_cons in H1.
  eapply Permutation_trans; [exact H1|]. apply perm_skip. apply Permutation_sym. exact H2.
Qed.

Lemma promo_entry_done : forall d e e', e_promo e = true -> d < 64 -> mem (e_moves e) d = true ->
  e_src e' = e_src e -> e_promo e' = e_promo e -> e_moves e' = cleared (e_moves e) d ->
  Permutation (entry_moves_from 4 d e) (entry_moves e').
Proof.
  intros d e e' Hp Hd Hm Hs Hp' He.
  pose proof (entry_from_perm 4 d e e' Hd Hm Hs Hp' He) as H1.
  rewrite Hp, promo_dest_done, app_nil_l in H1. exact H1.
Qed.

Lemma nonpromo_entry_step : forall d e e', e_promo e = false -> d < 64 -> mem (e_moves e) d = true ->
  e_src e' = e_src e -> e_promo e' = e_promo e -> e_moves e' = cleared (e_moves e) d ->
  Permutation (entry_moves e) (mk_move (e_src e) d None :: entry_moves e').
Proof.
  intros d e e' Hp Hd Hm Hs Hp' He.
  pose proof (entry_perm d e e' Hd Hm Hs Hp' He) as H1.
  rewrite Hp in H1. exact H1.
Qed.

(* ------------------------------------------------------------------ *)
(** * One step of the iterator *)

Lemma firstn_S_exact : forall (A : Type) (pre : list A) e r, firstn (S (length pre)) (pre ++ e :: r) = pre ++ [e].
Proof.
  intros A pre e r. induction pre as [|x pre IH]; [reflexivity|].
  change (x :: firstn (S (length pre)) (pre ++ e :: r) = x :: (pre ++ [e])). rewrite IH. reflexivity.
Qed.

Lemma live_mask : forall g g' e, g_mask g' = g_mask g -> live g' e = live g e.
Proof. intros g g' e H. unfold live. rewrite H. reflexivity. Qed.

Lemma in_mask_mk : forall M s d p, in_mask M (mk_move s d p) = mem M d.
Proof. reflexivity. Qed.

Lemma land_mask_idem : forall x m, bb_and (bb_and x m) m = bb_and x m.
Proof. intros x m. unfold bb_and. rewrite <- N.land_assoc, N.land_diag. reflexivity. Qed.

Lemma cursor_entry : forall g pre e r e0, g_moves g = pre ++ e :: r -> length pre = cursor g ->
  nth_error (g_moves g) (cursor g) = Some e0 -> e0 = e.
Proof.
  intros g pre e r e0 Hl Hc H. rewrite <- Hc, Hl, nth_error_mid in H. injection H as H. symmetry. exact H.
Qed.

(* the generator after a destination has been used up *)
Lemma wf_after_clear : forall g pre e r e' idx', wf g ->
  g_moves g = pre ++ e :: r -> length pre = cursor g -> live g e = true ->
  e_moves e' = cleared (e_moves e) (tz64 (bb_and (e_moves e) (g_mask g))) ->
  idx' = (if none (bb_and (e_moves e') (g_mask g)) then S (length pre) else length pre) ->
  (forall x, In x pre -> live g x = false) ->
  wf {| g_moves := pre ++ e' :: r; g_promo := 0; g_mask := g_mask g; g_index := idx' |}.
Proof.
  intros g pre e r e' idx' Hwf Hl Hc Hlive He' Hidx Hpre.
  set (g' := {| g_moves := pre ++ e' :: r; g_promo := 0; g_mask := g_mask g; g_index := idx' |}).
  assert (g_mask g' = g_mask g) as Hmask by reflexivity.
  constructor.
  - change (g_moves g') with (pre ++ e' :: r). intros x Hx.
    apply in_app_or in Hx. destruct Hx as [Hx|[<-|Hx]].
    + apply (wf_words g Hwf). rewrite Hl. apply in_or_app. left. exact Hx.
    + rewrite He'. apply wf64_cleared.
    + apply (wf_words g Hwf). rewrite Hl. apply in_or_app. right. right. exact Hx.
  - change (g_promo g') with 0. lia.
  - change (g_index g') with idx'. change (g_moves g') with (pre ++ e' :: r).
    rewrite app_length. cbn [length]. rewrite Hidx. destruct (none (bb_and (e_moves e') (g_mask g))); lia.
  - change (g_index g') with idx'. change (g_moves g') with (pre ++ e' :: r).
    intros x Hx. rewrite (live_mask g g' x Hmask). rewrite Hidx in Hx.
    destruct (none (bb_and (e_moves e') (g_mask g))) eqn:En.
    + rewrite firstn_S_exact in Hx. apply in_app_or in Hx. destruct Hx as [Hx|[<-|[]]]; [apply Hpre, Hx|].
      unfold live. rewrite none_any in En. apply negb_true_iff in En. exact En.
    + rewrite firstn_exact in Hx. apply Hpre, Hx.
  - change (g_promo g') with 0. intros H. contradiction H. reflexivity.
Qed.

Definition next_result (g : movegen) (m : move) (g' : movegen) : Prop :=
  In m (visible g) /\ Permutation (content g) (m :: content g') /\ g_mask g' = g_mask g /\ wf g'.

Lemma perm_mid3 : forall (A : Type) (a b c b' : list A) (m : A),
  Permutation b (m :: b') -> Permutation (a ++ b ++ c) (m :: a ++ b' ++ c).
Proof.
  intros A a b c b' m H. eapply Permutation_trans.
  - apply Permutation_app_head. apply Permutation_app_tail. exact H.
  - rewrite <- app_comm_cons. apply Permutation_sym. apply Permutation_middle.
Qed.

Lemma visible_intro : forall g m c', Permutation (content g) (m :: c') -> in_mask (g_mask g) m = true ->
  In m (visible g).
Proof.
  intros g m c' Hp Hm. rewrite visible_eq. apply filter_In. split; [|exact Hm].
  apply (Permutation_in m (Permutation_sym Hp)). left. reflexivity.
Qed.

Lemma next_step : forall g pre e r, wf g ->
  g_moves g = pre ++ e :: r -> length pre = cursor g -> live g e = true ->
  (forall x, In x pre -> live g x = false) ->
  exists m g', mg_next g = (Some m, g') /\ next_result g m g'.
Proof.
  intros g pre e r Hwf Hl Hc Hlive Hpre.
  pose proof (wf_words g Hwf e) as Hw. rewrite Hl in Hw. specialize (Hw (in_elt e pre r)).
  pose proof (pick_spec (e_moves e) (g_mask g) Hw Hlive) as Hpick. cbv zeta in Hpick.
  destruct Hpick as (Hd & Hma & Hmm & Hrest).
  set (d := tz64 (bb_and (e_moves e) (g_mask g))) in *.
  pose proof (content_at g pre e r Hl Hc) as Hcont. fold d in Hcont.
  unfold mg_next. cbv zeta.
  change (skip_dead g (skipn (g_index g) (g_moves g)) (g_index g)) with (cursor g).
  rewrite <- Hc. unfold set_entry. rewrite Hl, nth_error_mid, !set_nth_mid. fold d. rewrite Hrest.
  destruct (e_promo e) eqn:Hp.
  - (* promotion entry *)
    destruct (N.eqb_spec (g_promo g) 3) as [Hk|Hk].
    + (* last piece of the group *)
      rewrite land_mask_idem.
      eexists. eexists. split; [reflexivity|].
      set (e' := {| e_src := e_src e; e_moves := cleared (e_moves e) d; e_promo := true |}).
      match goal with |- next_result _ _ ?G => set (g' := G) end.
      assert (wf g') as Hwf'.
      { apply (wf_after_clear g pre e r e' _ Hwf Hl Hc Hlive); [reflexivity|reflexivity|exact Hpre]. }
      assert (Permutation (content g) (mk_move (e_src e) d (Some (promo_at (g_promo g))) :: content g')) as Hperm.
      { rewrite Hcont, (content_promo0 g' eq_refl).
        change (g_moves g') with (pre ++ e' :: r). rewrite flat_map_app, flat_map_cons'.
        apply perm_mid3.
        eapply Permutation_trans; [apply (promo_entry_step (g_promo g) d e Hp Hd Hma); lia|].
        apply perm_skip. rewrite Hk. change (S (N.to_nat 3)) with 4%nat.
        apply promo_entry_done; try assumption; try reflexivity. symmetry. exact Hp. }
      split; [|split; [exact Hperm|split; [reflexivity|exact Hwf']]].
      apply (visible_intro g _ _ Hperm). rewrite in_mask_mk. exact Hmm.
    + (* more pieces to come *)
      eexists. eexists. split; [reflexivity|].
      match goal with |- next_result _ _ ?G => set (g' := G) end.
      assert (g_mask g' = g_mask g) as Hmask by reflexivity.
      assert (g_moves g' = pre ++ e :: r) as Hl' by reflexivity.
      assert (cursor g' = length pre) as Hc'.
      { apply (cursor_live g' pre e r Hl'); [reflexivity|]. rewrite (live_mask g g' e Hmask). exact Hlive. }
      pose proof (wf_promo g Hwf) as Hk4.
      assert (wf g') as Hwf'.
      { constructor.
        - rewrite Hl', <- Hl. apply (wf_words g Hwf).
        - change (g_promo g') with (g_promo g + 1). lia.
        - rewrite Hl'. change (g_index g') with (length pre). rewrite app_length. lia.
        - rewrite Hl'. change (g_index g') with (length pre). rewrite firstn_exact.
          intros x Hx. rewrite (live_mask g g' x Hmask). apply Hpre, Hx.
        - intros _. exists e. rewrite Hc', Hl', nth_error_mid. split; [reflexivity|exact Hp]. }
      assert (Permutation (content g) (mk_move (e_src e) d (Some (promo_at (g_promo g))) :: content g')) as Hperm.
      { rewrite Hcont, (content_at g' pre e r Hl' (eq_sym Hc')).
        change (g_mask g') with (g_mask g). fold d.
        change (g_promo g') with (g_promo g + 1). rewrite N.add_1_r, N2Nat.inj_succ.
        apply perm_mid3. apply (promo_entry_step (g_promo g) d e Hp Hd Hma Hk4). }
      split; [|split; [exact Hperm|split; [reflexivity|exact Hwf']]].
      apply (visible_intro g _ _ Hperm). rewrite in_mask_mk. exact Hmm.
  - (* ordinary entry *)
    assert (g_promo g = 0) as Hk0.
    { destruct (N.eq_dec (g_promo g) 0) as [H0|H0]; [exact H0|].
      destruct (wf_group g Hwf H0) as (e0 & He0 & Hp0).
      rewrite (cursor_entry g pre e r e0 Hl Hc He0) in Hp0. congruence. }
    rewrite Hk0 in *.
    eexists. eexists. split; [reflexivity|].
    set (e' := {| e_src := e_src e; e_moves := cleared (e_moves e) d; e_promo := false |}).
    match goal with |- next_result _ _ ?G => set (g' := G) end.
    assert (wf g') as Hwf'.
    { apply (wf_after_clear g pre e r e' _ Hwf Hl Hc Hlive); [reflexivity|reflexivity|exact Hpre]. }
    assert (Permutation (content g) (mk_move (e_src e) d None :: content g')) as Hperm.
    { rewrite Hcont, (content_promo0 g' eq_refl).
      change (g_moves g') with (pre ++ e' :: r). rewrite flat_map_app, flat_map_cons'.
      change (N.to_nat 0) with O. rewrite entry_moves_from_0.
      apply perm_mid3.
      apply nonpromo_entry_step; try assumption; try reflexivity. symmetry. exact Hp. }
    split; [|split; [exact Hperm|split; [reflexivity|exact Hwf']]].
    apply (visible_intro g _ _ Hperm). rewrite in_mask_mk. exact Hmm.
Qed.

(* ------------------------------------------------------------------ *)
(** * next *)

Lemma cursor_none : forall g pre, wf g -> g_moves g = pre ++ [] -> length pre = cursor g ->
  (forall x, In x pre -> live g x = false) ->
  nth_error (g_moves g) (cursor g) = None /\ visible g = [] /\ g_promo g = 0.
Proof.
  intros g pre Hwf Hl Hc Hpre. rewrite app_nil_r in Hl.
  assert (nth_error (g_moves g) (cursor g) = None) as Hn.
  { apply nth_error_None. rewrite <- Hc, Hl. lia. }
  split; [exact Hn|]. split.
  - rewrite visible_eq, (content_end g Hn), Hl. apply visible_dead_list. exact Hpre.
  - destruct (N.eq_dec (g_promo g) 0) as [H0|H0]; [exact H0|].
    destruct (wf_group g Hwf H0) as (e0 & He0 & _). congruence.
Qed.

Theorem next_sound : forall g m g', wf g -> mg_next g = (Some m, g') ->
  In m (visible g) /\ Permutation (content g) (m :: content g') /\ g_mask g' = g_mask g /\ wf g'.
Proof.
  intros g m g' Hwf Hnext.
  destruct (cursor_split g Hwf) as (pre & rest & Hl & Hc & Hpre & Hrest & _).
  destruct Hrest as [->|(e & r & -> & Hlive)].
  - destruct (cursor_none g pre Hwf Hl Hc Hpre) as (Hn & _ & _).
    unfold mg_next in Hnext. cbv zeta in Hnext.
    change (skip_dead g (skipn (g_index g) (g_moves g)) (g_index g)) with (cursor g) in Hnext.
    rewrite Hn in Hnext. discriminate.
  - destruct (next_step g pre e r Hwf Hl Hc Hlive Hpre) as (m0 & g0 & Heq & Hres).
    rewrite Heq in Hnext. injection Hnext as <- <-. exact Hres.
Qed.

Lemma next_none_result : forall g, nth_error (g_moves g) (cursor g) = None ->
  mg_next g = (None, {| g_moves := g_moves g; g_promo := g_promo g; g_mask := g_mask g; g_index := cursor g |}).
Proof.
  intros g Hn. unfold mg_next. cbv zeta.
  change (skip_dead g (skipn (g_index g) (g_moves g)) (g_index g)) with (cursor g).
  rewrite Hn. reflexivity.
Qed.

Theorem next_none : forall g, wf g -> (fst (mg_next g) = None <-> visible g = []).
Proof.
  intros g Hwf.
  destruct (cursor_split g Hwf) as (pre & rest & Hl & Hc & Hpre & Hrest & _).
  destruct Hrest as [->|(e & r & -> & Hlive)].
  - destruct (cursor_none g pre Hwf Hl Hc Hpre) as (Hn & Hv & _).
    rewrite (next_none_result g Hn). split; intros _; [exact Hv|reflexivity].
  - destruct (next_step g pre e r Hwf Hl Hc Hlive Hpre) as (m0 & g0 & Heq & Hres).
    rewrite Heq. destruct Hres as (Hin & _). split; intros H; [discriminate|].
    rewrite H in Hin. destruct Hin.
Qed.

Theorem next_none_state : forall g g', wf g -> mg_next g = (None, g') ->
  visible g = [] /\ content g' = content g /\ g_mask g' = g_mask g /\ g_promo g' = 0 /\ wf g'.
Proof.
  intros g g' Hwf Hnext.
  destruct (cursor_split g Hwf) as (pre & rest & Hl & Hc & Hpre & Hrest & _).
  destruct Hrest as [->|(e & r & -> & Hlive)].
  - destruct (cursor_none g pre Hwf Hl Hc Hpre) as (Hn & Hv & H0).
    rewrite (next_none_result g Hn) in Hnext. injection Hnext as <-.
    match goal with |- context [content ?G] => set (g' := G) end.
    assert (g_promo g' = 0) as H0' by exact H0.
    split; [exact Hv|]. split; [|split; [reflexivity|split; [exact H0'|]]].
    + rewrite (content_promo0 g' H0'), (content_promo0 g H0). reflexivity.
    + rewrite app_nil_r in Hl. constructor.
      * apply (wf_words g Hwf).
      * apply (wf_promo g Hwf).
      * change (g_index g') with (cursor g). change (g_moves g') with (g_moves g). rewrite <- Hc, Hl. lia.
      * change (g_index g') with (cursor g). change (g_moves g') with (g_moves g).
        rewrite <- Hc, Hl, firstn_all. intros x Hx. rewrite (live_mask g g' x eq_refl). apply Hpre, Hx.
      * intros H. contradiction.
  - destruct (next_step g pre e r Hwf Hl Hc Hlive Hpre) as (m0 & g0 & Heq & _).
    rewrite Heq in Hnext. discriminate.
Qed.

Lemma visible_nil_promo0 : forall g, wf g -> visible g = [] -> g_promo g = 0.
Proof.
  intros g Hwf Hv.
  destruct (cursor_split g Hwf) as (pre & rest & Hl & Hc & Hpre & Hrest & _).
  destruct Hrest as [->|(e & r & -> & Hlive)].
  - apply (cursor_none g pre Hwf Hl Hc Hpre).
  - destruct (next_step g pre e r Hwf Hl Hc Hlive Hpre) as (m0 & g0 & _ & Hin & _).
    rewrite Hv in Hin. destruct Hin.
Qed.

(* ------------------------------------------------------------------ *)
(** * is_empty *)

Theorem is_empty_exact : forall g, wf g -> (mg_is_empty g = true <-> visible g = []).
Proof.
  intros g Hwf.
  destruct (cursor_split g Hwf) as (pre & rest & Hl & Hc & Hpre & Hrest & dead & Hsk & Hdead).
  unfold mg_is_empty. rewrite Hsk.
  destruct Hrest as [->|(e & r & -> & Hlive)].
  - destruct (cursor_none g pre Hwf Hl Hc Hpre) as (_ & Hv & _).
    split; intros _; [exact Hv|].
    apply forallb_forall. intros x Hx. rewrite app_nil_r in Hx. rewrite (Hdead x Hx). reflexivity.
  - destruct (next_step g pre e r Hwf Hl Hc Hlive Hpre) as (m0 & g0 & _ & Hin & _).
    split; intros H.
    + rewrite forallb_forall in H. specialize (H e (in_elt e dead r)). rewrite Hlive in H. discriminate.
    + rewrite H in Hin. destruct Hin.
Qed.

(* ------------------------------------------------------------------ *)
(** * len *)

Definition len_step (M : N) (acc : N * N) (e : entry) : N * N :=
  let '(len, inprog) := acc in
  let cnt := count (bb_and (e_moves e) M) in
  if cnt =? 0 then (len, inprog)
  else ((len + (if e_promo e then cnt * 4 - inprog else cnt)), 0).

Lemma mg_len_eq : forall g,
  mg_len g = fst (fold_left (len_step (g_mask g)) (skipn (g_index g) (g_moves g)) (0, g_promo g)).
Proof. intros g. unfold mg_len. reflexivity. Qed.

Lemma count_0 : count 0 = 0.
Proof. reflexivity. Qed.

Lemma len_step_dead : forall g acc e, live g e = false -> len_step (g_mask g) acc e = acc.
Proof.
  intros g [len k] e H. unfold len_step. unfold live in H. rewrite (any_false_0 _ H), count_0.
  rewrite N.eqb_refl. reflexivity.
Qed.

Lemma len_fold_dead : forall g l acc, (forall e, In e l -> live g e = false) ->
  fold_left (len_step (g_mask g)) l acc = acc.
Proof.
  intros g l. induction l as [|e l IH]; intros acc H; [reflexivity|].
  cbn [fold_left]. rewrite (len_step_dead g acc e (H e (or_introl eq_refl))). apply IH.
  intros x Hx. apply H. right. exact Hx.
Qed.

Lemma entry_visible_count : forall M e, wf64 (e_moves e) ->
  N.of_nat (length (filter (in_mask M) (entry_moves e)))
  = let cnt := count (bb_and (e_moves e) M) in if e_promo e then cnt * 4 else cnt.
Proof.
  intros M e Hw. cbv zeta. rewrite visible_entry, length_flat_dest0.
  rewrite (count_spec (bb_and (e_moves e) M)) by (apply wf64_land_l, Hw).
  destruct (e_promo e); lia.
Qed.

Lemma len_step_fresh : forall M len e, wf64 (e_moves e) ->
  len_step M (len, 0) e = (len + N.of_nat (length (filter (in_mask M) (entry_moves e))), 0).
Proof.
  intros M len e Hw. rewrite (entry_visible_count M e Hw). cbv zeta. unfold len_step.
  set (cnt := count (bb_and (e_moves e) M)).
  destruct (N.eqb_spec cnt 0) as [H0|H0].
  - rewrite H0. destruct (e_promo e); f_equal; lia.
  - destruct (e_promo e); f_equal; lia.
Qed.

Lemma len_fold_fresh : forall M r len, (forall e, In e r -> wf64 (e_moves e)) ->
  fst (fold_left (len_step M) r (len, 0))
  = len + N.of_nat (length (filter (in_mask M) (flat_map entry_moves r))).
Proof.
  intros M r. induction r as [|e r IH]; intros len Hw.
  - cbn [fold_left flat_map filter length fst]. lia.
  - cbn [fold_left]. rewrite (len_step_fresh M len e (Hw e (or_introl eq_refl))).
    rewrite IH by (intros x Hx; apply Hw; right; exact Hx).
    rewrite flat_map_cons', filter_app, app_length. lia.
Qed.

Lemma len_step_cursor : forall g len e, wf64 (e_moves e) -> live g e = true -> g_promo g < 4 ->
  (g_promo g <> 0 -> e_promo e = true) ->
  len_step (g_mask g) (len, g_promo g) e
  = (len + N.of_nat (length (filter (in_mask (g_mask g))
                       (entry_moves_from (N.to_nat (g_promo g)) (tz64 (bb_and (e_moves e) (g_mask g))) e))), 0).
Proof.
  intros g len e Hw Hlive Hk Hgrp.
  destruct (N.eq_dec (g_promo g) 0) as [H0|H0].
  - rewrite H0. change (N.to_nat 0) with O. rewrite entry_moves_from_0. apply len_step_fresh, Hw.
  - specialize (Hgrp H0).
    destruct (pick_spec (e_moves e) (g_mask g) Hw Hlive) as (Hd & Hma & Hmm & _).
    set (d := tz64 (bb_and (e_moves e) (g_mask g))) in *.
    rewrite visible_entry_from, Hgrp.
    assert (wf64 (bb_and (e_moves e) (g_mask g))) as Hw' by (apply wf64_land_l, Hw).
    assert (In d (elements (bb_and (e_moves e) (g_mask g)))) as Hin.
    { apply elements_spec. split; [exact Hd|]. rewrite mem_and, Hma, Hmm. reflexivity. }
    pose proof (length_flat_dest_k (e_src e) d (N.to_nat (g_promo g)) _ ltac:(lia)
                  (elements_NoDup (bb_and (e_moves e) (g_mask g))) Hin) as Hlen.
    unfold len_step. rewrite Hgrp, (count_spec _ Hw').
    revert Hin Hlen. generalize (elements (bb_and (e_moves e) (g_mask g))). intros L Hin Hlen.
    destruct L as [|x L]; [destruct Hin|]. cbn [length] in *.
    destruct (N.eqb_spec (N.of_nat (S (length L))) 0) as [Hz|Hz]; [lia|].
    f_equal. lia.
Qed.

Theorem len_exact : forall g, wf g -> mg_len g = N.of_nat (length (visible g)).
Proof.
  intros g Hwf.
  destruct (cursor_split g Hwf) as (pre & rest & Hl & Hc & Hpre & Hrest & dead & Hsk & Hdead).
  rewrite mg_len_eq, Hsk, fold_left_app, (len_fold_dead g dead _ Hdead).
  destruct Hrest as [->|(e & r & -> & Hlive)].
  - destruct (cursor_none g pre Hwf Hl Hc Hpre) as (_ & Hv & _). rewrite Hv. reflexivity.
  - assert (forall x, In x (pre ++ e :: r) -> wf64 (e_moves x)) as Hw.
    { rewrite <- Hl. apply (wf_words g Hwf). }
    cbn [fold_left].
    rewrite (len_step_cursor g 0 e (Hw e (in_elt e pre r)) Hlive (wf_promo g Hwf)).
    + rewrite len_fold_fresh by (intros x Hx; apply Hw, in_or_app; right; right; exact Hx).
      rewrite visible_eq, (content_at g pre e r Hl Hc), !filter_app, !app_length.
      rewrite (visible_dead_list g pre Hpre). cbn [length]. lia.
    + intros H0. destruct (wf_group g Hwf H0) as (e0 & He0 & Hp0).
      rewrite (cursor_entry g pre e r e0 Hl Hc He0) in Hp0. exact Hp0.
Qed.

Corollary size_hint_exact : forall g, wf g ->
  mg_size_hint g = (N.of_nat (length (visible g)), Some (N.of_nat (length (visible g)))).
Proof. intros g Hwf. unfold mg_size_hint. rewrite (len_exact g Hwf). reflexivity. Qed.

(* ------------------------------------------------------------------ *)
(** * Draining *)

Lemma Permutation_filter' : forall (A : Type) (f : A -> bool) l l',
  Permutation l l' -> Permutation (filter f l) (filter f l').
Proof.
  intros A f l l' H. induction H as [|x l l' H IH|x y l|l l' l'' H1 IH1 H2 IH2].
  - apply Permutation_refl.
  - cbn [filter]. destruct (f x); [apply perm_skip|]; exact IH.
  - cbn [filter]. destruct (f x), (f y); try apply Permutation_refl. apply perm_swap.
  - eapply Permutation_trans; eassumption.
Qed.

Lemma NoDup_app_l : forall (A : Type) (l l' : list A), NoDup (l ++ l') -> NoDup l.
Proof.
  intros A l l'. induction l as [|x l IH]; intros H; [constructor|].
  rewrite <- app_comm_cons in H. inversion H as [|x' l0 Hnotin Hnd]. subst x' l0.
  constructor; [|apply IH, Hnd]. intros Hin. apply Hnotin, in_or_app. left. exact Hin.
Qed.

Lemma visible_step : forall g m g', In m (visible g) -> Permutation (content g) (m :: content g') ->
  g_mask g' = g_mask g -> Permutation (visible g) (m :: visible g').
Proof.
  intros g m g' Hin Hperm Hmask. rewrite visible_eq in Hin. apply filter_In in Hin. destruct Hin as [_ Hm].
  rewrite !visible_eq, Hmask.
  pose proof (Permutation_filter' _ (in_mask (g_mask g)) _ _ Hperm) as H.
  cbn [filter] in H. rewrite Hm in H. exact H.
Qed.

Lemma mg_run_fuel_S : forall f g, mg_run_fuel (S f) g
  = match mg_next g with
    | (Some m, g') => let '(ms, g'') := mg_run_fuel f g' in (m :: ms, g'')
    | (None, g') => ([], g')
    end.
Proof. reflexivity. Qed.

Lemma mg_drain_fuel_S : forall f g, mg_drain_fuel (S f) g
  = match mg_next g with (Some m, g') => m :: mg_drain_fuel f g' | (None, _) => [] end.
Proof. reflexivity. Qed.

Lemma drain_run : forall fuel g, mg_drain_fuel fuel g = fst (mg_run_fuel fuel g).
Proof.
  intros fuel. induction fuel as [|f IH]; intros g; [reflexivity|].
  rewrite mg_drain_fuel_S, mg_run_fuel_S. destruct (mg_next g) as [[m|] g1]; [|reflexivity].
  rewrite IH. destruct (mg_run_fuel f g1) as [ms g2]. reflexivity.
Qed.

(* whatever the fuel: what was yielded plus what is left is what there was *)
Lemma run_prefix : forall fuel g ms g', wf g -> mg_run_fuel fuel g = (ms, g') ->
  Permutation (content g) (ms ++ content g') /\ Permutation (visible g) (ms ++ visible g') /\
  g_mask g' = g_mask g /\ wf g'.
Proof.
  intros fuel. induction fuel as [|f IH]; intros g ms g' Hwf Hrun.
  - injection Hrun as <- <-.
    split; [apply Permutation_refl|split; [apply Permutation_refl|split; [reflexivity|exact Hwf]]].
  - rewrite mg_run_fuel_S in Hrun. destruct (mg_next g) as [[m|] g1] eqn:Hnext.
    + destruct (next_sound g m g1 Hwf Hnext) as (Hin & Hperm & Hmask & Hwf1).
      destruct (mg_run_fuel f g1) as [ms1 g2] eqn:Hrun1. injection Hrun as <- <-.
      destruct (IH g1 ms1 g2 Hwf1 Hrun1) as (Hc1 & Hv1 & Hm1 & Hwf2).
      split; [|split; [|split]].
      * rewrite <- app_comm_cons. eapply Permutation_trans; [exact Hperm|]. apply perm_skip, Hc1.
      * rewrite <- app_comm_cons. eapply Permutation_trans; [exact (visible_step g m g1 Hin Hperm Hmask)|].
        apply perm_skip, Hv1.
      * rewrite Hm1. exact Hmask.
      * exact Hwf2.
    + injection Hrun as <- <-.
      destruct (next_none_state g g1 Hwf Hnext) as (Hv & Hc & Hmask & _ & Hwf1).
      split; [|split; [|split]].
      * rewrite Hc. apply Permutation_refl.
      * rewrite !visible_eq, Hc, Hmask. apply Permutation_refl.
      * exact Hmask.
      * exact Hwf1.
Qed.

(* enough fuel: everything visible was yielded *)
Lemma run_complete : forall fuel g ms g', wf g -> (length (visible g) <= fuel)%nat ->
  mg_run_fuel fuel g = (ms, g') -> visible g' = [] /\ g_promo g' = 0.
Proof.
  intros fuel. induction fuel as [|f IH]; intros g ms g' Hwf Hlen Hrun.
  - injection Hrun as <- <-.
    assert (visible g = []) as Hv by (destruct (visible g); [reflexivity|cbn [length] in Hlen; lia]).
    split; [exact Hv|apply (visible_nil_promo0 g Hwf Hv)].
  - rewrite mg_run_fuel_S in Hrun. destruct (mg_next g) as [[m|] g1] eqn:Hnext.
    + destruct (next_sound g m g1 Hwf Hnext) as (Hin & Hperm & Hmask & Hwf1).
      destruct (mg_run_fuel f g1) as [ms1 g2] eqn:Hrun1. injection Hrun as <- <-.
      apply (IH g1 ms1 g2 Hwf1); [|exact Hrun1].
      pose proof (Permutation_length (visible_step g m g1 Hin Hperm Hmask)) as Hl.
      cbn [length] in Hl. lia.
    + injection Hrun as <- <-.
      destruct (next_none_state g g1 Hwf Hnext) as (Hv & Hc & Hmask & H0 & Hwf1).
      split; [|exact H0]. rewrite visible_eq, Hc, Hmask, <- visible_eq. exact Hv.
Qed.

Lemma drain_fuel_complete : forall fuel g, wf g -> (length (visible g) <= fuel)%nat ->
  Permutation (mg_drain_fuel fuel g) (visible g).
Proof.
  intros fuel g Hwf Hlen. rewrite drain_run. destruct (mg_run_fuel fuel g) as [ms g'] eqn:Hrun.
  destruct (run_prefix fuel g ms g' Hwf Hrun) as (_ & Hv & _).
  destruct (run_complete fuel g ms g' Hwf Hlen Hrun) as (Hnil & _).
  rewrite Hnil, app_nil_r in Hv. apply Permutation_sym. exact Hv.
Qed.

Lemma drain_fuel_NoDup : forall fuel g, wf g -> NoDup (content g) -> NoDup (mg_drain_fuel fuel g).
Proof.
  intros fuel g Hwf Hnd. rewrite drain_run. destruct (mg_run_fuel fuel g) as [ms g'] eqn:Hrun.
  destruct (run_prefix fuel g ms g' Hwf Hrun) as (Hc & _).
  apply (NoDup_app_l _ ms (content g')). apply (Permutation_NoDup Hc Hnd).
Qed.

(* every move the iterator yields is a visible one, whatever the fuel *)
Lemma drain_fuel_sound : forall fuel g m, wf g -> In m (mg_drain_fuel fuel g) -> In m (visible g).
Proof.
  intros fuel g m Hwf Hin. rewrite drain_run in Hin. destruct (mg_run_fuel fuel g) as [ms g'] eqn:Hrun.
  destruct (run_prefix fuel g ms g' Hwf Hrun) as (_ & Hv & _).
  apply (Permutation_in m (Permutation_sym Hv)). apply in_or_app. left. exact Hin.
Qed.

(* the drain fuel (MoveGen.drain_bound) always suffices: it counts four moves per destination bit *)
Definition bound_sum (l : list entry) : nat :=
  fold_right (fun e a => (4 * N.to_nat (count (e_moves e)) + a)%nat) O l.

Lemma drain_bound_eq : forall g, drain_bound g = S (bound_sum (g_moves g)).
Proof. reflexivity. Qed.

Lemma bound_sum_app : forall l1 l2, bound_sum (l1 ++ l2) = (bound_sum l1 + bound_sum l2)%nat.
Proof.
  intros l1 l2. induction l1 as [|e l1 IH]; [reflexivity|].
  change (bound_sum ((e :: l1) ++ l2)) with (4 * N.to_nat (count (e_moves e)) + bound_sum (l1 ++ l2))%nat.
  change (bound_sum (e :: l1)) with (4 * N.to_nat (count (e_moves e)) + bound_sum l1)%nat.
  rewrite IH. lia.
Qed.

Lemma dest_moves_length : forall src promo k d, (length (dest_moves src promo k d) <= 4)%nat.
Proof.
  intros src promo k d. unfold dest_moves. destruct promo.
  - rewrite map_length, skipn_length. change (length promo_pieces) with 4%nat. lia.
  - cbn [length]. lia.
Qed.

Lemma flat_map_length_le : forall (A B : Type) (f : A -> list B) n l,
  (forall x, In x l -> (length (f x) <= n)%nat) -> (length (flat_map f l) <= n * length l)%nat.
Proof.
  intros A B f n l H. induction l as [|x l IH]; [cbn [flat_map length]; lia|].
  cbn [flat_map]. rewrite app_length. cbn [length].
  pose proof (H x (or_introl eq_refl)) as Hx.
  assert (length (flat_map f l) <= n * length l)%nat as Hl by (apply IH; intros y Hy; apply H; right; exact Hy).
  lia.
Qed.

Lemma entry_moves_from_length : forall k d0 e, wf64 (e_moves e) ->
  (length (entry_moves_from k d0 e) <= 4 * N.to_nat (count (e_moves e)))%nat.
Proof.
  intros k d0 e Hw. rewrite (count_spec _ Hw), Nat2N.id. unfold entry_moves_from.
  apply flat_map_length_le. intros d _. apply dest_moves_length.
Qed.

Lemma entry_moves_length : forall e, wf64 (e_moves e) ->
  (length (entry_moves e) <= 4 * N.to_nat (count (e_moves e)))%nat.
Proof.
  intros e Hw. rewrite (count_spec _ Hw), Nat2N.id. unfold entry_moves.
  apply flat_map_length_le. intros d _. apply dest_moves_length.
Qed.

Lemma flat_entry_moves_length : forall l, (forall e, In e l -> wf64 (e_moves e)) ->
  (length (flat_map entry_moves l) <= bound_sum l)%nat.
Proof.
  intros l. induction l as [|e l IH]; intros Hw; [cbn [flat_map length bound_sum fold_right]; lia|].
  cbn [flat_map]. rewrite app_length.
  change (bound_sum (e :: l)) with (4 * N.to_nat (count (e_moves e)) + bound_sum l)%nat.
  pose proof (entry_moves_length e (Hw e (or_introl eq_refl))) as He.
  assert (length (flat_map entry_moves l) <= bound_sum l)%nat as Hl by (apply IH; intros x Hx; apply Hw; right; exact Hx).
  lia.
Qed.

Lemma content_le_bound : forall g, (forall e, In e (g_moves g) -> wf64 (e_moves e)) ->
  (length (content g) < drain_bound g)%nat.
Proof.
  intros g Hw. rewrite drain_bound_eq. apply Nat.lt_succ_r. unfold content.
  destruct (nth_error (g_moves g) (cursor g)) as [e|] eqn:En.
  - destruct (nth_error_split _ _ En) as (l1 & l2 & El & Hlen).
    assert (firstn (cursor g) (g_moves g) = l1) as E1.
    { rewrite El, <- Hlen. rewrite firstn_app, Nat.sub_diag, firstn_all. cbn [firstn]. apply app_nil_r. }
    assert (skipn (S (cursor g)) (g_moves g) = l2) as E2.
    { rewrite El, <- Hlen. change (l1 ++ e :: l2) with (l1 ++ [e] ++ l2). rewrite app_assoc.
      replace (S (length l1)) with (length (l1 ++ [e])) by (rewrite app_length; cbn [length]; lia).
      rewrite skipn_app, Nat.sub_diag, skipn_all. reflexivity. }
    rewrite E1, E2, !app_length. rewrite El, bound_sum_app.
    change (bound_sum (e :: l2)) with (4 * N.to_nat (count (e_moves e)) + bound_sum l2)%nat.
    assert (forall x, In x l1 -> wf64 (e_moves x)) as W1
      by (intros x Hx; apply Hw; rewrite El; apply in_or_app; left; exact Hx).
    assert (forall x, In x l2 -> wf64 (e_moves x)) as W2
      by (intros x Hx; apply Hw; rewrite El; apply in_or_app; right; right; exact Hx).
    assert (wf64 (e_moves e)) as We by (apply Hw; rewrite El; apply in_or_app; right; left; reflexivity).
    pose proof (flat_entry_moves_length l1 W1) as H1.
    pose proof (flat_entry_moves_length l2 W2) as H2.
    pose proof (entry_moves_from_length (N.to_nat (g_promo g)) (tz64 (bb_and (e_moves e) (g_mask g))) e We) as H3.
    lia.
  - apply flat_entry_moves_length, Hw.
Qed.

Lemma filter_length_le0 : forall (A : Type) (f : A -> bool) l, (length (filter f l) <= length l)%nat.
Proof.
  intros A f l. induction l as [|x l IH]; [cbn [filter length]; lia|].
  cbn [filter]. destruct (f x); cbn [length]; lia.
Qed.

Lemma visible_le_bound : forall g, wf g -> (length (visible g) <= drain_bound g)%nat.
Proof.
  intros g Hwf. pose proof (content_le_bound g (wf_words g Hwf)) as H.
  unfold visible. pose proof (filter_length_le0 _ (in_mask (g_mask g)) (content g)) as H2. lia.
Qed.

Theorem drain_complete : forall g, wf g -> Permutation (mg_drain g) (visible g).
Proof. intros g Hwf. unfold mg_drain. apply drain_fuel_complete; [exact Hwf|apply visible_le_bound, Hwf]. Qed.

Theorem drain_NoDup : forall g, wf g -> NoDup (content g) -> NoDup (mg_drain g).
Proof. intros g Hwf Hnd. unfold mg_drain. apply drain_fuel_NoDup; assumption. Qed.

Theorem drain_sound : forall g m, wf g -> In m (mg_drain g) -> In m (visible g).
Proof. intros g m Hwf. unfold mg_drain. apply drain_fuel_sound, Hwf. Qed.

(* ------------------------------------------------------------------ *)
(** * set_mask *)

Lemma set_nth_perm1 : forall (A : Type) (l : list A) j ej x, nth_error l j = Some ej ->
  Permutation (ej :: Rules.set_nth l j x) (x :: l).
Proof.
  intros A l. induction l as [|y l IH]; intros j ej x H.
  - destruct j; discriminate.
  - destruct j as [|j].
    + injection H as ->. cbn [Rules.set_nth]. apply perm_swap.
    + cbn [nth_error] in H. cbn [Rules.set_nth].
      eapply Permutation_trans; [apply perm_swap|].
      eapply Permutation_trans; [apply perm_skip, (IH j ej x H)|]. apply perm_swap.
Qed.

Lemma set_nth_swap_perm : forall (A : Type) (l : list A) i j ei ej,
  nth_error l i = Some ei -> nth_error l j = Some ej ->
  Permutation (Rules.set_nth (Rules.set_nth l i ej) j ei) l.
Proof.
  intros A l. induction l as [|x l IH]; intros i j ei ej Hi Hj.
  - destruct i; discriminate.
  - destruct i as [|i], j as [|j].
    + injection Hi as ->. injection Hj as ->. apply Permutation_refl.
    + injection Hi as ->. cbn [nth_error] in Hj. cbn [Rules.set_nth]. apply (set_nth_perm1 _ l j ej ei Hj).
    + injection Hj as ->. cbn [nth_error] in Hi. cbn [Rules.set_nth]. apply (set_nth_perm1 _ l i ei ej Hi).
    + cbn [nth_error] in Hi, Hj. cbn [Rules.set_nth]. apply perm_skip, (IH i j ei ej Hi Hj).
Qed.

Lemma swap_front_perm : forall fuel l i j mask, Permutation (swap_front fuel l i j mask) l.
Proof.
  intros fuel. induction fuel as [|f IH]; intros l i j mask; [apply Permutation_refl|].
  cbn [swap_front]. destruct (nth_error l i) as [ei|] eqn:Hi; [|apply Permutation_refl].
  destruct (any (bb_and (e_moves ei) mask)); [|apply IH].
  destruct (Nat.eqb i j); [apply IH|].
  destruct (nth_error l j) as [ej|] eqn:Hj; [|apply IH].
  eapply Permutation_trans; [apply IH|]. apply (set_nth_swap_perm _ l i j ei ej Hi Hj).
Qed.

Theorem set_mask_spec : forall g M, wf g -> g_promo g = 0 ->
  Permutation (content (mg_set_mask g M)) (content g) /\
  g_mask (mg_set_mask g M) = M /\ g_promo (mg_set_mask g M) = 0 /\ wf (mg_set_mask g M).
Proof.
  intros g M Hwf H0.
  set (g' := mg_set_mask g M).
  assert (g_promo g' = 0) as H0' by exact H0.
  assert (Permutation (g_moves g') (g_moves g)) as Hperm by apply swap_front_perm.
  split; [|split; [reflexivity|split; [exact H0'|]]].
  - rewrite (content_promo0 g' H0'), (content_promo0 g H0). apply Permutation_flat_map, Hperm.
  - constructor.
    + intros e He. apply (wf_words g Hwf). apply (Permutation_in e Hperm He).
    + rewrite H0'. lia.
    + change (g_index g') with O. lia.
    + change (g_index g') with O. rewrite firstn_O. intros e [].
    + intros H. contradiction.
Qed.

(* ------------------------------------------------------------------ *)
(** * remove, remove_move *)

Lemma flat_map_map' : forall (A B C : Type) (f : A -> B) (h : B -> list C) l,
  flat_map h (map f l) = flat_map (fun a => h (f a)) l.
Proof.
  intros A B C f h l. induction l as [|x l IH]; [reflexivity|].
  cbn [map]. rewrite !flat_map_cons', IH. reflexivity.
Qed.

Lemma filter_flat_map_inner : forall (A B : Type) (P : B -> bool) (f : A -> list B) l,
  filter P (flat_map f l) = flat_map (fun a => filter P (f a)) l.
Proof.
  intros A B P f l. induction l as [|x l IH]; [reflexivity|].
  rewrite !flat_map_cons', filter_app, IH. reflexivity.
Qed.

Lemma entry_moves_restrict : forall (P : N -> bool) e e',
  e_src e' = e_src e -> e_promo e' = e_promo e ->
  elements (e_moves e') = filter P (elements (e_moves e)) ->
  entry_moves e' = filter (fun x => P (m_dst x)) (entry_moves e).
Proof.
  intros P e e' Hs Hp He. rewrite filter_entry, (entry_moves_eq e'), Hs, Hp, He. reflexivity.
Qed.

Definition rm_entry (bb : N) (e : entry) : entry :=
  {| e_src := e_src e; e_moves := bb_diff (e_moves e) bb; e_promo := e_promo e |}.

Lemma mg_remove_moves : forall g bb, g_moves (mg_remove g bb) = map (rm_entry bb) (g_moves g).
Proof. reflexivity. Qed.

Definition not_in (bb : N) (x : move) : bool := negb (mem bb (m_dst x)).

Theorem remove_spec : forall g bb, wf g -> g_promo g = 0 ->
  content (mg_remove g bb) = filter (not_in bb) (content g) /\
  g_mask (mg_remove g bb) = g_mask g /\ g_promo (mg_remove g bb) = 0 /\ wf (mg_remove g bb).
Proof.
  intros g bb Hwf H0.
  set (g' := mg_remove g bb).
  assert (g_promo g' = 0) as H0' by exact H0.
  assert (g_mask g' = g_mask g) as Hmask by reflexivity.
  split; [|split; [reflexivity|split; [exact H0'|]]].
  - rewrite (content_promo0 g' H0'), (content_promo0 g H0).
    change (g_moves g') with (g_moves (mg_remove g bb)).
    rewrite mg_remove_moves, flat_map_map', filter_flat_map_inner.
    apply flat_map_ext. intros e.
    apply (entry_moves_restrict (fun d => negb (mem bb d)) e (rm_entry bb e) eq_refl eq_refl).
    apply elements_diff.
  - constructor.
    + change (g_moves g') with (g_moves (mg_remove g bb)). rewrite mg_remove_moves.
      intros e He. apply in_map_iff in He. destruct He as (e0 & <- & _). apply wf64_diff.
    + rewrite H0'. lia.
    + change (g_moves g') with (g_moves (mg_remove g bb)). rewrite mg_remove_moves, map_length.
      apply (wf_index g Hwf).
    + change (g_moves g') with (g_moves (mg_remove g bb)). rewrite mg_remove_moves.
      change (g_index g') with (g_index g). rewrite firstn_map.
      intros e He. apply in_map_iff in He. destruct He as (e0 & <- & He0).
      rewrite (live_mask g g' _ Hmask). pose proof (wf_passed g Hwf e0 He0) as Hd.
      unfold live in *. apply (dead_subset (e_moves e0)); [|exact Hd].
      intros s Hs. change (e_moves (rm_entry bb e0)) with (bb_diff (e_moves e0) bb) in Hs.
      rewrite mem_diff_full in Hs. apply andb_true_iff in Hs. apply Hs.
    + intros H. contradiction.
Qed.

Definition rmm_entry (m : move) (e : entry) : entry :=
  if e_src e =? m_src m
  then {| e_src := e_src e; e_moves := cleared (e_moves e) (m_dst m); e_promo := e_promo e |}
  else e.

Lemma mg_remove_move_moves : forall g m,
  g_moves (fst (mg_remove_move g m)) = map (rmm_entry m) (g_moves g).
Proof. reflexivity. Qed.

Lemma rmm_entry_moves : forall m e,
  entry_moves (rmm_entry m e) = filter (fun x => negb (same_src_dst m x)) (entry_moves e).
Proof.
  intros m e. unfold rmm_entry. destruct (N.eqb_spec (e_src e) (m_src m)) as [Hs|Hs].
  - rewrite (entry_moves_restrict (fun d => negb (d =? m_dst m)) e
               {| e_src := e_src e; e_moves := cleared (e_moves e) (m_dst m); e_promo := e_promo e |}
               eq_refl eq_refl (elements_cleared _ _)).
    apply filter_ext_in. intros x Hx. apply entry_moves_In in Hx. destruct Hx as [Hx _].
    unfold same_src_dst. rewrite Hx, Hs, N.eqb_refl. reflexivity.
  - symmetry. apply filter_all_true. intros x Hx. apply entry_moves_In in Hx. destruct Hx as [Hx _].
    unfold same_src_dst. rewrite Hx. apply N.eqb_neq in Hs. rewrite Hs. reflexivity.
Qed.

Theorem remove_move_spec : forall g m, wf g -> g_promo g = 0 ->
  let g' := fst (mg_remove_move g m) in
  content g' = filter (fun x => negb (same_src_dst m x)) (content g) /\
  snd (mg_remove_move g m) = existsb (fun e => e_src e =? m_src m) (g_moves g) /\
  ((exists x, In x (content g) /\ m_src x = m_src m) -> snd (mg_remove_move g m) = true) /\
  g_mask g' = g_mask g /\ g_promo g' = 0 /\ wf g'.
Proof.
  intros g m Hwf H0 g'.
  assert (g_promo g' = 0) as H0' by exact H0.
  assert (g_mask g' = g_mask g) as Hmask by reflexivity.
  assert (g_moves g' = map (rmm_entry m) (g_moves g)) as Hmoves by reflexivity.
  split; [|split; [reflexivity|split; [|split; [reflexivity|split; [exact H0'|]]]]].
  - rewrite (content_promo0 g' H0'), (content_promo0 g H0), Hmoves, flat_map_map', filter_flat_map_inner.
    apply flat_map_ext. intros e. apply rmm_entry_moves.
  - intros (x & Hx & Hsrc). change (snd (mg_remove_move g m)) with (existsb (fun e => e_src e =? m_src m) (g_moves g)).
    rewrite (content_promo0 g H0) in Hx. apply in_flat_map in Hx. destruct Hx as (e & He & Hx).
    apply entry_moves_In in Hx. destruct Hx as [Hx _].
    apply existsb_exists. exists e. split; [exact He|]. rewrite <- Hx, Hsrc. apply N.eqb_refl.
  - assert (forall e s, mem (e_moves (rmm_entry m e)) s = true -> mem (e_moves e) s = true) as Hsub.
    { intros e s. unfold rmm_entry. destruct (e_src e =? m_src m); [|auto].
      cbn [e_moves]. unfold cleared. rewrite mem_diff_full. intros Hs. apply andb_true_iff in Hs. apply Hs. }
    constructor.
    + rewrite Hmoves. intros e He. apply in_map_iff in He. destruct He as (e0 & <- & He0).
      unfold rmm_entry. destruct (e_src e0 =? m_src m); [apply wf64_cleared|apply (wf_words g Hwf), He0].
    + rewrite H0'. lia.
    + rewrite Hmoves, map_length. apply (wf_index g Hwf).
    + rewrite Hmoves. change (g_index g') with (g_index g). rewrite firstn_map.
      intros e He. apply in_map_iff in He. destruct He as (e0 & <- & He0).
      rewrite (live_mask g g' _ Hmask). pose proof (wf_passed g Hwf e0 He0) as Hd.
      unfold live in *. apply (dead_subset (e_moves e0)); [apply Hsub|exact Hd].
    + intros H. contradiction.
Qed.

(* remove_move removes exactly ONE move when the source entries are ordinary (non-promotion)
   entries and the move carries no promotion piece *)
Lemma dest_moves_nonpromo : forall src k d x, In x (dest_moves src false k d) -> m_promo x = None.
Proof. intros src k d x [<-|[]]. reflexivity. Qed.

Lemma entry_moves_nonpromo : forall e x, e_promo e = false -> In x (entry_moves e) -> m_promo x = None.
Proof.
  intros e x Hp Hx. rewrite entry_moves_eq, Hp in Hx. apply in_flat_map in Hx.
  destruct Hx as (d & _ & Hx). apply (dest_moves_nonpromo _ _ _ _ Hx).
Qed.

Corollary remove_move_exact : forall g m, wf g -> g_promo g = 0 -> m_promo m = None ->
  (forall e, In e (g_moves g) -> e_src e = m_src m -> e_promo e = false) ->
  content (fst (mg_remove_move g m)) = filter (fun x => negb (move_eqb x m)) (content g).
Proof.
  intros g m Hwf H0 Hm Hnp.
  destruct (remove_move_spec g m Hwf H0) as (Hc & _). rewrite Hc.
  apply filter_ext_in. intros x Hx. f_equal.
  rewrite (content_promo0 g H0) in Hx. apply in_flat_map in Hx. destruct Hx as (e & He & Hx).
  destruct (entry_moves_In e x Hx) as (Hsrc & _).
  unfold same_src_dst, move_eqb.
  destruct (N.eqb_spec (m_src x) (m_src m)) as [Hs|Hs]; [|reflexivity].
  destruct (m_dst x =? m_dst m); [|reflexivity].
  rewrite (entry_moves_nonpromo e x (Hnp e He (eq_trans (eq_sym Hsrc) Hs)) Hx), Hm. reflexivity.
Qed.

(* ------------------------------------------------------------------ *)
(** * Every interleaving of the operations: the model refines the abstract semantics *)

Lemma a_visible_pair : forall c M, a_visible (c, M) = filter (in_mask M) c.
Proof. reflexivity. Qed.

Lemma a_visible_abs : forall g, a_visible (content g, g_mask g) = visible g.
Proof. intros g. rewrite a_visible_pair, visible_eq. reflexivity. Qed.

Theorem step_refines : forall g o r g', wf g -> guard g o = true -> cstep g o = (r, g') ->
  astep (abs g) o r (abs g') /\ wf g'.
Proof.
  intros g o r g' Hwf Hguard Hstep. unfold abs. destruct o as [| | | |M|bb|m].
  - (* next *)
    unfold cstep in Hstep. destruct (mg_next g) as [[m|] g1] eqn:Hnext; injection Hstep as <- <-.
    + destruct (next_sound g m g1 Hwf Hnext) as (Hin & Hperm & Hmask & Hwf1).
      split; [|exact Hwf1]. rewrite Hmask. apply A_next_some; [|exact Hperm].
      rewrite a_visible_abs. exact Hin.
    + destruct (next_none_state g g1 Hwf Hnext) as (Hv & Hc & Hmask & _ & Hwf1).
      split; [|exact Hwf1]. rewrite Hmask, Hc. apply A_next_none; [|apply Permutation_refl].
      rewrite a_visible_abs. exact Hv.
  - (* len *)
    unfold cstep in Hstep. injection Hstep as <- <-. split; [|exact Hwf].
    rewrite (len_exact g Hwf), <- a_visible_abs. apply A_len.
  - (* is_empty *)
    unfold cstep in Hstep. injection Hstep as <- <-. split; [|exact Hwf].
    apply A_is_empty. rewrite a_visible_abs. apply (is_empty_exact g Hwf).
  - (* size_hint *)
    unfold cstep, mg_size_hint in Hstep. injection Hstep as <- <-. split; [|exact Hwf].
    rewrite (len_exact g Hwf), <- a_visible_abs. apply A_size_hint.
  - (* set_mask *)
    unfold cstep in Hstep. injection Hstep as <- <-.
    unfold guard in Hguard. apply N.eqb_eq in Hguard.
    destruct (set_mask_spec g M Hwf Hguard) as (Hc & Hmask & _ & Hwf1).
    split; [|exact Hwf1]. rewrite Hmask. apply A_set_mask. apply Permutation_sym. exact Hc.
  - (* remove *)
    unfold cstep in Hstep. injection Hstep as <- <-.
    unfold guard in Hguard. apply N.eqb_eq in Hguard.
    destruct (remove_spec g bb Hwf Hguard) as (Hc & Hmask & _ & Hwf1).
    split; [|exact Hwf1]. rewrite Hmask, Hc. apply A_remove. apply Permutation_refl.
  - (* remove_move *)
    unfold guard in Hguard. apply N.eqb_eq in Hguard.
    pose proof (remove_move_spec g m Hwf Hguard) as Hspec. cbv zeta in Hspec.
    unfold cstep in Hstep. destruct (mg_remove_move g m) as [g1 b] eqn:Hrm. injection Hstep as <- <-.
    cbn [fst snd] in Hspec. destruct Hspec as (Hc & _ & Hb & Hmask & _ & Hwf1).
    split; [|exact Hwf1]. rewrite Hmask, Hc. apply A_remove_move; [apply Permutation_refl|exact Hb].
Qed.

Theorem trace_refines : forall os g rs g', wf g -> crun g os = Some (rs, g') ->
  atrace (abs g) os rs (abs g') /\ wf g'.
Proof.
  intros os. induction os as [|o os IH]; intros g rs g' Hwf Hrun.
  - injection Hrun as <- <-. split; [apply AT_nil|exact Hwf].
  - cbn [crun] in Hrun. destruct (guard g o) eqn:Hguard; [|discriminate].
    destruct (cstep g o) as [r g1] eqn:Hstep.
    destruct (crun g1 os) as [[rs1 g2]|] eqn:Hrun1; [|discriminate]. injection Hrun as <- <-.
    destruct (step_refines g o r g1 Hwf Hguard Hstep) as (Ha & Hwf1).
    destruct (IH g1 rs1 g2 Hwf1 Hrun1) as (Ht & Hwf2).
    split; [|exact Hwf2]. exact (AT_cons _ _ _ _ _ _ _ Ha Ht).
Qed.

(* a freshly built generator is well-formed *)
Lemma wf_mg_new : forall entries mask, (forall e, In e entries -> wf64 (e_moves e)) -> wf (mg_new entries mask).
Proof.
  intros entries mask Hw. constructor.
  - exact Hw.
  - change (g_promo (mg_new entries mask)) with 0. lia.
  - change (g_index (mg_new entries mask)) with O. lia.
  - change (g_index (mg_new entries mask)) with O. rewrite firstn_O. intros e [].
  - intros H. contradiction H. reflexivity.
Qed.

(* ------------------------------------------------------------------ *)
(** * Successive masks that cover the board *)

Lemma filter_nil_all : forall (A : Type) (P : A -> bool) l x, filter P l = [] -> In x l -> P x = false.
Proof.
  intros A P l x. induction l as [|y l IH]; intros Hf Hin; [destruct Hin|].
  cbn [filter] in Hf. destruct (P y) eqn:E; [discriminate|].
  destruct Hin as [<-|Hin]; [exact E|apply IH; assumption].
Qed.

Lemma no_In_nil : forall (A : Type) (l : list A), (forall x, In x l -> False) -> l = [].
Proof. intros A [|x l] H; [reflexivity|]. destruct (H x (or_introl eq_refl)). Qed.

Lemma content_dst_lt : forall g x, g_promo g = 0 -> In x (content g) -> m_dst x < 64.
Proof.
  intros g x H0 Hx. rewrite (content_promo0 g H0) in Hx. apply in_flat_map in Hx.
  destruct Hx as (e & _ & Hx). apply (entry_moves_In e x Hx).
Qed.

(* one stage: drain under the current mask *)
Lemma run_stage : forall g ms g', wf g -> mg_run g = (ms, g') ->
  Permutation (content g) (ms ++ content g') /\ Permutation ms (visible g) /\
  (forall x, In x (content g') -> mem (g_mask g) (m_dst x) = false) /\
  wf g' /\ g_promo g' = 0 /\ g_mask g' = g_mask g.
Proof.
  intros g ms g' Hwf Hrun. unfold mg_run in Hrun.
  destruct (run_prefix _ g ms g' Hwf Hrun) as (Hc & Hv & Hmask & Hwf').
  pose proof (visible_le_bound g Hwf) as Hlv.
  destruct (run_complete _ g ms g' Hwf Hlv Hrun) as (Hnil & H0).
  split; [exact Hc|]. split; [|split; [|split; [exact Hwf'|split; [exact H0|exact Hmask]]]].
  - rewrite Hnil, app_nil_r in Hv. apply Permutation_sym, Hv.
  - intros x Hx. rewrite visible_eq, Hmask in Hnil. apply (filter_nil_all _ _ _ x Hnil Hx).
Qed.

Lemma cover_run_cons : forall g M Ms, cover_run g (M :: Ms)
  = let '(ms, g1) := mg_run (mg_set_mask g M) in
    let '(ms', g') := cover_run g1 Ms in (ms ++ ms', g').
Proof. reflexivity. Qed.

Theorem cover_spec : forall Ms g ms g', wf g -> g_promo g = 0 ->
  cover_run g Ms = (ms, g') ->
  Permutation (content g) (ms ++ content g') /\
  (forall M x, In M Ms -> In x (content g') -> mem M (m_dst x) = false) /\
  wf g' /\ g_promo g' = 0.
Proof.
  intros Ms. induction Ms as [|M Ms IH]; intros g ms g' Hwf H0 Hrun.
  - injection Hrun as <- <-. split; [apply Permutation_refl|]. split; [intros M x []|]. split; assumption.
  - rewrite cover_run_cons in Hrun.
    destruct (set_mask_spec g M Hwf H0) as (Hc0 & Hmask0 & _ & Hwf0).
    destruct (mg_run (mg_set_mask g M)) as [ms1 g1] eqn:Hrun1.
    destruct (cover_run g1 Ms) as [ms2 g2] eqn:Hrun2. injection Hrun as <- <-.
    destruct (run_stage _ ms1 g1 Hwf0 Hrun1) as (Hc1 & _ & Hout & Hwf1 & H01 & _).
    destruct (IH g1 ms2 g2 Hwf1 H01 Hrun2) as (Hc2 & Hout2 & Hwf2 & H02).
    split; [|split; [|split; assumption]].
    + eapply Permutation_trans; [apply Permutation_sym, Hc0|].
      eapply Permutation_trans; [exact Hc1|]. rewrite <- app_assoc. apply Permutation_app_head, Hc2.
    + intros M' x [<-|HM'] Hx; [|apply (Hout2 M' x HM' Hx)].
      rewrite <- Hmask0. apply Hout.
      apply (Permutation_in x (Permutation_sym Hc2)). apply in_or_app. right. exact Hx.
Qed.

Definition covers (Ms : list N) : Prop := forall s, s < 64 -> exists M, In M Ms /\ mem M s = true.

(* iterating under successive masks that together cover the board yields every remaining move,
   and each of them once *)
Theorem cover : forall Ms g, wf g -> g_promo g = 0 -> covers Ms ->
  Permutation (fst (cover_run g Ms)) (content g) /\ content (snd (cover_run g Ms)) = [].
Proof.
  intros Ms g Hwf H0 Hcov. destruct (cover_run g Ms) as [ms g'] eqn:Hrun. cbn [fst snd].
  destruct (cover_spec Ms g ms g' Hwf H0 Hrun) as (Hc & Hout & _ & H0').
  assert (content g' = []) as Hnil.
  { apply no_In_nil. intros x Hx.
    destruct (Hcov (m_dst x) (content_dst_lt g' x H0' Hx)) as (M & HM & Hmem).
    rewrite (Hout M x HM Hx) in Hmem. discriminate. }
  split; [|exact Hnil]. rewrite Hnil, app_nil_r in Hc. apply Permutation_sym, Hc.
Qed.

Corollary cover_NoDup : forall Ms g, wf g -> g_promo g = 0 -> covers Ms ->
  NoDup (content g) -> NoDup (fst (cover_run g Ms)).
Proof.
  intros Ms g Hwf H0 Hcov Hnd. destruct (cover Ms g Hwf H0 Hcov) as (Hp & _).
  apply (Permutation_NoDup (Permutation_sym Hp) Hnd).
Qed.

(* same, the first stage running under the mask the generator already has (legals_masked) *)
Theorem cover_current : forall Ms g, wf g -> covers (g_mask g :: Ms) ->
  let '(ms0, g1) := mg_run g in
  Permutation (ms0 ++ fst (cover_run g1 Ms)) (content g).
Proof.
  intros Ms g Hwf Hcov. destruct (mg_run g) as [ms0 g1] eqn:Hrun0.
  destruct (run_stage g ms0 g1 Hwf Hrun0) as (Hc1 & _ & Hout & Hwf1 & H01 & _).
  destruct (cover_run g1 Ms) as [ms g'] eqn:Hrun. cbn [fst].
  destruct (cover_spec Ms g1 ms g' Hwf1 H01 Hrun) as (Hc & Hout2 & _ & H0').
  assert (content g' = []) as Hnil.
  { apply no_In_nil. intros x Hx.
    destruct (Hcov (m_dst x) (content_dst_lt g' x H0' Hx)) as (M & [<-|HM] & Hmem).
    - rewrite Hout in Hmem; [discriminate|].
      apply (Permutation_in x (Permutation_sym Hc)). apply in_or_app. right. exact Hx.
    - rewrite (Hout2 M x HM Hx) in Hmem. discriminate. }
  rewrite Hnil, app_nil_r in Hc. apply Permutation_sym.
  eapply Permutation_trans; [exact Hc1|]. apply Permutation_app_head, Hc.
Qed.

(* ------------------------------------------------------------------ *)
(** * What a drain yields after set_mask / remove (between promotion groups) *)

Lemma filter_comm : forall (A : Type) (P Q : A -> bool) l, filter P (filter Q l) = filter Q (filter P l).
Proof.
  intros A P Q l. induction l as [|x l IH]; [reflexivity|].
  cbn [filter]. destruct (P x) eqn:EP, (Q x) eqn:EQ; cbn [filter]; rewrite ?EP, ?EQ, IH; reflexivity.
Qed.

Corollary set_mask_drain : forall g M, wf g -> g_promo g = 0 ->
  Permutation (mg_drain (mg_set_mask g M)) (filter (in_mask M) (content g)).
Proof.
  intros g M Hwf H0. destruct (set_mask_spec g M Hwf H0) as (Hc & Hmask & _ & Hwf').
  eapply Permutation_trans.
  - apply (drain_complete _ Hwf').
  - rewrite visible_eq, Hmask. apply Permutation_filter', Hc.
Qed.

Corollary remove_drain : forall g bb, wf g -> g_promo g = 0 ->
  Permutation (mg_drain (mg_remove g bb)) (filter (not_in bb) (visible g)).
Proof.
  intros g bb Hwf H0. destruct (remove_spec g bb Hwf H0) as (Hc & Hmask & _ & Hwf').
  assert (visible (mg_remove g bb) = filter (not_in bb) (visible g)) as Hv.
  { rewrite !visible_eq, Hmask, Hc. apply filter_comm. }
  rewrite <- Hv. apply (drain_complete _ Hwf').
Qed.

(* ------------------------------------------------------------------ *)
(** * Known classes where the code deviates: full statements, refuted on concrete generators *)

(* the unrestricted statements (NOT theorems) *)
Definition remove_move_exact_statement : Prop := forall g m, wf g -> g_promo g = 0 ->
  Permutation (content (fst (mg_remove_move g m))) (filter (fun x => negb (move_eqb x m)) (content g)).
Definition set_mask_statement : Prop := forall g M, wf g ->
  Permutation (content (mg_set_mask g M)) (content g).
Definition set_mask_drain_statement : Prop := forall g M, wf g ->
  Permutation (mg_drain (mg_set_mask g M)) (filter (in_mask M) (content g)).
Definition remove_statement : Prop := forall g bb, wf g ->
  Permutation (content (mg_remove g bb)) (filter (not_in bb) (content g)).
Definition remove_drain_statement : Prop := forall g bb, wf g ->
  Permutation (mg_drain (mg_remove g bb)) (filter (not_in bb) (visible g)).
Definition remove_move_statement : Prop := forall g m, wf g ->
  Permutation (content (fst (mg_remove_move g m))) (filter (fun x => negb (same_src_dst m x)) (content g)).

Definition sq56 : N := 72057594037927936.     (* from_pos 56 = A8 *)
Definition sq57 : N := 144115188075855872.    (* from_pos 57 = B8 *)

(* K1: a pawn on A7 with the single promotion destination A8, nothing yielded yet *)
Definition k1_gen : movegen := mg_new [{| e_src := 48; e_moves := sq56; e_promo := true |}] bb_full.
Definition k1_move : move := {| m_src := 48; m_dst := 56; m_promo := Some Queen |}.

Lemma k1_gen_wf : wf k1_gen.
Proof. apply wf_mg_new. intros e [<-|[]]. vm_compute. reflexivity. Qed.

(* remove_move of a7a8=Q removes the under-promotions a7a8=R/B/N too (entry granularity) *)
Lemma remove_move_promotion_refuted : ~ remove_move_exact_statement.
Proof.
  intros H. specialize (H k1_gen k1_move k1_gen_wf eq_refl).
  apply Permutation_length in H. vm_compute in H. discriminate H.
Qed.

Lemma remove_move_promotion_witness :
  content (fst (mg_remove_move k1_gen k1_move)) = [] /\
  filter (fun x => negb (move_eqb x k1_move)) (content k1_gen)
  = [ {| m_src := 48; m_dst := 56; m_promo := Some Rook |};
      {| m_src := 48; m_dst := 56; m_promo := Some Bishop |};
      {| m_src := 48; m_dst := 56; m_promo := Some Knight |} ].
Proof. split; vm_compute; reflexivity. Qed.

(* K2: a pawn on A7 that can promote on A8 and (capturing) on B8; a7a8=Q has been yielded *)
Definition k2_gen : movegen :=
  {| g_moves := [{| e_src := 48; e_moves := sq56 + sq57; e_promo := true |}];
     g_promo := 1; g_mask := bb_full; g_index := O |}.

Lemma k2_gen_wf : wf k2_gen.
Proof.
  constructor.
  - intros e [<-|[]]. vm_compute. reflexivity.
  - vm_compute. reflexivity.
  - apply Nat.leb_le. vm_compute. reflexivity.
  - intros e He. vm_compute in He. destruct He.
  - intros _. exists {| e_src := 48; e_moves := sq56 + sq57; e_promo := true |}.
    split; vm_compute; reflexivity.
Qed.

Lemma k2_small : (length (content k2_gen) <= 400)%nat /\ (length (visible k2_gen) <= 400)%nat.
Proof. split; apply Nat.leb_le; vm_compute; reflexivity. Qed.

(* the stale cursor: after set_mask {B8} the iterator yields a7b8=R/B/N but never a7b8=Q *)
Lemma set_mask_in_progress_refuted : ~ set_mask_drain_statement.
Proof.
  intros H. specialize (H k2_gen sq57 k2_gen_wf).
  apply Permutation_length in H. vm_compute in H. discriminate H.
Qed.

(* ... and it owes a7a8=Q a second time *)
Lemma set_mask_in_progress_content_refuted : ~ set_mask_statement.
Proof.
  intros H. specialize (H k2_gen sq57 k2_gen_wf).
  assert (In {| m_src := 48; m_dst := 56; m_promo := Some Queen |} (content (mg_set_mask k2_gen sq57))) as Hin
    by (vm_compute; left; reflexivity).
  apply (Permutation_in _ H) in Hin. vm_compute in Hin.
  repeat (destruct Hin as [Hin|Hin]; [discriminate Hin|]). destruct Hin.
Qed.

Lemma remove_in_progress_refuted : ~ remove_statement.
Proof.
  intros H. specialize (H k2_gen sq56 k2_gen_wf).
  apply Permutation_length in H. vm_compute in H. discriminate H.
Qed.

Lemma remove_in_progress_drain_refuted : ~ remove_drain_statement.
Proof.
  intros H. specialize (H k2_gen sq56 k2_gen_wf).
  apply Permutation_length in H. vm_compute in H. discriminate H.
Qed.

Lemma remove_move_in_progress_refuted : ~ remove_move_statement.
Proof.
  intros H. specialize (H k2_gen {| m_src := 48; m_dst := 56; m_promo := Some Rook |} k2_gen_wf).
  apply Permutation_length in H. vm_compute in H. discriminate H.
Qed.

(* what the code yields in the K2 situations *)
Lemma in_progress_witness :
  let b8 p := {| m_src := 48; m_dst := 57; m_promo := Some p |} in
  mg_drain (mg_remove k2_gen sq56) = [b8 Rook; b8 Bishop; b8 Knight] /\
  mg_drain (mg_set_mask k2_gen sq57) = [b8 Rook; b8 Bishop; b8 Knight] /\
  mg_drain (fst (mg_remove_move k2_gen {| m_src := 48; m_dst := 56; m_promo := Some Rook |}))
  = [b8 Rook; b8 Bishop; b8 Knight] /\
  filter (not_in sq56) (visible k2_gen) = [b8 Queen; b8 Rook; b8 Bishop; b8 Knight].
Proof. cbv zeta. repeat split; vm_compute; reflexivity. Qed.

(* remove_move answers "found" for an entry that has no move left: the flag is not a function of
   the remaining moves *)
Lemma remove_move_found_exhausted :
  let g := mg_new [{| e_src := 1; e_moves := 0; e_promo := false |}] bb_full in
  content g = [] /\ snd (mg_remove_move g {| m_src := 1; m_dst := 18; m_promo := None |}) = true.
Proof. cbv zeta. split; vm_compute; reflexivity. Qed.

(* ------------------------------------------------------------------ *)
(** * Generators built from a board are well-formed *)

Definition wf_entries (l : list entry) : Prop := forall e, In e l -> wf64 (e_moves e).

Lemma wf_entries_app : forall l1 l2, wf_entries l1 -> wf_entries l2 -> wf_entries (l1 ++ l2).
Proof. intros l1 l2 H1 H2 e He. apply in_app_or in He. destruct He; [apply H1|apply H2]; assumption. Qed.

Lemma wf_entries_nil : wf_entries [].
Proof. intros e []. Qed.

Lemma mk_entries_wf : forall srcs f promo, (forall s, wf64 (f s)) -> wf_entries (mk_entries srcs f promo).
Proof.
  intros srcs f promo Hf e He. unfold mk_entries in He. apply in_flat_map in He.
  destruct He as (s & _ & He). cbv zeta in He. destruct (none (f s)); [destruct He|].
  destruct He as [<-|[]]. apply Hf.
Qed.

Lemma pseudo_wf : forall pc src c occ mask, wf64 mask -> wf64 (pseudo_legals pc src c occ mask).
Proof. intros pc src c occ mask Hm. destruct pc; apply wf64_land_r, Hm. Qed.

Lemma piece_legals_wf : forall pc cmp chk b mask, wf64 mask -> wf_entries (piece_legals pc cmp chk b mask).
Proof.
  intros pc cmp chk b mask Hm. unfold piece_legals. cbv zeta.
  assert (forall X, wf_entries (mk_entries X
     (fun src => bb_and (pseudo_legals pc src (b_turn b) (all_occ b) mask)
                        (check_mask b chk (king_sq b (b_turn b)))) (fun _ => false))) as H1.
  { intros X. apply mk_entries_wf. intros s. apply wf64_land_l, pseudo_wf, Hm. }
  destruct (chk || negb cmp); [apply H1|]. apply wf_entries_app; [apply H1|].
  apply mk_entries_wf. intros s. apply wf64_land_l, pseudo_wf, Hm.
Qed.

Lemma pawn_legals_wf : forall chk b mask, wf64 mask -> wf_entries (pawn_legals chk b mask).
Proof.
  intros chk b mask Hm. unfold pawn_legals. cbv zeta.
  apply wf_entries_app; [|apply wf_entries_app].
  - apply mk_entries_wf. intros s. apply wf64_land_l, pseudo_wf, Hm.
  - destruct chk; [apply wf_entries_nil|]. apply mk_entries_wf. intros s. apply wf64_land_l, pseudo_wf, Hm.
  - destruct (b_ep b) as [f|]; [|apply wf_entries_nil].
    intros e He. apply in_flat_map in He. destruct He as (s & _ & He).
    destruct (is_legal_en_passant _ _ _ _ _); [|destruct He]. destruct He as [<-|[]]. apply wf64_from_pos.
Qed.

Lemma clear_fold_wf : forall (f : N -> bool) L a, wf64 a ->
  wf64 (fold_left (fun mv d => if f d then mv else cleared mv d) L a).
Proof.
  intros f L. induction L as [|d L IH]; intros a Ha; [exact Ha|].
  cbn [fold_left]. apply IH. destruct (f d); [exact Ha|apply wf64_cleared].
Qed.

Lemma castle_wf : forall (c1 c2 c3 : bool) mv x, wf64 mv -> wf64 x ->
  wf64 (if c1 then mv else if c2 then (if c3 then bb_xor mv x else mv) else mv).
Proof. intros [|] [|] [|] mv x Hmv Hx; try exact Hmv. apply wf64_xor; assumption. Qed.

Lemma single_entry_wf : forall M src, wf64 M ->
  wf_entries (if none M then [] else [{| e_src := src; e_moves := M; e_promo := false |}]).
Proof. intros M src HM. destruct (none M); [apply wf_entries_nil|]. intros e [<-|[]]. exact HM. Qed.

Lemma castle_tiles_wf : forall files turn, wf64 (bb_and (bb_and files (BACKRANK_BB_of turn)) CASTLE_MOVES_bb).
Proof. intros files turn. apply wf64_land_l, wf64_land_r. unfold BACKRANK_BB_of. apply wf64_from_rank. Qed.

Lemma king_legals_wf : forall chk b turn mask, wf64 mask -> wf_entries (king_legals chk b turn mask).
Proof.
  intros chk b turn mask Hm. unfold king_legals. cbv zeta. apply single_entry_wf.
  assert (wf64 (pseudo_legals King (king_sq b turn) turn (all_occ b) mask)) as Hps by apply pseudo_wf, Hm.
  destruct chk.
  - apply clear_fold_wf, Hps.
  - apply castle_wf; [|apply castle_tiles_wf]. apply castle_wf; [|apply castle_tiles_wf].
    apply clear_fold_wf, Hps.
Qed.

Lemma collect_moves_wf : forall b mask0, wf_entries (collect_moves b mask0).
Proof.
  intros b mask0. unfold collect_moves. cbv zeta.
  assert (wf64 (bb_and (bb_not (colors b (b_turn b))) mask0)) as Hm by apply wf64_land_l, wf64_not.
  destruct (none (b_checkers b)).
  - apply wf_entries_app; [apply pawn_legals_wf, Hm|].
    apply wf_entries_app; [apply piece_legals_wf, Hm|].
    apply wf_entries_app; [apply piece_legals_wf, Hm|].
    apply wf_entries_app; [apply piece_legals_wf, Hm|].
    apply wf_entries_app; [apply piece_legals_wf, Hm|].
    apply king_legals_wf, Hm.
  - apply wf_entries_app; [|apply king_legals_wf, Hm].
    destruct (count (b_checkers b) =? 1); [|apply wf_entries_nil].
    apply wf_entries_app; [apply pawn_legals_wf, Hm|].
    apply wf_entries_app; [apply piece_legals_wf, Hm|].
    apply wf_entries_app; [apply piece_legals_wf, Hm|].
    apply wf_entries_app; [apply piece_legals_wf, Hm|].
    apply piece_legals_wf, Hm.
Qed.

Lemma collect_king_moves_wf : forall b turn, wf_entries (collect_king_moves b turn).
Proof. intros b turn. unfold collect_king_moves. apply king_legals_wf, wf64_not. Qed.

Theorem legals_gen_wf : forall b, wf (legals_gen b).
Proof. intros b. apply wf_mg_new, collect_moves_wf. Qed.
Theorem legals_masked_gen_wf : forall b M, wf (legals_masked_gen b M).
Proof. intros b M. apply wf_mg_new, collect_moves_wf. Qed.
Theorem king_legals_gen_wf : forall b turn, wf (king_legals_gen b turn).
Proof. intros b turn. apply wf_mg_new, collect_king_moves_wf. Qed.

(* ------------------------------------------------------------------ *)
(** * Restricting generation to a destination mask *)

Definition vis_of (M : N) (l : list entry) : list move := filter (in_mask M) (flat_map entry_moves l).

Lemma vis_of_app : forall M l1 l2, vis_of M (l1 ++ l2) = vis_of M l1 ++ vis_of M l2.
Proof. intros M l1 l2. unfold vis_of. rewrite flat_map_app, filter_app. reflexivity. Qed.

Lemma vis_of_opt : forall M s a p,
  vis_of M (if none a then [] else [{| e_src := s; e_moves := a; e_promo := p |}])
  = flat_map (fun d => dest_moves s p O d) (elements (bb_and a M)).
Proof.
  intros M s a p. unfold vis_of. destruct (none a) eqn:E.
  - unfold none in E. apply N.eqb_eq in E. subst a. unfold bb_and. rewrite N.land_0_l, elements_0. reflexivity.
  - rewrite flat_map_cons'. change (flat_map entry_moves []) with (@nil move). rewrite app_nil_r.
    apply (visible_entry M {| e_src := s; e_moves := a; e_promo := p |}).
Qed.

Lemma mk_entries_cons : forall s srcs f promo, mk_entries (s :: srcs) f promo
  = (if none (f s) then [] else [{| e_src := s; e_moves := f s; e_promo := promo s |}]) ++ mk_entries srcs f promo.
Proof. reflexivity. Qed.

Lemma vis_of_mk_entries : forall M srcs f1 f2 promo, (forall s, bb_and (f1 s) M = bb_and (f2 s) M) ->
  vis_of M (mk_entries srcs f1 promo) = vis_of M (mk_entries srcs f2 promo).
Proof.
  intros M srcs f1 f2 promo H. induction srcs as [|s srcs IH]; [reflexivity|].
  rewrite !mk_entries_cons, !vis_of_app, !vis_of_opt, H, IH. reflexivity.
Qed.

Lemma mem_full : forall s, mem bb_full s = (s <? 64).
Proof. intros s. apply mem_mask64. Qed.

(* the own-piece mask restricted to M, seen through M, is the unrestricted one seen through M *)
Lemma masked_eq : forall X no cm M,
  bb_and (bb_and (bb_and X (bb_and (bb_not no) M)) cm) M
  = bb_and (bb_and (bb_and X (bb_and (bb_not no) bb_full)) cm) M.
Proof.
  intros X no cm M. apply N.bits_inj. intros i.
  change (mem (bb_and (bb_and (bb_and X (bb_and (bb_not no) M)) cm) M) i
          = mem (bb_and (bb_and (bb_and X (bb_and (bb_not no) bb_full)) cm) M) i).
  rewrite !mem_and, mem_not_full, mem_full.
  destruct (mem X i), (i <? 64), (mem no i), (mem M i), (mem cm i); reflexivity.
Qed.

Lemma pseudo_masked : forall pc src c occ no cm M,
  bb_and (bb_and (pseudo_legals pc src c occ (bb_and (bb_not no) M)) cm) M
  = bb_and (bb_and (pseudo_legals pc src c occ (bb_and (bb_not no) bb_full)) cm) M.
Proof. intros pc src c occ no cm M. destruct pc; apply masked_eq. Qed.

Lemma piece_legals_masked : forall pc cmp chk b no M,
  vis_of M (piece_legals pc cmp chk b (bb_and (bb_not no) M))
  = vis_of M (piece_legals pc cmp chk b (bb_and (bb_not no) bb_full)).
Proof.
  intros pc cmp chk b no M. unfold piece_legals. cbv zeta.
  destruct (chk || negb cmp).
  - apply vis_of_mk_entries. intros s. apply pseudo_masked.
  - rewrite !vis_of_app. f_equal; apply vis_of_mk_entries; intros s; apply pseudo_masked.
Qed.

Lemma pawn_legals_masked : forall chk b no M,
  vis_of M (pawn_legals chk b (bb_and (bb_not no) M))
  = vis_of M (pawn_legals chk b (bb_and (bb_not no) bb_full)).
Proof.
  intros chk b no M. unfold pawn_legals. cbv zeta. rewrite !vis_of_app. f_equal; [|f_equal].
  - apply vis_of_mk_entries. intros s. apply pseudo_masked.
  - destruct chk; [reflexivity|]. apply vis_of_mk_entries. intros s. apply pseudo_masked.
Qed.

Lemma clear_fold_mem : forall (f : N -> bool) L a s, s < 64 ->
  mem (fold_left (fun mv d => if f d then mv else cleared mv d) L a) s
  = mem a s && forallb (fun d => f d || negb (d =? s)) L.
Proof.
  intros f L. induction L as [|d L IH]; intros a s Hs.
  - cbn [fold_left forallb]. rewrite andb_true_r. reflexivity.
  - cbn [fold_left forallb]. rewrite (IH _ s Hs). destruct (f d).
    + cbn [orb andb]. reflexivity.
    + rewrite (mem_cleared a d s Hs), (N.eqb_sym s d). cbn [orb]. rewrite andb_assoc. reflexivity.
Qed.

Lemma forallb_pick : forall (f : N -> bool) a s, s < 64 -> mem a s = true ->
  forallb (fun d => f d || negb (d =? s)) (elements a) = f s.
Proof.
  intros f a s Hs Hm. destruct (f s) eqn:E.
  - apply forallb_forall. intros d _. destruct (N.eqb_spec d s) as [->|_]; [rewrite E; reflexivity|apply orb_true_r].
  - destruct (forallb (fun d => f d || negb (d =? s)) (elements a)) eqn:F; [|reflexivity].
    rewrite forallb_forall in F. specialize (F s (proj2 (elements_spec a s) (conj Hs Hm))).
    rewrite E, N.eqb_refl in F. discriminate.
Qed.

Lemma king_fold_mem : forall (f : N -> bool) ps s, s < 64 ->
  mem (fold_left (fun mv d => if f d then mv else cleared mv d) (elements ps) ps) s = mem ps s && f s.
Proof.
  intros f ps s Hs. rewrite (clear_fold_mem f _ ps s Hs). destruct (mem ps s) eqn:E; [|reflexivity].
  rewrite (forallb_pick f ps s Hs E). reflexivity.
Qed.

Lemma king_fold_masked : forall (f : N -> bool) K no M,
  let kf ps := fold_left (fun mv d => if f d then mv else cleared mv d) (elements ps) ps in
  bb_and (kf (bb_and K (bb_and (bb_not no) M))) M = bb_and (kf (bb_and K (bb_and (bb_not no) bb_full))) M.
Proof.
  intros f K no M kf.
  assert (forall ps, wf64 ps -> wf64 (kf ps)) as Hwf by (intros ps Hps; apply clear_fold_wf, Hps).
  assert (forall X, wf64 (bb_and K (bb_and (bb_not no) X))) as Hps
    by (intros X; apply wf64_land_r, wf64_land_l, wf64_not).
  apply ext64; try (apply wf64_land_l, Hwf, Hps).
  intros s Hs. rewrite !mem_and. unfold kf. rewrite !(king_fold_mem f _ s Hs), !mem_and, mem_not_full, mem_full.
  destruct (mem K s), (s <? 64), (mem no s), (mem M s), (f s); reflexivity.
Qed.

Lemma castle_masked : forall (c1 c2 c3 : bool) x mv1 mv2 M, bb_and mv1 M = bb_and mv2 M ->
  bb_and (if c1 then mv1 else if c2 then (if c3 then bb_xor mv1 x else mv1) else mv1) M
  = bb_and (if c1 then mv2 else if c2 then (if c3 then bb_xor mv2 x else mv2) else mv2) M.
Proof.
  intros [|] [|] [|] x mv1 mv2 M H; try exact H.
  apply N.bits_inj. intros i.
  assert (mem (bb_and mv1 M) i = mem (bb_and mv2 M) i) as Hi by (rewrite H; reflexivity).
  change (mem (bb_and (bb_xor mv1 x) M) i = mem (bb_and (bb_xor mv2 x) M) i).
  rewrite !mem_and in *. rewrite !mem_xor.
  destruct (mem mv1 i), (mem mv2 i), (mem M i), (mem x i); try reflexivity; discriminate Hi.
Qed.

Lemma vis_of_single : forall M s a1 a2, bb_and a1 M = bb_and a2 M ->
  vis_of M (if none a1 then [] else [{| e_src := s; e_moves := a1; e_promo := false |}])
  = vis_of M (if none a2 then [] else [{| e_src := s; e_moves := a2; e_promo := false |}]).
Proof. intros M s a1 a2 H. rewrite !vis_of_opt, H. reflexivity. Qed.

Lemma king_legals_masked : forall chk b turn no M,
  vis_of M (king_legals chk b turn (bb_and (bb_not no) M))
  = vis_of M (king_legals chk b turn (bb_and (bb_not no) bb_full)).
Proof.
  intros chk b turn no M. unfold king_legals. cbv zeta. apply vis_of_single.
  unfold pseudo_legals.
  pose proof (king_fold_masked (is_legal_king_position b) (king_geo (king_sq b turn)) no M) as Hk.
  cbv zeta in Hk.
  destruct chk; [exact Hk|].
  apply castle_masked, castle_masked, Hk.
Qed.

Lemma collect_moves_masked : forall b M,
  vis_of M (collect_moves b M) = vis_of M (collect_moves b bb_full).
Proof.
  intros b M. unfold collect_moves. cbv zeta. destruct (none (b_checkers b)).
  - rewrite !vis_of_app, pawn_legals_masked, !piece_legals_masked, king_legals_masked. reflexivity.
  - rewrite !vis_of_app, king_legals_masked. f_equal.
    destruct (count (b_checkers b) =? 1); [|reflexivity].
    rewrite !vis_of_app, pawn_legals_masked, !piece_legals_masked. reflexivity.
Qed.

(* legals_masked(mask) yields exactly the moves of legals() whose destination lies in the mask *)
Theorem legals_masked_visible : forall b M,
  visible (legals_masked_gen b M) = filter (in_mask M) (content (legals_gen b)).
Proof.
  intros b M. rewrite visible_eq.
  rewrite (content_promo0 (legals_masked_gen b M) eq_refl), (content_promo0 (legals_gen b) eq_refl).
  apply (collect_moves_masked b M).
Qed.

Lemma visible_full : forall g, g_mask g = bb_full -> g_promo g = 0 -> visible g = content g.
Proof.
  intros g Hm H0. rewrite visible_eq. apply filter_all_true. intros x Hx.
  unfold in_mask. rewrite Hm. apply mem_bb_full. apply (content_dst_lt g x H0 Hx).
Qed.

Corollary legals_masked_drain : forall b M,
  Permutation (mg_drain (legals_masked_gen b M)) (filter (in_mask M) (mg_drain (legals_gen b))).
Proof.
  intros b M.
  assert (Permutation (mg_drain (legals_gen b)) (content (legals_gen b))) as Hfull.
  { rewrite <- (visible_full (legals_gen b) eq_refl eq_refl).
    apply (drain_complete _ (legals_gen_wf b)). }
  eapply Permutation_trans; [|apply Permutation_filter', Permutation_sym, Hfull].
  rewrite <- legals_masked_visible. apply (drain_complete _ (legals_masked_gen_wf b M)).
Qed.

(* board.legals() yields every destination of every collected entry (four moves per promotion
   destination), each once *)
Corollary legals_drain : forall b,
  Permutation (legals b) (flat_map entry_moves (collect_moves b bb_full)).
Proof.
  intros b. unfold legals.
  change (flat_map entry_moves (collect_moves b bb_full)) with (flat_map entry_moves (g_moves (legals_gen b))).
  rewrite <- (content_promo0 (legals_gen b) eq_refl).
  rewrite <- (visible_full (legals_gen b) eq_refl eq_refl).
  apply (drain_complete _ (legals_gen_wf b)).
Qed.
