(* C11 / C12 -- facts about the search model (model/Search.v): the move returned by Engine::search
   is a legal move of the root, no move is returned when there is none, a completed first pass over
   a root with a legal move has a move, alphabeta only returns realistic scores, and alphabeta's
   recursion is bounded by remaining depth + number of men.  Axiom-free. *)
From Coq Require Import NArith ZArith List Bool Lia ZifyBool ZifyN Permutation.
From Chess Require Import base.Bits base.Types base.BitBoard model.Score model.Board model.MoveGen model.Apply
  model.Search proofs.BitsFacts proofs.BitBoardFacts spec.IterSpec proofs.IterFacts proofs.ScoreOrder proofs.SearchOrder.
Import ListNotations.
Local Open Scope N_scope.

(* ------------------------------------------------------------------ *)
(** * Unfolding equations (never let the move generator reduce) *)

Lemma root_phase_nil : forall k tf fuel c root depth sc best a b st,
  root_phase k tf fuel c root depth [] sc best a b st = RVal sc best a b st.
Proof. reflexivity. Qed.

Lemma root_phase_cons : forall k tf fuel c root depth m rest sc best alpha beta st,
  root_phase k tf fuel c root depth (m :: rest) sc best alpha beta st =
  match alphabeta k tf fuel (opp c) root m depth 1 alpha beta (bl_new tf root) st with
  | AFuel => RFuel
  | ATimeout => RTimeout
  | AVal new st1 =>
    if expired k st1 then RTimeout
    else root_phase k tf fuel c root depth rest
           (if is_better c sc new then new else sc)
           (if is_better c sc new then Some m else best)
           (upd_alpha c alpha (if is_better c sc new then new else sc))
           (upd_beta c beta (if is_better c sc new then new else sc))
           (bump_poll st1)
  end.
Proof. reflexivity. Qed.

(* the generators and move lists of one deepening pass *)
Definition step_gen (g : movegen) (_ : move) : movegen := snd (mg_next g).
Definition root_gen1 (root : board) (prev : option move) : movegen :=
  match prev with None => legals_gen root | Some mv => fst (mg_remove_move (legals_gen root) mv) end.
Definition cap_gen (root : board) (prev : option move) : movegen :=
  mg_set_mask (root_gen1 root prev) (colors root (opp (b_turn root))).
Notation cap_moves root prev := (mg_drain (cap_gen root prev)) (only parsing).
Definition after_caps (root : board) (prev : option move) : movegen :=
  fold_left step_gen (cap_moves root prev) (cap_gen root prev).
Definition quiet_gen (root : board) (prev : option move) : movegen := mg_set_mask (after_caps root prev) bb_full.
Notation quiet_moves root prev := (mg_drain (quiet_gen root prev)) (only parsing).

Definition first_phase (k : N) (tf : threefold) (fuel : nat) (root : board) (depth : N) (prev : option move) (st : sst) : rres :=
  match prev with
  | None => RVal (worst (b_turn root)) None SMin SMax st
  | Some mv => root_phase k tf fuel (b_turn root) root depth [mv] (worst (b_turn root)) None SMin SMax st
  end.

Lemma pass_eq : forall k tf fuel root depth prev st,
  pass k tf fuel root depth prev st =
  match first_phase k tf fuel root depth prev st with
  | RFuel => PassFuel
  | RTimeout => PassTimeout
  | RVal sc best a b' st1 =>
    match root_phase k tf fuel (b_turn root) root depth (cap_moves root prev) sc best a b' st1 with
    | RFuel => PassFuel
    | RTimeout => PassTimeout
    | RVal sc2 best2 a2 b2 st2 =>
      match root_phase k tf fuel (b_turn root) root depth (quiet_moves root prev) sc2 best2 a2 b2 st2 with
      | RFuel => PassFuel
      | RTimeout => PassTimeout
      | RVal sc3 best3 _ _ st3 => if expired k st3 then PassTimeout else PassDone sc3 best3 (bump_poll st3)
      end
    end
  end.
Proof.
  intros k tf fuel root depth prev st.
  unfold pass, first_phase, quiet_gen, after_caps, cap_gen, root_gen1, step_gen.
  destruct prev as [mv|]; reflexivity.
Qed.

Lemma pass_none_eq : forall k tf fuel root depth st,
  pass k tf fuel root depth None st =
  match root_phase k tf fuel (b_turn root) root depth (cap_moves root None) (worst (b_turn root)) None SMin SMax st with
  | RFuel => PassFuel
  | RTimeout => PassTimeout
  | RVal sc2 best2 a2 b2 st2 =>
    match root_phase k tf fuel (b_turn root) root depth (quiet_moves root None) sc2 best2 a2 b2 st2 with
    | RFuel => PassFuel
    | RTimeout => PassTimeout
    | RVal sc3 best3 _ _ st3 => if expired k st3 then PassTimeout else PassDone sc3 best3 (bump_poll st3)
    end
  end.
Proof. intros k tf fuel root depth st. rewrite pass_eq. reflexivity. Qed.

Lemma deepen_0 : forall k tf fuel root depth best bsc maxd st,
  deepen k tf O fuel root depth best bsc maxd st = (best, bsc, maxd, true).
Proof. reflexivity. Qed.

Lemma deepen_S : forall k tf p fuel root depth best bsc maxd st,
  deepen k tf (S p) fuel root depth best bsc maxd st =
  match pass k tf (fuel + N.to_nat depth) root depth best st with
  | PassFuel => (best, bsc, maxd, true)
  | PassTimeout => (best, bsc, maxd, false)
  | PassDone sc b' st' =>
    match b' with
    | None => (None, sc, depth, false)
    | Some _ =>
      if is_mate_score sc then (b', sc, depth, false)
      else if depth =? 65535 then (b', sc, depth, false)
      else deepen k tf p fuel root (depth + 1) b' sc depth st'
    end
  end.
Proof. reflexivity. Qed.

(* ------------------------------------------------------------------ *)
(** * 1. The best move of a root phase comes from the list searched *)

Lemma root_phase_best_in : forall k tf fuel c root depth moves sc best alpha beta st sc' best' a' b' st',
  root_phase k tf fuel c root depth moves sc best alpha beta st = RVal sc' best' a' b' st' ->
  forall m, best' = Some m -> best = Some m \/ In m moves.
Proof.
  intros k tf fuel c root depth moves.
  induction moves as [|x rest IH]; intros sc best alpha beta st sc' best' a' b' st' H m Hm.
  - rewrite root_phase_nil in H. injection H as _ Hb _ _ _. left. rewrite Hb. exact Hm.
  - rewrite root_phase_cons in H.
    destruct (alphabeta k tf fuel (opp c) root x depth 1 alpha beta (bl_new tf root) st) as [new st1| |];
      [|discriminate|discriminate].
    destruct (expired k st1); [discriminate|].
    destruct (IH _ _ _ _ _ _ _ _ _ _ H m Hm) as [Hb|Hin].
    + destruct (is_better c sc new).
      * injection Hb as <-. right. left. reflexivity.
      * left. exact Hb.
    + right. right. exact Hin.
Qed.

(* ------------------------------------------------------------------ *)
(** * Generators derived from the root generator only ever lose moves *)

Lemma cons_not_nil : forall (A : Type) (x : A) l, x :: l <> [].
Proof. intros A x l H. discriminate H. Qed.

Lemma fold_left_cons' : forall (A B : Type) (f : A -> B -> A) x l a, fold_left f (x :: l) a = fold_left f l (f a x).
Proof. reflexivity. Qed.

Definition sub_gen (g g0 : movegen) : Prop :=
  wf g /\ g_promo g = 0 /\ (forall m, In m (content g) -> In m (content g0)) /\
  (length (content g) <= length (content g0))%nat.

Lemma sub_gen_refl : forall g, wf g -> g_promo g = 0 -> sub_gen g g.
Proof. intros g Hwf H0. split; [exact Hwf|split; [exact H0|split; [intros m Hm; exact Hm|apply Nat.le_refl]]]. Qed.

Lemma sub_gen_remove_move : forall g g0 p, sub_gen g g0 -> sub_gen (fst (mg_remove_move g p)) g0.
Proof.
  intros g g0 p (Hwf & H0 & Hin & Hlen).
  pose proof (remove_move_spec g p Hwf H0) as H. cbv zeta in H.
  destruct H as (Hc & _ & _ & _ & H0' & Hwf').
  split; [exact Hwf'|split; [exact H0'|split]].
  - intros m Hm. rewrite Hc in Hm. apply filter_In in Hm. apply Hin, Hm.
  - rewrite Hc. eapply Nat.le_trans; [apply filter_length_le'|exact Hlen].
Qed.

Lemma sub_gen_set_mask : forall g g0 M, sub_gen g g0 -> sub_gen (mg_set_mask g M) g0.
Proof.
  intros g g0 M (Hwf & H0 & Hin & Hlen).
  destruct (set_mask_spec g M Hwf H0) as (Hc & _ & H0' & Hwf').
  split; [exact Hwf'|split; [exact H0'|split]].
  - intros m Hm. apply Hin. apply (Permutation_in m Hc Hm).
  - rewrite (Permutation_length Hc). exact Hlen.
Qed.

(* consuming the yielded moves one by one reproduces the drained state *)
Lemma drain_fold : forall fuel g, wf g ->
  wf (fold_left step_gen (mg_drain_fuel fuel g) g) /\
  Permutation (content g) (mg_drain_fuel fuel g ++ content (fold_left step_gen (mg_drain_fuel fuel g) g)) /\
  Permutation (visible g) (mg_drain_fuel fuel g ++ visible (fold_left step_gen (mg_drain_fuel fuel g) g)) /\
  g_mask (fold_left step_gen (mg_drain_fuel fuel g) g) = g_mask g /\
  ((length (visible g) <= fuel)%nat -> visible (fold_left step_gen (mg_drain_fuel fuel g) g) = []).
Proof.
  intros fuel. induction fuel as [|f IH]; intros g Hwf.
  - change (mg_drain_fuel 0 g) with (@nil move). change (fold_left step_gen [] g) with g.
    rewrite !app_nil_l.
    split; [exact Hwf|split; [apply Permutation_refl|split; [apply Permutation_refl|split; [reflexivity|]]]].
    intros Hlen. destruct (visible g); [reflexivity|cbn [length] in Hlen; lia].
  - rewrite mg_drain_fuel_S. destruct (mg_next g) as [[m|] g1] eqn:Hnext.
    + rewrite fold_left_cons'. unfold step_gen at 2 4 6 8 10. rewrite Hnext. cbn [snd].
      destruct (next_sound g m g1 Hwf Hnext) as (Hin & Hperm & Hmask & Hwf1).
      destruct (IH g1 Hwf1) as (Hwf2 & Hc & Hv & Hm & Hnil).
      pose proof (visible_step g m g1 Hin Hperm Hmask) as Hvs.
      split; [exact Hwf2|split; [|split; [|split]]].
      * rewrite <- app_comm_cons. eapply Permutation_trans; [exact Hperm|]. apply perm_skip, Hc.
      * rewrite <- app_comm_cons. eapply Permutation_trans; [exact Hvs|]. apply perm_skip, Hv.
      * rewrite Hm. exact Hmask.
      * intros Hlen. apply Hnil. pose proof (Permutation_length Hvs) as Hl. cbn [length] in Hl. lia.
    + change (fold_left step_gen [] g) with g. rewrite !app_nil_l.
      destruct (next_none_state g g1 Hwf Hnext) as (Hv & _).
      split; [exact Hwf|split; [apply Permutation_refl|split; [apply Permutation_refl|split; [reflexivity|]]]].
      intros _. exact Hv.
Qed.

Lemma visible_length_le : forall g, (length (visible g) <= length (content g))%nat.
Proof. intros g. rewrite visible_eq. apply filter_length_le'. Qed.

Lemma sub_gen_consume : forall g g0, sub_gen g g0 ->
  sub_gen (fold_left step_gen (mg_drain g) g) g0.
Proof.
  intros g g0 (Hwf & H0 & Hin & Hlen). unfold mg_drain.
  destruct (drain_fold (drain_bound g) g Hwf) as (Hwf' & Hc & _ & _ & Hnil).
  specialize (Hnil (visible_le_bound g Hwf)).
  split; [exact Hwf'|split; [apply (visible_nil_promo0 _ Hwf' Hnil)|split]].
  - intros m Hm. apply Hin. apply (Permutation_in m (Permutation_sym Hc)). apply in_or_app. right. exact Hm.
  - pose proof (Permutation_length Hc) as Hl. rewrite app_length in Hl. lia.
Qed.

Lemma sub_gen_drain_in : forall g g0 m, sub_gen g g0 -> In m (mg_drain g) -> In m (content g0).
Proof.
  intros g g0 m (Hwf & _ & Hin & _) Hm. apply Hin.
  pose proof (drain_sound g m Hwf Hm) as Hv. rewrite visible_eq in Hv. apply filter_In in Hv. apply Hv.
Qed.

(* historical side condition (the drain fuel used to be a constant); it now holds of every board:
   the drain fuel MoveGen.drain_bound always suffices (IterFacts.visible_le_bound), see small_root_all *)
Definition small_root (root : board) : Prop := wf (legals_gen root).
Lemma small_root_all : forall root, small_root root.
Proof. intros root. apply legals_gen_wf. Qed.

Lemma legals_gen_promo0 : forall b, g_promo (legals_gen b) = 0.
Proof. reflexivity. Qed.
Lemma legals_gen_mask : forall b, g_mask (legals_gen b) = bb_full.
Proof. reflexivity. Qed.

Lemma legals_perm_content : forall root, small_root root -> Permutation (legals root) (content (legals_gen root)).
Proof.
  intros root Hs. unfold legals.
  rewrite <- (visible_full (legals_gen root) (legals_gen_mask root) (legals_gen_promo0 root)).
  apply (drain_complete _ (legals_gen_wf root)).
Qed.

Lemma content_in_legals : forall root m, small_root root -> In m (content (legals_gen root)) -> In m (legals root).
Proof. intros root m Hs Hm. apply (Permutation_in m (Permutation_sym (legals_perm_content root Hs)) Hm). Qed.

Lemma legals_in_content : forall root m, In m (legals root) -> In m (content (legals_gen root)).
Proof.
  intros root m Hm. unfold legals in Hm. apply (sub_gen_drain_in (legals_gen root) (legals_gen root) m); [|exact Hm].
  apply sub_gen_refl; [apply legals_gen_wf|apply legals_gen_promo0].
Qed.

Lemma root_gen1_sub : forall root prev, sub_gen (root_gen1 root prev) (legals_gen root).
Proof.
  intros root prev.
  assert (sub_gen (legals_gen root) (legals_gen root)) as H0
    by (apply sub_gen_refl; [apply legals_gen_wf|apply legals_gen_promo0]).
  unfold root_gen1. destruct prev as [p|]; [apply sub_gen_remove_move, H0|exact H0].
Qed.

Lemma cap_gen_sub : forall root prev, sub_gen (cap_gen root prev) (legals_gen root).
Proof. intros root prev. unfold cap_gen. apply sub_gen_set_mask, root_gen1_sub. Qed.

Lemma quiet_gen_sub : forall root prev, small_root root -> sub_gen (quiet_gen root prev) (legals_gen root).
Proof.
  intros root prev Hs. unfold quiet_gen, after_caps. apply sub_gen_set_mask.
  apply sub_gen_consume; apply cap_gen_sub.
Qed.

Lemma cap_moves_legal : forall root prev m, small_root root -> In m (cap_moves root prev) -> In m (legals root).
Proof.
  intros root prev m Hs Hm. apply (content_in_legals root m Hs).
  exact (sub_gen_drain_in (cap_gen root prev) (legals_gen root) m (cap_gen_sub root prev) Hm).
Qed.

Lemma quiet_moves_legal : forall root prev m, small_root root -> In m (quiet_moves root prev) -> In m (legals root).
Proof.
  intros root prev m Hs Hm. apply (content_in_legals root m Hs).
  exact (sub_gen_drain_in (quiet_gen root prev) (legals_gen root) m (quiet_gen_sub root prev Hs) Hm).
Qed.

(* ------------------------------------------------------------------ *)
(** * 2. A completed pass returns a legal move *)

Definition prev_legal (root : board) (prev : option move) : Prop := forall p, prev = Some p -> In p (legals root).

Lemma pass_best_from : forall k tf fuel root depth prev st sc m st',
  pass k tf fuel root depth prev st = PassDone sc (Some m) st' ->
  prev = Some m \/ In m (cap_moves root prev) \/ In m (quiet_moves root prev).
Proof.
  intros k tf fuel root depth prev st sc m st' H. rewrite pass_eq in H.
  destruct (first_phase k tf fuel root depth prev st) as [sc1 best1 a1 b1 st1| |] eqn:E1; [|discriminate|discriminate].
  destruct (root_phase k tf fuel (b_turn root) root depth (cap_moves root prev) sc1 best1 a1 b1 st1)
    as [sc2 best2 a2 b2 st2| |] eqn:E2; [|discriminate|discriminate].
  destruct (root_phase k tf fuel (b_turn root) root depth (quiet_moves root prev) sc2 best2 a2 b2 st2)
    as [sc3 best3 a3 b3 st3| |] eqn:E3; [|discriminate|discriminate].
  destruct (expired k st3); [discriminate|]. injection H as _ Hb _.
  destruct (root_phase_best_in _ _ _ _ _ _ _ _ _ _ _ _ _ _ _ _ _ E3 m Hb) as [Hb2|Hin]; [|right; right; exact Hin].
  destruct (root_phase_best_in _ _ _ _ _ _ _ _ _ _ _ _ _ _ _ _ _ E2 m Hb2) as [Hb1|Hin]; [|right; left; exact Hin].
  left. unfold first_phase in E1. destruct prev as [p|].
  - destruct (root_phase_best_in _ _ _ _ _ _ _ _ _ _ _ _ _ _ _ _ _ E1 m Hb1) as [Hn|[Hp|[]]]; [discriminate|].
    rewrite Hp. reflexivity.
  - injection E1 as _ Hn _ _ _. rewrite <- Hn in Hb1. discriminate.
Qed.

Theorem pass_best_legal : forall k tf fuel root depth prev st sc m st',
  small_root root -> prev_legal root prev ->
  pass k tf fuel root depth prev st = PassDone sc (Some m) st' -> In m (legals root).
Proof.
  intros k tf fuel root depth prev st sc m st' Hs Hprev H.
  destruct (pass_best_from _ _ _ _ _ _ _ _ _ _ H) as [Hp|[Hc|Hq]].
  - apply Hprev, Hp.
  - apply (cap_moves_legal root prev m Hs Hc).
  - apply (quiet_moves_legal root prev m Hs Hq).
Qed.

(* ------------------------------------------------------------------ *)
(** * 3. C11_legal: the move returned by search is legal *)

Lemma deepen_move_legal : forall k tf root, small_root root ->
  forall passes fuel depth best bsc maxd st m sc d f,
  prev_legal root best ->
  deepen k tf passes fuel root depth best bsc maxd st = (Some m, sc, d, f) -> In m (legals root).
Proof.
  intros k tf root Hs passes. induction passes as [|p IH]; intros fuel depth best bsc maxd st m sc d f Hbest H.
  - rewrite deepen_0 in H. injection H as Hb _ _ _. apply Hbest, Hb.
  - rewrite deepen_S in H.
    destruct (pass k tf (fuel + N.to_nat depth) root depth best st) as [| |sc1 b1 st1] eqn:Hp.
    + injection H as Hb _ _ _. apply Hbest, Hb.
    + injection H as Hb _ _ _. apply Hbest, Hb.
    + destruct b1 as [m1|]; [|discriminate].
      pose proof (pass_best_legal _ _ _ _ _ _ _ _ _ _ Hs Hbest Hp) as Hm1.
      destruct (is_mate_score sc1); [injection H as Hb _ _ _; rewrite <- Hb; exact Hm1|].
      destruct (depth =? 65535); [injection H as Hb _ _ _; rewrite <- Hb; exact Hm1|].
      assert (prev_legal root (Some m1)) as Hnext by (intros q Hq; injection Hq as <-; exact Hm1).
      apply (IH _ _ _ _ _ _ _ _ _ _ Hnext H).
Qed.

Theorem search_move_legal : forall k tf passes fuel root m sc d f,
  small_root root -> search k tf passes fuel root = (Some m, sc, d, f) -> In m (legals root).
Proof.
  intros k tf passes fuel root m sc d f Hs H. unfold search in H.
  assert (prev_legal root None) as Hnone by (intros q Hq; discriminate Hq).
  apply (deepen_move_legal k tf root Hs _ _ _ _ _ _ _ _ _ _ _ Hnone H).
Qed.

(* ------------------------------------------------------------------ *)
(** * 4. C11_none: no legal move, no move returned (no size hypothesis needed) *)

Lemma legals_nil_content : forall root, legals root = [] -> content (legals_gen root) = [].
Proof.
  intros root H. unfold legals, mg_drain in H. rewrite drain_bound_eq, mg_drain_fuel_S in H.
  destruct (mg_next (legals_gen root)) as [[m|] g1] eqn:Hnext; [discriminate|].
  destruct (next_none_state _ _ (legals_gen_wf root) Hnext) as (Hv & _).
  rewrite (visible_full (legals_gen root) (legals_gen_mask root) (legals_gen_promo0 root)) in Hv. exact Hv.
Qed.

Lemma legals_nil_small : forall root, legals root = [] -> small_root root.
Proof. intros root _. apply small_root_all. Qed.

Theorem search_none_gen : forall k tf passes fuel root, legals root = [] ->
  fst (fst (fst (search k tf passes fuel root))) = None.
Proof.
  intros k tf passes fuel root H.
  destruct (search k tf passes fuel root) as [[[o sc] d] f] eqn:E. cbn [fst].
  destruct o as [m|]; [|reflexivity].
  pose proof (search_move_legal _ _ _ _ _ _ _ _ _ (legals_nil_small root H) E) as Hm.
  rewrite H in Hm. destruct Hm.
Qed.

Theorem search_none : forall k tf passes fuel root, legals root = [] -> (0 < passes)%nat ->
  fst (fst (fst (search k tf passes fuel root))) = None.
Proof. intros k tf passes fuel root H _. apply search_none_gen, H. Qed.

(* ------------------------------------------------------------------ *)
(** * The two root lists together are exactly what the root generator owed *)

Lemma pass_lists_perm : forall root prev, small_root root ->
  Permutation (cap_moves root prev ++ quiet_moves root prev) (content (root_gen1 root prev)).
Proof.
  intros root prev Hs.
  destruct (root_gen1_sub root prev) as (Hwf1 & H01 & _ & Hlen1).
  destruct (set_mask_spec (root_gen1 root prev) (colors root (opp (b_turn root))) Hwf1 H01) as (Hc2 & _).
  destruct (cap_gen_sub root prev) as (Hwf2 & H02 & _ & Hlen2).
  destruct (quiet_gen_sub root prev Hs) as (Hwfq & H0q & _ & Hlenq).
  destruct (drain_fold (drain_bound (cap_gen root prev)) (cap_gen root prev) Hwf2) as (Hwf3 & Hc3 & _ & _ & Hnil3).
  specialize (Hnil3 (visible_le_bound _ Hwf2)).
  pose proof (visible_nil_promo0 _ Hwf3 Hnil3) as H03.
  fold (mg_drain (cap_gen root prev)) in Hwf3, Hc3, H03.
  fold (after_caps root prev) in Hwf3, Hc3, H03.
  destruct (set_mask_spec (after_caps root prev) bb_full Hwf3 H03) as (Hcq & Hmq & _ & _).
  fold (quiet_gen root prev) in Hcq, Hmq.
  assert (Permutation (quiet_moves root prev) (content (quiet_gen root prev))) as Hq.
  { rewrite <- (visible_full (quiet_gen root prev) Hmq H0q). apply (drain_complete _ Hwfq). }
  eapply Permutation_trans; [|exact Hc2].
  eapply Permutation_trans; [|apply Permutation_sym, Hc3].
  apply Permutation_app_head. eapply Permutation_trans; [exact Hq|exact Hcq].
Qed.

Lemma first_pass_lists_nonempty : forall root, small_root root -> legals root <> [] ->
  cap_moves root None ++ quiet_moves root None <> [].
Proof.
  intros root Hs Hne Hnil.
  pose proof (pass_lists_perm root None Hs) as Hp. rewrite Hnil in Hp.
  change (root_gen1 root None) with (legals_gen root) in Hp.
  apply Permutation_nil in Hp.
  pose proof (legals_perm_content root Hs) as Hl. rewrite Hp in Hl.
  apply Permutation_sym, Permutation_nil in Hl. exact (Hne Hl).
Qed.

(* ------------------------------------------------------------------ *)
(** * 5. C11_some: a completed pass over a root with a legal move has a move *)

(* premise: the value alphabeta returns for a root child is realistic
   (discharged below by [alphabeta_realistic]) *)
Definition root_realistic (k : N) (tf : threefold) (root : board) : Prop :=
  forall fuel m depth alpha beta st new st1,
    alphabeta k tf fuel (opp (b_turn root)) root m depth 1 alpha beta (bl_new tf root) st = AVal new st1 ->
    realistic new.

Lemma root_phase_some_kept : forall k tf fuel c root depth moves sc m0 alpha beta st sc' best' a' b' st',
  root_phase k tf fuel c root depth moves sc (Some m0) alpha beta st = RVal sc' best' a' b' st' -> best' <> None.
Proof.
  intros k tf fuel c root depth moves.
  induction moves as [|x rest IH]; intros sc m0 alpha beta st sc' best' a' b' st' H.
  - rewrite root_phase_nil in H. injection H as _ Hb _ _ _. rewrite <- Hb. discriminate.
  - rewrite root_phase_cons in H.
    destruct (alphabeta k tf fuel (opp c) root x depth 1 alpha beta (bl_new tf root) st) as [new st1| |];
      [|discriminate|discriminate].
    destruct (expired k st1); [discriminate|].
    destruct (is_better c sc new); apply (IH _ _ _ _ _ _ _ _ _ _ H).
Qed.

Lemma root_phase_first : forall k tf fuel root depth moves best alpha beta st sc' best' a' b' st',
  root_realistic k tf root -> moves <> [] ->
  root_phase k tf fuel (b_turn root) root depth moves (worst (b_turn root)) best alpha beta st = RVal sc' best' a' b' st' ->
  best' <> None.
Proof.
  intros k tf fuel root depth moves best alpha beta st sc' best' a' b' st' Hreal Hne H.
  destruct moves as [|x rest]; [contradiction Hne; reflexivity|].
  rewrite root_phase_cons in H.
  destruct (alphabeta k tf fuel (opp (b_turn root)) root x depth 1 alpha beta (bl_new tf root) st) as [new st1| |] eqn:E;
    [|discriminate|discriminate].
  destruct (expired k st1); [discriminate|].
  rewrite (first_child_improves (b_turn root) new (Hreal _ _ _ _ _ _ _ _ E)) in H.
  apply (root_phase_some_kept _ _ _ _ _ _ _ _ _ _ _ _ _ _ _ _ _ H).
Qed.

Theorem first_pass_some : forall k tf fuel root depth st sc best st',
  small_root root -> root_realistic k tf root -> legals root <> [] ->
  pass k tf fuel root depth None st = PassDone sc best st' -> best <> None.
Proof.
  intros k tf fuel root depth st sc best st' Hs Hreal Hne H. rewrite pass_none_eq in H.
  pose proof (first_pass_lists_nonempty root Hs Hne) as Hlists.
  destruct (root_phase k tf fuel (b_turn root) root depth (cap_moves root None) (worst (b_turn root)) None SMin SMax st)
    as [sc2 best2 a2 b2 st2| |] eqn:E2; [|discriminate|discriminate].
  destruct (root_phase k tf fuel (b_turn root) root depth (quiet_moves root None) sc2 best2 a2 b2 st2)
    as [sc3 best3 a3 b3 st3| |] eqn:E3; [|discriminate|discriminate].
  destruct (expired k st3); [discriminate|]. injection H as _ Hb _. rewrite <- Hb.
  destruct (cap_moves root None) as [|x caps] eqn:Ecaps.
  - rewrite root_phase_nil in E2. injection E2 as <- <- <- <- <-.
    rewrite app_nil_l in Hlists. apply (root_phase_first _ _ _ _ _ _ _ _ _ _ _ _ _ _ _ Hreal Hlists E3).
  - assert (best2 <> None) as Hb2.
    { apply (root_phase_first _ _ _ _ _ _ _ _ _ _ _ _ _ _ _ Hreal (cons_not_nil _ x caps) E2). }
    destruct best2 as [m2|]; [|contradiction Hb2; reflexivity].
    apply (root_phase_some_kept _ _ _ _ _ _ _ _ _ _ _ _ _ _ _ _ _ E3).
Qed.

(* a later pass (previous best move first) keeps having a move *)
Lemma later_pass_some : forall k tf fuel root depth p st sc best st',
  root_realistic k tf root ->
  pass k tf fuel root depth (Some p) st = PassDone sc best st' -> best <> None.
Proof.
  intros k tf fuel root depth p st sc best st' Hreal H. rewrite pass_eq in H.
  destruct (first_phase k tf fuel root depth (Some p) st) as [sc1 best1 a1 b1 st1| |] eqn:E1; [|discriminate|discriminate].
  destruct (root_phase k tf fuel (b_turn root) root depth (cap_moves root (Some p)) sc1 best1 a1 b1 st1)
    as [sc2 best2 a2 b2 st2| |] eqn:E2; [|discriminate|discriminate].
  destruct (root_phase k tf fuel (b_turn root) root depth (quiet_moves root (Some p)) sc2 best2 a2 b2 st2)
    as [sc3 best3 a3 b3 st3| |] eqn:E3; [|discriminate|discriminate].
  destruct (expired k st3); [discriminate|]. injection H as _ Hb _. rewrite <- Hb.
  unfold first_phase in E1.
  assert (best1 <> None) as Hb1.
  { apply (root_phase_first _ _ _ _ _ _ _ _ _ _ _ _ _ _ _ Hreal (cons_not_nil _ p []) E1). }
  destruct best1 as [m1|]; [|contradiction Hb1; reflexivity].
  pose proof (root_phase_some_kept _ _ _ _ _ _ _ _ _ _ _ _ _ _ _ _ _ E2) as Hb2.
  destruct best2 as [m2|]; [|contradiction Hb2; reflexivity].
  apply (root_phase_some_kept _ _ _ _ _ _ _ _ _ _ _ _ _ _ _ _ _ E3).
Qed.

Lemma deepen_some_kept : forall k tf root, root_realistic k tf root ->
  forall passes fuel depth p bsc maxd st,
  fst (fst (fst (deepen k tf passes fuel root depth (Some p) bsc maxd st))) <> None.
Proof.
  intros k tf root Hreal passes. induction passes as [|n IH]; intros fuel depth p bsc maxd st.
  - rewrite deepen_0. cbn [fst]. discriminate.
  - rewrite deepen_S.
    destruct (pass k tf (fuel + N.to_nat depth) root depth (Some p) st) as [| |sc1 b1 st1] eqn:Hp.
    + cbn [fst]. discriminate.
    + cbn [fst]. discriminate.
    + pose proof (later_pass_some _ _ _ _ _ _ _ _ _ _ Hreal Hp) as Hb.
      destruct b1 as [m1|]; [|contradiction Hb; reflexivity].
      destruct (is_mate_score sc1); [cbn [fst]; discriminate|].
      destruct (depth =? 65535); [cbn [fst]; discriminate|]. apply IH.
Qed.

(* C11_some: if the root has a legal move and the first pass completes, search returns a move *)
Theorem search_some_rel : forall k tf passes fuel root sc best st',
  small_root root -> root_realistic k tf root -> legals root <> [] ->
  pass k tf (fuel + N.to_nat 0) root 0 None {| s_polls := 0; s_evals := 0 |} = PassDone sc best st' ->
  fst (fst (fst (search k tf (S passes) fuel root))) <> None.
Proof.
  intros k tf passes fuel root sc best st' Hs Hreal Hne Hp. unfold search. rewrite deepen_S, Hp.
  pose proof (first_pass_some _ _ _ _ _ _ _ _ _ Hs Hreal Hne Hp) as Hb.
  destruct best as [m|]; [|contradiction Hb; reflexivity].
  destruct (is_mate_score sc); [cbn [fst]; discriminate|].
  destruct (0 =? 65535); [cbn [fst]; discriminate|]. apply (deepen_some_kept k tf root Hreal).
Qed.

(* ------------------------------------------------------------------ *)
(** * alphabeta: one unfolding step, the child loop as a stand-alone function *)

Section Loop.
  Variable k : N.
  Variable rec : move -> score -> score -> sst -> ares.   (* the call for one child (state already bumped) *)
  Variable c : color.
  Fixpoint ab_loop (moves : list move) (sc alpha beta : score) (st : sst) {struct moves} : ares :=
    match moves with
    | [] => AVal sc st
    | m :: rest =>
      if expired k st then ATimeout
      else
        match rec m alpha beta (bump_poll st) with
        | AVal new st2 =>
          let sc' := if is_better c sc new then new else sc in
          let alpha' := upd_alpha c alpha sc' in
          let beta' := upd_beta c beta sc' in
          if leb beta' alpha' then AVal sc' st2 else ab_loop rest sc' alpha' beta' st2
        | r => r
        end
    end.

  Lemma ab_loop_nil : forall sc alpha beta st, ab_loop [] sc alpha beta st = AVal sc st.
  Proof. reflexivity. Qed.

  Lemma ab_loop_cons : forall m rest sc alpha beta st,
    ab_loop (m :: rest) sc alpha beta st =
    if expired k st then ATimeout
    else
      match rec m alpha beta (bump_poll st) with
      | AVal new st2 =>
        if leb (upd_beta c beta (if is_better c sc new then new else sc))
               (upd_alpha c alpha (if is_better c sc new then new else sc))
        then AVal (if is_better c sc new then new else sc) st2
        else ab_loop rest (if is_better c sc new then new else sc)
               (upd_alpha c alpha (if is_better c sc new then new else sc))
               (upd_beta c beta (if is_better c sc new then new else sc)) st2
      | ATimeout => ATimeout
      | AFuel => AFuel
      end.
  Proof.
    intros m rest sc alpha beta st. cbn [ab_loop]. destruct (expired k st); [reflexivity|].
    destruct (rec m alpha beta (bump_poll st)); reflexivity.
  Qed.

  Lemma loop_eq : forall moves sc alpha beta st,
    (fix loop (moves : list move) (sc alpha beta : score) (st : sst) {struct moves} : ares :=
       match moves with
       | [] => AVal sc st
       | m :: rest =>
         if expired k st then ATimeout
         else
           match rec m alpha beta (bump_poll st) with
           | AVal new st2 =>
             let sc' := if is_better c sc new then new else sc in
             let alpha' := upd_alpha c alpha sc' in
             let beta' := upd_beta c beta sc' in
             if leb beta' alpha' then AVal sc' st2 else loop rest sc' alpha' beta' st2
           | r => r
           end
       end) moves sc alpha beta st = ab_loop moves sc alpha beta st.
  Proof. reflexivity. Qed.
End Loop.

Definition child_call (k : N) (tf : threefold) (fuel' : nat) (c : color) (b : board) (remaining current : N) (bl' : blist)
  : move -> score -> score -> sst -> ares :=
  fun m a b' st' => alphabeta k tf fuel' (opp c) b m (sat_sub1 remaining) (current + 1) a b' bl' st'.

Definition was_capture (old : board) (mv : move) : bool :=
  match raw_get old (m_dst mv) with Some _ => true | None => false end.

Lemma alphabeta_0 : forall k tf c old mv remaining current alpha beta bl st,
  alphabeta k tf O c old mv remaining current alpha beta bl st = AFuel.
Proof. reflexivity. Qed.

Lemma alphabeta_S : forall k tf fuel' c old mv remaining current alpha beta bl st,
  alphabeta k tf (S fuel') c old mv remaining current alpha beta bl st =
  let b := apply old mv in
  let wc := was_capture old mv in
  let bl' := if wc then bl_new tf b else bl_add bl tf b in
  if wc && insufficient_material b then AVal (SRaw 0) st
  else
    let g := legals_gen b in
    if mg_is_empty g then AVal (if in_check b then mate_score c current else SRaw 0) st
    else if 100 <=? b_half b then AVal (SRaw 0) st
    else if bl_head_count bl' =? 3 then AVal (SRaw 0) st
    else
      let g1 := if (remaining =? 0) && wc then mg_set_mask g (colors b (opp c)) else g in
      let complete := (remaining =? 0) && (if wc then mg_is_empty g1 else true) in
      if complete then AVal (eval b) (bump_eval st)
      else ab_loop k (child_call k tf fuel' c b remaining current bl') c (mg_drain g1) (worst c) alpha beta st.
Proof. reflexivity. Qed.

(* ------------------------------------------------------------------ *)
(** * alphabeta only returns realistic scores (never the Min / Max sentinels, mate distances >= 1) *)

Lemma eval_raw : forall b, exists z, eval b = SRaw z.
Proof.
  intros b. unfold eval. destruct (100 <=? b_half b); [exists 0%Z; reflexivity|].
  match goal with |- exists z, (let '(we, be) := ?X in _) = _ => destruct X as [we be] end.
  eexists. reflexivity.
Qed.

Lemma eval_realistic : forall b, realistic (eval b).
Proof. intros b. destruct (eval_raw b) as [z ->]. exact I. Qed.

Lemma drain_nonempty : forall g, wf g -> mg_is_empty g = false -> mg_drain g <> [].
Proof.
  intros g Hwf He Hnil. unfold mg_drain in Hnil. rewrite drain_bound_eq, mg_drain_fuel_S in Hnil.
  destruct (mg_next g) as [[m|] g1] eqn:Hnext; [discriminate|].
  destruct (next_none_state g g1 Hwf Hnext) as (Hv & _).
  apply (is_empty_exact g Hwf) in Hv. rewrite Hv in He. discriminate.
Qed.

(* mate distances reported at ply [cur] are at least [cur]; no sentinel *)
Definition deep_ok (cur : N) (s : score) : Prop :=
  match s with SMin | SMax => False | SBlackMateIn n | SWhiteMateIn n => cur <= n | SRaw _ => True end.

Lemma deep_ok_weaken : forall cur cur' s, cur' <= cur -> deep_ok cur s -> deep_ok cur' s.
Proof. intros cur cur' [| n | z | n |] Hle H; cbn [deep_ok] in *; try exact H; lia. Qed.

Lemma deep_ok_realistic : forall cur s, 1 <= cur -> deep_ok cur s -> realistic s.
Proof. intros cur s Hc H. exact (deep_ok_weaken cur 1 s Hc H). Qed.

Lemma mate_score_deep_ok : forall c d, deep_ok d (mate_score c d).
Proof. intros [] d; cbn [mate_score deep_ok]; lia. Qed.

Lemma ab_loop_inv : forall (P : score -> Prop) k rec c,
  (forall s, P s -> realistic s) ->
  (forall m a b st new st2, rec m a b st = AVal new st2 -> P new) ->
  forall moves sc alpha beta st r st',
  (P sc \/ (sc = worst c /\ moves <> [])) ->
  ab_loop k rec c moves sc alpha beta st = AVal r st' -> P r.
Proof.
  intros P k rec c HP Hrec moves. induction moves as [|m rest IH]; intros sc alpha beta st r st' Hsc H.
  - rewrite ab_loop_nil in H. injection H as <- _.
    destruct Hsc as [Hsc|[_ Hne]]; [exact Hsc|contradiction Hne; reflexivity].
  - rewrite ab_loop_cons in H. destruct (expired k st); [discriminate|].
    destruct (rec m alpha beta (bump_poll st)) as [new st2| |] eqn:E; [|discriminate|discriminate].
    pose proof (Hrec _ _ _ _ _ _ E) as Hnew.
    assert (P (if is_better c sc new then new else sc)) as Hsc'.
    { destruct Hsc as [Hsc|[-> _]].
      - destruct (is_better c sc new); assumption.
      - rewrite (first_child_improves c new (HP new Hnew)). exact Hnew. }
    destruct (leb _ _).
    + injection H as <- _. exact Hsc'.
    + apply (IH _ _ _ _ _ _ (or_introl Hsc') H).
Qed.

(* what one call of alphabeta can return: the immediate verdicts, or the value of the child loop *)
Lemma alphabeta_cases : forall k tf fuel c old mv remaining current alpha beta bl st sc st',
  1 <= current ->
  alphabeta k tf fuel c old mv remaining current alpha beta bl st = AVal sc st' ->
  (exists z, sc = SRaw z) \/
  (sc = mate_score c current /\ mg_is_empty (legals_gen (apply old mv)) = true /\ in_check (apply old mv) = true) \/
  ((forall fuel' c' old' mv' remaining' alpha' beta' bl' st0 sc0 st0',
      alphabeta k tf fuel' c' old' mv' remaining' (current + 1) alpha' beta' bl' st0 = AVal sc0 st0' ->
      deep_ok (current + 1) sc0) -> deep_ok (current + 1) sc).
Proof.
  intros k tf fuel c old mv remaining current alpha beta bl st sc st' Hcur H.
  destruct fuel as [|f]; [rewrite alphabeta_0 in H; discriminate|].
  rewrite alphabeta_S in H. cbv zeta in H.
  revert H. generalize (apply old mv) as b. intros b.
  generalize (was_capture old mv) as wc. intros wc H.
  destruct (wc && insufficient_material b); [injection H as <- _; left; exists 0%Z; reflexivity|].
  destruct (mg_is_empty (legals_gen b)) eqn:He.
  { injection H as <- _. destruct (in_check b); [right; left; repeat split|left; exists 0%Z; reflexivity]. }
  destruct (100 <=? b_half b); [injection H as <- _; left; exists 0%Z; reflexivity|].
  destruct (bl_head_count (if wc then bl_new tf b else bl_add bl tf b) =? 3);
    [injection H as <- _; left; exists 0%Z; reflexivity|].
  revert H.
  set (g1 := if (remaining =? 0) && wc then mg_set_mask (legals_gen b) (colors b (opp c)) else legals_gen b).
  intros H.
  destruct ((remaining =? 0) && (if wc then mg_is_empty g1 else true)) eqn:Hcomplete.
  { injection H as <- _. left. apply eval_raw. }
  assert (wf g1 /\ mg_is_empty g1 = false) as (Hwf1 & He1).
  { subst g1. destruct (remaining =? 0); [|split; [apply legals_gen_wf|exact He]].
    destruct wc; [|discriminate Hcomplete]. cbn [andb] in Hcomplete |- *.
    split; [|exact Hcomplete].
    apply (set_mask_spec _ _ (legals_gen_wf b) (legals_gen_promo0 b)). }
  right. right. intros IH.
  assert (1 <= current + 1) as Hcur' by lia.
  refine (ab_loop_inv (deep_ok (current + 1)) _ _ _ (fun s => deep_ok_realistic _ s Hcur') _ _ _ _ _ _ _ _
            (or_intror (conj eq_refl (drain_nonempty g1 Hwf1 He1))) H).
  intros m a b' st0 new st2 E. unfold child_call in E. exact (IH _ _ _ _ _ _ _ _ _ _ _ E).
Qed.

Theorem alphabeta_deep_ok : forall k tf fuel c old mv remaining current alpha beta bl st sc st',
  1 <= current ->
  alphabeta k tf fuel c old mv remaining current alpha beta bl st = AVal sc st' -> deep_ok current sc.
Proof.
  intros k tf fuel. induction fuel as [|f IH]; intros c old mv remaining current alpha beta bl st sc st' Hcur H.
  - rewrite alphabeta_0 in H. discriminate.
  - pose proof H as H'. rewrite alphabeta_S in H'. cbv zeta in H'.
    revert H'. generalize (apply old mv) as b. intros b.
    generalize (was_capture old mv) as wc. intros wc H'.
    destruct (wc && insufficient_material b); [injection H' as <- _; exact I|].
    destruct (mg_is_empty (legals_gen b)) eqn:He.
    { injection H' as <- _. destruct (in_check b); [apply mate_score_deep_ok|exact I]. }
    destruct (100 <=? b_half b); [injection H' as <- _; exact I|].
    destruct (bl_head_count (if wc then bl_new tf b else bl_add bl tf b) =? 3); [injection H' as <- _; exact I|].
    revert H'.
    set (g1 := if (remaining =? 0) && wc then mg_set_mask (legals_gen b) (colors b (opp c)) else legals_gen b).
    intros H'.
    destruct ((remaining =? 0) && (if wc then mg_is_empty g1 else true)) eqn:Hcomplete.
    { injection H' as <- _. destruct (eval_raw b) as [z ->]. exact I. }
    assert (wf g1 /\ mg_is_empty g1 = false) as (Hwf1 & He1).
    { subst g1. destruct (remaining =? 0); [|split; [apply legals_gen_wf|exact He]].
      destruct wc; [|discriminate Hcomplete]. cbn [andb] in Hcomplete |- *.
      split; [|exact Hcomplete].
      apply (set_mask_spec _ _ (legals_gen_wf b) (legals_gen_promo0 b)). }
    assert (1 <= current + 1) as Hcur' by lia.
    apply (deep_ok_weaken (current + 1)); [lia|].
    refine (ab_loop_inv (deep_ok (current + 1)) _ _ _ (fun s => deep_ok_realistic _ s Hcur') _ _ _ _ _ _ _ _
              (or_intror (conj eq_refl (drain_nonempty g1 Hwf1 He1))) H').
    intros m a b' st0 new st2 E. unfold child_call in E. exact (IH _ _ _ _ _ _ _ _ _ _ _ Hcur' E).
Qed.

Theorem alphabeta_realistic : forall k tf fuel c old mv remaining current alpha beta bl st sc st',
  1 <= current ->
  alphabeta k tf fuel c old mv remaining current alpha beta bl st = AVal sc st' -> realistic sc.
Proof.
  intros k tf fuel c old mv remaining current alpha beta bl st sc st' Hcur H.
  exact (deep_ok_realistic current sc Hcur (alphabeta_deep_ok _ _ _ _ _ _ _ _ _ _ _ _ _ _ Hcur H)).
Qed.

(* a mate distance equal to the ply can only come from the immediate "no move and in check" verdict *)
Theorem alphabeta_mate_exact : forall k tf fuel c old mv remaining current alpha beta bl st sc st',
  1 <= current ->
  alphabeta k tf fuel c old mv remaining current alpha beta bl st = AVal sc st' ->
  (sc = SBlackMateIn current \/ sc = SWhiteMateIn current) ->
  sc = mate_score c current /\ mg_is_empty (legals_gen (apply old mv)) = true /\ in_check (apply old mv) = true.
Proof.
  intros k tf fuel c old mv remaining current alpha beta bl st sc st' Hcur H Hsc.
  destruct (alphabeta_cases _ _ _ _ _ _ _ _ _ _ _ _ _ _ Hcur H) as [[z Hz]|[Hm|Hdeep]].
  - rewrite Hz in Hsc. destruct Hsc; discriminate.
  - exact Hm.
  - exfalso. assert (1 <= current + 1) as Hcur' by lia.
    assert (deep_ok (current + 1) sc) as Hd.
    { apply Hdeep. intros. eapply alphabeta_deep_ok; [exact Hcur'|eassumption]. }
    destruct Hsc as [-> | ->]; cbn [deep_ok] in Hd; lia.
Qed.

Corollary root_realistic_holds : forall k tf root, root_realistic k tf root.
Proof.
  intros k tf root fuel m depth alpha beta st new st1 H.
  assert (1 <= 1) as H1 by lia.
  exact (alphabeta_realistic _ _ _ _ _ _ _ _ _ _ _ _ _ _ H1 H).
Qed.

(* C11_some, premise discharged *)
Theorem search_some : forall k tf passes fuel root sc best st',
  small_root root -> legals root <> [] ->
  pass k tf (fuel + N.to_nat 0) root 0 None {| s_polls := 0; s_evals := 0 |} = PassDone sc best st' ->
  fst (fst (fst (search k tf (S passes) fuel root))) <> None.
Proof.
  intros k tf passes fuel root sc best st' Hs Hne Hp.
  apply (search_some_rel k tf passes fuel root sc best st' Hs (root_realistic_holds k tf root) Hne Hp).
Qed.

(* ------------------------------------------------------------------ *)
(** * 6. Fuel: alphabeta's recursion is bounded by remaining depth + a capture measure.

   Every recursive call either lowers [remaining] or happens at [remaining = 0] after a capture.
   The chess-specific ingredient -- some invariant [Inv] of boards preserved by generated moves and a
   measure [mu] (intended: the number of men) that no generated move raises and every capturing move
   lowers -- is a premise here ([capture_measure]); it is NOT proved in this file. *)

Definition capture_measure (Inv : board -> Prop) (mu : board -> nat) : Prop :=
  forall b m, Inv b -> In m (content (legals_gen b)) ->
    Inv (apply b m) /\ (mu (apply b m) <= mu b)%nat /\ (was_capture b m = true -> (mu (apply b m) < mu b)%nat).

Lemma ab_loop_no_fuel : forall k rec c moves,
  (forall m, In m moves -> forall a b st, rec m a b st <> AFuel) ->
  forall sc alpha beta st, ab_loop k rec c moves sc alpha beta st <> AFuel.
Proof.
  intros k rec c moves. induction moves as [|m rest IH]; intros Hrec sc alpha beta st.
  - rewrite ab_loop_nil. discriminate.
  - rewrite ab_loop_cons. destruct (expired k st); [discriminate|].
    pose proof (Hrec m (or_introl eq_refl) alpha beta (bump_poll st)) as Hm.
    destruct (rec m alpha beta (bump_poll st)) as [new st2| |]; [|discriminate|contradiction Hm; reflexivity].
    destruct (leb _ _); [discriminate|].
    apply IH. intros x Hx. apply Hrec. right. exact Hx.
Qed.

Section Fuel.
  Variable Inv : board -> Prop.
  Variable mu : board -> nat.
  Hypothesis step : capture_measure Inv mu.

  (* the measure step for one call: a child call has a strictly smaller remaining + mu *)
  Lemma child_measure : forall old mv remaining,
    Inv old -> In mv (content (legals_gen old)) ->
    (remaining =? 0) && negb (was_capture old mv) = false ->
    (N.to_nat (sat_sub1 remaining) + mu (apply old mv) < N.to_nat remaining + mu old)%nat.
  Proof.
    intros old mv remaining Hinv Hin Hc. destruct (step old mv Hinv Hin) as (_ & Hle & Hlt).
    unfold sat_sub1. destruct (remaining =? 0) eqn:Hr.
    - destruct (was_capture old mv); [|discriminate Hc]. specialize (Hlt eq_refl). lia.
    - lia.
  Qed.

  Theorem alphabeta_fuel_enough_rel : forall k tf fuel c old mv remaining current alpha beta bl st,
    Inv old -> In mv (content (legals_gen old)) -> (N.to_nat remaining + mu old < fuel)%nat ->
    alphabeta k tf fuel c old mv remaining current alpha beta bl st <> AFuel.
  Proof.
    intros k tf fuel. induction fuel as [|f IH]; intros c old mv remaining current alpha beta bl st Hinv Hin Hfuel.
    - lia.
    - rewrite alphabeta_S. cbv zeta.
      pose proof (child_measure old mv remaining Hinv Hin) as Hmeas.
      destruct (step old mv Hinv Hin) as (Hinv' & _ & _).
      revert Hmeas Hinv'. generalize (apply old mv) as b. intros b.
      generalize (was_capture old mv) as wc. intros wc Hmeas Hinv'.
      destruct (wc && insufficient_material b); [discriminate|].
      destruct (mg_is_empty (legals_gen b)); [discriminate|].
      destruct (100 <=? b_half b); [discriminate|].
      destruct (bl_head_count (if wc then bl_new tf b else bl_add bl tf b) =? 3); [discriminate|].
      set (g1 := if (remaining =? 0) && wc then mg_set_mask (legals_gen b) (colors b (opp c)) else legals_gen b).
      destruct ((remaining =? 0) && (if wc then mg_is_empty g1 else true)) eqn:Hcomplete; [discriminate|].
      assert (sub_gen g1 (legals_gen b)) as Hsub.
      { assert (sub_gen (legals_gen b) (legals_gen b)) as H0
          by (apply sub_gen_refl; [apply legals_gen_wf|apply legals_gen_promo0]).
        subst g1. destruct ((remaining =? 0) && wc); [apply sub_gen_set_mask, H0|exact H0]. }
      assert ((remaining =? 0) && negb wc = false) as Hc.
      { destruct (remaining =? 0); [|reflexivity]. destruct wc; [reflexivity|discriminate Hcomplete]. }
      specialize (Hmeas Hc).
      apply ab_loop_no_fuel. intros m Hm a b' st0. unfold child_call.
      apply IH; [exact Hinv'|apply (sub_gen_drain_in g1 (legals_gen b) m Hsub Hm)|lia].
  Qed.

  Lemma root_phase_no_fuel : forall k tf fuel c root depth moves sc best alpha beta st,
    Inv root -> (forall m, In m moves -> In m (content (legals_gen root))) ->
    (N.to_nat depth + mu root < fuel)%nat ->
    root_phase k tf fuel c root depth moves sc best alpha beta st <> RFuel.
  Proof.
    intros k tf fuel c root depth moves Hdummy. revert Hdummy.
    induction moves as [|x rest IH]; intros sc best alpha beta st Hinv Hin Hfuel.
    - rewrite root_phase_nil. discriminate.
    - rewrite root_phase_cons.
      pose proof (alphabeta_fuel_enough_rel k tf fuel (opp c) root x depth 1 alpha beta (bl_new tf root) st
                    Hinv (Hin x (or_introl eq_refl)) Hfuel) as Hx.
      destruct (alphabeta k tf fuel (opp c) root x depth 1 alpha beta (bl_new tf root) st) as [new st1| |];
        [|discriminate|contradiction Hx; reflexivity].
      destruct (expired k st1); [discriminate|].
      apply IH; [exact Hinv| |exact Hfuel]. intros m Hm. apply Hin. right. exact Hm.
  Qed.

  Theorem pass_no_fuel_rel : forall k tf fuel root depth prev st,
    Inv root -> small_root root -> prev_legal root prev -> (N.to_nat depth + mu root < fuel)%nat ->
    pass k tf fuel root depth prev st <> PassFuel.
  Proof.
    intros k tf fuel root depth prev st Hinv Hs Hprev Hfuel. rewrite pass_eq.
    assert (first_phase k tf fuel root depth prev st <> RFuel) as H1.
    { unfold first_phase. destruct prev as [p|]; [|discriminate].
      apply root_phase_no_fuel; [exact Hinv| |exact Hfuel].
      intros m [<-|[]]. apply legals_in_content, Hprev. reflexivity. }
    destruct (first_phase k tf fuel root depth prev st) as [sc1 best1 a1 b1 st1| |];
      [|discriminate|contradiction H1; reflexivity].
    assert (root_phase k tf fuel (b_turn root) root depth (cap_moves root prev) sc1 best1 a1 b1 st1 <> RFuel) as H2.
    { apply root_phase_no_fuel; [exact Hinv| |exact Hfuel].
      intros m Hm. exact (sub_gen_drain_in (cap_gen root prev) (legals_gen root) m (cap_gen_sub root prev) Hm). }
    destruct (root_phase k tf fuel (b_turn root) root depth (cap_moves root prev) sc1 best1 a1 b1 st1)
      as [sc2 best2 a2 b2 st2| |]; [|discriminate|contradiction H2; reflexivity].
    assert (root_phase k tf fuel (b_turn root) root depth (quiet_moves root prev) sc2 best2 a2 b2 st2 <> RFuel) as H3.
    { apply root_phase_no_fuel; [exact Hinv| |exact Hfuel].
      intros m Hm. exact (sub_gen_drain_in (quiet_gen root prev) (legals_gen root) m (quiet_gen_sub root prev Hs) Hm). }
    destruct (root_phase k tf fuel (b_turn root) root depth (quiet_moves root prev) sc2 best2 a2 b2 st2)
      as [sc3 best3 a3 b3 st3| |]; [|discriminate|contradiction H3; reflexivity].
    destruct (expired k st3); discriminate.
  Qed.

  (* with mu root < fuel and 65536 passes, the model's search never reports exhaustion: its result is
     the result of the unbounded loop of Engine::search *)
  Lemma deepen_exact_rel : forall k tf root, Inv root -> small_root root ->
    forall passes fuel depth best bsc maxd st,
    (mu root < fuel)%nat -> prev_legal root best -> depth <= 65535 -> 65535 - depth < N.of_nat passes ->
    snd (deepen k tf passes fuel root depth best bsc maxd st) = false.
  Proof.
    intros k tf root Hinv Hs passes. induction passes as [|p IH]; intros fuel depth best bsc maxd st Hfuel Hbest Hd Hp.
    - lia.
    - rewrite deepen_S.
      assert (N.to_nat depth + mu root < fuel + N.to_nat depth)%nat as Hf by lia.
      pose proof (pass_no_fuel_rel k tf (fuel + N.to_nat depth) root depth best st Hinv Hs Hbest Hf) as Hnf.
      destruct (pass k tf (fuel + N.to_nat depth) root depth best st) as [| |sc1 b1 st1] eqn:Hpass;
        [reflexivity|contradiction Hnf; reflexivity|].
      destruct b1 as [m1|]; [|reflexivity].
      destruct (is_mate_score sc1); [reflexivity|].
      destruct (depth =? 65535) eqn:Hd'; [reflexivity|]. apply N.eqb_neq in Hd'.
      pose proof (pass_best_legal _ _ _ _ _ _ _ _ _ _ Hs Hbest Hpass) as Hm1.
      assert (prev_legal root (Some m1)) as Hnext by (intros q Hq; injection Hq as <-; exact Hm1).
      apply IH; [exact Hfuel|exact Hnext|lia|lia].
  Qed.

  Theorem search_exact_rel : forall k tf passes fuel root,
    Inv root -> small_root root -> (mu root < fuel)%nat -> 65536 <= N.of_nat passes ->
    snd (search k tf passes fuel root) = false.
  Proof.
    intros k tf passes fuel root Hinv Hs Hfuel Hp. unfold search.
    assert (prev_legal root None) as Hnone by (intros q Hq; discriminate Hq).
    apply (deepen_exact_rel k tf root Hinv Hs); [exact Hfuel|exact Hnone|lia|lia].
  Qed.
End Fuel.

(* the intended instance, kept as a statement: Inv = a board-consistency invariant, mu = number of men *)
Definition men (b : board) : nat := N.to_nat (count (all_occ b)).
Definition men_capture_measure_statement (Inv : board -> Prop) : Prop := capture_measure Inv men.

(* ------------------------------------------------------------------ *)
(** * C12 (model level): the score returned is the alphabeta value of the move returned;
      a mate-in-one score is honest, and a mate in one is found by the first completed pass *)

(* [sc] is the value alphabeta computed for the root child [m] in some pass *)
Definition root_value (k : N) (tf : threefold) (root : board) (m : move) (sc : score) : Prop :=
  exists fuel depth alpha beta st st1,
    alphabeta k tf fuel (opp (b_turn root)) root m depth 1 alpha beta (bl_new tf root) st = AVal sc st1.

Lemma root_phase_value : forall k tf fuel root depth moves sc best alpha beta st sc' best' a' b' st',
  root_phase k tf fuel (b_turn root) root depth moves sc best alpha beta st = RVal sc' best' a' b' st' ->
  (forall m, best = Some m -> root_value k tf root m sc) ->
  forall m, best' = Some m -> root_value k tf root m sc'.
Proof.
  intros k tf fuel root depth moves.
  induction moves as [|x rest IH]; intros sc best alpha beta st sc' best' a' b' st' H Hbest m Hm.
  - rewrite root_phase_nil in H. injection H as Hs Hb _ _ _. rewrite <- Hs. apply Hbest. rewrite Hb. exact Hm.
  - rewrite root_phase_cons in H.
    destruct (alphabeta k tf fuel (opp (b_turn root)) root x depth 1 alpha beta (bl_new tf root) st) as [new st1| |] eqn:E;
      [|discriminate|discriminate].
    destruct (expired k st1); [discriminate|].
    apply (IH _ _ _ _ _ _ _ _ _ _ H); [|exact Hm].
    intros q Hq. destruct (is_better (b_turn root) sc new).
    + injection Hq as <-. exists fuel, depth, alpha, beta, st, st1. exact E.
    + apply Hbest, Hq.
Qed.

Lemma pass_value : forall k tf fuel root depth prev st sc m st',
  pass k tf fuel root depth prev st = PassDone sc (Some m) st' -> root_value k tf root m sc.
Proof.
  intros k tf fuel root depth prev st sc m st' H. rewrite pass_eq in H.
  destruct (first_phase k tf fuel root depth prev st) as [sc1 best1 a1 b1 st1| |] eqn:E1; [|discriminate|discriminate].
  destruct (root_phase k tf fuel (b_turn root) root depth (cap_moves root prev) sc1 best1 a1 b1 st1)
    as [sc2 best2 a2 b2 st2| |] eqn:E2; [|discriminate|discriminate].
  destruct (root_phase k tf fuel (b_turn root) root depth (quiet_moves root prev) sc2 best2 a2 b2 st2)
    as [sc3 best3 a3 b3 st3| |] eqn:E3; [|discriminate|discriminate].
  destruct (expired k st3); [discriminate|]. injection H as Hs Hb _. rewrite <- Hs.
  apply (root_phase_value _ _ _ _ _ _ _ _ _ _ _ _ _ _ _ _ E3); [|exact Hb].
  apply (root_phase_value _ _ _ _ _ _ _ _ _ _ _ _ _ _ _ _ E2).
  unfold first_phase in E1. destruct prev as [p|].
  - apply (root_phase_value _ _ _ _ _ _ _ _ _ _ _ _ _ _ _ _ E1). intros q Hq. discriminate Hq.
  - injection E1 as _ Hn _ _ _. intros q Hq. rewrite <- Hn in Hq. discriminate Hq.
Qed.

Lemma deepen_value : forall k tf root passes fuel depth best bsc maxd st m sc d f,
  (forall p, best = Some p -> root_value k tf root p bsc) ->
  deepen k tf passes fuel root depth best bsc maxd st = (Some m, sc, d, f) -> root_value k tf root m sc.
Proof.
  intros k tf root passes. induction passes as [|p IH]; intros fuel depth best bsc maxd st m sc d f Hbest H.
  - rewrite deepen_0 in H. injection H as Hb Hs _ _. rewrite <- Hs. apply Hbest, Hb.
  - rewrite deepen_S in H.
    destruct (pass k tf (fuel + N.to_nat depth) root depth best st) as [| |sc1 b1 st1] eqn:Hp.
    + injection H as Hb Hs _ _. rewrite <- Hs. apply Hbest, Hb.
    + injection H as Hb Hs _ _. rewrite <- Hs. apply Hbest, Hb.
    + destruct b1 as [m1|]; [|discriminate].
      pose proof (pass_value _ _ _ _ _ _ _ _ _ _ Hp) as Hv.
      destruct (is_mate_score sc1); [injection H as Hb Hs _ _; rewrite <- Hb, <- Hs; exact Hv|].
      destruct (depth =? 65535); [injection H as Hb Hs _ _; rewrite <- Hb, <- Hs; exact Hv|].
      assert (forall q, Some m1 = Some q -> root_value k tf root q sc1) as Hnext
        by (intros q Hq; injection Hq as <-; exact Hv).
      apply (IH _ _ _ _ _ _ _ _ _ _ Hnext H).
Qed.

(* the score search returns is the alphabeta value of the move it returns *)
Theorem search_value : forall k tf passes fuel root m sc d f,
  search k tf passes fuel root = (Some m, sc, d, f) -> root_value k tf root m sc.
Proof.
  intros k tf passes fuel root m sc d f H. unfold search in H.
  assert (forall p, @None move = Some p -> root_value k tf root p (worst (b_turn root))) as Hnone
    by (intros p Hp; discriminate Hp).
  apply (deepen_value _ _ _ _ _ _ _ _ _ _ _ _ _ _ Hnone H).
Qed.

(* model-level C12_honest: a reported mate in one for the mover is a mate on the board after the move
   (the opponent has no legal move and is in check) *)
Theorem search_mate1_honest : forall k tf passes fuel root m d f,
  search k tf passes fuel root = (Some m, mate_score (opp (b_turn root)) 1, d, f) ->
  mg_is_empty (legals_gen (apply root m)) = true /\ in_check (apply root m) = true.
Proof.
  intros k tf passes fuel root m d f H.
  destruct (search_value _ _ _ _ _ _ _ _ _ H) as (fuel' & depth & alpha & beta & st & st1 & E).
  assert (1 <= 1) as H1 by lia.
  apply (alphabeta_mate_exact _ _ _ _ _ _ _ _ _ _ _ _ _ _ H1 E).
  destruct (opp (b_turn root)); [left|right]; reflexivity.
Qed.

(* ---- finding the mate ---- *)
Definition mate1 (c : color) : score := mate_score (opp c) 1.

Lemma mate1_eq : forall c, mate1 c = match c with White => SWhiteMateIn 1 | Black => SBlackMateIn 1 end.
Proof. intros []; reflexivity. Qed.

Lemma score_eq_dec : forall a b : score, {a = b} + {a <> b}.
Proof. decide equality; try apply N.eq_dec; apply Z.eq_dec. Qed.

Lemma is_better_mate1 : forall c sc, (realistic sc \/ sc = worst c) -> sc <> mate1 c -> is_better c sc (mate1 c) = true.
Proof.
  intros c sc Hsc Hne. rewrite mate1_eq in *.
  destruct c; unfold is_better, ltb, gtb; destruct sc as [| n | z | n |]; try reflexivity;
    try (destruct Hsc as [Hsc|Hsc]; [exact (False_ind _ Hsc)|discriminate Hsc]).
  - change (cmp (SWhiteMateIn n) (SWhiteMateIn 1)) with (1 ?= n).
    destruct Hsc as [Hsc|Hsc]; [|discriminate Hsc]. change (1 <= n) in Hsc.
    assert (n <> 1) as Hn by (intros ->; apply Hne; reflexivity).
    assert (1 < n) as Hlt by lia. apply N.compare_lt_iff in Hlt. rewrite Hlt. reflexivity.
  - change (cmp (SBlackMateIn n) (SBlackMateIn 1)) with (n ?= 1).
    destruct Hsc as [Hsc|Hsc]; [|discriminate Hsc]. change (1 <= n) in Hsc.
    assert (n <> 1) as Hn by (intros ->; apply Hne; reflexivity).
    assert (1 < n) as Hlt by lia. apply N.compare_gt_iff in Hlt. rewrite Hlt. reflexivity.
Qed.

(* [m] is a root move every evaluation of which yields "mate in one" *)
Definition mates_now (k : N) (tf : threefold) (root : board) (m : move) : Prop :=
  forall fuel depth alpha beta st v st1,
    alphabeta k tf fuel (opp (b_turn root)) root m depth 1 alpha beta (bl_new tf root) st = AVal v st1 ->
    v = mate1 (b_turn root).

Lemma mating_move_mates_now : forall k tf root m,
  mg_is_empty (legals_gen (apply root m)) = true -> in_check (apply root m) = true ->
  was_capture root m && insufficient_material (apply root m) = false ->
  mates_now k tf root m.
Proof.
  intros k tf root m He Hc Hi fuel depth alpha beta st v st1 H.
  destruct fuel as [|f]; [rewrite alphabeta_0 in H; discriminate|].
  rewrite alphabeta_S in H. cbv zeta in H. rewrite Hi, He, Hc in H. injection H as <- _. reflexivity.
Qed.

Lemma root_phase_score : forall k tf fuel root depth moves sc best alpha beta st sc' best' a' b' st',
  (realistic sc \/ sc = worst (b_turn root)) ->
  root_phase k tf fuel (b_turn root) root depth moves sc best alpha beta st = RVal sc' best' a' b' st' ->
  (realistic sc' \/ sc' = worst (b_turn root)) /\
  (sc = mate1 (b_turn root) -> sc' = mate1 (b_turn root)) /\
  (forall m, In m moves -> mates_now k tf root m -> sc' = mate1 (b_turn root)).
Proof.
  intros k tf fuel root depth moves.
  induction moves as [|x rest IH]; intros sc best alpha beta st sc' best' a' b' st' Hsc H.
  - rewrite root_phase_nil in H. injection H as <- _ _ _ _.
    split; [exact Hsc|split; [intros E; exact E|intros m []]].
  - rewrite root_phase_cons in H.
    destruct (alphabeta k tf fuel (opp (b_turn root)) root x depth 1 alpha beta (bl_new tf root) st) as [new st1| |] eqn:E;
      [|discriminate|discriminate].
    destruct (expired k st1); [discriminate|].
    pose proof (root_realistic_holds k tf root _ _ _ _ _ _ _ _ E) as Hnew.
    assert (realistic (if is_better (b_turn root) sc new then new else sc) \/
            (if is_better (b_turn root) sc new then new else sc) = worst (b_turn root)) as Hsc'.
    { destruct (is_better (b_turn root) sc new); [left; exact Hnew|exact Hsc]. }
    destruct (IH _ _ _ _ _ _ _ _ _ _ Hsc' H) as (Hr & Hkept & Hfound).
    split; [exact Hr|split].
    + intros ->. apply Hkept. rewrite mate1_eq. rewrite (mate1_kept (b_turn root) new Hnew). reflexivity.
    + intros m [<-|Hm] Hmates; [|apply (Hfound m Hm Hmates)].
      apply Hkept. rewrite (Hmates _ _ _ _ _ _ _ E).
      destruct (score_eq_dec sc (mate1 (b_turn root))) as [->|Hne].
      * destruct (is_better (b_turn root) (mate1 (b_turn root)) (mate1 (b_turn root))); reflexivity.
      * rewrite (is_better_mate1 _ sc Hsc Hne). reflexivity.
Qed.

(* model-level C12_finds: if some legal move mates at once, a completed first pass reports mate in one *)
Theorem first_pass_finds_mate1 : forall k tf fuel root depth st sc best st' m,
  small_root root -> In m (legals root) -> mates_now k tf root m ->
  pass k tf fuel root depth None st = PassDone sc best st' -> sc = mate1 (b_turn root).
Proof.
  intros k tf fuel root depth st sc best st' m Hs Hm Hmates H. rewrite pass_none_eq in H.
  destruct (root_phase k tf fuel (b_turn root) root depth (cap_moves root None) (worst (b_turn root)) None SMin SMax st)
    as [sc2 best2 a2 b2 st2| |] eqn:E2; [|discriminate|discriminate].
  destruct (root_phase k tf fuel (b_turn root) root depth (quiet_moves root None) sc2 best2 a2 b2 st2)
    as [sc3 best3 a3 b3 st3| |] eqn:E3; [|discriminate|discriminate].
  destruct (expired k st3); [discriminate|]. injection H as Hsc _ _. rewrite <- Hsc.
  destruct (root_phase_score _ _ _ _ _ _ _ _ _ _ _ _ _ _ _ _ (or_intror eq_refl) E2) as (Hr2 & _ & Hfound2).
  destruct (root_phase_score _ _ _ _ _ _ _ _ _ _ _ _ _ _ _ _ Hr2 E3) as (_ & Hkept3 & Hfound3).
  assert (In m (cap_moves root None ++ quiet_moves root None)) as Hin.
  { apply (Permutation_in m (Permutation_sym (pass_lists_perm root None Hs))).
    change (root_gen1 root None) with (legals_gen root). apply legals_in_content, Hm. }
  apply in_app_or in Hin. destruct Hin as [Hc|Hq].
  - apply Hkept3. apply (Hfound2 m Hc Hmates).
  - apply (Hfound3 m Hq Hmates).
Qed.

Theorem search_finds_mate1 : forall k tf passes fuel root sc best st' m,
  small_root root -> In m (legals root) -> mates_now k tf root m ->
  pass k tf (fuel + N.to_nat 0) root 0 None {| s_polls := 0; s_evals := 0 |} = PassDone sc best st' ->
  exists m', search k tf (S passes) fuel root = (Some m', mate1 (b_turn root), 0, false) /\
             mg_is_empty (legals_gen (apply root m')) = true /\ in_check (apply root m') = true.
Proof.
  intros k tf passes fuel root sc best st' m Hs Hm Hmates Hp.
  pose proof (first_pass_finds_mate1 _ _ _ _ _ _ _ _ _ _ Hs Hm Hmates Hp) as Hsc.
  assert (legals root <> []) as Hne by (intros E; rewrite E in Hm; destruct Hm).
  pose proof (first_pass_some _ _ _ _ _ _ _ _ _ Hs (root_realistic_holds k tf root) Hne Hp) as Hb.
  destruct best as [m'|]; [|contradiction Hb; reflexivity].
  assert (search k tf (S passes) fuel root = (Some m', mate1 (b_turn root), 0, false)) as E.
  { unfold search. rewrite deepen_S, Hp, Hsc. unfold mate1. destruct (opp (b_turn root)); reflexivity. }
  exists m'. split; [exact E|]. apply (search_mate1_honest _ _ _ _ _ _ _ _ E).
Qed.

(* ------------------------------------------------------------------ *)
(** * Full statements of which only the [small_root] restriction is proved above *)

(* [small_root] holds of every board (small_root_all): the statements below are theorems
   (pass_best_legal_all, search_move_legal_all, search_some_all, search_finds_mate1_all). *)
Definition pass_best_legal_statement : Prop :=
  forall k tf fuel root depth prev st sc m st',
    prev_legal root prev -> pass k tf fuel root depth prev st = PassDone sc (Some m) st' -> In m (legals root).
Definition search_move_legal_statement : Prop :=
  forall k tf passes fuel root m sc d f, search k tf passes fuel root = (Some m, sc, d, f) -> In m (legals root).
Definition search_some_statement : Prop :=
  forall k tf passes fuel root sc best st',
    legals root <> [] ->
    pass k tf (fuel + N.to_nat 0) root 0 None {| s_polls := 0; s_evals := 0 |} = PassDone sc best st' ->
    fst (fst (fst (search k tf (S passes) fuel root))) <> None.
(* item 6 without the premise: needs a board invariant and the men-count lemma for [apply] *)
Definition alphabeta_fuel_statement (Inv : board -> Prop) : Prop :=
  forall k tf fuel c old mv remaining current alpha beta bl st,
    Inv old -> In mv (content (legals_gen old)) -> (N.to_nat remaining + men old < fuel)%nat ->
    alphabeta k tf fuel c old mv remaining current alpha beta bl st <> AFuel.

Theorem pass_best_legal_all : pass_best_legal_statement.
Proof. intros k tf fuel root depth prev st sc m st'. apply pass_best_legal, small_root_all. Qed.
Theorem search_move_legal_all : search_move_legal_statement.
Proof. intros k tf passes fuel root m sc d f. apply search_move_legal, small_root_all. Qed.
Theorem search_some_all : search_some_statement.
Proof. intros k tf passes fuel root sc best st'. apply search_some, small_root_all. Qed.
Theorem search_finds_mate1_all : forall k tf passes fuel root sc best st' m,
  In m (legals root) -> mates_now k tf root m ->
  pass k tf (fuel + N.to_nat 0) root 0 None {| s_polls := 0; s_evals := 0 |} = PassDone sc best st' ->
  exists m', search k tf (S passes) fuel root = (Some m', mate1 (b_turn root), 0, false) /\
             mg_is_empty (legals_gen (apply root m')) = true /\ Board.in_check (apply root m') = true.
Proof. intros k tf passes fuel root sc best st' m. apply search_finds_mate1, small_root_all. Qed.

Print Assumptions root_phase_best_in.
Print Assumptions pass_best_legal.
Print Assumptions search_move_legal.
Print Assumptions search_none.
Print Assumptions search_some.
Print Assumptions alphabeta_realistic.
Print Assumptions alphabeta_mate_exact.
Print Assumptions search_exact_rel.
Print Assumptions search_mate1_honest.
Print Assumptions search_finds_mate1.
