(* C12 - helper of InsufFacts.v: the geometric sweep and its lifting lemma.
   "insufficient material" is never checkmate.
   The search model scores a capture that leaves insufficient material (no queen, rook or pawn, and at most one
   minor piece on the whole board) as a draw BEFORE testing for mate.  This file proves the chess fact that makes
   the early draw harmless for the mate-in-one property:
       insufficient_never_mate     : on a Good board with insufficient material the side to move is never mated;
       mating_move_mates_now_good  : SearchFacts.mating_move_mates_now without its capture side condition.
   Route: a Good board with insufficient material holds the two kings and at most one minor piece.  A checker is
   then that minor piece (kings never check), and a kernel sweep over (king, enemy king, minor, kind) shows that
   the checked king always has a safe step (possibly capturing the minor).  Axiom-free. *)
From Coq Require Import NArith ZArith List Bool Lia ZifyBool ZifyN Permutation.
From Chess Require Import base.Bits base.Types base.BitBoard base.Sweep geom.Geometry model.Board model.MoveGen model.Apply
  model.Search spec.Rules.
From Chess Require Import spec.IterSpec proofs.BitsFacts proofs.BitBoardFacts proofs.IterFacts proofs.HashFacts proofs.InvFacts
  proofs.LegalDefs proofs.AttackDefs.
From Chess Require proofs.BridgeFacts.
From Chess Require Import proofs.AttackFacts proofs.KingFacts proofs.ExactFacts proofs.StatusFacts proofs.ValidFacts
  proofs.Reachable proofs.SearchFacts.
Import ListNotations.
Local Open Scope N_scope.

(* ------------------------------------------------------------------ *)
(** * 1. The geometric sweep: king k (to move), enemy king e, enemy minor on t giving check *)

Definition occ3 (k e t : N) : N := bb_or (from_pos k) (bb_or (from_pos e) (from_pos t)).
(* the occupancy is_legal_king_position looks at: king lifted off k, destination d added *)
Definition occx3 (k e t d : N) : N := bb_xor (occ3 k e t) (bb_xor (from_pos k) (from_pos d)).
(* kind = true: knight, false: bishop; the minor on t attacks s *)
Definition matt (kind : bool) (s occ t : N) : bool :=
  if kind then mem (knight_geo s) t else mem (bishop_attacks s occ) t.
Definition pre (kind : bool) (k t : N) : bool :=
  if kind then mem (knight_geo k) t else mem (bishop_rays_geo k) t.
(* d is a safe step for the king on k (kg = king_geo k) *)
Definition esc (kind : bool) (kg k e t d : N) : bool :=
  if mem kg d then
    if d =? k then false else if d =? e then false else
    if mem (king_geo d) e then false else negb (matt kind d (occx3 k e t d) t)
  else false.
Definition chk3 (kind : bool) (kg k t e : N) : bool :=
  if matt kind k (occ3 k e t) t then
    if (k =? e) || (k =? t) || (e =? t) then true else
    if mem kg e then true else existsb (esc kind kg k e t) sq_list
  else true.
Definition chk2 (kind : bool) (k t : N) : bool :=
  if pre kind k t then all_sq (chk3 kind (king_geo k) k t) else true.

Lemma sweep_knight : all_sq2 (chk2 true) = true.
Proof. vm_cast_no_check (eq_refl true). Qed.
Lemma sweep_bishop : all_sq2 (chk2 false) = true.
Proof. vm_cast_no_check (eq_refl true). Qed.

Lemma bishop_att_rays : forall s occ t, s < 64 -> mem (bishop_attacks s occ) t = true -> mem (bishop_rays_geo s) t = true.
Proof.
  intros s occ t Hs H.
  pose proof (slider_att Bishop White s occ t Hs (or_introl eq_refl)) as A. cbn [att_from slider_kind] in A.
  rewrite H in A. symmetry in A. apply andb_true_iff in A. apply A.
Qed.

(* the lifting lemma: a king checked by a lone enemy minor has a safe step *)
Lemma escape_exists : forall kind k e t, k < 64 -> e < 64 -> t < 64 ->
  k <> e -> k <> t -> e <> t -> mem (king_geo k) e = false ->
  matt kind k (occ3 k e t) t = true ->
  exists d, d < 64 /\ mem (king_geo k) d = true /\ d <> k /\ d <> e /\ mem (king_geo d) e = false
            /\ matt kind d (occx3 k e t d) t = false.
Proof.
  intros kind k e t Hk He Ht Nke Nkt Net Hadj Hatt.
  assert (S2 : chk2 kind k t = true).
  { destruct kind; [exact (all_sq2_spec _ sweep_knight k t Hk Ht)|exact (all_sq2_spec _ sweep_bishop k t Hk Ht)]. }
  unfold chk2 in S2.
  assert (Hpre : pre kind k t = true).
  { destruct kind; unfold pre, matt in *; [exact Hatt|exact (bishop_att_rays k _ t Hk Hatt)]. }
  rewrite Hpre in S2. pose proof (all_sq_spec _ S2 e He) as S3. unfold chk3 in S3.
  rewrite Hatt, Hadj in S3.
  apply N.eqb_neq in Nke, Nkt, Net. rewrite Nke, Nkt, Net in S3. cbn [orb] in S3.
  apply existsb_exists in S3. destruct S3 as (d & Hin & Hd). apply sq_list_lt in Hin.
  unfold esc in Hd.
  destruct (mem (king_geo k) d) eqn:E1; [|discriminate Hd].
  destruct (d =? k) eqn:E2; [discriminate Hd|].
  destruct (d =? e) eqn:E3; [discriminate Hd|].
  destruct (mem (king_geo d) e) eqn:E4; [discriminate Hd|].
  apply negb_true_iff in Hd. apply N.eqb_neq in E2, E3.
  exists d. repeat split; assumption.
Qed.

