(* C03 / C05 support:
     good_determined    : a Good board is determined by its position (the fields compared by PartialEq) and its clocks:
                          hash, pinned, checkers are functions of the placement and the side to move
     builder_state_inv  : invariant of the incremental BoardBuilder state
     build_Good         : every board returned by BoardBuilder::build is Good and has at most 16 men per side
   Axiom-free. *)
From Coq Require Import NArith ZArith List Bool Lia ZifyBool ZifyN.
From Chess Require Import base.Bits base.Types base.BitBoard geom.Geometry model.Board model.MoveGen model.Apply spec.Rules.
From Chess Require Import proofs.BitsFacts proofs.BitBoardFacts.
From Chess Require proofs.BridgeFacts proofs.FenFacts.
From Chess Require Import proofs.HashFacts proofs.InvFacts proofs.LegalDefs proofs.SafeFacts.
Import ListNotations.
Local Open Scope N_scope.

(* ------------------------------------------------------------------ *)
(** * Part 1: a Good board is determined by its position *)

Lemma board_ext : forall a b,
  b_zob a = b_zob b -> b_turn a = b_turn b -> b_rights a = b_rights b -> b_ep a = b_ep b ->
  b_half a = b_half b -> b_full a = b_full b -> b_pinned a = b_pinned b -> b_checkers a = b_checkers b ->
  b_white a = b_white b -> b_black a = b_black b -> b_pawn a = b_pawn b -> b_knight a = b_knight b ->
  b_bishop a = b_bishop b -> b_rook a = b_rook b -> b_queen a = b_queen b -> b_king a = b_king b -> a = b.
Proof.
  intros [a1 a2 a3 a4 a5 a6 a7 a8 a9 a10 a11 a12 a13 a14 a15 a16] [c1 c2 c3 c4 c5 c6 c7 c8 c9 c10 c11 c12 c13 c14 c15 c16].
  cbn [b_zob b_turn b_rights b_ep b_half b_full b_pinned b_checkers b_white b_black b_pawn b_knight b_bishop b_rook b_queen b_king].
  intros; subst; reflexivity.
Qed.

(* the from-scratch pin information of two boards with the same placement and side to move *)
Lemma fresh_determined : forall a b, fresh a -> fresh b -> same_placement a b -> b_turn a = b_turn b ->
  b_pinned a = b_pinned b /\ b_checkers a = b_checkers b.
Proof.
  intros a b [Fa1 Fa2] [Fb1 Fb2] S Et.
  destruct (update_pin_info_ext a b S Et) as [E1 E2].
  split.
  - rewrite Fa1, Fb1. exact E1.
  - rewrite Fa2, Fb2. exact E2.
Qed.

Theorem good_determined : forall a b, Good a -> Good b -> board_eqb a b = true ->
  b_half a = b_half b -> b_full a = b_full b -> a = b.
Proof.
  intros a b Ga Gb E Eh Ef.
  destruct (eq_boards_eq_hash_strong a b (inv_consistent a (good_inv a Ga)) (inv_consistent b (good_inv b Gb)) E) as [Ez _].
  destruct (board_eqb_fields a b E) as (Et & Er & Ee & E1 & E2 & E3 & E4 & E5 & E6 & E7 & E8).
  assert (S : same_placement a b) by (unfold same_placement; repeat split; assumption).
  destruct (fresh_determined a b (good_fresh a Ga) (good_fresh b Gb) S Et) as [Ep Ec].
  apply board_ext; assumption.
Qed.

(* board_all_eqb (every field) follows *)
Corollary good_determined_all : forall a b, Good a -> Good b -> board_eqb a b = true ->
  b_half a = b_half b -> b_full a = b_full b -> board_all_eqb a b = true /\ zobrist a = zobrist b.
Proof.
  intros a b Ga Gb E Eh Ef. pose proof (good_determined a b Ga Gb E Eh Ef) as Eab. subst b.
  split; [|reflexivity]. unfold board_all_eqb. rewrite E, !N.eqb_refl. reflexivity.
Qed.

(* ------------------------------------------------------------------ *)
(** * Part 2: the incremental builder *)

Definition builder_state (ops : list bop) : board := fold_left (fun b o => fst (bstep b o)) ops empty_board.
Definition bop_wf (o : bop) : Prop :=
  match o with
  | BEnpassant (Some f) => f < 8 | BPlace s _ _ => s < 64 | BRemove s => s < 64 | BHalf n => n < 65536 | BFull n => n < 65536 | _ => True
  end.

Definition binv (b : board) : Prop :=
  HashFacts.Part b /\ consistent b /\ b_rights b = 0 /\ b_pinned b = 0 /\ b_checkers b = 0 /\ (forall f, b_ep b = Some f -> f < 8).

Lemma binv_empty : binv empty_board.
Proof.
  split; [exact Part_empty_board|split; [exact consistent_empty_board|]].
  repeat split. intros f H. discriminate H.
Qed.

(* clock / turn / e.p. setters *)
Lemma binv_set_meta : forall b t e h f, binv b -> (forall x, e = Some x -> x < 8) ->
  binv (set_meta b t (b_rights b) e h f (b_pinned b) (b_checkers b)).
Proof.
  intros b t e h f (P & C & Hr & Hp & Hc & He) He'.
  split; [apply Part_set_meta; [exact P|apply (part_wf_pinned b P)|apply (part_wf_checkers b P)]|].
  split; [apply consistent_set_meta, C|].
  cbn [set_meta b_rights b_pinned b_checkers b_ep]. repeat split; assumption.
Qed.

(* placing a man on an empty square keeps the meta fields *)
Lemma place_meta : forall b c p s z, let b2 := set_zob (raw_set_unchecked b c p s) z in
  b_turn b2 = b_turn b /\ b_rights b2 = b_rights b /\ b_ep b2 = b_ep b /\ b_half b2 = b_half b /\ b_full b2 = b_full b
  /\ b_pinned b2 = b_pinned b /\ b_checkers b2 = b_checkers b.
Proof. intros b [] p s z; cbv zeta; repeat split. Qed.

Lemma binv_place : forall b s c p, binv b -> s < 64 -> binv (fst (bstep b (BPlace s c p))).
Proof.
  intros b s c p B Hs. cbn [bstep]. rewrite (contains_spec _ _ Hs).
  destruct (mem (all_occ b) s) eqn:Eo; [exact B|]. cbv zeta. cbn [fst].
  destruct B as (P & C & Hr & Hp & Hc & He).
  destruct (place_consistent b c p s P C Hs Eo) as (P2 & C2 & _). cbv zeta in P2, C2.
  destruct (place_meta b c p s (N.lxor (b_zob (raw_set_unchecked b c p s)) (zkey s p c))) as (_ & Er & Ee & _ & _ & Epn & Eck).
  cbv zeta in Er, Ee, Epn, Eck.
  split; [exact P2|split; [exact C2|]].
  rewrite Er, Ee, Epn, Eck. repeat split; assumption.
Qed.

(* removing the man that raw_get reports = Board::xor of that square *)
Lemma cleared_xor : forall a s, wf64 a -> s < 64 -> mem a s = true -> cleared a s = bb_xor a (from_pos s).
Proof. intros a s Wa Hs H. symmetry. exact (pop_xor_cleared a s Wa Hs H). Qed.

Lemma remove_is_board_xor : forall b c p s, HashFacts.Part b -> s < 64 -> raw_get b s = Some (c, p) ->
  raw_remove (set_zob b (N.lxor (b_zob b) (zkey s p c))) c p s = board_xor b c p (from_pos s).
Proof.
  intros b c p s P Hs R.
  destruct (proj1 (proj1 (raw_get_spec b P s Hs) c p) R) as [Mc Mp].
  unfold board_xor. cbv zeta. rewrite (elements_from_pos s Hs). cbn [fold_left].
  destruct (raw_xor_meta b c p (from_pos s)) as (Ez & _). rewrite Ez.
  unfold raw_remove, raw_xor.
  change (colors (set_zob b (N.lxor (b_zob b) (zkey s p c))) c) with (colors b c).
  rewrite (cleared_xor (colors b c) s (part_wf_colors b P c) Hs Mc).
  change (pieces (set_zob b (N.lxor (b_zob b) (zkey s p c))) p) with (pieces b p).
  rewrite (cleared_xor (pieces b p) s (part_wf_pieces b P p) Hs Mp).
  destruct c; reflexivity.
Qed.

Lemma toggle_ok_man : forall b c p s, s < 64 -> raw_get b s = Some (c, p) -> toggle_ok b c p (from_pos s).
Proof.
  intros b c p s Hs R t Ht Hm. rewrite mem_from_pos in Hm by assumption. apply N.eqb_eq in Hm. subst t. left. exact R.
Qed.

Lemma board_xor_meta : forall b c p d, let b2 := board_xor b c p d in
  b_turn b2 = b_turn b /\ b_rights b2 = b_rights b /\ b_ep b2 = b_ep b /\ b_half b2 = b_half b /\ b_full b2 = b_full b
  /\ b_pinned b2 = b_pinned b /\ b_checkers b2 = b_checkers b.
Proof. intros b [] p d; cbv zeta; repeat split. Qed.

(* what remove does to the placement: the square becomes empty, the others are unchanged *)
Theorem remove_spec : forall b c p s, HashFacts.Part b -> consistent b -> s < 64 -> raw_get b s = Some (c, p) ->
  let b2 := raw_remove (set_zob b (N.lxor (b_zob b) (zkey s p c))) c p s in
  HashFacts.Part b2 /\ consistent b2 /\ (forall t, t < 64 -> raw_get b2 t = if t =? s then None else raw_get b t).
Proof.
  intros b c p s P C Hs R. cbv zeta. rewrite (remove_is_board_xor b c p s P Hs R).
  pose proof (toggle_ok_man b c p s Hs R) as T.
  destruct (Good_board_xor b c p (from_pos s) (conj P C) (wf64_from_pos s) T) as [P2 C2].
  split; [exact P2|split; [exact C2|]].
  intros t Ht. rewrite (raw_get_board_xor b c p (from_pos s) P T t Ht), mem_from_pos by assumption.
  destruct (N.eqb_spec t s) as [->|_]; [rewrite R|]; reflexivity.
Qed.

Lemma binv_remove : forall b s, binv b -> s < 64 -> binv (fst (bstep b (BRemove s))).
Proof.
  intros b s B Hs. cbn [bstep].
  destruct (raw_get b s) as [[c p]|] eqn:R; [|exact B]. cbv zeta. cbn [fst].
  destruct B as (P & C & Hr & Hp & Hc & He).
  destruct (remove_spec b c p s P C Hs R) as (P2 & C2 & _). cbv zeta in P2, C2.
  split; [exact P2|split; [exact C2|]].
  rewrite (remove_is_board_xor b c p s P Hs R).
  destruct (board_xor_meta b c p (from_pos s)) as (_ & Er & Ee & _ & _ & Epn & Eck). cbv zeta in Er, Ee, Epn, Eck.
  rewrite Er, Ee, Epn, Eck. repeat split; assumption.
Qed.

Lemma binv_step : forall b o, binv b -> bop_wf o -> binv (fst (bstep b o)).
Proof.
  intros b o B W. destruct o as [c|n|n|f|s c p|s].
  - cbn [bstep fst]. apply binv_set_meta; [exact B|apply B].
  - cbn [bstep fst]. apply binv_set_meta; [exact B|apply B].
  - cbn [bstep fst]. apply binv_set_meta; [exact B|apply B].
  - cbn [bstep fst]. apply binv_set_meta; [exact B|]. intros x E. subst f. exact W.
  - apply binv_place; [exact B|exact W].
  - apply binv_remove; [exact B|exact W].
Qed.

Lemma binv_fold : forall ops b, binv b -> Forall bop_wf ops -> binv (fold_left (fun b o => fst (bstep b o)) ops b).
Proof.
  induction ops as [|o ops IH]; intros b B F; cbn [fold_left]; [exact B|].
  inversion F as [|o' ops' W F']; subst. apply IH; [apply binv_step; assumption|exact F'].
Qed.

Theorem builder_state_inv : forall ops, Forall bop_wf ops ->
  let b := builder_state ops in
  HashFacts.Part b /\ consistent b /\ b_rights b = 0 /\ b_pinned b = 0 /\ b_checkers b = 0 /\ (forall f, b_ep b = Some f -> f < 8).
Proof. intros ops F. cbv zeta. exact (binv_fold ops empty_board binv_empty F). Qed.

(* ------------------------------------------------------------------ *)
(** * build *)

Lemma validate_none_counts : forall b, validate b = None -> count (b_white b) <= 16 /\ count (b_black b) <= 16.
Proof.
  intros b. unfold validate.
  destruct (has_kings b); cbn [negb]; [|discriminate].
  destruct (N.ltb_spec 16 (count (b_white b))) as [H1|H1]; cbn [orb]; [discriminate|].
  destruct (N.ltb_spec 16 (count (b_black b))) as [H2|H2]; [discriminate|].
  intros _. split; assumption.
Qed.

(* every board the builder accepts, from any state satisfying the builder invariant *)
Lemma build_Good_gen : forall b0 b, binv b0 -> build b0 = inl b ->
  Good b /\ count (b_white b) <= 16 /\ count (b_black b) <= 16.
Proof.
  intros b0 b (P & C & Hr & Hp & Hc & He) Hb. unfold build in Hb.
  destruct (validate b0) as [e|] eqn:V; [discriminate Hb|]. injection Hb as <-.
  destruct (FenFacts.update_pin_info_fields b0) as (Et & Er & Ee & _ & _ & Ez & Ew & Ek & Epc).
  destruct (validate_none_counts b0 V) as [N1 N2].
  split; [|rewrite Ew, Ek; split; assumption].
  apply validate_Good; [|exact V].
  destruct (update_pin_info_consistent b0 P C) as [P' _].
  refine (proj1 (Inv_same b0 (update_pin_info b0) _ _ _ _ _ (part_wf_pinned _ P') (part_wf_checkers _ P') _)).
  - apply same_placement_intro; [symmetry; exact Ew|symmetry; exact Ek|intros p; symmetry; apply Epc].
  - symmetry; exact Ez.
  - symmetry; exact Et.
  - symmetry; exact Er.
  - symmetry; exact Ee.
  - apply validate_Inv; [exact P|exact C|rewrite Hr; lia|exact He|exact V].
Qed.

Theorem build_Good : forall ops b, Forall bop_wf ops -> build (builder_state ops) = inl b ->
  Good b /\ count (b_white b) <= 16 /\ count (b_black b) <= 16.
Proof.
  intros ops b F Hb. exact (build_Good_gen (builder_state ops) b (builder_state_inv ops F) Hb).
Qed.

Print Assumptions good_determined.
Print Assumptions good_determined_all.
Print Assumptions builder_state_inv.
Print Assumptions build_Good.
