From Coq Require Import NArith ZArith List Bool.
From Chess Require Import model.Score model.Abi.

Lemma stable_roundtrip : forall m, of_stable (to_stable m) = m.
Proof. intros [s d [[| | |]|]]; reflexivity. Qed.
Lemma opt_roundtrip : forall om, of_opt (to_opt om) = om.
Proof. intros [[s d [[| | |]|]]|]; reflexivity. Qed.
Lemma opt_none_stays_none : of_opt (to_opt None) = None.
Proof. reflexivity. Qed.
Lemma opt_some_stays_some : forall m, of_opt (to_opt (Some m)) = Some m.
Proof. intros m. apply (opt_roundtrip (Some m)). Qed.
Lemma score_roundtrip : forall s, score_of (score_to s) = s.
Proof. intros []; reflexivity. Qed.
Lemma evaluated_lossless : forall m s, evaluated_roundtrip m s = (m, s).
Proof. intros m s. unfold evaluated_roundtrip. rewrite opt_roundtrip, score_roundtrip. reflexivity. Qed.
(* injectivity follows: distinct values have distinct encodings *)
Lemma to_stable_injective : forall a b, to_stable a = to_stable b -> a = b.
Proof. intros a b H. rewrite <- (stable_roundtrip a), <- (stable_roundtrip b), H. reflexivity. Qed.
Lemma to_opt_injective : forall a b, to_opt a = to_opt b -> a = b.
Proof. intros a b H. rewrite <- (opt_roundtrip a), <- (opt_roundtrip b), H. reflexivity. Qed.
