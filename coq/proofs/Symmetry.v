(* C13 - the search is colour-symmetric: final assembly.
   Mir b b' (MirrorEval): both boards satisfy the invariant Good and the rules-level position of b' is the colour mirror
   (swap the colours, flip the ranks) of that of b, the full-move number aside.
   MirrorRules: the rules of chess are mirror symmetric.  MirrorEval: the evaluation is antisymmetric.
   MirrorBoard: Mir is kept by corresponding moves; every test the search performs agrees on mirror images.
   SearchTree: the score of a completed deepening pass is the minimax value of the game tree the model explores.
   MirrorSearch: the game trees of mirror images are mirror images (up to the order of children), hence the scores negate.
   Here the MirrorBoard facts are plugged into MirrorSearch, and the result is stated for reachable boards. *)
From Coq Require Import NArith ZArith List Bool Permutation.
From Chess Require Import base.Bits base.Types base.BitBoard model.Board model.MoveGen model.Apply model.Score model.Search spec.Rules.
From Chess Require Import proofs.LegalDefs proofs.SearchFacts proofs.SearchTree proofs.MirrorRules proofs.MirrorEval
  proofs.MirrorBoard proofs.MirrorSearch proofs.Reachable.
Import ListNotations.
Local Open Scope N_scope.

(* the score reported for a completed depth negates under the mirror, whatever the two timeouts, poll states and
   previous-best moves were (roots with a promotion move are excluded, as in the property) *)
Theorem search_score_mirror_good :
  forall k k' fuel root root' depth prev prev' st st0 sc sc' best best' st' st0',
  Mir root root' -> b_half root < 65535 ->
  (forall m, In m (legals root) -> m_promo m = None) ->
  prev_legal root prev -> prev_legal root' prev' ->
  (N.to_nat depth + men root < fuel)%nat ->
  pass k [] fuel root depth prev st = PassDone sc best st' ->
  pass k' [] fuel root' depth prev' st0 = PassDone sc' best' st0' ->
  sc' = neg sc.
Proof.
  exact (MirrorSearch.search_score_mirror MirrorBoard.mir_legals MirrorBoard.mir_step MirrorBoard.mir_in_check
           MirrorBoard.mir_is_empty MirrorBoard.mir_capture MirrorBoard.mir_caps MirrorBoard.mir_caps_empty
           MirrorBoard.mir_bl_new MirrorBoard.mir_bl_add MirrorBoard.mir_bl_head).
Qed.

(* at the level of Engine::search: two searches that report the same completed depth report negated scores *)
Theorem search_result_mirror_good :
  forall k k' passes passes' fuel root root' m m' sc sc' d f f',
  Mir root root' -> b_half root < 65535 ->
  (forall x, In x (legals root) -> m_promo x = None) -> (men root < fuel)%nat ->
  search k [] passes fuel root = (Some m, sc, d, f) ->
  search k' [] passes' fuel root' = (Some m', sc', d, f') ->
  sc' = neg sc.
Proof.
  exact (MirrorSearch.search_result_mirror MirrorBoard.mir_legals MirrorBoard.mir_step MirrorBoard.mir_in_check
           MirrorBoard.mir_is_empty MirrorBoard.mir_capture MirrorBoard.mir_caps MirrorBoard.mir_caps_empty
           MirrorBoard.mir_bl_new MirrorBoard.mir_bl_add MirrorBoard.mir_bl_head).
Qed.

(* the same for reachable boards whose positions are mirror images *)
Definition mirror_images (b b' : board) : Prop := eqp (Board.abs b') (mirror (Board.abs b)).

Theorem search_result_mirror_reachable :
  forall k k' passes passes' fuel root root' m m' sc sc' d f f',
  Reachable root -> Reachable root' -> mirror_images root root' -> b_half root < 65535 ->
  (forall x, In x (legals root) -> m_promo x = None) -> (men root < fuel)%nat ->
  search k [] passes fuel root = (Some m, sc, d, f) ->
  search k' [] passes' fuel root' = (Some m', sc', d, f') ->
  sc' = neg sc.
Proof.
  intros k k' passes passes' fuel root root' m m' sc sc' d f f' R R' M.
  apply search_result_mirror_good. split; [exact (Reachable_Good root R)|split; [exact (Reachable_Good root' R')|exact M]].
Qed.

(* a white mate-in-n becomes a black mate-in-n *)
Example mate_mirrors : neg (SWhiteMateIn 3) = SBlackMateIn 3 /\ neg (SBlackMateIn 2) = SWhiteMateIn 2.
Proof. split; reflexivity. Qed.


(* the hypotheses are satisfiable: the standard position and its mirror image (same placement, Black to move) are both
   accepted by the parser, hence reachable, and are mirror images of each other; neither has a promotion move *)
Definition std_fen_black : list N :=
  [114;110;98;113;107;98;110;114;47;112;112;112;112;112;112;112;112;47;56;47;56;47;56;47;56;47;
   80;80;80;80;80;80;80;80;47;82;78;66;81;75;66;78;82;32;98;32;75;81;107;113;32;45;32;48;32;48].
Example mirror_images_exist :
  match Fen.parse_fen_t std_fen_black with
  | BitBoard.Ret (Fen.POk b') =>
      cells (Board.abs b') = cells (mirror (Board.abs standard)) /\ stm (Board.abs b') = stm (mirror (Board.abs standard))
      /\ forallb (fun m => match m_promo m with None => true | Some _ => false end) (legals standard) = true
  | _ => False
  end.
Proof. vm_compute. repeat split; reflexivity. Qed.

Print Assumptions search_score_mirror_good.
Print Assumptions search_result_mirror_reachable.
