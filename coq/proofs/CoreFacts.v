(* Small generic facts about the chess-core model that the property files pin. *)
From Coq Require Import NArith List Bool Lia.
From Chess Require Import base.Bits base.Types base.BitBoard model.Board model.MoveGen model.Apply model.Fen spec.Rules.
Import ListNotations.
Local Open Scope N_scope.

Lemma piece_eqb_eq : forall a b, piece_eqb a b = true <-> a = b.
Proof. intros a b; destruct a, b; cbn; split; intros H; try reflexivity; try discriminate. Qed.
Lemma opt_piece_eqb_eq : forall a b, opt_piece_eqb a b = true <-> a = b.
Proof.
  intros [a|] [b|]; cbn; try (split; intros H; try reflexivity; discriminate).
  rewrite piece_eqb_eq. split; intros H; [subst; reflexivity|injection H as ->; reflexivity].
Qed.
Lemma move_eqb_eq : forall a b, move_eqb a b = true <-> a = b.
Proof.
  intros [s1 d1 p1] [s2 d2 p2]. unfold move_eqb. cbn [m_src m_dst m_promo].
  rewrite !andb_true_iff, !N.eqb_eq, opt_piece_eqb_eq. split.
  - intros [[-> ->] ->]. reflexivity.
  - intros H. injection H as -> -> ->. repeat split.
Qed.

(* asking whether a single move is legal = membership in the generated list *)
Lemma is_legal_iff : forall b m, is_legal b m = true <-> In m (legals b).
Proof.
  intros b m. unfold is_legal. rewrite existsb_exists. split.
  - intros [x [Hin Heq]]. apply move_eqb_eq in Heq. subst. exact Hin.
  - intros Hin. exists m. split; [exact Hin|apply move_eqb_eq; reflexivity].
Qed.

(* the checked operations accept exactly the moves is_legal accepts and leave everything untouched otherwise *)
Lemma checked_gate : forall b m out,
  move_new b m = (if is_legal b m then Some (apply b m) else None)
  /\ move_mut b m = (if is_legal b m then (apply b m, true) else (b, false))
  /\ move_into b m out = (if is_legal b m then (apply b m, true) else (out, false)).
Proof. intros. repeat split. Qed.

(* Board::state : mate > draw (no move, or 100 half-moves) > check > running *)
Lemma state_classification : forall b,
  let nomoves := mg_is_empty (legals_gen b) in
  (nomoves = true /\ Board.in_check b = true -> state b = GCheckMate)
  /\ (nomoves = true /\ Board.in_check b = false -> state b = GStaleMate)
  /\ (nomoves = false /\ 100 <= b_half b -> state b = GStaleMate)
  /\ (nomoves = false /\ b_half b < 100 /\ Board.in_check b = true -> state b = GCheck)
  /\ (nomoves = false /\ b_half b < 100 /\ Board.in_check b = false -> state b = GRunning).
Proof.
  intros b nomoves. unfold state. fold nomoves.
  repeat split; intros H; repeat match goal with H : _ /\ _ |- _ => destruct H end;
    repeat match goal with H : _ = true |- _ => rewrite H | H : _ = false |- _ => rewrite H end; cbn [andb orb]; try reflexivity.
  - assert (E : (100 <=? b_half b) = true) by (apply N.leb_le; assumption). rewrite E. reflexivity.
  - assert (E : (100 <=? b_half b) = false) by (apply N.leb_gt; assumption). rewrite E. reflexivity.
  - assert (E : (100 <=? b_half b) = false) by (apply N.leb_gt; assumption). rewrite E. reflexivity.
Qed.

(* the three constructors agree on the standard position: closed computations over the regenerated keys *)
Definition std_fen : list N :=
  [114;110;98;113;107;98;110;114;47;112;112;112;112;112;112;112;112;47;56;47;56;47;56;47;56;47;
   80;80;80;80;80;80;80;80;47;82;78;66;81;75;66;78;82;32;119;32;75;81;107;113;32;45;32;48;32;48].
Lemma standard_parses : parse_fen_t std_fen = Ret (POk standard).
Proof. vm_compute. reflexivity. Qed.
Lemma standard_writes : write_fen standard = std_fen.
Proof. vm_compute. reflexivity. Qed.
Lemma standard_abs : Rules.same_position (abs standard) start_position = true.
Proof. vm_compute. reflexivity. Qed.
Definition std_build_ops : list bop :=
  flat_map (fun c => let r := match c with White => 0 | Black => 7 end in
                     let pr := match c with White => 1 | Black => 6 end in
                     map (fun fp => BPlace (mk_sq (fst fp) r) c (snd fp))
                         (combine [0;1;2;3;4;5;6;7] [Rook;Knight;Bishop;Queen;King;Bishop;Knight;Rook])
                     ++ map (fun f => BPlace (mk_sq f pr) c Pawn) [0;1;2;3;4;5;6;7]) [White; Black].
(* the builder cannot set castle rights (the type is private), so it reproduces the standard placement, hash and derived state *)
Lemma standard_built :
  match build (fold_left (fun b o => fst (bstep b o)) std_build_ops empty_board) with
  | inl b => (b_zob b =? b_zob standard) && (b_white b =? b_white standard) && (b_black b =? b_black standard)
             && (b_pawn b =? b_pawn standard) && (b_king b =? b_king standard) && (b_pinned b =? 0) && (b_checkers b =? 0)
  | inr _ => false
  end = true.
Proof. vm_compute. reflexivity. Qed.
(* non-vacuity: on the standard position the generator model, the rules spec and the count 20 agree *)
Definition moves_sorted_eqb (a b : list move) : bool :=
  forallb (fun m => existsb (move_eqb m) b) a && forallb (fun m => existsb (move_eqb m) a) b
  && Nat.eqb (length a) (length b).
Lemma standard_20_moves : moves_sorted_eqb (legals standard) (legal_moves (abs standard)) = true
                          /\ length (legals standard) = 20%nat.
Proof. split; vm_compute; reflexivity. Qed.
