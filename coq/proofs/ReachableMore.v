(* Consequences of Reachable -> Good that need ValidFacts (validate, FEN round trip, men counts):
   C03 / C05 / C06: every reachable board passes Board::validate, is a fixed point of update_pin_info and is read back
   exactly from its own FEN text (clocks within the four digits the property allows);
   C11: the search model's fuel is never exhausted on a Good root (captures remove a man: termination). *)
From Coq Require Import NArith ZArith List Bool Lia ZifyBool ZifyN Permutation.
From Chess Require Import base.Bits base.Types base.BitBoard geom.Geometry model.Board model.Fen model.MoveGen model.Apply model.Search spec.Rules.
From Chess Require Import spec.IterSpec proofs.IterFacts proofs.CoreFacts proofs.HashFacts proofs.InvFacts proofs.LegalDefs.
From Chess Require proofs.SiteFacts.
From Chess Require Import proofs.SafeFacts proofs.BuilderFacts proofs.ValidFacts proofs.SearchFacts proofs.StatusFacts proofs.Reachable proofs.InsufFacts.
Import ListNotations.
Local Open Scope N_scope.

Theorem Reachable_men : forall b, Reachable b -> men_le16 b.
Proof.
  intros b R. induction R as [s b H| |ops b W H|b m R IH L].
  - exact (parse_men_le16 s b H).
  - exact (parse_men_le16 _ _ standard_parses).
  - exact (proj2 (build_Good ops b W H)).
  - exact (apply_men_le16 b m (Reachable_Good b R) IH (legal_gen_move b m L)).
Qed.

Theorem validate_reachable : forall b, Reachable b -> validate b = None.
Proof. intros b R. exact (good_validate b (Reachable_Good b R) (Reachable_men b R)). Qed.

Theorem update_pin_info_reachable : forall b, Reachable b -> update_pin_info b = b.
Proof. intros b R. exact (good_update_pin_info b (Reachable_Good b R)). Qed.

(* C03 "indistinguishable from the position constructed from scratch", C05 round trip, C06 "every canonical FEN of a
   legally reachable position is accepted": the writer's text of a reachable board parses back to that very board *)
Theorem roundtrip_reachable : forall b, Reachable b -> b_half b <= 9999 -> b_full b <= 9999 ->
  parse_fen (write_fen b) = Some b.
Proof. intros b R. exact (good_roundtrip b (Reachable_Good b R) (Reachable_men b R)). Qed.

(* ------------------------------------------------------------------ *)
(** * C11: termination of the search model (its fuel is never the reason for stopping) *)

Lemma content_gen_move : forall b m, In m (content (legals_gen b)) <-> gen_move b m.
Proof. intros b m. rewrite (content_promo0 (legals_gen b) eq_refl). reflexivity. Qed.

Theorem capture_measure_good : capture_measure Good men.
Proof.
  intros b m G Hin. apply content_gen_move in Hin. split; [exact (Good_apply_gen b m G Hin)|].
  unfold men. split.
  - pose proof (apply_men_total b m G Hin). lia.
  - intros Hc. unfold was_capture in Hc.
    assert (raw_get b (m_dst m) <> None) as Hne by (destruct (raw_get b (m_dst m)); [discriminate|discriminate Hc]).
    pose proof (apply_men_capture b m G Hin Hne). lia.
Qed.

Theorem alphabeta_fuel_enough : alphabeta_fuel_statement Good.
Proof.
  intros k tf fuel c old mv remaining current alpha beta bl st G Hin Hf.
  exact (alphabeta_fuel_enough_rel Good men capture_measure_good k tf fuel c old mv remaining current alpha beta bl st G Hin Hf).
Qed.

Theorem search_terminates_good : forall k tf passes fuel root,
  Good root -> (men root < fuel)%nat -> 65536 <= N.of_nat passes ->
  snd (search k tf passes fuel root) = false.
Proof.
  intros k tf passes fuel root G Hf Hp.
  exact (search_exact_rel Good men capture_measure_good k tf passes fuel root G (small_root_all root) Hf Hp).
Qed.

Theorem search_terminates_reachable : forall k tf passes fuel root,
  Reachable root -> (32 < fuel)%nat -> 65536 <= N.of_nat passes ->
  snd (search k tf passes fuel root) = false.
Proof.
  intros k tf passes fuel root R Hf Hp. apply search_terminates_good; [exact (Reachable_Good root R)| |exact Hp].
  destruct (Reachable_men root R) as [Hw Hb].
  destruct (good_inv root (Reachable_Good root R)) as [P _ _ _].
  unfold men. rewrite (count_all_occ root White P). cbn [colors opp]. lia.
Qed.


(* ------------------------------------------------------------------ *)
(** * C01 / C02 in the vocabulary of the property files *)

Theorem reachable_closure :
  Reachable standard /\ (forall s b, parse_fen s = Some b -> Reachable b)
  /\ (forall b m, Reachable b -> In m (legals b) -> Reachable (apply b m)).
Proof.
  split; [exact RB_standard|split].
  - intros s b H. unfold parse_fen in H. destruct (parse_fen_t s) as [[b'|e]|] eqn:E; try discriminate H.
    injection H as <-. exact (RB_parse s b' E).
  - intros b m R H. apply RB_move; [exact R|]. apply is_legal_iff. exact H.
Qed.

Theorem is_legal_rules_reachable : forall b m, Reachable b -> is_legal b m = is_legal_move (Board.abs b) m.
Proof.
  intros b m R. pose proof (is_legal_exact_reachable b m R) as H.
  unfold is_legal_move. destruct (is_legal b m) eqn:E.
  - symmetry. apply existsb_exists. exists m. split; [exact (proj1 H eq_refl)|]. apply move_eqb_eq. reflexivity.
  - symmetry. destruct (existsb (move_eqb m) (legal_moves (Board.abs b))) eqn:E2; [|reflexivity].
    apply existsb_exists in E2. destruct E2 as (x & Hx & Hm). apply move_eqb_eq in Hm. subst x.
    pose proof (proj2 H Hx) as C. discriminate C.
Qed.

(* ------------------------------------------------------------------ *)
(** * C11 / C12 over the rules of chess *)

Theorem search_move_legal_rules : forall k tf passes fuel root m sc d f, Reachable root ->
  search k tf passes fuel root = (Some m, sc, d, f) -> In m (legal_moves (Board.abs root)).
Proof.
  intros k tf passes fuel root m sc d f R H.
  apply (proj2 (movegen_exact_reachable root R) m). exact (search_move_legal_all _ _ _ _ _ _ _ _ _ H).
Qed.

Theorem search_none_rules : forall k tf passes fuel root, Reachable root -> legal_moves (Board.abs root) = [] ->
  fst (fst (fst (search k tf passes fuel root))) = None.
Proof.
  intros k tf passes fuel root R H. apply search_none_gen.
  exact (proj2 (legals_nil_iff movegen_exact_good root (Reachable_Good root R)) H).
Qed.

Theorem search_some_rules : forall k tf passes fuel root sc best st', Reachable root ->
  legal_moves (Board.abs root) <> [] ->
  pass k tf (fuel + N.to_nat 0) root 0 None {| s_polls := 0; s_evals := 0 |} = PassDone sc best st' ->
  fst (fst (fst (search k tf (S passes) fuel root))) <> None.
Proof.
  intros k tf passes fuel root sc best st' R Hne Hp. apply (search_some_all k tf passes fuel root sc best st'); [|exact Hp].
  intros Hnil. apply Hne. exact (proj1 (legals_nil_iff movegen_exact_good root (Reachable_Good root R)) Hnil).
Qed.

(* a reported mate-in-one score comes with a legal move after which the opponent is checkmated by the rules *)
Theorem search_mate1_honest_rules : forall k tf passes fuel root m d f, Reachable root ->
  search k tf passes fuel root = (Some m, mate_score (opp (b_turn root)) 1, d, f) ->
  In m (legal_moves (Board.abs root)) /\ is_mate (Board.abs (apply root m)) = true.
Proof.
  intros k tf passes fuel root m d f R H.
  pose proof (search_move_legal_all _ _ _ _ _ _ _ _ _ H) as Hl.
  split; [exact (proj1 (proj2 (movegen_exact_reachable root R) m) Hl)|].
  assert (Reachable (apply root m)) as R' by (apply RB_move; [exact R|apply is_legal_iff; exact Hl]).
  apply (mate_reachable _ R'). exact (search_mate1_honest _ _ _ _ _ _ _ _ H).
Qed.

Theorem search_mate1_honest_make : forall k tf passes fuel root m d f, Reachable root ->
  b_half root < 65535 -> b_full root < 65535 ->
  search k tf passes fuel root = (Some m, mate_score (opp (b_turn root)) 1, d, f) ->
  In m (legal_moves (Board.abs root)) /\ is_mate (make (Board.abs root) m) = true.
Proof.
  intros k tf passes fuel root m d f R Hh Hf H.
  destruct (search_mate1_honest_rules _ _ _ _ _ _ _ _ R H) as [Hl Hm]. split; [exact Hl|].
  rewrite <- (apply_exact_reachable root m R Hh Hf); [exact Hm|].
  apply (is_legal_exact_reachable root m R). exact Hl.
Qed.


(* C12, the finding half over the rules: if the rules give a mating move and the first pass completes, the search returns
   a (rules-)mating move with the mover's mate-in-one score.  No side condition about captures: a position with
   insufficient material is never checkmate (InsufFacts.insufficient_never_mate). *)
Theorem search_finds_mate1_rules : forall k tf passes fuel root sc best st' m, Reachable root ->
  b_half root < 65535 -> b_full root < 65535 ->
  In m (legal_moves (Board.abs root)) -> is_mate (make (Board.abs root) m) = true ->
  pass k tf (fuel + N.to_nat 0) root 0 None {| s_polls := 0; s_evals := 0 |} = PassDone sc best st' ->
  exists m', search k tf (S passes) fuel root = (Some m', mate1 (b_turn root), 0, false)
             /\ In m' (legal_moves (Board.abs root)) /\ is_mate (make (Board.abs root) m') = true.
Proof.
  intros k tf passes fuel root sc best st' m R Hh Hf Hl Hm Hp.
  pose proof (Reachable_Good root R) as G.
  assert (In m (legals root)) as Hin by (apply (proj2 (movegen_exact_reachable root R) m); exact Hl).
  assert (is_legal root m = true) as Hil by (apply is_legal_iff; exact Hin).
  assert (Reachable (apply root m)) as R' by (apply RB_move; assumption).
  rewrite <- (apply_exact_reachable root m R Hh Hf Hil) in Hm.
  destruct (proj2 (mate_reachable _ R') Hm) as [He Hc].
  pose proof (mating_move_mates_now_good k tf root m G (legal_gen_move root m Hil) He Hc) as Hmates.
  destruct (search_finds_mate1_all k tf passes fuel root sc best st' m Hin Hmates Hp) as (m' & E & He' & Hc').
  exists m'. split; [exact E|].
  pose proof (search_move_legal_all _ _ _ _ _ _ _ _ _ E) as Hin'.
  assert (is_legal root m' = true) as Hil' by (apply is_legal_iff; exact Hin').
  split; [exact (proj1 (proj2 (movegen_exact_reachable root R) m') Hin')|].
  rewrite <- (apply_exact_reachable root m' R Hh Hf Hil').
  apply (mate_reachable _ (RB_move root m' R Hil')). split; assumption.
Qed.

Print Assumptions search_finds_mate1_rules.

(* ------------------------------------------------------------------ *)
(** * C07: the premises of the site lemmas hold of every reachable board *)

Lemma Part_site : forall b, HashFacts.Part b -> SiteFacts.Part b.
Proof.
  intros b P. constructor.
  - exact (part_wf_colors b P White).
  - exact (part_wf_colors b P Black).
  - exact (part_wf_pieces b P Pawn).
  - exact (part_wf_pieces b P Knight).
  - exact (part_wf_pieces b P Bishop).
  - exact (part_wf_pieces b P Rook).
  - exact (part_wf_pieces b P Queen).
  - exact (part_wf_pieces b P King).
  - exact (part_wf_pinned b P).
  - exact (part_wf_checkers b P).
  - exact (part_colors_disjoint b P).
  - exact (part_pieces_disjoint b P).
  - exact (part_cover b P).
Qed.

(* the fixed-capacity move list (18 entries) never overflows, whatever the mask *)
Theorem capacity_reachable : forall b mask, Reachable b -> (length (collect_moves b mask) <= 18)%nat.
Proof.
  intros b mask R. pose proof (Reachable_Good b R) as G.
  apply SiteFacts.collect_moves_capacity_has_kings.
  - exact (Part_site b (inv_part b (good_inv b G))).
  - exact (good_has_kings b G).
  - destruct (Reachable_men b R) as [Hw Hb]. destruct (b_turn b); assumption.
Qed.

(* a king is always present when its square is requested *)
Theorem king_present_reachable : forall b c, Reachable b ->
  king_sq b c < 64 /\ mem (colors b c) (king_sq b c) = true /\ mem (b_king b) (king_sq b c) = true.
Proof.
  intros b c R. pose proof (Reachable_Good b R) as G.
  apply SiteFacts.king_sq_valid_has_kings.
  - exact (part_wf_colors b (inv_part b (good_inv b G)) c).
  - exact (good_has_kings b G).
Qed.


(* make-move's `piece_of_unchecked(source)`: every move the checked operations let through has an own man on its source *)
Theorem move_source_reachable : forall b m, Reachable b -> is_legal b m = true ->
  m_src m < 64 /\ m_dst m < 64 /\ exists pc, raw_get b (m_src m) = Some (b_turn b, pc).
Proof.
  intros b m R L. pose proof (Reachable_Good b R) as G.
  destruct (gen_move_ok b m (inv_part b (good_inv b G)) (Good_own_king b G) (legal_gen_move b m L)) as (pc & promo & MO).
  split; [exact (mo_src _ _ _ _ MO)|split; [exact (mo_dst _ _ _ _ MO)|]].
  exists pc. exact (mo_raw _ _ _ _ MO).
Qed.
Print Assumptions move_source_reachable.

Print Assumptions capacity_reachable.
Print Assumptions king_present_reachable.

(* ------------------------------------------------------------------ *)
(** * C10 over the rules: generation restricted to a destination mask *)

Theorem legals_masked_rules : forall b M m, Reachable b ->
  (In m (mg_drain (legals_masked_gen b M)) <-> In m (legal_moves (Board.abs b)) /\ mem M (m_dst m) = true).
Proof.
  intros b M m R. pose proof (legals_masked_drain b M) as Hp. fold (legals b) in Hp.
  pose proof (proj2 (movegen_exact_reachable b R) m) as Hex. split.
  - intros H. apply (Permutation_in m Hp) in H. apply filter_In in H. destruct H as [Hl Hm].
    split; [apply Hex; exact Hl|exact Hm].
  - intros [Hl Hm]. apply (Permutation_in m (Permutation_sym Hp)). apply filter_In.
    split; [apply Hex; exact Hl|exact Hm].
Qed.

Theorem legals_masked_nodup : forall b M, Reachable b -> NoDup (mg_drain (legals_masked_gen b M)).
Proof.
  intros b M R. pose proof (legals_masked_drain b M) as Hp. fold (legals b) in Hp.
  apply (Permutation_NoDup (Permutation_sym Hp)). apply NoDup_filter.
  exact (proj1 (movegen_exact_reachable b R)).
Qed.

Print Assumptions legals_masked_rules.
Print Assumptions reachable_closure.
Print Assumptions is_legal_rules_reachable.
Print Assumptions search_move_legal_rules.
Print Assumptions search_mate1_honest_make.
Print Assumptions roundtrip_reachable.
Print Assumptions search_terminates_reachable.
