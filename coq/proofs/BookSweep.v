(* C17: the complete in-kernel traversal of the regenerated opening book (about 4 minutes in the VM; cached until
   gen/T_book.v or spec/Rules.v changes). *)
From Coq Require Import NArith List Bool.
From Chess Require Import base.Bits base.Types spec.Rules model.Book.
Local Open Scope N_scope.

(* the sweep: 29036 nodes, all indices in range, sibling chains strictly decreasing, every move legal
   under the RULES spec with no promotion piece *)
Lemma book_walk_ok : book_walk 12 INITIAL_BOOK start_position = (true, 29036).
Proof. vm_cast_no_check (eq_refl (true, 29036)). Qed.

