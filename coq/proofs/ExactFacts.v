(* C01 - assembly of the main theorem (G) `movegen_exact_statement` of LegalDefs.v from the component
   statements (A) (S) (P) (K) (C) (E) and AT3 (kings), plus the en-passant-under-double-check premise.

     1. gen_char          exact characterisation of the generator model, both directions:
                          gen_move b m <-> (own man on the source, destination through one of the four
                          generator channels: filtered step / en passant / king step / castling)
     2. movegen_exact     the assembly
     3. movegen_nodup     the flattened move list has no duplicates

   Axiom-free. *)
From Coq Require Import NArith ZArith List Bool Lia ZifyBool ZifyN Sorted Permutation.
From Chess Require Import base.Bits base.Types base.BitBoard base.Sweep geom.Geometry model.Board model.MoveGen model.Apply spec.Rules.
From Chess Require Import proofs.BitsFacts proofs.BitBoardFacts spec.IterSpec proofs.IterFacts proofs.HashFacts proofs.InvFacts.
From Chess Require proofs.BridgeFacts proofs.ApplyFacts proofs.SiteFacts.
From Chess Require Import proofs.LegalDefs proofs.AttackDefs.
Import ListNotations.
Local Open Scope N_scope.

(* ------------------------------------------------------------------ *)
(** * 0. Small facts *)

Lemma and_full : forall a, wf64 a -> bb_and a bb_full = a.
Proof. intros a W. exact (trunc64_id a W). Qed.

Lemma mask_full : forall o, bb_and (bb_not o) bb_full = bb_not o.
Proof. intros o. apply and_full, wf64_not. Qed.

Lemma none_false_of_mem : forall a d, mem a d = true -> none a = false.
Proof. intros a d H. unfold none. exact (eqb0_false_intro a d H). Qed.

Lemma none_true_0 : forall a, none a = true -> a = 0.
Proof. intros a H. unfold none in H. apply N.eqb_eq, H. Qed.

Lemma count_0_iff : forall a, wf64 a -> (count a = 0 <-> a = 0).
Proof.
  intros a W. split.
  - intros H. rewrite (count_spec a W) in H. apply elements_nil; [exact W|].
    destruct (elements a); [reflexivity|cbn [length] in H; lia].
  - intros ->. reflexivity.
Qed.

Lemma move_eta : forall m, m = {| m_src := m_src m; m_dst := m_dst m; m_promo := m_promo m |}.
Proof. intros []. reflexivity. Qed.

(* ------------------------------------------------------------------ *)
(** * 1. Moves of one entry, moves of a list of entries made by mk_entries *)

Definition promo_field (promo : bool) (pr : option piece) : Prop :=
  if promo then exists p, In p promo_pieces /\ pr = Some p else pr = None.

Lemma dest_moves_iff : forall src promo d x,
  In x (dest_moves src promo O d) <-> m_src x = src /\ m_dst x = d /\ promo_field promo (m_promo x).
Proof.
  intros src promo d x. unfold dest_moves, promo_field. destruct promo.
  - change (skipn 0 promo_pieces) with promo_pieces. rewrite in_map_iff. split.
    + intros (p & <- & Hp). cbn. split; [reflexivity|split; [reflexivity|]]. exists p. split; [exact Hp|reflexivity].
    + intros (H1 & H2 & p & Hp & H3). exists p. split; [|exact Hp].
      destruct x as [s t pr]. cbn in *. subst. reflexivity.
  - split.
    + intros [<-|[]]. cbn. auto.
    + intros (H1 & H2 & H3). left. destruct x as [s t pr]. cbn in *. subst. reflexivity.
Qed.

Lemma entry_moves_iff : forall e x,
  In x (entry_moves e) <->
  m_src x = e_src e /\ m_dst x < 64 /\ mem (e_moves e) (m_dst x) = true /\ promo_field (e_promo e) (m_promo x).
Proof.
  intros e x. rewrite entry_moves_eq, in_flat_map. split.
  - intros (d & Hd & Hx). apply dest_moves_iff in Hx. destruct Hx as (H1 & H2 & H3).
    apply elements_spec in Hd. subst d. tauto.
  - intros (H1 & H2 & H3 & H4). exists (m_dst x). split; [apply elements_spec; tauto|].
    apply dest_moves_iff. tauto.
Qed.

Lemma mk_entries_iff : forall srcs f promo e,
  In e (mk_entries srcs f promo) <->
  exists s, In s srcs /\ none (f s) = false /\ e = {| e_src := s; e_moves := f s; e_promo := promo s |}.
Proof.
  intros srcs f promo e. unfold mk_entries. rewrite in_flat_map. cbv zeta. split.
  - intros (s & Hs & He). exists s. destruct (none (f s)); [destruct He|].
    destruct He as [<-|[]]. auto.
  - intros (s & Hs & Hn & ->). exists s. split; [exact Hs|]. rewrite Hn. left. reflexivity.
Qed.

Lemma mk_entries_moves : forall srcs f promo x,
  In x (flat_map entry_moves (mk_entries srcs f promo)) <->
  In (m_src x) srcs /\ m_dst x < 64 /\ mem (f (m_src x)) (m_dst x) = true /\ promo_field (promo (m_src x)) (m_promo x).
Proof.
  intros srcs f promo x. rewrite in_flat_map. split.
  - intros (e & He & Hx). apply mk_entries_iff in He. destruct He as (s & Hs & _ & ->).
    apply entry_moves_iff in Hx. cbn [e_src e_moves e_promo] in Hx. destruct Hx as (-> & H2 & H3 & H4). tauto.
  - intros (H1 & H2 & H3 & H4).
    exists {| e_src := m_src x; e_moves := f (m_src x); e_promo := promo (m_src x) |}. split.
    + apply mk_entries_iff. exists (m_src x). split; [exact H1|split; [|reflexivity]].
      exact (none_false_of_mem _ _ H3).
    + apply entry_moves_iff. cbn [e_src e_moves e_promo]. tauto.
Qed.

(* ------------------------------------------------------------------ *)
(** * 2. Geometry sweeps *)

Definition chk_line_sym (a c : N) : bool := line_geo a c =? line_geo c a.
Lemma sweep_line_sym : all_sq2 chk_line_sym = true.
Proof. vm_compute. reflexivity. Qed.
Lemma line_geo_sym : forall a c, a < 64 -> c < 64 -> line_geo a c = line_geo c a.
Proof. intros a c Ha Hc. apply N.eqb_eq. exact (all_sq2_spec _ sweep_line_sym a c Ha Hc). Qed.

Definition chk_knight_line (s k : N) : bool := bb_and (knight_geo s) (line_geo s k) =? 0.
Lemma sweep_knight_line : all_sq2 chk_knight_line = true.
Proof. vm_compute. reflexivity. Qed.
Lemma knight_not_on_line : forall s k d, s < 64 -> k < 64 -> mem (knight_geo s) d = true -> mem (line_geo s k) d = false.
Proof.
  intros s k d Hs Hk H. pose proof (all_sq2_spec _ sweep_knight_line s k Hs Hk) as S.
  unfold chk_knight_line in S. apply N.eqb_eq in S.
  assert (E : mem (bb_and (knight_geo s) (line_geo s k)) d = false) by (rewrite S; apply mem_0).
  rewrite mem_and, H in E. exact E.
Qed.

(* ------------------------------------------------------------------ *)
(** * 3. The generators, piece kind by piece kind *)

Lemma src_elements_iff : forall b pc X s, Part b ->
  (In s (elements (bb_and (bb_and (pieces b pc) (colors b (b_turn b))) X)) <->
   s < 64 /\ raw_get b s = Some (b_turn b, pc) /\ mem X s = true).
Proof.
  intros b pc X s P. rewrite elements_spec, !mem_and. split.
  - intros (Hs & H). apply andb_true_iff in H. destruct H as [H HX]. apply andb_true_iff in H. destruct H as [H1 H2].
    split; [exact Hs|split; [apply raw_of_mem; assumption|exact HX]].
  - intros (Hs & Hr & HX). split; [exact Hs|]. apply (raw_get_spec b P s Hs) in Hr. destruct Hr as [H1 H2].
    rewrite H1, H2, HX. reflexivity.
Qed.

(* the two channels through which an ordinary destination of a non-king man passes the pin / check filter *)
Definition chan (b : board) (cmp chk : bool) (src d : N) : Prop :=
  (mem (b_pinned b) src = false /\ mem (check_mask b chk (ksq b)) d = true)
  \/ (chk = false /\ cmp = true /\ mem (b_pinned b) src = true /\ mem (line_geo src (ksq b)) d = true).

Lemma piece_legals_moves : forall pc cmp chk b x, Part b ->
  (In x (flat_map entry_moves (piece_legals pc cmp chk b (bb_not (own b)))) <->
   m_src x < 64 /\ m_dst x < 64 /\ raw_get b (m_src x) = Some (b_turn b, pc) /\ m_promo x = None /\
   mem (pseudo_legals pc (m_src x) (b_turn b) (all_occ b) (bb_not (own b))) (m_dst x) = true /\
   chan b cmp chk (m_src x) (m_dst x)).
Proof.
  intros pc cmp chk b x P. unfold piece_legals, chan, ksq, own. cbv zeta.
  assert (NP : forall s, s < 64 -> mem (bb_not (b_pinned b)) s = true <-> mem (b_pinned b) s = false).
  { intros s Hs. rewrite mem_not by exact Hs. apply negb_true_iff. }
  destruct chk, cmp; cbn [orb negb]; rewrite ?flat_map_app, ?in_app_iff, !mk_entries_moves, !src_elements_iff by exact P;
    unfold promo_field; rewrite !mem_and; split.
  all: try (intros (( Hs & Hr & Hp) & Hd & Hm & Hpr); apply andb_true_iff in Hm; destruct Hm as [Hm1 Hm2];
            apply NP in Hp; [|exact Hs]; tauto).
  all: try (intros (Hs & Hd & Hr & Hpr & Hm & [[Hp Hc]|(A1 & A2 & A3 & A4)]); [|discriminate];
            apply NP in Hp; [|exact Hs]; rewrite Hm, Hc; tauto).
  - intros [(( Hs & Hr & Hp) & Hd & Hm & Hpr)|(( Hs & Hr & Hp) & Hd & Hm & Hpr)];
      apply andb_true_iff in Hm; destruct Hm as [Hm1 Hm2].
    + apply NP in Hp; [|exact Hs]. tauto.
    + tauto.
  - intros (Hs & Hd & Hr & Hpr & Hm & [[Hp Hc]|(A1 & A2 & A3 & A4)]).
    + left. apply NP in Hp; [|exact Hs]. rewrite Hm, Hc. tauto.
    + right. rewrite Hm, A4. tauto.
Qed.

Definition seventh (b : board) : N := match b_turn b with White => 6 | Black => 1 end.

(* the en-passant channel: the data of PK_ep plus the generator's own test *)
Definition ep_chan (b : board) (src d : N) : Prop :=
  exists f, b_ep b = Some f /\ d = mk_sq f (ep_capture_rank_of (b_turn b)) /\
    mem (bb_and (from_rank (ep_pawn_rank_of (b_turn b))) (adjacent_files f)) src = true /\
    is_legal_en_passant b src (mk_sq f (ep_capture_rank_of (b_turn b))) (mk_sq f (ep_pawn_rank_of (b_turn b))) (ksq b) = true.

Lemma ep_entries_moves : forall b f (t : N -> bool) A x, Part b ->
  (In x (flat_map entry_moves
     (flat_map (fun src => if t src
                           then [{| e_src := src; e_moves := from_pos (mk_sq f (ep_capture_rank_of (b_turn b))); e_promo := false |}]
                           else [])
               (elements (bb_and A (bb_and (b_pawn b) (colors b (b_turn b))))))) <->
   m_src x < 64 /\ m_dst x < 64 /\ raw_get b (m_src x) = Some (b_turn b, Pawn) /\ m_promo x = None /\
   mem A (m_src x) = true /\ t (m_src x) = true /\ m_dst x = mk_sq f (ep_capture_rank_of (b_turn b))).
Proof.
  intros b f t A x P. rewrite in_flat_map. split.
  - intros (e & He & Hx). apply in_flat_map in He. destruct He as (s & Hs & He).
    destruct (t s) eqn:Et; [|destruct He]. destruct He as [<-|[]].
    apply entry_moves_iff in Hx. cbn [e_src e_moves e_promo promo_field] in Hx. destruct Hx as (E1 & Hd & Hm & Hpr).
    rewrite mem_from_pos_full in Hm. apply andb_true_iff in Hm. destruct Hm as [_ Hm]. apply N.eqb_eq in Hm.
    apply elements_spec in Hs. destruct Hs as [Hs Hmm]. rewrite !mem_and in Hmm.
    apply andb_true_iff in Hmm. destruct Hmm as [HA Hmm]. apply andb_true_iff in Hmm. destruct Hmm as [H1 H2].
    rewrite E1. split; [exact Hs|split; [exact Hd|split; [apply raw_of_mem; assumption|tauto]]].
  - intros (Hs & Hd & Hr & Hpr & HA & Ht & E).
    exists {| e_src := m_src x; e_moves := from_pos (mk_sq f (ep_capture_rank_of (b_turn b))); e_promo := false |}. split.
    + apply in_flat_map. exists (m_src x). split; [|rewrite Ht; left; reflexivity].
      apply elements_spec. split; [exact Hs|]. apply (raw_get_spec b P _ Hs) in Hr. destruct Hr as [H1 H2].
      cbn [pieces] in H2. rewrite !mem_and, HA, H1, H2. reflexivity.
    + apply entry_moves_iff. cbn [e_src e_moves e_promo promo_field].
      split; [reflexivity|split; [exact Hd|split; [|exact Hpr]]].
      rewrite mem_from_pos_full, <- E, N.eqb_refl. apply andb_true_iff. split; [apply N.ltb_lt, Hd|reflexivity].
Qed.

Lemma pawn_legals_moves : forall chk b x, Part b -> ksq b < 64 ->
  (In x (flat_map entry_moves (pawn_legals chk b (bb_not (own b)))) <->
   m_src x < 64 /\ m_dst x < 64 /\ raw_get b (m_src x) = Some (b_turn b, Pawn) /\
   ( (promo_field (rank_of (m_src x) =? seventh b) (m_promo x) /\
      mem (pseudo_legals Pawn (m_src x) (b_turn b) (all_occ b) (bb_not (own b))) (m_dst x) = true /\
      chan b true chk (m_src x) (m_dst x))
     \/ (m_promo x = None /\ ep_chan b (m_src x) (m_dst x)) )).
Proof.
  intros chk b x P Hk. unfold pawn_legals, chan, ep_chan, seventh. fold (ksq b) (own b). cbv zeta.
  assert (NP : forall s, s < 64 -> mem (bb_not (b_pinned b)) s = true <-> mem (b_pinned b) s = false).
  { intros s Hs. rewrite mem_not by exact Hs. apply negb_true_iff. }
  rewrite !flat_map_app, !in_app_iff.
  change (b_pawn b) with (pieces b Pawn) at 1 2.
  assert (L1 : forall X (cm : N -> N),
    In x (flat_map entry_moves (mk_entries (elements (bb_and (bb_and (pieces b Pawn) (own b)) X))
       (fun src => bb_and (pseudo_legals Pawn src (b_turn b) (all_occ b) (bb_not (own b))) (cm src))
       (fun src => rank_of src =? match b_turn b with White => 6 | Black => 1 end))) <->
    m_src x < 64 /\ m_dst x < 64 /\ raw_get b (m_src x) = Some (b_turn b, Pawn) /\ mem X (m_src x) = true /\
    promo_field (rank_of (m_src x) =? match b_turn b with White => 6 | Black => 1 end) (m_promo x) /\
    mem (pseudo_legals Pawn (m_src x) (b_turn b) (all_occ b) (bb_not (own b))) (m_dst x) = true /\
    mem (cm (m_src x)) (m_dst x) = true).
  { intros X cm. unfold own. rewrite mk_entries_moves, src_elements_iff by exact P. rewrite mem_and, andb_true_iff. tauto. }
  rewrite (L1 (bb_not (b_pinned b)) (fun _ => check_mask b chk (ksq b))).
  assert (L2 : In x (flat_map entry_moves
            (if chk then []
             else mk_entries (elements (bb_and (bb_and (pieces b Pawn) (own b)) (b_pinned b)))
                    (fun src => bb_and (pseudo_legals Pawn src (b_turn b) (all_occ b) (bb_not (own b))) (line_geo (ksq b) src))
                    (fun src => rank_of src =? match b_turn b with White => 6 | Black => 1 end))) <->
          chk = false /\ m_src x < 64 /\ m_dst x < 64 /\ raw_get b (m_src x) = Some (b_turn b, Pawn) /\ mem (b_pinned b) (m_src x) = true /\
          promo_field (rank_of (m_src x) =? match b_turn b with White => 6 | Black => 1 end) (m_promo x) /\
          mem (pseudo_legals Pawn (m_src x) (b_turn b) (all_occ b) (bb_not (own b))) (m_dst x) = true /\
          mem (line_geo (m_src x) (ksq b)) (m_dst x) = true).
  { destruct chk.
    - cbn [flat_map]. split; [intros []|intros (E & _); discriminate E].
    - rewrite (L1 (b_pinned b) (fun src => line_geo (ksq b) src)). split.
      + intros (H1 & H2 & H3 & H4 & H5 & H6 & H7). rewrite (line_geo_sym _ _ H1 Hk). tauto.
      + intros (_ & H1 & H2 & H3 & H4 & H5 & H6 & H7). rewrite (line_geo_sym _ _ H1 Hk) in H7. tauto. }
  rewrite L2. clear L1 L2.
  assert (L3 : In x (flat_map entry_moves
     match b_ep b with
     | Some f => flat_map (fun src => if is_legal_en_passant b src (mk_sq f (ep_capture_rank_of (b_turn b)))
                                          (mk_sq f (ep_pawn_rank_of (b_turn b))) (ksq b)
                                      then [{| e_src := src; e_moves := from_pos (mk_sq f (ep_capture_rank_of (b_turn b))); e_promo := false |}]
                                      else [])
                   (elements (bb_and (bb_and (from_rank (ep_pawn_rank_of (b_turn b))) (adjacent_files f)) (bb_and (pieces b Pawn) (own b))))
     | None => [] end) <->
     m_src x < 64 /\ m_dst x < 64 /\ raw_get b (m_src x) = Some (b_turn b, Pawn) /\ m_promo x = None /\
     exists f, b_ep b = Some f /\ m_dst x = mk_sq f (ep_capture_rank_of (b_turn b)) /\
       mem (bb_and (from_rank (ep_pawn_rank_of (b_turn b))) (adjacent_files f)) (m_src x) = true /\
       is_legal_en_passant b (m_src x) (mk_sq f (ep_capture_rank_of (b_turn b))) (mk_sq f (ep_pawn_rank_of (b_turn b))) (ksq b) = true).
  { destruct (b_ep b) as [f|].
    - unfold own. cbn [pieces].
      rewrite (ep_entries_moves b f (fun src => is_legal_en_passant b src (mk_sq f (ep_capture_rank_of (b_turn b)))
                  (mk_sq f (ep_pawn_rank_of (b_turn b))) (ksq b)) _ x P). split.
      + intros (H1 & H2 & H3 & H4 & H5 & H6 & H7). repeat (split; [assumption|]). exists f. tauto.
      + intros (H1 & H2 & H3 & H4 & f' & E & H5 & H6 & H7). injection E as <-. tauto.
    - cbn [flat_map]. split; [intros []|intros (_ & _ & _ & _ & f & E & _); discriminate E]. }
  rewrite L3. clear L3. split.
  - intros [H|[H|H]].
    + destruct H as (H1 & H2 & H3 & H4 & H5 & H6 & H7). apply NP in H4; [|exact H1]. tauto.
    + destruct H as (H0 & H1 & H2 & H3 & H4 & H5 & H6 & H7). tauto.
    + destruct H as (H1 & H2 & H3 & H4 & H5). tauto.
  - intros (H1 & H2 & H3 & [(H4 & H5 & [[H6 H7]|(H6 & _ & H7 & H8)])|[H4 H5]]).
    + left. apply NP in H6; [|exact H1]. tauto.
    + right. left. tauto.
    + right. right. tauto.
Qed.

(* ---- the king ---- *)

Lemma clear_fold_iff : forall (f : N -> bool) L a s, s < 64 ->
  (mem (fold_left (fun mv d => if f d then mv else cleared mv d) L a) s = true <->
   mem a s = true /\ (In s L -> f s = true)).
Proof.
  intros f L. induction L as [|d L IH]; intros a s Hs.
  - cbn [fold_left In]. tauto.
  - cbn [fold_left In]. rewrite (IH _ s Hs). destruct (f d) eqn:Ef.
    + split.
      * intros [H1 H2]. split; [exact H1|]. intros [<-|H]; [exact Ef|exact (H2 H)].
      * intros [H1 H2]. split; [exact H1|]. intros H. apply H2. right. exact H.
    + rewrite mem_cleared by exact Hs. split.
      * intros [H1 H2]. apply andb_true_iff in H1. destruct H1 as [H1 H3]. apply negb_true_iff, N.eqb_neq in H3.
        split; [exact H1|]. intros [E|H]; [symmetry in E; contradiction|exact (H2 H)].
      * intros [H1 H2]. destruct (N.eqb_spec s d) as [E|E].
        -- subst d. rewrite (H2 (or_introl eq_refl)) in Ef. discriminate Ef.
        -- rewrite H1. split; [reflexivity|]. intros H. apply H2. right. exact H.
Qed.

Lemma king_safe_iff : forall b ps d, d < 64 ->
  (mem (king_safe b ps) d = true <-> mem ps d = true /\ is_legal_king_position b d = true).
Proof.
  intros b ps d Hd. unfold king_safe. rewrite (clear_fold_iff _ _ _ d Hd), elements_spec. split.
  - intros [H1 H2]. split; [exact H1|]. apply H2. split; assumption.
  - intros [H1 H2]. split; [exact H1|]. intros _. exact H2.
Qed.

Definition safe_files (sd : side) : N := match sd with KingSide => KINGSIDE_FILES | QueenSide => QUEENSIDE_SAFE_FILES end.
Definition castle_cond (b : board) (sd : side) : bool :=
  cr_contains (b_rights b) sd (b_turn b)
  && none (bb_and (castle_tiles sd (b_turn b)) (all_occ b))
  && forallb (is_legal_king_position b) (elements (bb_and (safe_files sd) (BACKRANK_BB_of (b_turn b)))).

Lemma gen_castle_eq : forall b sd, gen_castle b sd = none (b_checkers b) && castle_cond b sd.
Proof.
  intros b sd. unfold gen_castle, castle_cond, castle_tiles, castle_files, safe_files.
  rewrite !andb_assoc. reflexivity.
Qed.

Lemma castle_step_mem_eq : forall b sd mv d,
  mem (castle_step b (b_turn b) sd (castle_files sd) (safe_files sd) mv) d =
  if castle_cond b sd then xorb (mem mv d) (mem (bb_and (castle_tiles sd (b_turn b)) CASTLE_MOVES_bb) d) else mem mv d.
Proof.
  intros b sd mv d. unfold castle_step, castle_cond. fold (castle_tiles sd (b_turn b)).
  destruct (cr_contains (b_rights b) sd (b_turn b)); cbn [negb andb]; [|reflexivity].
  destruct (none (bb_and (castle_tiles sd (b_turn b)) (all_occ b))); cbn [andb]; [|reflexivity].
  destruct (forallb _ _); [|reflexivity]. apply mem_xor.
Qed.

Lemma castle_dst_dest : forall c sd, castle_dst c sd = castle_dest sd c.
Proof. intros [] []; reflexivity. Qed.

Lemma castle_dst_lt : forall c sd, castle_dst c sd < 64.
Proof. intros [] []; reflexivity. Qed.

Lemma castle_mark_iff : forall sd c d,
  mem (bb_and (castle_tiles sd c) CASTLE_MOVES_bb) d = true <-> d = castle_dst c sd.
Proof.
  intros sd c d. split.
  - intros H. destruct (castle_dest_in_tiles sd c d H) as [Hd _].
    pose proof (all_sides_spec _ (all_sq_spec _ sweep_castle_dest _ Hd) sd c) as S. cbv beta in S.
    rewrite H in S. cbn [implb] in S. apply N.eqb_eq in S. rewrite castle_dst_dest. exact S.
  - intros ->. destruct sd, c; vm_compute; reflexivity.
Qed.

Lemma castle_dst_not_step : forall c sd, mem (king_geo (king_home c)) (castle_dst c sd) = false.
Proof. intros [] []; vm_compute; reflexivity. Qed.

Lemma castle_dst_sides : forall c, castle_dst c QueenSide <> castle_dst c KingSide.
Proof. intros []; vm_compute; discriminate. Qed.

Lemma pseudo_king_geo : forall k c occ mask d, mem (pseudo_legals King k c occ mask) d = true -> mem (king_geo k) d = true.
Proof. intros k c occ mask d H. unfold pseudo_legals in H. rewrite mem_and in H. apply andb_true_iff in H. apply H. Qed.

Lemma king_moves_iff : forall chk b d, rights_ok b -> ksq b < 64 -> raw_get b (ksq b) = Some (b_turn b, King) -> d < 64 ->
  (mem (king_moves chk b (b_turn b) (bb_not (own b))) d = true <->
   (mem (pseudo_legals King (ksq b) (b_turn b) (all_occ b) (bb_not (own b))) d = true /\ is_legal_king_position b d = true)
   \/ (chk = false /\ exists sd, castle_cond b sd = true /\ d = castle_dst (b_turn b) sd)).
Proof.
  intros chk b d RO Hk Hkr Hd. unfold king_moves. fold (ksq b).
  set (ps := pseudo_legals King (ksq b) (b_turn b) (all_occ b) (bb_not (own b))).
  pose proof (king_safe_iff b ps d Hd) as KS.
  destruct chk.
  - rewrite KS. split; [intros H; left; exact H|intros [H|(E & _)]; [exact H|discriminate E]].
  - change QUEENSIDE_FILES with (castle_files QueenSide). change QUEENSIDE_SAFE_FILES with (safe_files QueenSide).
    change (castle_step b (b_turn b) KingSide KINGSIDE_FILES KINGSIDE_FILES (king_safe b ps))
      with (castle_step b (b_turn b) KingSide (castle_files KingSide) (safe_files KingSide) (king_safe b ps)).
    (* with a right present the king is at home, so no castling destination is a king step *)
    assert (Home : forall sd, castle_cond b sd = true -> forall sd', mem (king_safe b ps) (castle_dst (b_turn b) sd') = false).
    { intros sd Hc sd'. unfold castle_cond in Hc. apply andb_true_iff in Hc. destruct Hc as [Hc _].
      apply andb_true_iff in Hc. destruct Hc as [Hc _].
      destruct (proj2 RO sd (b_turn b) Hc) as (_ & _ & U). pose proof (U _ Hk Hkr) as E.
      destruct (mem (king_safe b ps) (castle_dst (b_turn b) sd')) eqn:Em; [|reflexivity].
      apply king_safe_sub in Em. unfold ps in Em. apply pseudo_king_geo in Em.
      rewrite E, castle_dst_not_step in Em. discriminate Em. }
    rewrite !castle_step_mem_eq.
    assert (MK : forall sd, mem (bb_and (castle_tiles sd (b_turn b)) CASTLE_MOVES_bb) d = true <-> d = castle_dst (b_turn b) sd)
      by (intros sd; apply castle_mark_iff).
    destruct (castle_cond b KingSide) eqn:CK, (castle_cond b QueenSide) eqn:CQ.
    + destruct (mem (bb_and (castle_tiles QueenSide (b_turn b)) CASTLE_MOVES_bb) d) eqn:MQ.
      * apply MK in MQ. subst d. rewrite (Home _ CK QueenSide).
        destruct (mem (bb_and (castle_tiles KingSide (b_turn b)) CASTLE_MOVES_bb) (castle_dst (b_turn b) QueenSide)) eqn:MK2.
        -- apply MK in MK2. exfalso. exact (castle_dst_sides _ MK2).
        -- cbn [xorb]. split; [intros _; right; split; [reflexivity|exists QueenSide; auto]|reflexivity].
      * rewrite xorb_false_r.
        destruct (mem (bb_and (castle_tiles KingSide (b_turn b)) CASTLE_MOVES_bb) d) eqn:MK2.
        -- apply MK in MK2. subst d. rewrite (Home _ CK KingSide). cbn [xorb].
           split; [intros _; right; split; [reflexivity|exists KingSide; auto]|reflexivity].
        -- rewrite xorb_false_r, KS. split; [intros H; left; exact H|].
           intros [H|(_ & sd & _ & E)]; [exact H|]. exfalso.
           destruct sd; apply MK in E; congruence.
    + destruct (mem (bb_and (castle_tiles KingSide (b_turn b)) CASTLE_MOVES_bb) d) eqn:MK2.
      * apply MK in MK2. subst d. rewrite (Home _ CK KingSide). cbn [xorb].
        split; [intros _; right; split; [reflexivity|exists KingSide; auto]|reflexivity].
      * rewrite xorb_false_r, KS. split; [intros H; left; exact H|].
        intros [H|(_ & sd & Hc & E)]; [exact H|]. exfalso.
        destruct sd; [apply MK in E; congruence|congruence].
    + destruct (mem (bb_and (castle_tiles QueenSide (b_turn b)) CASTLE_MOVES_bb) d) eqn:MQ.
      * apply MK in MQ. subst d. rewrite (Home _ CQ QueenSide). cbn [xorb].
        split; [intros _; right; split; [reflexivity|exists QueenSide; auto]|reflexivity].
      * rewrite xorb_false_r, KS. split; [intros H; left; exact H|].
        intros [H|(_ & sd & Hc & E)]; [exact H|]. exfalso.
        destruct sd; [congruence|apply MK in E; congruence].
    + rewrite KS. split; [intros H; left; exact H|].
      intros [H|(_ & sd & Hc & E)]; [exact H|]. destruct sd; congruence.
Qed.

Lemma king_legals_moves : forall chk b x, rights_ok b -> ksq b < 64 -> raw_get b (ksq b) = Some (b_turn b, King) ->
  (In x (flat_map entry_moves (king_legals chk b (b_turn b) (bb_not (own b)))) <->
   m_src x = ksq b /\ m_dst x < 64 /\ m_promo x = None /\
   ((mem (pseudo_legals King (ksq b) (b_turn b) (all_occ b) (bb_not (own b))) (m_dst x) = true
     /\ is_legal_king_position b (m_dst x) = true)
    \/ (chk = false /\ exists sd, castle_cond b sd = true /\ m_dst x = castle_dst (b_turn b) sd))).
Proof.
  intros chk b x RO Hk Hkr. rewrite king_legals_eq. fold (ksq b).
  pose proof (fun Hd => king_moves_iff chk b (m_dst x) RO Hk Hkr Hd) as KM.
  destruct (none (king_moves chk b (b_turn b) (bb_not (own b)))) eqn:En.
  - cbn [flat_map]. split; [intros []|]. intros (H1 & H2 & H3 & H4). apply (KM H2) in H4.
    apply none_true_0 in En. rewrite En, mem_0 in H4. discriminate H4.
  - cbn [flat_map]. rewrite app_nil_r, entry_moves_iff. cbn [e_src e_moves e_promo promo_field]. split.
    + intros (H1 & H2 & H3 & H4). apply (KM H2) in H3. tauto.
    + intros (H1 & H2 & H3 & H4). apply (KM H2) in H4. tauto.
Qed.

(* ------------------------------------------------------------------ *)
(** * 4. The characterisation of the generator *)

Definition in_chk (b : board) : bool := negb (none (b_checkers b)).
Definition men_run (b : board) : bool := none (b_checkers b) || (count (b_checkers b) =? 1).

Lemma collect_moves_split : forall b x,
  gen_move b x <->
  (men_run b = true /\
   (In x (flat_map entry_moves (pawn_legals (in_chk b) b (bb_not (own b))))
    \/ In x (flat_map entry_moves (piece_legals Knight false (in_chk b) b (bb_not (own b))))
    \/ In x (flat_map entry_moves (piece_legals Bishop true (in_chk b) b (bb_not (own b))))
    \/ In x (flat_map entry_moves (piece_legals Rook true (in_chk b) b (bb_not (own b))))
    \/ In x (flat_map entry_moves (piece_legals Queen true (in_chk b) b (bb_not (own b))))))
  \/ In x (flat_map entry_moves (king_legals (in_chk b) b (b_turn b) (bb_not (own b)))).
Proof.
  intros b x. unfold gen_move, collect_moves, men_run, in_chk. cbv zeta. fold (own b). rewrite mask_full.
  destruct (none (b_checkers b)); cbn [negb orb].
  - rewrite !flat_map_app, !in_app_iff. tauto.
  - destruct (count (b_checkers b) =? 1).
    + rewrite !flat_map_app, !in_app_iff. tauto.
    + cbn [app]. split; [intros H; right; exact H|intros [[E _]|H]; [discriminate E|exact H]].
Qed.

(* step_filter is exactly: the non-king generators run, and the destination passes one of the two channels *)
Lemma step_filter_iff : forall b cmp src d, d < 64 ->
  (cmp = false -> mem (line_geo src (ksq b)) d = false) ->
  (step_filter b src d = true <-> men_run b = true /\ chan b cmp (in_chk b) src d).
Proof.
  intros b cmp src d Hd Hkn. unfold step_filter, men_run, in_chk, chan, check_mask. cbv zeta.
  destruct (none (b_checkers b)); cbn [negb orb].
  - rewrite (mem_bb_full d Hd). destruct (mem (b_pinned b) src); cbn [negb orb].
    + destruct cmp.
      * split; [intros H; split; [reflexivity|right; tauto]|intros (_ & [[E _]|(_ & _ & _ & H)]); [discriminate E|exact H]].
      * rewrite (Hkn eq_refl). split; [discriminate|intros (_ & [[E _]|(_ & E & _)]); discriminate E].
    + split; [intros _; split; [reflexivity|left; split; reflexivity]|reflexivity].
  - destruct (count (b_checkers b) =? 1).
    + destruct (mem (b_pinned b) src); cbn [negb andb].
      * split; [discriminate|intros (_ & [[E _]|(E & _)]); discriminate E].
      * split; [intros H; split; [reflexivity|left; split; [reflexivity|exact H]]|].
        intros (_ & [[_ H]|(E & _)]); [exact H|discriminate E].
    + split; [discriminate|intros [E _]; discriminate E].
Qed.

Definition step_chan (b : board) (pc : piece) (m : move) : Prop :=
  pc <> King /\ mem (pseudo_legals pc (m_src m) (b_turn b) (all_occ b) (bb_not (own b))) (m_dst m) = true
  /\ step_filter b (m_src m) (m_dst m) = true.
Definition ep_move_chan (b : board) (pc : piece) (m : move) : Prop :=
  pc = Pawn /\ ep_chan b (m_src m) (m_dst m) /\ men_run b = true.
Definition king_chan (b : board) (pc : piece) (m : move) : Prop :=
  pc = King /\ m_src m = ksq b
  /\ mem (pseudo_legals King (ksq b) (b_turn b) (all_occ b) (bb_not (own b))) (m_dst m) = true
  /\ is_legal_king_position b (m_dst m) = true.
Definition castle_chan (b : board) (pc : piece) (m : move) : Prop :=
  pc = King /\ m_src m = ksq b /\ exists sd, gen_castle b sd = true /\ m_dst m = castle_dst (b_turn b) sd.

Definition gen_shape (b : board) (m : move) : Prop :=
  exists pc, m_src m < 64 /\ m_dst m < 64 /\ raw_get b (m_src m) = Some (b_turn b, pc)
             /\ promo_ok b pc (m_src m) (m_promo m)
             /\ (step_chan b pc m \/ ep_move_chan b pc m \/ king_chan b pc m \/ castle_chan b pc m).

Lemma one_king_own : forall b c, one_king b c -> bb_and (colors b c) (b_king b) <> 0.
Proof. intros b c H E. unfold one_king in H. rewrite E in H. discriminate H. Qed.

Lemma good_king : forall b, Good b -> ksq b < 64 /\ raw_get b (ksq b) = Some (b_turn b, King).
Proof.
  intros b G. pose proof (inv_part b (good_inv b G)) as P.
  assert (K : bb_and (colors b (b_turn b)) (b_king b) <> 0).
  { apply one_king_own. destruct (b_turn b); [exact (good_wk b G)|exact (good_bk b G)]. }
  destruct (SiteFacts.king_sq_valid b (b_turn b) (part_wf_colors b P (b_turn b)) K) as (Hk & Hc & Hkk).
  split; [exact Hk|apply raw_of_mem; assumption].
Qed.

Lemma promo_ok_field : forall b pc src pr,
  promo_ok b pc src pr = promo_field (piece_eqb pc Pawn && (rank_of src =? seventh b)) pr.
Proof. reflexivity. Qed.

Lemma rank_of_from_rank : forall r s, r < 8 -> s < 64 -> mem (from_rank r) s = true -> rank_of s = r.
Proof. intros r s Hr Hs H. rewrite mem_from_rank in H by assumption. apply N.eqb_eq in H. exact H. Qed.

Lemma ep_src_not_seventh : forall b f src, src < 64 ->
  mem (bb_and (from_rank (ep_pawn_rank_of (b_turn b))) (adjacent_files f)) src = true ->
  (rank_of src =? seventh b) = false.
Proof.
  intros b f src Hs H. rewrite mem_and in H. apply andb_true_iff in H. destruct H as [H _].
  apply rank_of_from_rank in H; [|destruct (b_turn b); reflexivity|exact Hs].
  rewrite H. unfold seventh. destruct (b_turn b); reflexivity.
Qed.

Lemma men_run_count : forall b, wf64 (b_checkers b) -> (men_run b = true <-> count (b_checkers b) <= 1).
Proof.
  intros b W. unfold men_run. split.
  - intros H. apply orb_true_iff in H. destruct H as [H|H].
    + apply none_true_0 in H. rewrite H. cbn. lia.
    + apply N.eqb_eq in H. lia.
  - intros H. destruct (none (b_checkers b)) eqn:E; [reflexivity|]. cbn [orb]. apply N.eqb_eq.
    assert (count (b_checkers b) <> 0); [|lia].
    intros E0. apply (count_0_iff _ W) in E0. unfold none in E. rewrite E0 in E. discriminate E.
Qed.

Theorem gen_char : forall b m, Good b -> (gen_move b m <-> gen_shape b m).
Proof.
  intros b m G. pose proof (good_inv b G) as I. pose proof (inv_part b I) as P. pose proof (inv_rights b I) as RO.
  destruct (good_king b G) as [Hk Hkr].
  rewrite collect_moves_split, (pawn_legals_moves _ b m P Hk), !(piece_legals_moves _ _ _ b m P),
    (king_legals_moves _ b m RO Hk Hkr).
  assert (SF : forall pc, (pc = Knight -> mem (knight_geo (m_src m)) (m_dst m) = true) -> m_src m < 64 -> m_dst m < 64 ->
            (step_filter b (m_src m) (m_dst m) = true <->
             men_run b = true /\ chan b (negb (piece_eqb pc Knight)) (in_chk b) (m_src m) (m_dst m))).
  { intros pc Hkn Hs Hd. apply step_filter_iff; [exact Hd|]. intros E.
    destruct pc; try discriminate E. exact (knight_not_on_line _ _ _ Hs Hk (Hkn eq_refl)). }
  unfold gen_shape. split.
  - intros [(Hrun & [H|[H|[H|[H|H]]]])|H].
    + (* pawn *)
      destruct H as (Hs & Hd & Hr & [(Hpr & Hm & Hc)|(Hpr & Hep)]).
      * exists Pawn. split; [exact Hs|split; [exact Hd|split; [exact Hr|split; [exact Hpr|]]]]. left.
        split; [discriminate|split; [exact Hm|]]. apply (SF Pawn); [discriminate|assumption|assumption|]. split; assumption.
      * exists Pawn. split; [exact Hs|split; [exact Hd|split; [exact Hr|]]]. split.
        { rewrite promo_ok_field. destruct Hep as (f & _ & _ & Hsrc & _).
          rewrite (ep_src_not_seventh b f _ Hs Hsrc), andb_false_r. exact Hpr. }
        right. left. split; [reflexivity|split; assumption].
    + destruct H as (Hs & Hd & Hr & Hpr & Hm & Hc). exists Knight. split; [exact Hs|split; [exact Hd|split; [exact Hr|split; [exact Hpr|]]]].
      left. split; [discriminate|split; [exact Hm|]]. apply (SF Knight); [|assumption|assumption|split; assumption].
      intros _. unfold pseudo_legals in Hm. rewrite mem_and in Hm. apply andb_true_iff in Hm. apply Hm.
    + destruct H as (Hs & Hd & Hr & Hpr & Hm & Hc). exists Bishop. split; [exact Hs|split; [exact Hd|split; [exact Hr|split; [exact Hpr|]]]].
      left. split; [discriminate|split; [exact Hm|]]. apply (SF Bishop); [discriminate|assumption|assumption|split; assumption].
    + destruct H as (Hs & Hd & Hr & Hpr & Hm & Hc). exists Rook. split; [exact Hs|split; [exact Hd|split; [exact Hr|split; [exact Hpr|]]]].
      left. split; [discriminate|split; [exact Hm|]]. apply (SF Rook); [discriminate|assumption|assumption|split; assumption].
    + destruct H as (Hs & Hd & Hr & Hpr & Hm & Hc). exists Queen. split; [exact Hs|split; [exact Hd|split; [exact Hr|split; [exact Hpr|]]]].
      left. split; [discriminate|split; [exact Hm|]]. apply (SF Queen); [discriminate|assumption|assumption|split; assumption].
    + destruct H as (Hs & Hd & Hpr & Hc). exists King. rewrite Hs.
      split; [exact Hk|split; [exact Hd|split; [exact Hkr|split; [exact Hpr|]]]].
      destruct Hc as [[Hm Hl]|(Hchk & sd & Hcc & E)].
      * right. right. left. split; [reflexivity|split; [exact Hs|split; assumption]].
      * right. right. right. split; [reflexivity|split; [exact Hs|]]. exists sd. split; [|exact E].
        rewrite gen_castle_eq, Hcc. unfold in_chk in Hchk. apply negb_false_iff in Hchk. rewrite Hchk. reflexivity.
  - intros (pc & Hs & Hd & Hr & Hpr & [H|[H|[H|H]]]).
    + destruct H as (Nk & Hm & Hf).
      assert (Hkn : pc = Knight -> mem (knight_geo (m_src m)) (m_dst m) = true).
      { intros ->. unfold pseudo_legals in Hm. rewrite mem_and in Hm. apply andb_true_iff in Hm. apply Hm. }
      apply (SF pc Hkn Hs Hd) in Hf. destruct Hf as [Hrun Hc]. left. split; [exact Hrun|].
      rewrite promo_ok_field in Hpr.
      destruct pc; cbn [piece_eqb piece_idx N.eqb negb andb] in Hpr, Hc; try (contradiction Nk; reflexivity).
      * left. split; [exact Hs|split; [exact Hd|split; [exact Hr|left; tauto]]].
      * right. left. tauto.
      * right. right. left. tauto.
      * right. right. right. left. tauto.
      * right. right. right. right. tauto.
    + destruct H as (-> & Hep & Hrun). left. split; [exact Hrun|]. left.
      split; [exact Hs|split; [exact Hd|split; [exact Hr|right]]]. split; [|exact Hep].
      rewrite promo_ok_field in Hpr. destruct Hep as (f & _ & _ & Hsrc & _).
      rewrite (ep_src_not_seventh b f _ Hs Hsrc), andb_false_r in Hpr. exact Hpr.
    + destruct H as (-> & E & Hm & Hl). right. split; [exact E|split; [exact Hd|split; [exact Hpr|left; tauto]]].
    + destruct H as (-> & E & sd & Hg & Ed). right. split; [exact E|split; [exact Hd|split; [exact Hpr|right]]].
      rewrite gen_castle_eq in Hg. apply andb_true_iff in Hg. destruct Hg as [Hn Hcc].
      split; [unfold in_chk; rewrite Hn; reflexivity|]. exists sd. tauto.
Qed.

(* the characterisation in the form with the number of checkers spelled out *)
Corollary gen_char_count : forall b m, Good b ->
  (gen_move b m <->
   exists pc, m_src m < 64 /\ m_dst m < 64 /\ raw_get b (m_src m) = Some (b_turn b, pc)
     /\ promo_ok b pc (m_src m) (m_promo m)
     /\ (   (pc <> King /\ mem (pseudo_legals pc (m_src m) (b_turn b) (all_occ b) (bb_not (own b))) (m_dst m) = true
             /\ step_filter b (m_src m) (m_dst m) = true)
         \/ (pc = Pawn
             /\ (exists f, b_ep b = Some f /\ m_dst m = mk_sq f (ep_capture_rank_of (b_turn b)) /\
                   mem (bb_and (from_rank (ep_pawn_rank_of (b_turn b))) (adjacent_files f)) (m_src m) = true /\
                   is_legal_en_passant b (m_src m) (mk_sq f (ep_capture_rank_of (b_turn b)))
                                       (mk_sq f (ep_pawn_rank_of (b_turn b))) (ksq b) = true)
             /\ count (b_checkers b) <= 1)
         \/ (pc = King /\ m_src m = ksq b
             /\ mem (pseudo_legals King (ksq b) (b_turn b) (all_occ b) (bb_not (own b))) (m_dst m) = true
             /\ is_legal_king_position b (m_dst m) = true)
         \/ (pc = King /\ m_src m = ksq b /\ exists sd, gen_castle b sd = true /\ m_dst m = castle_dst (b_turn b) sd))).
Proof.
  intros b m G. rewrite (gen_char b m G). unfold gen_shape, step_chan, ep_move_chan, king_chan, castle_chan, ep_chan.
  pose proof (men_run_count b (part_wf_checkers b (inv_part b (good_inv b G)))) as MR.
  split; intros (pc & H1 & H2 & H3 & H4 & H5); exists pc; tauto.
Qed.

(* ------------------------------------------------------------------ *)
(** * 5. The assembly *)

Definition ep_double_check_statement : Prop :=
  forall b src f, Good b -> b_ep b = Some f -> src < 64 -> raw_get b src = Some (b_turn b, Pawn) ->
    mem (bb_and (from_rank (ep_pawn_rank_of (b_turn b))) (adjacent_files f)) src = true ->
    (2 <= count (b_checkers b)) ->
    is_legal_en_passant b src (mk_sq f (ep_capture_rank_of (b_turn b))) (mk_sq f (ep_pawn_rank_of (b_turn b))) (ksq b) = false.

Lemma is_piece_raw : forall b c p s, s < 64 -> is_piece (cells (Board.abs b)) c p s = true -> raw_get b s = Some (c, p).
Proof.
  intros b c p s Hs H. rewrite BridgeFacts.is_piece_unfold, BridgeFacts.abs_cell in H by exact Hs.
  destruct (raw_get b s) as [[c' p']|]; [|discriminate H]. apply andb_true_iff in H. destruct H as [H1 H2].
  apply color_eqb_eq in H1. apply piece_eqb_eq in H2. subst. reflexivity.
Qed.

Lemma castle_moves_form : kings_statement -> forall b m, Good b -> In m (castle_moves (Board.abs b)) ->
  exists sd, m = {| m_src := ksq b; m_dst := castle_dst (b_turn b) sd; m_promo := None |}.
Proof.
  intros KS b m G H. unfold castle_moves in H. cbv zeta in H. change (stm (Board.abs b)) with (b_turn b) in H.
  destruct (is_piece (cells (Board.abs b)) (b_turn b) King (mk_sq 4 (home_rank (b_turn b)))) eqn:Ek;
    cbn [negb orb] in H; [|destruct H].
  assert (Hlt : mk_sq 4 (home_rank (b_turn b)) < 64) by (destruct (b_turn b); reflexivity).
  apply (is_piece_raw b _ _ _ Hlt) in Ek.
  destruct (KS b (b_turn b) G) as (_ & _ & U & _). pose proof (U _ Hlt Ek) as E. fold (ksq b) in E.
  destruct (attacked_by _ _ _); [destruct H|].
  apply in_app_or in H. destruct H as [H|H].
  - match type of H with In _ (if ?c then _ else _) => destruct c end; [|destruct H].
    destruct H as [<-|[]]. exists KingSide. unfold mk. rewrite E. reflexivity.
  - match type of H with In _ (if ?c then _ else _) => destruct c end; [|destruct H].
    destruct H as [<-|[]]. exists QueenSide. unfold mk. rewrite E. reflexivity.
Qed.

Lemma piece_king_dec : forall pc : piece, pc = King \/ pc <> King.
Proof. intros []; (left; reflexivity) || (right; discriminate). Qed.

Theorem movegen_exact :
  kings_statement ->
  legal_iff_safe_statement -> pseudo_shape_statement -> pin_filter_statement -> king_step_statement ->
  castle_statement -> ep_statement -> ep_double_check_statement ->
  movegen_exact_statement.
Proof.
  intros KS A S PF K C E ED b m G.
  rewrite (gen_char b m G), (A b m G), ApplyFacts.pseudo_unfold, in_app_iff.
  change (flat_map _ sq_list) with (noncastle_pseudo (Board.abs b)). rewrite (S b m G).
  destruct (KS b (b_turn b) G) as (Hk & Hkr & U & _). fold (ksq b) in Hk, Hkr, U.
  pose proof (men_run_count b (part_wf_checkers b (inv_part b (good_inv b G)))) as MR.
  destruct m as [src d pr]. unfold gen_shape, step_chan, ep_move_chan, king_chan, castle_chan.
  cbn [m_src m_dst m_promo]. split.
  - intros (pc & Hs & Hd & Hr & Hpr & [H|[H|[H|H]]]).
    + destruct H as (Nk & Hm & Hf). split.
      * left. exists pc. split; [exact Hs|split; [exact Hd|split; [exact Hr|split; [exact (PK_step b pc src d Hm)|exact Hpr]]]].
      * rewrite (PF b src d pc pr G Nk Hs Hd Hr Hm Hpr). exact Hf.
    + destruct H as (-> & (f & Ef & -> & Hsrc & Hl) & Hrun).
      assert (Epr : pr = None).
      { rewrite promo_ok_field, (ep_src_not_seventh b f _ Hs Hsrc), andb_false_r in Hpr. exact Hpr. }
      split.
      * left. exists Pawn. split; [exact Hs|split; [exact Hd|split; [exact Hr|split; [|exact Hpr]]]].
        exact (PK_ep b Pawn src _ f eq_refl Ef eq_refl Hsrc).
      * rewrite Epr, (E b src f G Ef Hs Hr Hsrc). exact Hl.
    + destruct H as (-> & -> & Hm & Hl).
      assert (Epr : pr = None) by exact Hpr.
      split.
      * left. exists King. split; [exact Hs|split; [exact Hd|split; [exact Hr|split; [exact (PK_step b King _ d Hm)|exact Hpr]]]].
      * rewrite Epr, (K b d G Hd Hm). exact Hl.
    + destruct H as (-> & -> & sd & Hg & ->).
      assert (Epr : pr = None) by exact Hpr. rewrite Epr.
      destruct (C b sd G) as [C1 C2]. split; [right; apply C1, Hg|exact (C2 Hg)].
  - intros [[(pc & Hs & Hd & Hr & Hpk & Hpr)|Hc] Hsafe].
    + exists pc. split; [exact Hs|split; [exact Hd|split; [exact Hr|split; [exact Hpr|]]]].
      destruct (piece_king_dec pc) as [->|Nk].
      * pose proof (U _ Hs Hr) as Es. subst src.
        assert (Epr : pr = None) by exact Hpr. subst pr.
        destruct Hpk as [Hm|f Epc _ _ _]; [|discriminate Epc].
        right. right. left. split; [reflexivity|split; [reflexivity|split; [exact Hm|]]].
        rewrite <- (K b d G Hd Hm). exact Hsafe.
      * destruct Hpk as [Hm|f Epc Ef Ed Hsrc].
        -- left. split; [exact Nk|split; [exact Hm|]].
           rewrite <- (PF b src d pc pr G Nk Hs Hd Hr Hm Hpr). exact Hsafe.
        -- subst pc d. right. left. split; [reflexivity|].
           assert (Epr : pr = None).
           { rewrite promo_ok_field, (ep_src_not_seventh b f _ Hs Hsrc), andb_false_r in Hpr. exact Hpr. }
           subst pr. rewrite (E b src f G Ef Hs Hr Hsrc) in Hsafe.
           split; [exists f; tauto|]. apply MR.
           destruct (N.le_gt_cases (count (b_checkers b)) 1) as [L|L]; [exact L|].
           rewrite (ED b src f G Ef Hs Hr Hsrc) in Hsafe by lia. discriminate Hsafe.
    + destruct (castle_moves_form KS b _ G Hc) as (sd & Em). injection Em as -> -> ->.
      exists King. split; [exact Hk|split; [apply castle_dst_lt|split; [exact Hkr|split; [reflexivity|]]]].
      right. right. right. split; [reflexivity|split; [reflexivity|]]. exists sd. split; [|reflexivity].
      apply (C b sd G), Hc.
Qed.

(* ------------------------------------------------------------------ *)
(** * 6. No duplicates *)

Lemma nodup_app : forall (A : Type) (l1 l2 : list A), NoDup l1 -> NoDup l2 ->
  (forall x, In x l1 -> In x l2 -> False) -> NoDup (l1 ++ l2).
Proof.
  intros A l1. induction l1 as [|a l1 IH]; intros l2 H1 H2 D; [exact H2|].
  cbn [app]. inversion H1 as [|a' l' Ha Hl]; subst. constructor.
  - intros H. apply in_app_or in H. destruct H as [H|H]; [exact (Ha H)|]. exact (D a (or_introl eq_refl) H).
  - apply IH; [exact Hl|exact H2|]. intros x Hx. apply D. right. exact Hx.
Qed.

Lemma nodup_flat_map : forall (A B : Type) (f : A -> list B) l, NoDup l ->
  (forall x, In x l -> NoDup (f x)) ->
  (forall x y z, In x l -> In y l -> In z (f x) -> In z (f y) -> x = y) ->
  NoDup (flat_map f l).
Proof.
  intros A B f l. induction l as [|a l IH]; intros Hl Hf D; [constructor|].
  cbn [flat_map]. inversion Hl as [|a' l' Ha Hl']; subst. apply nodup_app.
  - apply Hf. left. reflexivity.
  - apply IH; [exact Hl'| |].
    + intros x Hx. apply Hf. right. exact Hx.
    + intros x y z Hx Hy. apply D; right; assumption.
  - intros z Hz1 Hz2. apply in_flat_map in Hz2. destruct Hz2 as (y & Hy & Hz2).
    assert (E : a = y) by (apply (D a y z); [left; reflexivity|right; exact Hy|exact Hz1|exact Hz2]).
    subst y. exact (Ha Hy).
Qed.

Lemma dest_moves_NoDup : forall src promo d, NoDup (dest_moves src promo O d).
Proof.
  intros src promo d. unfold dest_moves. destruct promo.
  - cbn [skipn promo_pieces map]. unfold mk_move.
    repeat (constructor; [cbn [In]; intros H; repeat (destruct H as [H|H]; [discriminate H|]); exact H|]).
    constructor.
  - constructor; [intros []|constructor].
Qed.

Lemma entry_moves_NoDup : forall e, NoDup (entry_moves e).
Proof.
  intros e. rewrite entry_moves_eq. apply nodup_flat_map.
  - apply elements_NoDup.
  - intros d _. apply dest_moves_NoDup.
  - intros d1 d2 z _ _ H1 H2. apply dest_moves_In in H1, H2. destruct H1 as [_ <-]. destruct H2 as [_ <-]. reflexivity.
Qed.

(* entries made source by source, at most one per source *)
Lemma src_entries_NoDup : forall (g : N -> list entry) srcs, NoDup srcs ->
  (forall s e, In e (g s) -> e_src e = s) -> (forall s, NoDup (g s)) ->
  (forall s e1 e2, In e1 (g s) -> In e2 (g s) -> e1 = e2) ->
  NoDup (flat_map entry_moves (flat_map g srcs)).
Proof.
  intros g srcs Hn Hsrc Hg Hone. apply nodup_flat_map.
  - apply nodup_flat_map; [exact Hn|intros s _; apply Hg|].
    intros s1 s2 e _ _ H1 H2. rewrite <- (Hsrc _ _ H1). exact (Hsrc _ _ H2).
  - intros e _. apply entry_moves_NoDup.
  - intros e1 e2 z H1 H2 Hz1 Hz2. apply in_flat_map in H1, H2.
    destruct H1 as (s1 & _ & H1). destruct H2 as (s2 & _ & H2).
    apply entry_moves_In in Hz1, Hz2. destruct Hz1 as [Hz1 _]. destruct Hz2 as [Hz2 _].
    assert (E : s1 = s2) by (rewrite <- (Hsrc _ _ H1), <- (Hsrc _ _ H2), <- Hz1, <- Hz2; reflexivity).
    subst s2. exact (Hone _ _ _ H1 H2).
Qed.

Lemma mk_entries_NoDup : forall srcs f promo, NoDup srcs -> NoDup (flat_map entry_moves (mk_entries srcs f promo)).
Proof.
  intros srcs f promo Hn. unfold mk_entries. apply src_entries_NoDup; [exact Hn| | |]; cbv zeta.
  - intros s e H. destruct (none (f s)); [destruct H|]. destruct H as [<-|[]]. reflexivity.
  - intros s. destruct (none (f s)); [constructor|]. constructor; [intros []|constructor].
  - intros s e1 e2 H1 H2. destruct (none (f s)); [destruct H1|]. destruct H1 as [<-|[]]. destruct H2 as [<-|[]]. reflexivity.
Qed.

Lemma if_entries_NoDup : forall srcs (t : N -> bool) (mk : N -> entry), NoDup srcs -> (forall s, e_src (mk s) = s) ->
  NoDup (flat_map entry_moves (flat_map (fun s => if t s then [mk s] else []) srcs)).
Proof.
  intros srcs t mk Hn Hmk. apply src_entries_NoDup; [exact Hn| | |].
  - intros s e H. destruct (t s); [|destruct H]. destruct H as [<-|[]]. apply Hmk.
  - intros s. destruct (t s); [|constructor]. constructor; [intros []|constructor].
  - intros s e1 e2 H1 H2. destruct (t s); [|destruct H1]. destruct H1 as [<-|[]]. destruct H2 as [<-|[]]. reflexivity.
Qed.

(* parts of the move list sorted by the kind of the moving man *)
Definition kinds_in (b : board) (S : list piece) (L : list move) : Prop :=
  forall x, In x L -> exists pc, In pc S /\ raw_get b (m_src x) = Some (b_turn b, pc).
Definition good_part (b : board) (S : list piece) (L : list move) : Prop := NoDup L /\ kinds_in b S L.

Lemma good_app : forall b S1 S2 L1 L2, good_part b S1 L1 -> good_part b S2 L2 ->
  (forall p, In p S1 -> In p S2 -> False) -> good_part b (S1 ++ S2) (L1 ++ L2).
Proof.
  intros b S1 S2 L1 L2 [N1 K1] [N2 K2] D. split.
  - apply nodup_app; [exact N1|exact N2|]. intros x H1 H2.
    destruct (K1 x H1) as (p1 & I1 & R1). destruct (K2 x H2) as (p2 & I2 & R2).
    rewrite R1 in R2. injection R2 as <-. exact (D p1 I1 I2).
  - intros x H. apply in_app_or in H. destruct H as [H|H].
    + destruct (K1 x H) as (p & I & R). exists p. split; [apply in_or_app; left; exact I|exact R].
    + destruct (K2 x H) as (p & I & R). exists p. split; [apply in_or_app; right; exact I|exact R].
Qed.

Lemma good_nil : forall b, good_part b [] [].
Proof. intros b. split; [constructor|intros x []]. Qed.

Lemma piece_part : forall pc cmp chk b, Part b ->
  good_part b [pc] (flat_map entry_moves (piece_legals pc cmp chk b (bb_not (own b)))).
Proof.
  intros pc cmp chk b P. split.
  - unfold piece_legals. cbv zeta. destruct (chk || negb cmp).
    + apply mk_entries_NoDup, elements_NoDup.
    + rewrite flat_map_app. apply nodup_app; [apply mk_entries_NoDup, elements_NoDup|apply mk_entries_NoDup, elements_NoDup|].
      intros x H1 H2. apply mk_entries_moves in H1, H2. destruct H1 as [H1 _]. destruct H2 as [H2 _].
      apply elements_spec in H1, H2. destruct H1 as [Hs H1]. destruct H2 as [_ H2].
      rewrite mem_and in H1, H2. apply andb_true_iff in H1, H2. destruct H1 as [_ H1]. destruct H2 as [_ H2].
      rewrite mem_not, H2 in H1 by exact Hs. discriminate H1.
  - intros x H. apply (piece_legals_moves pc cmp chk b x P) in H. exists pc. split; [left; reflexivity|apply H].
Qed.

Lemma pawn_part : forall chk b, Part b -> InvFacts.ep_ok b -> ksq b < 64 ->
  good_part b [Pawn] (flat_map entry_moves (pawn_legals chk b (bb_not (own b)))).
Proof.
  intros chk b P EP Hk. split.
  - unfold pawn_legals. cbv zeta. fold (own b). rewrite !flat_map_app.
    change (b_pawn b) with (pieces b Pawn).
    assert (Step : forall X (cm : N -> N) pr x,
      In x (flat_map entry_moves (mk_entries (elements (bb_and (bb_and (pieces b Pawn) (own b)) X))
         (fun src => bb_and (pseudo_legals Pawn src (b_turn b) (all_occ b) (bb_not (own b))) (cm src)) pr)) ->
      m_src x < 64 /\ m_dst x < 64 /\ raw_get b (m_src x) = Some (b_turn b, Pawn) /\ mem X (m_src x) = true /\
      mem (pseudo_legals Pawn (m_src x) (b_turn b) (all_occ b) (bb_not (own b))) (m_dst x) = true).
    { intros X cm pr x H. unfold own in H. rewrite mk_entries_moves, src_elements_iff in H by exact P.
      rewrite mem_and, andb_true_iff in H. fold (own b) in H. tauto. }
    assert (EpD : forall x, In x (flat_map entry_moves
       match b_ep b with
       | Some f => flat_map (fun src => if is_legal_en_passant b src (mk_sq f (ep_capture_rank_of (b_turn b)))
                                            (mk_sq f (ep_pawn_rank_of (b_turn b))) (king_sq b (b_turn b))
                                        then [{| e_src := src; e_moves := from_pos (mk_sq f (ep_capture_rank_of (b_turn b))); e_promo := false |}]
                                        else [])
                     (elements (bb_and (bb_and (from_rank (ep_pawn_rank_of (b_turn b))) (adjacent_files f)) (bb_and (pieces b Pawn) (own b))))
       | None => [] end) ->
       exists f, b_ep b = Some f /\ m_dst x = mk_sq f (ep_capture_rank_of (b_turn b))).
    { intros x H. destruct (b_ep b) as [f|]; [|destruct H]. unfold own in H. cbn [pieces] in H.
      apply (ep_entries_moves b f _ _ x P) in H. exists f. split; [reflexivity|apply H]. }
    assert (NoEp : forall x, m_src x < 64 -> m_dst x < 64 -> raw_get b (m_src x) = Some (b_turn b, Pawn) ->
              mem (pseudo_legals Pawn (m_src x) (b_turn b) (all_occ b) (bb_not (own b))) (m_dst x) = true ->
              (exists f, b_ep b = Some f /\ m_dst x = mk_sq f (ep_capture_rank_of (b_turn b))) -> False).
    { intros x Hs Hd Hr Hm (f & Ef & E). exact (pawn_step_not_ep_square b _ _ f P EP Hs Hd Hr Hm Ef E). }
    apply nodup_app; [apply mk_entries_NoDup, elements_NoDup| |].
    + apply nodup_app.
      * destruct chk; [constructor|apply mk_entries_NoDup, elements_NoDup].
      * destruct (b_ep b) as [f|]; [|constructor]. apply if_entries_NoDup; [apply elements_NoDup|reflexivity].
      * intros x H1 H2. destruct chk; [destruct H1|]. apply Step in H1. apply EpD in H2.
        destruct H1 as (A1 & A2 & A3 & _ & A5). exact (NoEp x A1 A2 A3 A5 H2).
    + intros x H1 H2. apply Step in H1. destruct H1 as (A1 & A2 & A3 & A4 & A5).
      apply in_app_or in H2. destruct H2 as [H2|H2].
      * destruct chk; [destruct H2|]. apply Step in H2. destruct H2 as (_ & _ & _ & B4 & _).
        rewrite mem_not, B4 in A4 by exact A1. discriminate A4.
      * apply EpD in H2. exact (NoEp x A1 A2 A3 A5 H2).
  - intros x H. apply (pawn_legals_moves chk b x P Hk) in H. exists Pawn. split; [left; reflexivity|apply H].
Qed.

Lemma king_part : forall chk b mask, raw_get b (ksq b) = Some (b_turn b, King) ->
  good_part b [King] (flat_map entry_moves (king_legals chk b (b_turn b) mask)).
Proof.
  intros chk b mask Hkr. rewrite king_legals_eq. destruct (none _).
  - split; [constructor|intros x []].
  - cbn [flat_map]. rewrite app_nil_r. split; [apply entry_moves_NoDup|].
    intros x H. apply entry_moves_In in H. destruct H as [H _]. cbn [e_src] in H. fold (ksq b) in H.
    exists King. split; [left; reflexivity|rewrite H; exact Hkr].
Qed.

Lemma kinds_disjoint_tac : forall (S1 S2 : list piece),
  forallb (fun p => negb (existsb (piece_eqb p) S2)) S1 = true -> forall p, In p S1 -> In p S2 -> False.
Proof.
  intros S1 S2 H p H1 H2. rewrite forallb_forall in H. specialize (H p H1). apply negb_true_iff in H.
  assert (E : existsb (piece_eqb p) S2 = true); [|rewrite E in H; discriminate H].
  apply existsb_exists. exists p. split; [exact H2|]. destruct p; reflexivity.
Qed.

Theorem movegen_nodup_good : forall b, Good b -> NoDup (flat_map entry_moves (collect_moves b bb_full)).
Proof.
  intros b G. pose proof (good_inv b G) as I. pose proof (inv_part b I) as P. pose proof (inv_ep b I) as EP.
  destruct (good_king b G) as [Hk Hkr].
  unfold collect_moves. cbv zeta. fold (own b). rewrite mask_full.
  pose proof (fun chk => pawn_part chk b P EP Hk) as GP.
  pose proof (fun cmp chk => piece_part Knight cmp chk b P) as GN.
  pose proof (fun cmp chk => piece_part Bishop cmp chk b P) as GB.
  pose proof (fun cmp chk => piece_part Rook cmp chk b P) as GR.
  pose proof (fun cmp chk => piece_part Queen cmp chk b P) as GQ.
  pose proof (fun chk => king_part chk b (bb_not (own b)) Hkr) as GK.
  destruct (none (b_checkers b)).
  - rewrite !flat_map_app.
    refine (proj1 (good_app b [Pawn] _ _ _ (GP _) (good_app b [Knight] _ _ _ (GN _ _) (good_app b [Bishop] _ _ _ (GB _ _)
              (good_app b [Rook] _ _ _ (GR _ _) (good_app b [Queen] [King] _ _ (GQ _ _) (GK _) _) _) _) _) _));
      apply kinds_disjoint_tac; reflexivity.
  - destruct (count (b_checkers b) =? 1).
    + rewrite !flat_map_app.
      refine (proj1 (good_app b _ [King] _ _ (good_app b [Pawn] _ _ _ (GP _) (good_app b [Knight] _ _ _ (GN _ _)
                (good_app b [Bishop] _ _ _ (GB _ _) (good_app b [Rook] [Queen] _ _ (GR _ _) (GQ _ _) _) _) _) _) (GK _) _));
        apply kinds_disjoint_tac; reflexivity.
    + cbn [app]. exact (proj1 (GK _)).
Qed.

Theorem movegen_nodup : kings_statement -> movegen_nodup_statement.
Proof. intros _ b G. exact (movegen_nodup_good b G). Qed.

(* ------------------------------------------------------------------ *)
Print Assumptions gen_char.
Print Assumptions gen_char_count.
Print Assumptions movegen_exact.
Print Assumptions movegen_nodup_good.
Print Assumptions movegen_nodup.
