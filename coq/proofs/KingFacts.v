(* C01 - components (K) king steps and (C) castling of the main theorem (statements in LegalDefs.v).

   (K) king_step : for a king step k -> d, `safe_after` = `is_legal_king_position b d`.
   (C) castle    : gen_castle b sd = true <-> the castling move is in Rules.castle_moves (abs b); then it is safe.

   The shared attack layer (AttackDefs.v, AT1..AT7) is taken as premises.

   Central lemma: ilkp_spec.  is_legal_king_position b d = true iff no enemy man of b attacks d when the
   occupancy is all_occ b xor (from_pos k xor from_pos d) (man by man, in the vocabulary of att_from).
   Axiom-free. *)
From Coq Require Import NArith ZArith List Bool Lia ZifyBool ZifyN.
From Chess Require Import base.Bits base.Types base.BitBoard base.Sweep geom.Geometry model.Board model.MoveGen model.Apply spec.Rules.
From Chess Require Import proofs.BitsFacts proofs.BitBoardFacts.
From Chess Require proofs.BridgeFacts.
From Chess Require Import spec.IterSpec proofs.HashFacts proofs.InvFacts proofs.LegalDefs proofs.AttackDefs.
Import ListNotations.
Local Open Scope N_scope.

(* ------------------------------------------------------------------ *)
(** * Generic bitboard helpers *)

Lemma none_and_mono : forall A B X,
  (forall s, mem X s = true -> mem A s = true -> mem B s = true) ->
  none (bb_and B X) = true -> none (bb_and A X) = true.
Proof.
  intros A B X H HB. unfold none in *. apply N.eqb_eq in HB. apply N.eqb_eq.
  apply N.bits_inj. intros s. rewrite N.bits_0.
  change (mem (bb_and A X) s = false). rewrite mem_and.
  destruct (mem A s) eqn:EA; [|reflexivity]. destruct (mem X s) eqn:EX; [|reflexivity].
  exfalso. assert (E : mem (bb_and B X) s = true) by (rewrite mem_and, (H s EX EA), EX; reflexivity).
  rewrite HB, mem_0 in E. discriminate E.
Qed.

Lemma none_and_false : forall A X s, mem X s = true -> mem A s = true -> none (bb_and A X) = false.
Proof.
  intros A X s HX HA. unfold none. apply (eqb0_false_intro _ s). rewrite mem_and, HA, HX. reflexivity.
Qed.

Lemma forallb_elements : forall (F : N -> bool) X,
  forallb F (elements X) = true <-> forall s, s < 64 -> mem X s = true -> F s = true.
Proof.
  intros F X. rewrite forallb_forall. split.
  - intros H s Hs Hm. apply H, elements_spec. split; assumption.
  - intros H s Hin. apply elements_spec in Hin. destruct Hin as [Hs Hm]. exact (H s Hs Hm).
Qed.

Lemma occ_of_raw : forall b s, Part b -> s < 64 ->
  mem (all_occ b) s = match raw_get b s with Some _ => true | None => false end.
Proof.
  intros b s P Hs. destruct (raw_get b s) as [cp|] eqn:E.
  - exact (raw_some_occ b s cp P Hs E).
  - apply (raw_get_spec b P s Hs). exact E.
Qed.

Lemma opp_ne : forall c, opp c <> c.
Proof. intros [] H; discriminate H. Qed.

(* ------------------------------------------------------------------ *)
(** * Geometry sweeps *)

Definition chk_self (d : N) : bool :=
  negb (mem (king_geo d) d) && negb (mem (knight_geo d) d)
  && negb (mem (pawn_att_geo White d) d) && negb (mem (pawn_att_geo Black d) d)
  && negb (mem (bishop_rays_geo d) d) && negb (mem (rook_rays_geo d) d).
Lemma sweep_self : all_sq chk_self = true.
Proof. vm_compute. reflexivity. Qed.

Definition chk_btw (d t : N) : bool :=
  wf64b (between_geo d t) && negb (mem (between_geo d t) d) && negb (mem (between_geo d t) t).
Lemma sweep_btw : all_sq2 chk_btw = true.
Proof. vm_compute. reflexivity. Qed.

Lemma between_facts : forall d t u, d < 64 -> t < 64 -> mem (between_geo d t) u = true ->
  u < 64 /\ u <> d /\ u <> t.
Proof.
  intros d t u Hd Ht Hu. pose proof (all_sq2_spec _ sweep_btw d t Hd Ht) as S. unfold chk_btw in S.
  apply andb_true_iff in S. destruct S as [S S3]. apply andb_true_iff in S. destruct S as [S1 S2].
  apply wf64b_spec in S1. apply negb_true_iff in S2, S3.
  split; [exact (mem_lt64 _ u S1 Hu)|split; intros ->; congruence].
Qed.

(* ------------------------------------------------------------------ *)
(** * att_from: monotonicity in the occupancy, no self-attack *)

Section WithAT2.
Hypothesis AT2 : slider_att_statement.

Lemma att_from_mono : forall pc c s A B t, s < 64 ->
  (forall u, mem (between_geo s t) u = true -> mem A u = true -> mem B u = true) ->
  att_from pc c s B t = true -> att_from pc c s A t = true.
Proof.
  intros pc c s A B t Hs H HB.
  assert (SL : pc = Bishop \/ pc = Rook \/ pc = Queen ->
               att_from pc c s A t = true).
  { intros Hpc. rewrite (AT2 pc c s A t Hs Hpc). rewrite (AT2 pc c s B t Hs Hpc) in HB.
    apply andb_true_iff in HB. destruct HB as [K N]. rewrite K. cbn [andb].
    exact (none_and_mono A B _ H N). }
  destruct pc; try exact HB; apply SL; auto.
Qed.

Lemma att_from_false_mono : forall pc c s A B t, s < 64 ->
  (forall u, mem (between_geo s t) u = true -> mem A u = true -> mem B u = true) ->
  att_from pc c s A t = false -> att_from pc c s B t = false.
Proof.
  intros pc c s A B t Hs H HA. destruct (att_from pc c s B t) eqn:E; [|reflexivity].
  rewrite (att_from_mono pc c s A B t Hs H E) in HA. discriminate HA.
Qed.

Lemma att_from_self : forall pc c d occ, d < 64 -> att_from pc c d occ d = false.
Proof.
  intros pc c d occ Hd. pose proof (all_sq_spec _ sweep_self d Hd) as S. unfold chk_self in S.
  rewrite !andb_true_iff in S. destruct S as (((((S1 & S2) & S3) & S4) & S5) & S6).
  apply negb_true_iff in S1, S2, S3, S4, S5, S6.
  assert (SL : pc = Bishop \/ pc = Rook \/ pc = Queen -> slider_kind pc d d = false ->
               att_from pc c d occ d = false).
  { intros Hpc K. rewrite (AT2 pc c d occ d Hd Hpc), K. reflexivity. }
  destruct pc; cbn [att_from].
  - destruct c; cbn [opp]; assumption.
  - exact S2.
  - apply SL; [auto|exact S5].
  - apply SL; [auto|exact S6].
  - apply SL; [auto|]. cbn [slider_kind]. rewrite S5, S6. reflexivity.
  - exact S1.
Qed.

(* ------------------------------------------------------------------ *)
(** * is_legal_king_position, man by man *)

Definition occx (b : board) (d : N) : N := bb_xor (all_occ b) (bb_xor (from_pos (ksq b)) (from_pos d)).

Lemma ilkp_unfold : forall b kp, is_legal_king_position b kp =
  forallb (fun s => any (bb_and (occx b kp) (between_geo kp s)))
          (elements (bb_and (colors b (opp (b_turn b)))
                            (bb_or (bb_and (bb_or (b_bishop b) (b_queen b)) (bishop_rays_geo kp))
                                   (bb_and (bb_or (b_rook b) (b_queen b)) (rook_rays_geo kp)))))
  && none (bb_or (bb_or (bb_and (bb_and (king_geo kp) (b_king b)) (colors b (opp (b_turn b))))
                        (bb_and (bb_and (knight_geo kp) (b_knight b)) (colors b (opp (b_turn b)))))
                 (bb_and (bb_and (pawn_att_geo (b_turn b) kp) (b_pawn b)) (colors b (opp (b_turn b))))).
Proof. reflexivity. Qed.

Lemma ilkp_spec : forall b d, Part b -> d < 64 ->
  (is_legal_king_position b d = true <->
   forall t pc, t < 64 -> raw_get b t = Some (opp (b_turn b), pc) ->
     att_from pc (opp (b_turn b)) d (occx b d) t = false).
Proof.
  intros b d P Hd. rewrite ilkp_unfold, andb_true_iff, forallb_elements.
  set (oc := opp (b_turn b)). set (ox := occx b d).
  assert (W : wf64 (bb_or (bb_or (bb_and (bb_and (king_geo d) (b_king b)) (colors b oc))
                        (bb_and (bb_and (knight_geo d) (b_knight b)) (colors b oc)))
                 (bb_and (bb_and (pawn_att_geo (b_turn b) d) (b_pawn b)) (colors b oc)))).
  { pose proof (part_wf_colors b P oc) as Wc.
    apply wf64_lor; [apply wf64_lor|]; apply wf64_land_r; exact Wc. }
  rewrite (none_spec _ W).
  split.
  - intros [HF HN] t pc Ht Hr.
    apply (raw_get_spec b P t Ht) in Hr. destruct Hr as [Hc Hp].
    specialize (HN t Ht). rewrite !mem_or, !mem_and, Hc, !andb_true_r in HN.
    apply orb_false_iff in HN. destruct HN as [HN HN3]. apply orb_false_iff in HN. destruct HN as [HN1 HN2].
    assert (SL : pc = Bishop \/ pc = Rook \/ pc = Queen ->
                 (slider_kind pc d t = true ->
                  mem (bb_or (bb_and (bb_or (b_bishop b) (b_queen b)) (bishop_rays_geo d))
                             (bb_and (bb_or (b_rook b) (b_queen b)) (rook_rays_geo d))) t = true) ->
                 att_from pc oc d ox t = false).
    { intros Hpc HK. rewrite (AT2 pc oc d ox t Hd Hpc).
      destruct (slider_kind pc d t) eqn:K; [|reflexivity]. cbn [andb].
      specialize (HF t Ht). rewrite mem_and, Hc, (HK eq_refl) in HF. specialize (HF eq_refl).
      rewrite any_none in HF. apply negb_true_iff in HF. exact HF. }
    destruct pc; cbn [pieces] in Hp.
    + cbn [att_from]. unfold oc. rewrite opp_opp. rewrite Hp, andb_true_r in HN3. exact HN3.
    + cbn [att_from]. rewrite Hp, andb_true_r in HN2. exact HN2.
    + apply SL; [auto|]. cbn [slider_kind]. intros K. rewrite !mem_or, !mem_and, !mem_or, Hp, K. reflexivity.
    + apply SL; [auto|]. cbn [slider_kind]. intros K. rewrite !mem_or, !mem_and, !mem_or, Hp, K.
      cbn [orb andb]. apply orb_true_r.
    + apply SL; [auto|]. cbn [slider_kind]. intros K. rewrite !mem_or, !mem_and, !mem_or, Hp, !orb_true_r.
      cbn [andb]. exact K.
    + cbn [att_from]. rewrite Hp, andb_true_r in HN1. exact HN1.
  - intros H. split.
    + intros s Hs Hm. rewrite mem_and in Hm. apply andb_true_iff in Hm. destruct Hm as [Hc Hm].
      assert (G : forall pc, pc = Bishop \/ pc = Rook \/ pc = Queen -> mem (pieces b pc) s = true ->
                    slider_kind pc d s = true -> any (bb_and ox (between_geo d s)) = true).
      { intros pc Hpc Hp K. pose proof (H s pc Hs (raw_of_mem b s oc pc P Hs Hc Hp)) as A.
        rewrite (AT2 pc oc d ox s Hd Hpc), K in A. cbn [andb] in A.
        rewrite any_none, A. reflexivity. }
      rewrite mem_or, !mem_and, !mem_or in Hm.
      destruct (mem (b_queen b) s) eqn:EQ.
      * apply (G Queen); [auto|exact EQ|]. cbn [slider_kind]. rewrite !orb_true_r in Hm. exact Hm.
      * rewrite !orb_false_r in Hm. apply orb_true_iff in Hm. destruct Hm as [Hm|Hm]; apply andb_true_iff in Hm; destruct Hm as [Hp K].
        -- apply (G Bishop); [auto|exact Hp|exact K].
        -- apply (G Rook); [auto|exact Hp|exact K].
    + intros s Hs. rewrite !mem_or, !mem_and.
      destruct (mem (colors b oc) s) eqn:Hc; [|rewrite !andb_false_r; reflexivity].
      rewrite !andb_true_r.
      assert (G : forall pc, mem (pieces b pc) s = true -> att_from pc oc d ox s = false).
      { intros pc Hp. exact (H s pc Hs (raw_of_mem b s oc pc P Hs Hc Hp)). }
      apply orb_false_iff. split; [apply orb_false_iff; split|].
      * destruct (mem (b_king b) s) eqn:E; [|apply andb_false_r]. rewrite andb_true_r. exact (G King E).
      * destruct (mem (b_knight b) s) eqn:E; [|apply andb_false_r]. rewrite andb_true_r. exact (G Knight E).
      * destruct (mem (b_pawn b) s) eqn:E; [|apply andb_false_r]. rewrite andb_true_r.
        pose proof (G Pawn E) as A. cbn [att_from] in A. unfold oc in A. rewrite opp_opp in A. exact A.
Qed.

End WithAT2.

(* ------------------------------------------------------------------ *)
(** * (K) king steps *)

Lemma king_step_not_castle : forall s d, s < 64 -> d < 64 -> s <> d -> mem (king_geo s) d = true ->
  is_castle_move King {| m_src := s; m_dst := d; m_promo := None |} = false.
Proof.
  intros s d Hs Hd Hne Hg. unfold is_castle_move. cbn [m_src m_dst].
  change (piece_eqb King King) with true. cbn [andb].
  destruct (_ =? _) eqn:E; [exfalso|reflexivity].
  destruct (mv_bb_ends _ _ Hs Hd Hne) as [M1 M2].
  pose proof (subset_eqb _ _ _ E M1) as C1. pose proof (subset_eqb _ _ _ E M2) as C2.
  pose proof (all_sq2_spec _ sweep_king_step _ _ Hs Hd) as S. unfold chk_king_step in S.
  rewrite Hg, C1, C2 in S. discriminate S.
Qed.

Section KingStep.
Hypothesis AT2 : slider_att_statement.
Hypothesis AT3 : kings_statement.
Hypothesis AT6 : after_move_statement.
Hypothesis AT7 : safe_after_spec_statement.

Theorem king_step_sec : king_step_statement.
Proof.
  intros b d G Hd Hps.
  set (m := {| m_src := ksq b; m_dst := d; m_promo := None |}).
  pose proof (good_inv b G) as I. destruct I as [P C RO EP].
  destruct (AT3 b (b_turn b) G) as (Hk & Hkr & Hku & _). fold (ksq b) in Hk, Hkr, Hku.
  assert (Hg : mem (king_geo (ksq b)) d = true).
  { unfold pseudo_legals in Hps. rewrite mem_and in Hps. apply andb_true_iff in Hps. apply Hps. }
  assert (MO : move_ok b m King false).
  { constructor; cbn [m_src m_dst m_promo]; try assumption; try reflexivity; try discriminate.
    apply DK_step; [exact Hps|reflexivity]. }
  pose proof (kind_dest b King _ _ false P EP (mo_kind _ _ _ _ MO) Hd) as Hfree. cbn [m_src m_dst m] in Hfree.
  assert (Hne : ksq b <> d) by exact (src_dst_ne b m King Hkr Hfree).
  destruct (AT6 b m King false G MO) as [P' R'].
  destruct (AT7 b m King false G MO) as [_ SA]. cbv zeta in SA. cbn [piece_eqb piece_idx N.eqb Pos.eqb m_dst m] in SA.
  fold m in SA.
  assert (R : forall s, s < 64 -> raw_get (apply b m) s = moved b m King s).
  { intros s Hs. rewrite (R' s Hs). unfold after5. cbv zeta.
    unfold m at 1. rewrite (king_step_not_castle _ _ Hk Hd Hne Hg). reflexivity. }
  (* occupancies agree away from d *)
  assert (OA : forall u, u < 64 -> u <> d -> mem (all_occ (apply b m)) u = mem (occx b d) u).
  { intros u Hu Hud. rewrite (occ_of_raw _ u P' Hu), (R u Hu). unfold moved, occx. cbn [m_src m_dst m].
    rewrite mem_xor, mem_mv_bb by assumption.
    apply N.eqb_neq in Hud. rewrite Hud.
    destruct (N.eqb_spec u (ksq b)) as [->|Huk].
    - rewrite (raw_some_occ b _ _ P Hk Hkr). reflexivity.
    - cbn [xorb]. rewrite xorb_false_r. symmetry. apply occ_of_raw; assumption. }
  apply eq_true_iff_eq. rewrite SA, (ilkp_spec AT2 b d P Hd). split.
  - intros H t pc Ht Hr.
    destruct (N.eq_dec t d) as [->|Htd]; [apply (att_from_self AT2); exact Hd|].
    assert (Htk : t <> ksq b).
    { intros ->. rewrite Hkr in Hr. injection Hr as Hr _. exact (opp_ne _ (eq_sym Hr)). }
    assert (Hr' : raw_get (apply b m) t = Some (opp (b_turn b), pc)).
    { rewrite (R t Ht). unfold moved. cbn [m_src m_dst m]. apply N.eqb_neq in Htd, Htk. rewrite Htd, Htk. exact Hr. }
    apply (att_from_false_mono AT2 pc _ d (all_occ (apply b m)) (occx b d) t Hd); [|exact (H t pc Ht Hr')].
    intros u Hu Hm. destruct (between_facts d t u Hd Ht Hu) as (Lu & Nud & _).
    rewrite <- (OA u Lu Nud). exact Hm.
  - intros H t pc Ht Hr'.
    rewrite (R t Ht) in Hr'. unfold moved in Hr'. cbn [m_src m_dst m] in Hr'.
    destruct (N.eqb_spec t (ksq b)) as [->|Htk]; [discriminate Hr'|].
    destruct (N.eqb_spec t d) as [->|Htd].
    { injection Hr' as Hr' _. exfalso. exact (opp_ne _ (eq_sym Hr')). }
    apply (att_from_false_mono AT2 pc _ d (occx b d) (all_occ (apply b m)) t Hd); [|exact (H t pc Ht Hr')].
    intros u Hu Hm. destruct (between_facts d t u Hd Ht Hu) as (Lu & Nud & _).
    rewrite (OA u Lu Nud). exact Hm.
Qed.
End KingStep.


(* ------------------------------------------------------------------ *)
(** * (C) castling: helpers *)

Lemma none_and_sub : forall A B X Y,
  (forall s, mem X s = true -> mem A s = true -> mem B s = true /\ mem Y s = true) ->
  none (bb_and B Y) = true -> none (bb_and A X) = true.
Proof.
  intros A B X Y H HB. unfold none in *. apply N.eqb_eq in HB. apply N.eqb_eq.
  apply N.bits_inj. intros s. rewrite N.bits_0.
  change (mem (bb_and A X) s = false). rewrite mem_and.
  destruct (mem A s) eqn:EA; [|reflexivity]. destruct (mem X s) eqn:EX; [|reflexivity].
  exfalso. destruct (H s EX EA) as [H1 H2].
  assert (E : mem (bb_and B Y) s = true) by (rewrite mem_and, H1, H2; reflexivity).
  rewrite HB, mem_0 in E. discriminate E.
Qed.

Lemma and_ext : forall A B X, (forall s, mem X s = true -> mem A s = mem B s) -> bb_and A X = bb_and B X.
Proof.
  intros A B X H. apply N.bits_inj. intros s. change (mem (bb_and A X) s = mem (bb_and B X) s).
  rewrite !mem_and. destruct (mem X s) eqn:E; [rewrite (H s E); reflexivity|rewrite !andb_false_r; reflexivity].
Qed.

Lemma forallb_ext_in' : forall (A : Type) (f g : A -> bool) l,
  (forall x, In x l -> f x = g x) -> forallb f l = forallb g l.
Proof.
  intros A f g l. induction l as [|a l IH]; intros H; [reflexivity|].
  cbn [forallb]. rewrite (H a (or_introl eq_refl)), IH; [reflexivity|].
  intros x Hx. apply H. right. exact Hx.
Qed.

Lemma none_and_elements : forall T occ, wf64 T ->
  none (bb_and T occ) = forallb (fun t => negb (mem occ t)) (elements T).
Proof.
  intros T occ W. apply eq_true_iff_eq. rewrite (none_spec _ (wf64_land_l T occ W)), forallb_elements. split.
  - intros H s Hs Hm. specialize (H s Hs). rewrite mem_and, Hm in H. cbn [andb] in H. rewrite H. reflexivity.
  - intros H s Hs. rewrite mem_and. destruct (mem T s) eqn:E; [|reflexivity].
    cbn [andb]. apply negb_true_iff. exact (H s Hs E).
Qed.

Lemma Part_bridge : forall b, Part b -> BridgeFacts.Part b.
Proof.
  intros b P. constructor.
  - exact (part_wf_colors b P).
  - exact (part_wf_pieces b P).
  - exact (part_colors_disjoint b P).
  - exact (part_pieces_disjoint b P).
  - exact (part_cover b P).
Qed.

Lemma wf64_attackers_of : forall b c s occ, Part b -> wf64 (attackers_of b c s occ).
Proof.
  intros b c s occ P. pose proof (part_wf_colors b P c) as W. unfold attackers_of. cbv zeta.
  apply wf64_lor; [apply wf64_lor|apply wf64_lor; [|apply wf64_lor]].
  - apply wf64_land_l, wf64_land_r, W.
  - apply wf64_land_l, wf64_land_r, W.
  - apply wf64_land_r, W.
  - apply wf64_land_r, W.
  - apply wf64_land_r, W.
Qed.

Lemma is_piece_raw : forall b c p s, s < 64 ->
  (is_piece (cells (Board.abs b)) c p s = true <-> raw_get b s = Some (c, p)).
Proof.
  intros b c p s Hs. unfold is_piece. rewrite (BridgeFacts.abs_cell b s Hs).
  destruct (raw_get b s) as [[c' p']|]; split; intros H; try discriminate H.
  - apply andb_true_iff in H. destruct H as [A B]. apply color_eqb_eq in A. apply piece_eqb_eq in B.
    subst. reflexivity.
  - injection H as -> ->. rewrite BridgeFacts.color_eqb_refl, BridgeFacts.piece_eqb_refl. reflexivity.
Qed.

Lemma can_castle_abs : forall b c sd, can_castle_right (Board.abs b) c sd = cr_contains (b_rights b) sd c.
Proof. intros b [] []; reflexivity. Qed.

(* --- a man strictly between x and t: everything seen from x through it is seen from it --- *)
Definition chk_lift (x t : N) : bool :=
  forallb (fun k => implb (mem (bishop_rays_geo x) t) (mem (bishop_rays_geo k) t)
                    && implb (mem (rook_rays_geo x) t) (mem (rook_rays_geo k) t)
                    && (bb_and (between_geo k t) (bb_not (between_geo x t)) =? 0)
                    && negb (mem (between_geo k t) x))
          (elements (between_geo x t)).
Lemma sweep_lift : all_sq2 chk_lift = true.
Proof. vm_compute. reflexivity. Qed.

Lemma chk_lift_spec : forall x t, chk_lift x t = true -> forall k, k < 64 -> mem (between_geo x t) k = true ->
  (fun k => implb (mem (bishop_rays_geo x) t) (mem (bishop_rays_geo k) t)
            && implb (mem (rook_rays_geo x) t) (mem (rook_rays_geo k) t)
            && (bb_and (between_geo k t) (bb_not (between_geo x t)) =? 0)
            && negb (mem (between_geo k t) x)) k = true.
Proof. intros x t. unfold chk_lift. rewrite forallb_elements. intros H. exact H. Qed.

Lemma lift_facts : forall x t k, x < 64 -> t < 64 -> mem (between_geo x t) k = true ->
  (forall pc, slider_kind pc x t = true -> slider_kind pc k t = true) /\
  (forall u, mem (between_geo k t) u = true -> mem (between_geo x t) u = true /\ u <> x /\ u <> k).
Proof.
  intros x t k Hx Ht Hk. destruct (between_facts x t k Hx Ht Hk) as (Lk & _ & _).
  pose proof (chk_lift_spec x t (all_sq2_spec _ sweep_lift x t Hx Ht) k Lk Hk) as S. cbv beta in S.
  rewrite !andb_true_iff in S. destruct S as (((S1 & S2) & S3) & S4).
  apply negb_true_iff in S4. apply N.eqb_eq in S3. split.
  - intros pc K. destruct pc; cbn [slider_kind] in *; try discriminate K.
    + rewrite K in S1. exact S1.
    + rewrite K in S2. exact S2.
    + apply orb_true_iff in K. destruct K as [K|K]; [rewrite K in S1|rewrite K in S2]; cbn [implb] in *.
      * rewrite S1. reflexivity.
      * rewrite S2. apply orb_true_r.
  - intros u Hu. destruct (between_facts k t u Lk Ht Hu) as (Lu & Nuk & _).
    pose proof (mem_and0 _ _ u S3) as E. rewrite Hu, (mem_not _ u Lu) in E. cbn [andb] in E.
    apply negb_false_iff in E. split; [exact E|split; [|exact Nuk]].
    intros ->. rewrite Hu in S4. discriminate S4.
Qed.

(* --- the squares involved --- *)
Definition rook_file (sd : side) : N := match sd with KingSide => 7 | QueenSide => 0 end.
Definition dst_file (sd : side) : N := match sd with KingSide => 6 | QueenSide => 2 end.
Definition tiles_list (sd : side) (c : color) : list N :=
  match sd with
  | KingSide => [mk_sq 5 (home_rank c); mk_sq 6 (home_rank c)]
  | QueenSide => [mk_sq 1 (home_rank c); mk_sq 2 (home_rank c); mk_sq 3 (home_rank c)]
  end.
Definition safe_list (sd : side) (c : color) : list N :=
  match sd with
  | KingSide => [mk_sq 5 (home_rank c); mk_sq 6 (home_rank c)]
  | QueenSide => [mk_sq 2 (home_rank c); mk_sq 3 (home_rank c)]
  end.

Lemma home_sq : forall c, king_home c = mk_sq 4 (home_rank c).
Proof. intros []; reflexivity. Qed.
Lemma rook_sq : forall sd c, rook_home sd c = mk_sq (rook_file sd) (home_rank c).
Proof. intros [] []; reflexivity. Qed.
Lemma dst_sq : forall c sd, castle_dst c sd = mk_sq (dst_file sd) (home_rank c).
Proof. intros [] []; reflexivity. Qed.
Lemma dst_dest : forall c sd, castle_dst c sd = castle_dest sd c.
Proof. intros [] []; reflexivity. Qed.
Lemma tiles_elems : forall sd c,
  elements (bb_and (match sd with KingSide => KINGSIDE_FILES | QueenSide => QUEENSIDE_FILES end) (BACKRANK_BB_of c))
  = tiles_list sd c.
Proof. intros [] []; vm_compute; reflexivity. Qed.
Lemma safe_elems : forall sd c,
  elements (bb_and (match sd with KingSide => KINGSIDE_FILES | QueenSide => QUEENSIDE_SAFE_FILES end) (BACKRANK_BB_of c))
  = safe_list sd c.
Proof. intros [] []; vm_compute; reflexivity. Qed.
Lemma tiles_lt : forall sd c s, In s (tiles_list sd c) -> s < 64.
Proof. intros [] [] s H; cbn in H; repeat (destruct H as [<-|H]; [reflexivity|]); destruct H. Qed.
Lemma safe_tiles : forall sd c s, In s (safe_list sd c) -> In s (tiles_list sd c).
Proof. intros [] c s H; cbn [safe_list tiles_list In] in *; tauto. Qed.
Lemma dst_safe : forall c sd, In (castle_dst c sd) (safe_list sd c).
Proof. intros [] []; cbn; tauto. Qed.
Lemma dst_in_moves : forall c sd, mem (bb_and (castle_tiles sd c) CASTLE_MOVES_bb) (castle_dst c sd) = true.
Proof. intros [] []; vm_compute; reflexivity. Qed.
Lemma castle_is_castle : forall c sd,
  is_castle_move King {| m_src := king_home c; m_dst := castle_dst c sd; m_promo := None |} = true.
Proof. intros [] []; vm_compute; reflexivity. Qed.

Definition chk_rook_corner (t : N) : bool :=
  all_sides (fun sd c => negb (mem (between_geo (castle_dest sd c) t) (rook_home sd c))).
Lemma sweep_rook_corner : all_sq chk_rook_corner = true.
Proof. vm_compute. reflexivity. Qed.

(* --- Rules.castle_moves, as a conjunction --- *)
Lemma in_if_single : forall (X : bool) (m m' : move), In m (if X then [m'] else []) <-> X = true /\ m' = m.
Proof.
  intros [] m m'; cbn [In]; split.
  - intros [H|[]]. split; [reflexivity|exact H].
  - intros [_ H]. left. exact H.
  - intros [].
  - intros [H _]. discriminate H.
Qed.

Lemma castle_moves_In : forall p s sd,
  In {| m_src := s; m_dst := mk_sq (dst_file sd) (home_rank (stm p)); m_promo := None |} (castle_moves p) <->
  s = mk_sq 4 (home_rank (stm p)) /\
  is_piece (cells p) (stm p) King (mk_sq 4 (home_rank (stm p))) = true /\
  attacked_by (cells p) (opp (stm p)) (mk_sq 4 (home_rank (stm p))) = false /\
  can_castle_right p (stm p) sd = true /\
  is_piece (cells p) (stm p) Rook (mk_sq (rook_file sd) (home_rank (stm p))) = true /\
  forallb (fun t => negb (occupied (cells p) t)) (tiles_list sd (stm p)) = true /\
  forallb (fun t => negb (attacked_by (cells p) (opp (stm p)) t)) (safe_list sd (stm p)) = true.
Proof.
  intros p s sd. unfold castle_moves. cbv zeta.
  set (cs := cells p). set (c := stm p). set (r := home_rank c).
  destruct (is_piece cs c King (mk_sq 4 r)) eqn:EK; cbn [negb orb].
  2: { split; [intros []|intros (_ & H & _); discriminate H]. }
  destruct (attacked_by cs (opp c) (mk_sq 4 r)) eqn:EA.
  { split; [intros []|intros (_ & _ & H & _); discriminate H]. }
  rewrite in_app_iff, !in_if_single. unfold mk.
  assert (N62 : mk_sq 6 r <> mk_sq 2 r) by (unfold mk_sq; lia).
  destruct sd; cbn [dst_file rook_file tiles_list safe_list forallb]; fold r;
    rewrite !andb_true_iff, !negb_true_iff; split.
  - intros [[H E]|[_ E]]; [|injection E as _ E; symmetry in E; contradiction].
    injection E as E. split; [symmetry; exact E|]. tauto.
  - intros (-> & H). left. split; [tauto|reflexivity].
  - intros [[_ E]|[H E]]; [injection E as _ E; contradiction|].
    injection E as E. split; [symmetry; exact E|]. tauto.
  - intros (-> & H). right. split; [tauto|reflexivity].
Qed.

Section Castle.
Hypothesis AT1 : attackers_mem_statement.
Hypothesis AT2 : slider_att_statement.
Hypothesis AT3 : kings_statement.
Hypothesis AT4 : checkers_spec_statement.
Hypothesis AT6 : after_move_statement.
Hypothesis AT7 : safe_after_spec_statement.

(* the rules-level attack test, man by man *)
Lemma attacked_spec : forall b c s, Part b -> s < 64 ->
  (attacked_by (cells (Board.abs b)) c s = false <->
   forall t pc, t < 64 -> raw_get b t = Some (c, pc) -> att_from pc c s (all_occ b) t = false).
Proof.
  intros b c s P Hs. rewrite (BridgeFacts.attacked_by_bridge b c s (Part_bridge b P) Hs). split.
  - intros H t pc Ht Hr. destruct (att_from pc c s (all_occ b) t) eqn:E; [exfalso|reflexivity].
    assert (M : mem (attackers_of b c s (all_occ b)) t = true).
    { apply (AT1 b c s (all_occ b) t P Hs Ht). exists pc. split; assumption. }
    apply BridgeFacts.any_false_iff in H. rewrite H, mem_0 in M. discriminate M.
  - intros H. destruct (any (attackers_of b c s (all_occ b))) eqn:E; [exfalso|reflexivity].
    apply BridgeFacts.any_iff in E. destruct E as [t Ht].
    pose proof (mem_lt64 _ t (wf64_attackers_of b c s (all_occ b) P) Ht) as Lt.
    apply (AT1 b c s (all_occ b) t P Hs Lt) in Ht. destruct Ht as (pc & Hr & Ha).
    rewrite (H t pc Lt Hr) in Ha. discriminate Ha.
Qed.

(* not in check = no enemy man attacks the king *)
Lemma no_check_spec : forall b, Good b ->
  (none (b_checkers b) = true <->
   forall t pc, t < 64 -> raw_get b t = Some (opp (b_turn b), pc) ->
     att_from pc (opp (b_turn b)) (ksq b) (all_occ b) t = false).
Proof.
  intros b G. pose proof (inv_part b (good_inv b G)) as P.
  rewrite (none_spec _ (part_wf_checkers b P)). split.
  - intros H t pc Ht Hr.
    assert (D : pc = King \/ pc <> King) by (destruct pc; (left; reflexivity) || (right; discriminate)).
    destruct D as [->|Npc].
    + cbn [att_from]. destruct (AT3 b (opp (b_turn b)) G) as (_ & _ & Hu & _).
      rewrite (Hu t Ht Hr). destruct (AT3 b (b_turn b) G) as (_ & _ & _ & H4). exact H4.
    + destruct (att_from pc (opp (b_turn b)) (ksq b) (all_occ b) t) eqn:E; [exfalso|reflexivity].
      assert (M : mem (b_checkers b) t = true).
      { apply (AT4 b t G). split; [exact Ht|]. exists pc. repeat split; assumption. }
      rewrite (H t Ht) in M. discriminate M.
  - intros H s Hs. destruct (mem (b_checkers b) s) eqn:E; [exfalso|reflexivity].
    apply (AT4 b s G) in E. destruct E as (_ & pc & Hr & _ & Ha).
    rewrite (H s pc Hs Hr) in Ha. discriminate Ha.
Qed.

(* lifting a man off k that t does not attack changes nothing about what t attacks *)
Lemma lift_slider : forall pc c k x t A B, k < 64 -> x < 64 -> t < 64 ->
  (forall u, u < 64 -> u <> k -> u <> x -> mem B u = mem A u) ->
  mem A k = true -> att_from pc c k A t = false ->
  att_from pc c x B t = att_from pc c x A t.
Proof.
  intros pc c k x t A B Hk Hx Ht Agree HAk Hatt.
  assert (SL : pc = Bishop \/ pc = Rook \/ pc = Queen -> att_from pc c x B t = att_from pc c x A t).
  { intros Hpc. rewrite (AT2 pc c x B t Hx Hpc), (AT2 pc c x A t Hx Hpc).
    destruct (slider_kind pc x t) eqn:K; [|reflexivity]. cbn [andb].
    destruct (mem (between_geo x t) k) eqn:Ek.
    - rewrite (none_and_false A _ k Ek HAk).
      destruct (none (bb_and B (between_geo x t))) eqn:EB; [exfalso|reflexivity].
      destruct (lift_facts x t k Hx Ht Ek) as [K' Sub].
      assert (NA : none (bb_and A (between_geo k t)) = true).
      { apply (none_and_sub A B (between_geo k t) (between_geo x t)); [|exact EB].
        intros u Hu HAu. destruct (Sub u Hu) as (S1 & S2 & S3).
        destruct (between_facts x t u Hx Ht S1) as (Lu & _ & _).
        split; [rewrite (Agree u Lu S3 S2); exact HAu|exact S1]. }
      rewrite (AT2 pc c k A t Hk Hpc), (K' pc K), NA in Hatt. discriminate Hatt.
    - f_equal. apply and_ext. intros u Hu. destruct (between_facts x t u Hx Ht Hu) as (Lu & Nux & _).
      apply Agree; [exact Lu| |exact Nux]. intros ->. rewrite Hu in Ek. discriminate Ek. }
  destruct pc; try reflexivity; apply SL; auto.
Qed.

(* when the king is not in check, the generator's square test is the rules' attack test *)
Lemma ilkp_no_check : forall b x, Good b -> none (b_checkers b) = true -> x < 64 ->
  is_legal_king_position b x = negb (attacked_by (cells (Board.abs b)) (opp (b_turn b)) x).
Proof.
  intros b x G NC Hx. pose proof (inv_part b (good_inv b G)) as P.
  destruct (AT3 b (b_turn b) G) as (Hk & Hkr & _ & _). fold (ksq b) in Hk, Hkr.
  pose proof (proj1 (no_check_spec b G) NC) as NA.
  assert (Agree : forall u, u < 64 -> u <> ksq b -> u <> x -> mem (occx b x) u = mem (all_occ b) u).
  { intros u Hu N1 N2. unfold occx. rewrite mem_xor, mem_mv_bb by assumption.
    apply N.eqb_neq in N1, N2. rewrite N1, N2. apply xorb_false_r. }
  pose proof (raw_some_occ b _ _ P Hk Hkr) as Ok.
  apply eq_true_iff_eq. rewrite negb_true_iff, (ilkp_spec AT2 b x P Hx), (attacked_spec b _ x P Hx).
  split; intros H t pc Ht Hr; specialize (H t pc Ht Hr).
  - rewrite <- (lift_slider pc _ (ksq b) x t (all_occ b) (occx b x) Hk Hx Ht Agree Ok (NA t pc Ht Hr)). exact H.
  - rewrite (lift_slider pc _ (ksq b) x t (all_occ b) (occx b x) Hk Hx Ht Agree Ok (NA t pc Ht Hr)). exact H.
Qed.

Lemma gen_castle_spec : forall b sd,
  gen_castle b sd = true <->
  none (b_checkers b) = true /\ cr_contains (b_rights b) sd (b_turn b) = true /\
  forallb (fun t => negb (mem (all_occ b) t)) (tiles_list sd (b_turn b)) = true /\
  forallb (is_legal_king_position b) (safe_list sd (b_turn b)) = true.
Proof.
  intros b sd. unfold gen_castle. rewrite !andb_true_iff, safe_elems, none_and_elements, tiles_elems.
  - tauto.
  - unfold BACKRANK_BB_of. apply wf64_land_r, wf64_from_rank.
Qed.

(* the first half of (C) *)
Lemma castle_iff : forall b sd, Good b ->
  (gen_castle b sd = true <->
   In {| m_src := ksq b; m_dst := castle_dst (b_turn b) sd; m_promo := None |} (castle_moves (Board.abs b))).
Proof.
  intros b sd G. pose proof (good_inv b G) as I. destruct I as [P C RO EP].
  destruct (AT3 b (b_turn b) G) as (Hk & Hkr & Hku & _). fold (ksq b) in Hk, Hkr, Hku.
  pose proof (castle_moves_In (Board.abs b) (ksq b) sd) as CM.
  change (stm (Board.abs b)) with (b_turn b) in CM. rewrite <- dst_sq in CM.
  rewrite CM, gen_castle_spec. clear CM.
  rewrite <- home_sq, <- rook_sq, can_castle_abs.
  destruct (homes_lt sd (b_turn b)) as [Lk Lr].
  rewrite (is_piece_raw b _ King _ Lk), (is_piece_raw b _ Rook _ Lr), (attacked_spec b _ _ P Lk).
  assert (TE : forallb (fun t => negb (occupied (cells (Board.abs b)) t)) (tiles_list sd (b_turn b))
               = forallb (fun t => negb (mem (all_occ b) t)) (tiles_list sd (b_turn b))).
  { apply forallb_ext_in'. intros t Ht. rewrite (BridgeFacts.occupied_abs b t (tiles_lt _ _ t Ht)). reflexivity. }
  rewrite TE. clear TE.
  assert (SE : none (b_checkers b) = true ->
               forallb (fun t => negb (attacked_by (cells (Board.abs b)) (opp (b_turn b)) t)) (safe_list sd (b_turn b))
               = forallb (is_legal_king_position b) (safe_list sd (b_turn b))).
  { intros NC. apply forallb_ext_in'. intros t Ht. symmetry.
    exact (ilkp_no_check b t G NC (tiles_lt _ _ t (safe_tiles _ _ t Ht))). }
  split.
  - intros (NC & R & T & S).
    destruct (proj2 RO sd (b_turn b) R) as (Hkh & Hrh & _).
    assert (Ek : king_home (b_turn b) = ksq b) by exact (Hku _ Lk Hkh).
    split; [symmetry; exact Ek|]. split; [exact Hkh|]. split.
    { rewrite Ek. apply (no_check_spec b G). exact NC. }
    split; [exact R|]. split; [exact Hrh|]. split; [exact T|]. rewrite (SE NC). exact S.
  - intros (Ek & Hkh & A & R & Hrh & T & S).
    assert (NC : none (b_checkers b) = true).
    { apply (no_check_spec b G). rewrite Ek. exact A. }
    split; [exact NC|]. split; [exact R|]. split; [exact T|]. rewrite <- (SE NC). exact S.
Qed.

(* the second half of (C): the castling move leaves the king safe *)
Lemma castle_safe : forall b sd, Good b -> gen_castle b sd = true ->
  safe_after b {| m_src := ksq b; m_dst := castle_dst (b_turn b) sd; m_promo := None |} = true.
Proof.
  intros b sd G GC. pose proof (good_inv b G) as I. destruct I as [P C RO EP].
  destruct (AT3 b (b_turn b) G) as (Hk & Hkr & Hku & _). fold (ksq b) in Hk, Hkr, Hku.
  apply gen_castle_spec in GC. destruct GC as (NC & R & T & S).
  destruct (proj2 RO sd (b_turn b) R) as (Hkh & Hrh & _).
  destruct (homes_lt sd (b_turn b)) as [Lk Lr].
  assert (Ek : king_home (b_turn b) = ksq b) by exact (Hku _ Lk Hkh).
  set (d := castle_dst (b_turn b) sd).
  set (m := {| m_src := ksq b; m_dst := d; m_promo := None |}).
  assert (Ld : d < 64) by exact (tiles_lt _ _ d (safe_tiles _ _ d (dst_safe _ _))).
  assert (Tn : none (bb_and (castle_tiles sd (b_turn b)) (all_occ b)) = true).
  { unfold castle_tiles, castle_files. rewrite none_and_elements, tiles_elems; [exact T|].
    unfold BACKRANK_BB_of. apply wf64_land_r, wf64_from_rank. }
  assert (MO : move_ok b m King false).
  { constructor; cbn [m_src m_dst m_promo m]; try assumption; try reflexivity; try discriminate.
    exact (DK_castle b King (ksq b) d false sd eq_refl R Tn (dst_in_moves _ _) eq_refl). }
  assert (IC : is_castle_move King m = true).
  { unfold m. rewrite <- Ek. apply castle_is_castle. }
  pose proof (castle_conditions b m King false P RO EP MO IC) as CC. cbn [m_src m_dst m] in CC.
  destruct (AT6 b m King false G MO) as [P' R'].
  destruct (AT7 b m King false G MO) as [_ SA]. cbv zeta in SA. cbn [piece_eqb piece_idx N.eqb Pos.eqb m_dst m] in SA.
  fold m in SA.
  assert (RG : forall s, s < 64 -> raw_get (apply b m) s =
                 if mem (castle_rook_mv (b_turn b) m) s
                 then match moved b m King s with Some _ => None | None => Some (b_turn b, Rook) end
                 else moved b m King s).
  { intros s Hs. rewrite (R' s Hs). unfold after5. cbv zeta. rewrite IC. reflexivity. }
  assert (ILK : is_legal_king_position b d = true).
  { rewrite forallb_forall in S. exact (S d (dst_safe _ _)). }
  rewrite (ilkp_spec AT2 b d P Ld) in ILK.
  apply SA. intros t pc Ht Hr'.
  (* an enemy man of the successor is an enemy man of b, on the same square *)
  assert (Hr : raw_get b t = Some (opp (b_turn b), pc)).
  { rewrite (RG t Ht) in Hr'. destruct (mem (castle_rook_mv (b_turn b) m) t) eqn:Em.
    - destruct (CC t Ht Em) as (N1 & N2 & _). unfold moved in Hr'. cbn [m_src m_dst m] in Hr'.
      apply N.eqb_neq in N1, N2. rewrite N1, N2 in Hr'.
      destruct (raw_get b t); [discriminate Hr'|]. injection Hr' as Hr' _. exfalso. exact (opp_ne _ (eq_sym Hr')).
    - unfold moved in Hr'. cbn [m_src m_dst m] in Hr'.
      destruct (t =? ksq b); [discriminate Hr'|].
      destruct (t =? d); [|exact Hr'].
      injection Hr' as Hr' _. exfalso. exact (opp_ne _ (eq_sym Hr')). }
  apply (att_from_false_mono AT2 pc _ d (occx b d) (all_occ (apply b m)) t Ld); [|exact (ILK t pc Ht Hr)].
  intros u Hu Hox. destruct (between_facts d t u Ld Ht Hu) as (Lu & Nud & _).
  (* u is occupied in b and is not the king square *)
  unfold occx in Hox. rewrite mem_xor, mem_mv_bb in Hox by assumption.
  apply N.eqb_neq in Nud. rewrite Nud, xorb_false_r in Hox.
  destruct (N.eqb_spec u (ksq b)) as [->|Nuk].
  { rewrite (raw_some_occ b _ _ P Hk Hkr) in Hox. discriminate Hox. }
  rewrite xorb_false_r in Hox.
  rewrite (occ_of_raw _ u P' Lu), (RG u Lu).
  assert (Mv : moved b m King u = raw_get b u).
  { unfold moved. cbn [m_src m_dst m]. apply N.eqb_neq in Nuk. rewrite Nuk, Nud. reflexivity. }
  rewrite Mv. rewrite (occ_of_raw b u P Lu) in Hox.
  destruct (raw_get b u) as [cp|] eqn:Eu; [|discriminate Hox].
  destruct (mem (castle_rook_mv (b_turn b) m) u) eqn:Em; [exfalso|reflexivity].
  (* u would be the rook's home square, which is never between the king's destination and anything *)
  rewrite castle_rook_mv_eq in Em. cbn [m_dst m] in Em. unfold d in Em. rewrite dst_dest in Em.
  pose proof (all_sides_spec _ (all_sq_spec _ sweep_castle_rook _ Lu) sd (b_turn b)) as S2. cbv beta in S2.
  rewrite Em in S2. cbn [implb] in S2. apply andb_true_iff in S2. destruct S2 as [_ S3].
  apply orb_true_iff in S3. destruct S3 as [S3|S3].
  - apply N.eqb_eq in S3. subst u.
    pose proof (all_sides_spec _ (all_sq_spec _ sweep_rook_corner _ Ht) sd (b_turn b)) as S4. cbv beta in S4.
    apply negb_true_iff in S4. unfold d in Hu. rewrite dst_dest, S4 in Hu. discriminate Hu.
  - pose proof (none_and_mem _ _ u Tn S3) as Eo. rewrite (occ_of_raw b u P Lu), Eu in Eo. discriminate Eo.
Qed.

Theorem castle_sec : castle_statement.
Proof. intros b sd G. split; [exact (castle_iff b sd G)|exact (castle_safe b sd G)]. Qed.

End Castle.

Theorem king_step :
  attackers_mem_statement -> slider_att_statement -> kings_statement -> checkers_spec_statement ->
  after_move_statement -> safe_after_spec_statement -> king_step_statement.
Proof. intros _ AT2 AT3 _ AT6 AT7. exact (king_step_sec AT2 AT3 AT6 AT7). Qed.

Print Assumptions king_step.

Theorem castle :
  attackers_mem_statement -> slider_att_statement -> kings_statement -> checkers_spec_statement ->
  after_move_statement -> safe_after_spec_statement -> castle_statement.
Proof. intros AT1 AT2 AT3 AT4 AT6 AT7. exact (castle_sec AT1 AT2 AT3 AT4 AT6 AT7). Qed.

Print Assumptions castle.
