(* C09, occupancy-generic part: the pawn helpers of chess-lookup/src/lib.rs (pawn_quiets, pawn_attacks,
   pawn_moves over the regenerated tables) equal their coordinate specifications for every square,
   both colours and EVERY occupancy word.  The occupancy is never enumerated: the only finite facts
   used are 64-square sweeps about the pawn's own square.  Axiom-free. *)
From Coq Require Import NArith ZArith List Bool Lia ZifyBool ZifyN.
From Chess Require Import base.Bits base.Types base.BitBoard base.Sweep geom.Geometry geom.Lookup.
From Chess Require Import proofs.BitsFacts proofs.BitBoardFacts proofs.GeomSweeps.
Import ListNotations.
Local Open Scope N_scope.

(* ---- one step forward as a bitboard shift = one step forward in coordinates ---- *)
Definition step_bb (s : N) (dr : Z) : N := match sq_off s 0 dr with Some t => bit t | None => 0 end.

Definition chk_shift_step (s : N) : bool :=
  (shift_up (from_pos s) =? step_bb s 1) && (shift_down (from_pos s) =? step_bb s (-1)).
Lemma sweep_shift_step : all_sq chk_shift_step = true.
Proof. vm_compute. reflexivity. Qed.

Lemma shift_up_from_pos : forall s, s < 64 ->
  shift_up (from_pos s) = match sq_off s 0 1 with Some t => bit t | None => 0 end.
Proof.
  intros s Hs. pose proof (all_sq_spec _ sweep_shift_step s Hs) as H.
  unfold chk_shift_step in H. apply andb_prop in H. destruct H as [H _].
  apply N.eqb_eq in H. exact H.
Qed.

Lemma shift_down_from_pos : forall s, s < 64 ->
  shift_down (from_pos s) = match sq_off s 0 (-1) with Some t => bit t | None => 0 end.
Proof.
  intros s Hs. pose proof (all_sq_spec _ sweep_shift_step s Hs) as H.
  unfold chk_shift_step in H. apply andb_prop in H. destruct H as [_ H].
  apply N.eqb_eq in H. exact H.
Qed.

(* the square in front of a pawn, as the Rust code computes it *)
Definition pawn_next (s : N) (c : color) : N :=
  match c with White => shift_up (from_pos s) | Black => shift_down (from_pos s) end.

Lemma pawn_next_step : forall s c, s < 64 ->
  pawn_next s c = match sq_off s 0 (fwd c) with Some t => bit t | None => 0 end.
Proof.
  intros s c Hs. destruct c; unfold pawn_next, fwd.
  - apply shift_up_from_pos, Hs.
  - apply shift_down_from_pos, Hs.
Qed.

(* ---- facts about the push set that do not depend on the occupancy ---- *)
Definition chk_push_geo (s : N) : bool :=
  both (fun c => wf64b (pawn_push_geo c s)
                 && match sq_off s 0 (fwd c) with
                    | Some t => (t <? 64) && N.testbit (pawn_push_geo c s) t
                    | None => pawn_push_geo c s =? 0
                    end).
Lemma sweep_push_geo : all_sq chk_push_geo = true.
Proof. vm_compute. reflexivity. Qed.

Lemma wf64_pawn_push_geo : forall s c, s < 64 -> wf64 (pawn_push_geo c s).
Proof.
  intros s c Hs. pose proof (both_spec _ (all_sq_spec _ sweep_push_geo s Hs) c) as H.
  cbv beta in H. apply andb_prop in H. destruct H as [H _]. apply wf64b_spec, H.
Qed.

Lemma pawn_push_geo_blocked_edge : forall s c, s < 64 ->
  sq_off s 0 (fwd c) = None -> pawn_push_geo c s = 0.
Proof.
  intros s c Hs Hoff. pose proof (both_spec _ (all_sq_spec _ sweep_push_geo s Hs) c) as H.
  cbv beta in H. apply andb_prop in H. destruct H as [_ H]. rewrite Hoff in H.
  apply N.eqb_eq, H.
Qed.

Lemma pawn_push_geo_first : forall s c t, s < 64 ->
  sq_off s 0 (fwd c) = Some t -> t < 64 /\ N.testbit (pawn_push_geo c s) t = true.
Proof.
  intros s c t Hs Hoff. pose proof (both_spec _ (all_sq_spec _ sweep_push_geo s Hs) c) as H.
  cbv beta in H. apply andb_prop in H. destruct H as [_ H]. rewrite Hoff in H.
  apply andb_prop in H. destruct H as [H1 H2]. split; [apply N.ltb_lt, H1|exact H2].
Qed.

Definition chk_att_geo (s : N) : bool := both (fun c => wf64b (pawn_att_geo c s)).
Lemma sweep_att_geo : all_sq chk_att_geo = true.
Proof. vm_compute. reflexivity. Qed.
Lemma wf64_pawn_att_geo : forall s c, s < 64 -> wf64 (pawn_att_geo c s).
Proof.
  intros s c Hs. pose proof (both_spec _ (all_sq_spec _ sweep_att_geo s Hs) c) as H.
  cbv beta in H. apply wf64b_spec, H.
Qed.

(* ---- occupancy-generic word facts ---- *)
Lemma any_bit_and : forall t occ, any (bb_and (bit t) occ) = N.testbit occ t.
Proof.
  intros t occ. unfold any. destruct (N.testbit occ t) eqn:E.
  - rewrite (eqb0_false_intro _ t); [reflexivity|].
    rewrite mem_and, mem_bit, N.eqb_refl. exact E.
  - rewrite eqb0_true_intro; [reflexivity|].
    intros i. rewrite mem_and, mem_bit.
    destruct (N.eqb_spec i t) as [->|_]; [exact E|reflexivity].
Qed.

Lemma any_zero_and : forall occ, any (bb_and 0 occ) = false.
Proof. intros occ. unfold any, bb_and. rewrite N.land_0_l. reflexivity. Qed.

Lemma bb_and_not_ldiff : forall x occ, wf64 x -> bb_and x (bb_not occ) = N.ldiff x occ.
Proof. intros x occ Hx. exact (bb_diff_ldiff x occ Hx). Qed.

(* ---- the three helpers, for every square, colour and every occupancy word (no bound on occ) ---- *)
Lemma lk_pawn_attacks_spec_all : forall s c occ, s < 64 ->
  lk_pawn_attacks s c occ = pawn_attacks_spec c s occ.
Proof.
  intros s c occ Hs. unfold lk_pawn_attacks, pawn_attacks_spec, bb_and.
  rewrite pawn_att_table_geo by assumption. reflexivity.
Qed.

Lemma lk_pawn_quiets_spec_all : forall s c occ, s < 64 ->
  lk_pawn_quiets s c occ = pawn_quiets_spec c s occ.
Proof.
  intros s c occ Hs. unfold lk_pawn_quiets, pawn_quiets_spec.
  change (match c with White => shift_up (from_pos s) | Black => shift_down (from_pos s) end)
    with (pawn_next s c).
  rewrite pawn_next_step, pawn_quiet_table_geo by assumption.
  destruct (sq_off s 0 (fwd c)) as [t|] eqn:Hoff.
  - rewrite any_bit_and. destruct (N.testbit occ t); [reflexivity|].
    apply bb_and_not_ldiff, wf64_pawn_push_geo, Hs.
  - rewrite any_zero_and, (pawn_push_geo_blocked_edge s c Hs Hoff).
    unfold bb_and. apply N.land_0_l.
Qed.

Lemma lk_pawn_moves_spec_all : forall s c occ, s < 64 ->
  lk_pawn_moves s c occ = pawn_moves_spec c s occ.
Proof.
  intros s c occ Hs. unfold lk_pawn_moves, pawn_moves_spec, bb_or.
  rewrite lk_pawn_quiets_spec_all, lk_pawn_attacks_spec_all by assumption. reflexivity.
Qed.

(* the same statements in the shape used for machine words *)
Theorem lk_pawn_attacks_spec : forall s c occ, s < 64 -> wf64 occ ->
  lk_pawn_attacks s c occ = pawn_attacks_spec c s occ.
Proof. intros s c occ Hs _. apply lk_pawn_attacks_spec_all, Hs. Qed.

Theorem lk_pawn_quiets_spec : forall s c occ, s < 64 -> wf64 occ ->
  lk_pawn_quiets s c occ = pawn_quiets_spec c s occ.
Proof. intros s c occ Hs _. apply lk_pawn_quiets_spec_all, Hs. Qed.

Theorem lk_pawn_moves_spec : forall s c occ, s < 64 -> wf64 occ ->
  lk_pawn_moves s c occ = pawn_moves_spec c s occ.
Proof. intros s c occ Hs _. apply lk_pawn_moves_spec_all, Hs. Qed.

(* results are machine words; quiet targets are empty squares, attack targets occupied ones *)
Lemma wf64_lk_pawn_moves : forall s c occ, s < 64 -> wf64 (lk_pawn_moves s c occ).
Proof.
  intros s c occ Hs. rewrite lk_pawn_moves_spec_all by assumption.
  unfold pawn_moves_spec, pawn_quiets_spec, pawn_attacks_spec.
  apply wf64_lor; [|apply wf64_land_l, wf64_pawn_att_geo, Hs].
  destruct (sq_off s 0 (fwd c)) as [t|]; [|apply wf64_0].
  destruct (N.testbit occ t); [apply wf64_0|]. apply wf64_ldiff, wf64_pawn_push_geo, Hs.
Qed.

Lemma pawn_quiets_spec_empty_targets : forall c s occ t,
  N.testbit (pawn_quiets_spec c s occ) t = true -> N.testbit occ t = false.
Proof.
  intros c s occ t. unfold pawn_quiets_spec.
  destruct (sq_off s 0 (fwd c)) as [t1|]; [|rewrite N.bits_0; discriminate].
  destruct (N.testbit occ t1); [rewrite N.bits_0; discriminate|].
  rewrite N.ldiff_spec. intros H. apply andb_prop in H. destruct H as [_ H].
  apply negb_true_iff, H.
Qed.

Lemma pawn_attacks_spec_occupied_targets : forall c s occ t,
  N.testbit (pawn_attacks_spec c s occ) t = true -> N.testbit occ t = true.
Proof.
  intros c s occ t. unfold pawn_attacks_spec. rewrite N.land_spec.
  intros H. apply andb_prop in H. apply H.
Qed.

(* counter-example twins for the sweeps above *)
Definition cex_PawnFacts : list (N * option N) :=
  [(1, cex_sq chk_shift_step); (2, cex_sq chk_push_geo); (3, cex_sq chk_att_geo)].
