(* Model of the table-generator helper functions of chess-lookup-generator/src/lib.rs
   (shift-based definitions the checked-in tables were printed from). *)
From Coq Require Import NArith List Bool.
From Chess Require Import base.Bits base.Types base.BitBoard.
Import ListNotations.
Local Open Scope N_scope.

Definition gen_rook_rays (s : N) : N :=
  bb_diff (bb_or (from_rank (rank_of s)) (from_file (file_of s))) (from_pos s).

Fixpoint gen_bishop_rays_loop (fuel : nat) (a b c d acc : N) : N :=
  match fuel with
  | O => acc
  | S f =>
    let a := shift_left (shift_up a) in let b := shift_right (shift_up b) in
    let c := shift_left (shift_down c) in let d := shift_right (shift_down d) in
    let all := bb_or (bb_or (bb_or a b) c) d in
    if none all then acc else gen_bishop_rays_loop f a b c d (bb_or acc all)
  end.
Definition gen_bishop_rays (s : N) : N :=
  let p := from_pos s in gen_bishop_rays_loop 8 p p p p bb_empty.

Definition gen_knight_moves (s : N) : N :=
  let p := from_pos s in
  fold_left bb_or
    [shift_left (shift_up (shift_up p)); shift_right (shift_up (shift_up p));
     shift_left (shift_down (shift_down p)); shift_right (shift_down (shift_down p));
     shift_up (shift_left (shift_left p)); shift_down (shift_left (shift_left p));
     shift_up (shift_right (shift_right p)); shift_down (shift_right (shift_right p))] bb_empty.

Definition gen_king_moves (s : N) : N :=
  let p := from_pos s in
  fold_left bb_or
    [shift_up p; shift_down p; shift_left p; shift_right p;
     shift_left (shift_up p); shift_right (shift_up p); shift_left (shift_down p); shift_right (shift_down p)] bb_empty.

Definition gen_pawn_attacks (s : N) (c : color) : N :=
  let p := from_pos s in
  match c with
  | White => bb_or (shift_left (shift_up p)) (shift_right (shift_up p))
  | Black => bb_or (shift_left (shift_down p)) (shift_right (shift_down p))
  end.

Definition gen_pawn_quiets (s : N) (c : color) : N :=
  let p := from_pos s in
  match c with
  | White => bb_or (shift_up p) (if rank_of s =? 1 then shift_up (shift_up p) else bb_empty)
  | Black => bb_or (shift_down p) (if rank_of s =? 6 then shift_down (shift_down p) else bb_empty)
  end.

(* the blocker "solve" closures handed to the magic search (rook / bishop) *)
Fixpoint gen_slide_loop (fuel : nat) (sh : list (N -> N)) (cur : list N) (blockers acc : N) : N :=
  match fuel with
  | O => acc
  | S f =>
    let cur := map (fun fc => fst fc (snd fc)) (combine sh cur) in
    let all := fold_left bb_or cur bb_empty in
    if none all then acc
    else gen_slide_loop f sh (map (fun x => bb_diff x blockers) cur) blockers (bb_or acc all)
  end.
Definition gen_rook_solve (s blockers : N) : N :=
  let p := from_pos s in
  gen_slide_loop 8 [shift_up; shift_down; shift_left; shift_right] [p; p; p; p] blockers bb_empty.
Definition gen_bishop_solve (s blockers : N) : N :=
  let p := from_pos s in
  gen_slide_loop 8 [fun x => shift_left (shift_up x); fun x => shift_right (shift_up x);
                    fun x => shift_left (shift_down x); fun x => shift_right (shift_down x)] [p; p; p; p] blockers bb_empty.

(* relevant-occupancy masks the generator derives (rays minus the far edges) *)
Definition gen_rook_mask (s : N) : N :=
  let m := gen_rook_rays s in
  let m := if rank_of s =? 0 then m else bb_diff m (from_rank 0) in
  let m := if rank_of s =? 7 then m else bb_diff m (from_rank 7) in
  let m := if file_of s =? 0 then m else bb_diff m (from_file 0) in
  if file_of s =? 7 then m else bb_diff m (from_file 7).
Definition gen_bishop_mask (s : N) : N :=
  bb_diff (gen_bishop_rays s)
    (bb_or (bb_or (from_rank 0) (from_rank 7)) (bb_or (from_file 0) (from_file 7))).
