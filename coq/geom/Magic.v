(* Enumeration of blocker subsets used by the complete magic-table sweep (C08). *)
From Coq Require Import NArith List Bool.
From Chess Require Import base.Bits base.Types base.Tree geom.Geometry geom.Lookup.
From Chess Require Import gen.T_rook_moves gen.T_bishop_moves.
Import ListNotations.
Local Open Scope N_scope.

(* all words whose set bits lie among the positions l *)
Fixpoint subsets_of (l : list N) : list N :=
  match l with
  | [] => [0]
  | b :: r => let s := subsets_of r in s ++ map (N.lor (bit b)) s
  end.

Definition magic_mask (tbl : list (N * N * N * N)) (s : N) : N := snd (fst (fst (magic_of tbl s))).

(* one square of the sweep: every subset of the relevant mask indexes inside the table and
   the entry equals ray casting *)
Definition chk_magic_sq (tbl : list (N * N * N * N)) (len : N) (depth : nat) (sol : tree)
           (ds : list dir) (s : N) : bool :=
  let m := magic_of tbl s in
  forallb (fun x => let i := magic_index m x in (i <? len) && (tget depth sol i =? slide ds s x))
          (subsets_of (elements (magic_mask tbl s))).

(* the mask covers every ray square that has a successor (all but the last of each ray) *)
Definition chk_mask_sq (tbl : list (N * N * N * N)) (ds : list dir) (s : N) : bool :=
  forallb (fun d => forallb (fun t => N.testbit (magic_mask tbl s) t) (removelast (ray d s))) ds
  && (magic_mask tbl s <? 2 ^ 64).

Definition chk_rook_sq := chk_magic_sq rook_magic rook_sol_len rook_sol_depth rook_sol rook_dirs.
Definition chk_bishop_sq := chk_magic_sq bishop_magic bishop_sol_len bishop_sol_depth bishop_sol bishop_dirs.

(* counter-example twin: first (square, blocker set) whose entry is out of range or wrong *)
Definition cex_magic (tbl : list (N * N * N * N)) (len : N) (depth : nat) (sol : tree) (ds : list dir)
  : option (N * N * N * N) :=
  let bad s x := let i := magic_index (magic_of tbl s) x in negb ((i <? len) && (tget depth sol i =? slide ds s x)) in
  match find (fun s => existsb (bad s) (subsets_of (elements (magic_mask tbl s)))) sq_list with
  | None => None
  | Some s => match find (bad s) (subsets_of (elements (magic_mask tbl s))) with
              | Some x => Some (s, x, slide ds s x, tget depth sol (magic_index (magic_of tbl s) x))
              | None => None
              end
  end.
Definition cex_rook := cex_magic rook_magic rook_sol_len rook_sol_depth rook_sol rook_dirs.
Definition cex_bishop := cex_magic bishop_magic bishop_sol_len bishop_sol_depth bishop_sol bishop_dirs.
