(* Model of the accessors and constants of chess-lookup/src/lib.rs over the REGENERATED tables. *)
From Coq Require Import NArith List Bool.
From Chess Require Import base.Bits base.Types base.Tree base.BitBoard.
From Chess Require Import gen.T_knight gen.T_king gen.T_pawn gen.T_rook_rays gen.T_bishop_rays
  gen.T_between gen.T_line gen.T_rook_moves gen.T_bishop_moves gen.T_zobrist.
Import ListNotations.
Local Open Scope N_scope.

Definition nthN (l : list N) (i : N) : N := nth (N.to_nat i) l 0.
Definition nth2 (l : list (list N)) (i j : N) : N := nth (N.to_nat j) (nth (N.to_nat i) l []) 0.

Definition lk_knight (s : N) : N := nthN knight_tbl s.
Definition lk_king (s : N) : N := nthN king_tbl s.
Definition lk_rook_rays (s : N) : N := nthN rook_rays_tbl s.
Definition lk_bishop_rays (s : N) : N := nthN bishop_rays_tbl s.
Definition lk_between (a b : N) : N := nth2 between_tbl a b.
Definition lk_line (a b : N) : N := nth2 line_tbl a b.
Definition lk_pawn_attacks_moves (s : N) (c : color) : N := nth2 pawn_attacks_tbl s (color_idx c).
Definition lk_pawn_quiets_tbl (s : N) (c : color) : N := nth2 pawn_quiets_tbl s (color_idx c).

(* pawn_quiets / pawn_attacks / pawn_moves of lib.rs *)
Definition lk_pawn_quiets (s : N) (c : color) (occ : N) : N :=
  let cur := from_pos s in
  let nxt := match c with White => shift_up cur | Black => shift_down cur end in
  if any (bb_and nxt occ) then bb_empty
  else bb_and (lk_pawn_quiets_tbl s c) (bb_not occ).
Definition lk_pawn_attacks (s : N) (c : color) (occ : N) : N := bb_and (lk_pawn_attacks_moves s c) occ.
Definition lk_pawn_moves (s : N) (c : color) (occ : N) : N := bb_or (lk_pawn_quiets s c occ) (lk_pawn_attacks s c occ).

(* magic lookup: blockers = mask & occ; index = (blockers *w factor >> shift) +w offset; SOLUTIONS[index] *)
Definition magic_index (m : N * N * N * N) (occ : N) : N :=
  let '(factor, msk, offset, shift) := m in
  add64 (shr64 (mul64 (N.land msk occ) factor) shift) offset.
Definition magic_of (tbl : list (N * N * N * N)) (s : N) : N * N * N * N := nth (N.to_nat s) tbl (0, 0, 0, 0).
Definition lk_rook_index (s occ : N) : N := magic_index (magic_of rook_magic s) occ.
Definition lk_bishop_index (s occ : N) : N := magic_index (magic_of bishop_magic s) occ.
Definition lk_rook_moves (s occ : N) : N := tget rook_sol_depth rook_sol (lk_rook_index s occ).
Definition lk_bishop_moves (s occ : N) : N := tget bishop_sol_depth bishop_sol (lk_bishop_index s occ).

Definition lk_distance (a b : N) : N :=
  let ar := a / 8 in let br := b / 8 in let af := a mod 8 in let bf := b mod 8 in
  N.max (if ar <? br then br - ar else ar - br) (if af <? bf then bf - af else af - bf).

(* zobrist accessors: PIECE_ZOBRIST[color][pos][piece] flattened *)
Definition lk_zobrist (s : N) (p : piece) (c : color) : N := nthN piece_zobrist_tbl (color_idx c * 384 + s * 6 + piece_idx p).
Definition lk_castle_zobrist (i : N) : N := nthN castle_zobrist_tbl i.
Definition lk_ep_zobrist (f : N) : N := nthN ep_zobrist_tbl f.
Definition lk_turn_zobrist (c : color) : N := nthN turn_zobrist_tbl (color_idx c).

(* constants *)
Definition PAWN_DOUBLE_SOURCE : N := bb_or (from_rank 1) (from_rank 6).
Definition PAWN_DOUBLE_DEST : N := bb_or (from_rank 3) (from_rank 4).
Definition BACKRANK (c : color) : N := match c with White => 0 | Black => 7 end.
Definition BACKRANK_BB (c : color) : N := from_rank (BACKRANK c).
Definition CASTLE_MOVES : N := fold_left bb_with [2; 58; 4; 60; 6; 62] bb_empty.   (* C1 C8 E1 E8 G1 G8 *)
Definition PAWN_DOUBLE_MOVE (c : color) : N :=
  match c with White => bb_or (from_rank 1) (from_rank 3) | Black => bb_or (from_rank 4) (from_rank 6) end.
Definition ROOK_CASTLE_QUEENSIDE : N := bb_or (from_file 0) (from_file 3).
Definition ROOK_CASTLE_KINGSIDE : N := bb_or (from_file 7) (from_file 5).
Definition CASTLE_ROOK_START (f : N) : N := if f <? 4 then 0 else 7.
Definition CASTLE_ROOK_END (f : N) : N := if f <? 4 then 3 else 5.
Definition PROMOTION_RANK (c : color) : N := match c with White => 7 | Black => 0 end.
Definition PAWN_DOUBLE_MOVE_SOURCE_RANK (c : color) : N := match c with White => 1 | Black => 6 end.
Definition PAWN_DOUBLE_MOVE_DEST_RANK (c : color) : N := match c with White => 3 | Black => 4 end.
Definition ADJACENT_FILES (f : N) : N := let b := from_file f in bb_or (shift_left b) (shift_right b).
Definition ADJACENT_RANKS (r : N) : N := let b := from_rank r in bb_or (shift_up b) (shift_down b).
Definition KINGSIDE_CASTLE_FILES : N := bb_or (from_file 5) (from_file 6).
Definition QUEENSIDE_CASTLE_FILES : N := bb_or (bb_or (from_file 1) (from_file 2)) (from_file 3).
Definition KINGSIDE_CASTLE_SAFE_FILES : N := bb_or (from_file 5) (from_file 6).
Definition QUEENSIDE_CASTLE_SAFE_FILES : N := bb_or (from_file 2) (from_file 3).
