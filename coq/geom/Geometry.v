(* Coordinate geometry of the 8x8 board. Nothing here mentions a lookup table: every set is
   defined by range-checked (file, rank) arithmetic in Z, so "no wrap-around" holds by construction.
   Sets of squares are returned as bitboards (N) through set_of. *)
From Coq Require Import NArith ZArith List Bool.
From Chess Require Import base.Bits base.Types.
Import ListNotations.
Local Open Scope N_scope.

Definition sq_off (s : N) (df dr : Z) : option N :=
  let f := (Z.of_N (s mod 8) + df)%Z in
  let r := (Z.of_N (s / 8) + dr)%Z in
  if ((0 <=? f) && (f <? 8) && (0 <=? r) && (r <? 8))%Z then Some (Z.to_N (r * 8 + f)) else None.

Definition set_of (l : list N) : N := fold_left (fun acc s => N.lor acc (bit s)) l 0.
Definition opt_list {A} (o : option A) : list A := match o with Some x => [x] | None => [] end.
Definition offsets_set (s : N) (offs : list (Z * Z)) : N :=
  set_of (flat_map (fun d => opt_list (sq_off s (fst d) (snd d))) offs).

Inductive dir := DN | DS | DE | DW | DNE | DNW | DSE | DSW.
Definition dvec (d : dir) : Z * Z :=
  match d with
  | DN => (0, 1) | DS => (0, -1) | DE => (1, 0) | DW => (-1, 0)
  | DNE => (1, 1) | DNW => (-1, 1) | DSE => (1, -1) | DSW => (-1, -1)
  end%Z.
Definition dopp (d : dir) : dir :=
  match d with DN => DS | DS => DN | DE => DW | DW => DE | DNE => DSW | DSW => DNE | DNW => DSE | DSE => DNW end.
Definition rook_dirs : list dir := [DN; DS; DE; DW].
Definition bishop_dirs : list dir := [DNE; DNW; DSE; DSW].
Definition all_dirs : list dir := rook_dirs ++ bishop_dirs.

Definition step (d : dir) (s : N) : option N := sq_off s (fst (dvec d)) (snd (dvec d)).

Fixpoint ray_fuel (n : nat) (d : dir) (s : N) : list N :=
  match n with
  | O => []
  | S n' => match step d s with None => [] | Some t => t :: ray_fuel n' d t end
  end.
(* squares strictly beyond s in direction d, nearest first (at most 7) *)
Definition ray (d : dir) (s : N) : list N := ray_fuel 7 d s.

Definition knight_offs : list (Z * Z) := [(1,2);(2,1);(2,-1);(1,-2);(-1,-2);(-2,-1);(-2,1);(-1,2)]%Z.
Definition king_offs : list (Z * Z) := [(0,1);(1,1);(1,0);(1,-1);(0,-1);(-1,-1);(-1,0);(-1,1)]%Z.
Definition knight_geo (s : N) : N := offsets_set s knight_offs.
Definition king_geo (s : N) : N := offsets_set s king_offs.
Definition fwd (c : color) : Z := match c with White => 1 | Black => -1 end%Z.
(* squares a pawn of colour c standing on s attacks *)
Definition pawn_att_geo (c : color) (s : N) : N := offsets_set s [(-1, fwd c); (1, fwd c)]%Z.
Definition start_rank (c : color) : N := match c with White => 1 | Black => 6 end.
(* push targets ignoring occupancy: one step, and two steps from the start rank *)
Definition pawn_push_geo (c : color) (s : N) : N :=
  offsets_set s ([(0%Z, fwd c)] ++ (if rank_of s =? start_rank c then [(0%Z, (2 * fwd c)%Z)] else [])).

Definition rays_set (ds : list dir) (s : N) : N := set_of (flat_map (fun d => ray d s) ds).
Definition rook_rays_geo (s : N) : N := rays_set rook_dirs s.
Definition bishop_rays_geo (s : N) : N := rays_set bishop_dirs s.

(* prefix of l strictly before b, if b occurs *)
Fixpoint before (b : N) (l : list N) : option (list N) :=
  match l with
  | [] => None
  | x :: r => if x =? b then Some [] else match before b r with Some p => Some (x :: p) | None => None end
  end.
Definition between_list (a b : N) : list N :=
  flat_map (fun d => match before b (ray d a) with Some p => p | None => [] end) all_dirs.
Definition between_geo (a b : N) : N := set_of (between_list a b).
Definition on_ray (a b : N) (d : dir) : bool := existsb (N.eqb b) (ray d a).
Definition line_geo (a b : N) : N :=
  set_of (flat_map (fun d => if on_ray a b d then a :: ray d a ++ ray (dopp d) a else []) all_dirs).
Definition aligned (ds : list dir) (a b : N) : bool := existsb (on_ray a b) ds.

Definition absdiff (x y : N) : N := if x <? y then y - x else x - y.
Definition dist_geo (a b : N) : N := N.max (absdiff (rank_of a) (rank_of b)) (absdiff (file_of a) (file_of b)).

(* sliding: walk the ray, keep every square up to and including the first occupied one *)
Fixpoint slide_ray (occ : N) (l : list N) : list N :=
  match l with
  | [] => []
  | t :: r => t :: (if N.testbit occ t then [] else slide_ray occ r)
  end.
Definition slide (ds : list dir) (s occ : N) : N := set_of (flat_map (fun d => slide_ray occ (ray d s)) ds).
Definition rook_attacks (s occ : N) : N := slide rook_dirs s occ.
Definition bishop_attacks (s occ : N) : N := slide bishop_dirs s occ.
Definition queen_attacks (s occ : N) : N := N.lor (rook_attacks s occ) (bishop_attacks s occ).

(* occupancy-dependent pawn helpers (specification, generic in occ) *)
Definition pawn_quiets_spec (c : color) (s occ : N) : N :=
  match sq_off s 0 (fwd c) with
  | None => 0
  | Some t1 => if N.testbit occ t1 then 0 else N.ldiff (pawn_push_geo c s) occ
  end.
Definition pawn_attacks_spec (c : color) (s occ : N) : N := N.land (pawn_att_geo c s) occ.
Definition pawn_moves_spec (c : color) (s occ : N) : N := N.lor (pawn_quiets_spec c s occ) (pawn_attacks_spec c s occ).
