#!/bin/sh
# MANIFEST.setup_cmd : offline build of everything ./check needs, from files on disk only.
set -e
cd "$(dirname "$0")"
export CARGO_NET_OFFLINE=true
mkdir -p .cache/locks replays evidence
# 1. tables of /repo -> coq/gen/*.v
if [ -f translator/rs2v.py ]; then python3 translator/rs2v.py /repo coq/gen all; fi
# 2. the whole Coq development (.vo, never -vos), which also extracts ocaml/model.ml
(cd coq && ./mk.sh && timeout 5400 make -f Makefile.coq -j16)
# 3. OCaml correspondence driver
(cd ocaml && ./build.sh)
# 4. Rust harness against /repo (checked+native is what every check uses; the others on demand)
(cd harness && CARGO_TARGET_DIR=../.cache/target/native-checked RUSTFLAGS="--cfg rustyyato_chess_verif -Ctarget-cpu=native" cargo build --offline --profile checked)
echo setup done
