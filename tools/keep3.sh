#!/bin/sh
# usage: keep3.sh Cnn dir caught note
P=$1; D=$2; C=$3; N=$4
T=/tmp/mut/stage-$P-$(basename $D); mkdir -p $T
cp $D/patch.diff $T/mut1.diff; cp $D/demo.rs $T/demo1.rs; cp $D/meta.json $T/meta1.json
python3 /verif/tools/keep_mutant.py $P $T 1 "$(cat $D/demo_path.txt | tr -d '\n ')" $C "$N" 2>&1 | tail -3
rm -rf $T
