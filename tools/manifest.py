#!/usr/bin/env python3
"""Regenerates /verif/MANIFEST.json from tools/claims.json (claimed properties) + properties.jsonl (the rest -> not_applicable)."""
import json, os
ROOT = os.path.dirname(os.path.dirname(os.path.abspath(__file__)))
props = [json.loads(l) for l in open(os.path.join(ROOT, "properties.jsonl"))]
claims = json.load(open(os.path.join(ROOT, "tools", "claims.json")))
checks = []
for p in props:
    c = claims["claims"].get(p["id"])
    if not c:
        continue
    checks.append(dict(
        property_id=p["id"], quick_cmd="./check %s --tier quick" % p["id"], thorough_cmd="./check %s --tier thorough" % p["id"],
        evidence_file="/verif/evidence/%s.json" % p["id"], replay_cmd_template="./check %s --replay {path}" % p["id"],
        engine="coq-proof+correspondence",
        level_claimed=dict(category="proof", text=c["text"], design_ref="DESIGN.md section 7, " + p["id"]),
        level_note=c["note"], technique=c["technique"]))
m = dict(
    version=1, setup_cmd="./setup.sh",
    hooks=dict(guard="rustyyato_chess_verif",
               enable='RUSTFLAGS="--cfg rustyyato_chess_verif" (the harness is built with it; there are no hook commits: everything observed is public API)',
               baseline_off_cmd="cd /repo && cargo test --workspace --no-fail-fast --offline", source_commits=[], add_only=True),
    engines=[dict(name="coq-proof+correspondence", path="/verif/check", serves_properties=sorted(claims["claims"]),
                  kind_free_text="Coq 8.16 theorems over a Gallina model (coq/), model tied to /repo by a table translator (translator/rs2v.py -> coq/gen) "
                                 "and by a differential correspondence of /repo's code against the extracted model/spec (harness/ + ocaml/driver)")],
    checks=checks, notes=claims.get("notes", ""),
    not_applicable=[dict(property_id=p["id"], reason=claims["not_applicable"].get(p["id"], "under construction in this round: check not yet registered"))
                    for p in props if p["id"] not in claims["claims"]])
json.dump(m, open(os.path.join(ROOT, "MANIFEST.json"), "w"), indent=1)
print("MANIFEST.json: %d checks, %d not_applicable" % (len(checks), len(m["not_applicable"])))
