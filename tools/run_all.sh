#!/bin/sh
# run every registered quick check on the current tree (clean evidence before committing)
cd /verif
for p in $(python3 -c "import json; print(' '.join(c['property_id'] for c in json.load(open('MANIFEST.json'))['checks']))"); do
  ./check $p --tier ${1:-quick} 2>&1 | grep -E "VIOLATION|KNOWN-FINDING|\[check"
done
# refuse to call the evidence clean when any file records a failing run (e.g. one left behind by a seeded-mutant run)
(python3-vt tools/check_evidence.py 2>/dev/null || python3 tools/check_evidence.py)
