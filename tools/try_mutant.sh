#!/bin/sh
# tools/try_mutant.sh <Cnn> <patch.diff> : apply a seeded change to /repo, run the quick check, undo.
P=$1; D=$2
cd /repo || exit 2
if ! git apply --check "$D" 2>/dev/null; then echo "PATCH DOES NOT APPLY: $D"; exit 3; fi
git apply "$D"
cd /verif && VERIF_EVIDENCE_DIR=/verif/.cache/mutant_evidence ./check "$P" --tier quick 2>&1 | grep -E "VIOLATION|KNOWN-FINDING|\[check" | head -5
rc=$?
git -C /repo checkout -- . 
exit 0
