#!/usr/bin/env python3
"""tools/check_evidence.py : refuse stale/failed evidence before a commit.
Every evidence/<id>.json named in MANIFEST.json must validate against the evidence schema, be a record of a
quiet run (violations == 0, discharged == obligations) and carry the level claimed in MANIFEST.json.
Exit 0 when all are clean, 1 otherwise (one line per problem)."""
import json, os, sys
root = os.path.dirname(os.path.dirname(os.path.abspath(__file__)))
schema_path = "/root/.vp/EVIDENCE.schema.json"
man = json.load(open(os.path.join(root, "MANIFEST.json")))
bad = 0
validator = None
try:
    import jsonschema
    if os.path.exists(schema_path):
        validator = jsonschema.Draft202012Validator(json.load(open(schema_path)))
except ImportError:
    pass
for c in man["checks"]:
    pid = c["property_id"]
    p = os.path.join(root, "evidence", pid + ".json")
    probs = []
    if not os.path.exists(p):
        probs.append("missing")
    else:
        e = json.load(open(p))
        cov = e.get("coverage", {})
        if validator:
            probs += ["schema: " + x.message[:120] for x in validator.iter_errors(e)]
        if e.get("property_id") != pid:
            probs.append("property_id %r" % e.get("property_id"))
        if e.get("level") != (c.get("level_claimed") or {}).get("category"):
            probs.append("level %r != manifest %r" % (e.get("level"), (c.get("level_claimed") or {}).get("category")))
        if e.get("violations", 0) != 0:
            probs.append("violations=%s (record of a failing run)" % e.get("violations"))
        if cov.get("obligations") != cov.get("discharged") or not cov.get("obligations"):
            probs.append("discharged %s != obligations %s" % (cov.get("discharged"), cov.get("obligations")))
        if not cov.get("samples") or not cov.get("checker_cmd"):
            probs.append("samples/checker_cmd empty")
    if probs:
        bad += 1
        print("EVIDENCE-PROBLEM %s: %s" % (pid, "; ".join(probs)))
print("evidence: %d/%d clean%s" % (len(man["checks"]) - bad, len(man["checks"]), "" if validator else " (schema validator unavailable: structural checks only)"))
sys.exit(1 if bad else 0)
