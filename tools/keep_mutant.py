#!/usr/bin/env python3
"""tools/keep_mutant.py <Cnn> <dir-with-mutN.diff/demoN.rs/metaN.json> <N> <demo-dest-relpath> <caught:yes|no> [note]
Confirms a seeded change in a scratch worktree (suite passes with it, demo fails with it and passes without) and
archives it as /verif/seeded/<Cnn>-m<k>/ {patch.diff, demo.rs, meta.json}."""
import sys, os, json, subprocess, shutil, glob
pid, d, n, dest, caught = sys.argv[1:6]
note = sys.argv[6] if len(sys.argv) > 6 else ""
wt = "/tmp/mut/verify-%s-%s" % (pid, n)
def sh(cmd, cwd=None):
    p = subprocess.run(cmd, shell=True, cwd=cwd, stdout=subprocess.PIPE, stderr=subprocess.STDOUT)
    return p.returncode, p.stdout.decode(errors="replace")
sh("git -C /repo worktree remove --force %s" % wt)
rc, out = sh("git -C /repo worktree add --detach %s HEAD" % wt)
assert rc == 0, out
env = "CARGO_NET_OFFLINE=true CARGO_TARGET_DIR=/tmp/mut/verify-target"
res = {}
try:
    patch = os.path.join(d, "mut%s.diff" % n)
    demo = os.path.join(d, "demo%s.rs" % n)
    os.makedirs(os.path.dirname(os.path.join(wt, dest)), exist_ok=True)
    shutil.copy(demo, os.path.join(wt, dest))
    crate = dest.split("/")[0]
    tname = os.path.splitext(os.path.basename(dest))[0]
    rc, out = sh("%s cargo test --offline -p %s --test %s 2>&1 | tail -15" % (env, crate, tname), wt)
    res["demo_passes_without"] = "test result: ok" in out and "FAILED" not in out
    res["demo_without_tail"] = out[-600:]
    rc, out = sh("git apply %s" % patch, wt)
    assert rc == 0, "patch does not apply: " + out
    rc, out = sh("%s cargo test --offline -p %s --test %s 2>&1 | tail -15" % (env, crate, tname), wt)
    res["demo_fails_with_mutant"] = ("FAILED" in out or "panicked" in out or "error" in out) and "test result: ok" not in out.split("Running")[-1]
    res["demo_with_tail"] = out[-600:]
    os.remove(os.path.join(wt, dest))
    rc, out = sh("%s cargo test --workspace --no-fail-fast --offline 2>&1 | grep -E '^test result' | awk '{p+=$4; f+=$6} END {print p\" \"f}'" % env, wt)
    res["suite_with_mutant"] = out.strip()
    res["suite_passes_with_mutant"] = out.strip() == "44 0"
finally:
    sh("git -C /repo worktree remove --force %s" % wt)
ok = res.get("demo_passes_without") and res.get("demo_fails_with_mutant") and res.get("suite_passes_with_mutant")
print(json.dumps({k: v for k, v in res.items() if not k.endswith("_tail")}), "CONFIRMED" if ok else "NOT CONFIRMED")
if ok:
    k = len(glob.glob("/verif/seeded/%s-m*" % pid)) + 1
    out = "/verif/seeded/%s-m%d" % (pid, k)
    os.makedirs(out, exist_ok=True)
    shutil.copy(patch, os.path.join(out, "patch.diff"))
    shutil.copy(demo, os.path.join(out, "demo.rs"))
    meta = json.load(open(os.path.join(d, "meta%s.json" % n)))
    meta.update(dict(property=pid, demo_location=dest, confirmed_by_main_session=res,
                     what_i_ran="scratch worktree of /repo HEAD: demo without patch (pass), git apply patch, demo (fail), full suite (44 pass); then ./check %s --tier quick with the patch applied to /repo and reverted" % pid,
                     caught_by_check=caught, note=note))
    json.dump(meta, open(os.path.join(out, "meta.json"), "w"), indent=1)
    print("kept as", out)
else:
    print(res.get("demo_without_tail"), res.get("demo_with_tail"))
