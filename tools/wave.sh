#!/bin/sh
# tools/wave.sh <Cnn> <worktree-out-dir> : for each m<i> under the dir, run the quick check with the change applied to /repo (then undo),
# print the verdict; used before keep_mutant.py
P=$1; D=$2
for m in "$D"/m*; do
  [ -f "$m/patch.diff" ] || continue
  echo "== $P $(basename $m)"
  sh /verif/tools/try_mutant.sh "$P" "$m/patch.diff"
done
