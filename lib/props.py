"""Per-property configuration of ./check : tables to regenerate, correspondence jobs, trusted base, open obligations."""
import os


def q(ctx, quick, thorough):
    return quick if ctx.tier == "quick" else thorough


def run_cex(ctx, spec, broken):
    pass


PROPS = {}

PROPS["C14"] = dict(
    jobs=lambda ctx: [dict(sub=["score", q(ctx, 150, 1500)], shards=q(ctx, 1, 8))],
    rule="all ordered pairs of a pool = boundary scores (sentinels; mate distances 0,1,2,3,255,256,32767,32768,65534,65535 "
         "for both colours; Raw at i32::MIN,MIN+1,-65536,-901,-2,-1,0,1,2,900,65535,65536,MAX-1,MAX) plus seeded random scores; "
         "each pair observed through Ord::cmp, PartialOrd::partial_cmp, ==, <, <=, >, >=, max, min; a case is one pair, "
         "distinct = distinct observation lines",
    trusted_base=["model/Score.v is a hand transcription of chess-engine/src/score.rs (tied by the pairwise comparison above)",
                  "std's derived Ord on ScoreKind (declaration order) and Ord::max/min tie-breaking are modelled"],
    assumptions=["u16/i32 payloads are instances of the unbounded N/Z payloads of the model"],
)

GEOM_TABLES = ["knight", "king", "pawn", "rook_rays", "bishop_rays", "between", "line"]

PROPS["C08"] = dict(
    tables=["rook_moves", "bishop_moves"],
    jobs=lambda ctx: [dict(sub=["magic", q(ctx, 4, 200)], shards=q(ctx, 1, 16))],
    exhaustive=True,
    rule="EVERY blocker subset of the relevant mask of every square for rook (102400) and bishop (5248) - the complete domain the "
         "lookup depends on - plus random/full/ray-complement occupancies per square exercising independence from off-mask squares; "
         "each case = one call of chess_lookup::rook_moves / bishop_moves compared with ray casting (Geometry.slide); distinct = distinct lines",
    trusted_base=["translator/rs2v.py transcribes MOVES_MAGIC and SOLUTIONS of chess-lookup/src/{rook,bishop}_moves.rs into coq/gen (declared lengths checked); "
                  "cross-checked because the same lookups through the public accessors are compared with ray casting on every subset",
                  "geom/Lookup.v magic_index is a hand transcription of the index computation in chess-lookup/src/lib.rs (wrapping_mul, >>, wrapping_add)"],
    assumptions=["index < SOLUTIONS.len() is proved for the regenerated tables; memory safety of get_unchecked given that bound is Rust's"],
)

PROPS["C09"] = dict(
    tables=GEOM_TABLES,
    jobs=lambda ctx: [dict(sub=["tables", q(ctx, 2, 40)])],
    exhaustive=True,
    rule="exhaustive: 64 squares x {knight,king,rook_rays,bishop_rays,pawn_attacks x2} accessors, 64x64 pairs x {between,line,distance}, "
         "the generator's between()/line()/helper functions, all 53+ constants, pawn_quiets/attacks/moves on every combination of the "
         "relevant squares (with random noise elsewhere); each compared with the coordinate definitions of geom/Geometry.v",
    trusted_base=["translator/rs2v.py for the seven geometry tables; accessors and constants of chess-lookup/src/lib.rs hand-modelled in geom/Lookup.v",
                  "the randomised magic search of chess-lookup-generator is not re-run (its output is characterised by C08)"],
    open=[],
)

PROPS["C16"] = dict(
    jobs=lambda ctx: [dict(sub=["abi", q(ctx, 2000, 200000)])],
    exhaustive=True,
    rule="exhaustive: all 64x64x5 moves through StableChessMove and EvaluatedMove, 'no move', all 2x65536 mate scores, sentinels, "
         "Raw at the i32 extremes/around zero plus seeded random; a case = one value converted to its stable form and back",
    trusted_base=["model/Abi.v transcribes the five match tables of chess-api/src/lib.rs; abi_stable's own layout machinery is not modelled"],
)

PROPS["C18"] = dict(
    jobs=lambda ctx: [dict(sub=["bitboard", q(ctx, 3000, 300000)], shards=q(ctx, 1, 8)),
                      dict(sub=["bitboard", q(ctx, 1000, 50000)], native=False, profile="checked"),
                      dict(sub=["bitboard", q(ctx, 1000, 50000)], native=True, profile="release"),
                      dict(sub=["bitboard", q(ctx, 1000, 50000)], native=False, profile="release")],
    rule="every public method/operator of BitBoard and BitBoardIter on: empty, full, all 64 single-square, all 2016 two-square boards, "
         "8 files, 8 ranks, plus seeded random words (sparse/dense mixes); nth(n) for n around count and n in {0..3,7,31,62..65,127,128,2^32,usize::MAX}; "
         "four builds: {target-cpu=native (BMI2 nth), default nth} x {checked (overflow+debug assertions), release}",
    trusted_base=["base/Bits.v, base/BitBoard.v transcribe chess-bitboard/src/lib.rs+ops.rs; u64 <<, !, swap_bytes, trailing_zeros, count_ones and "
                  "_pdep_u64 (Intel pseudo-code) are modelled"],
)

PROPS["C19"] = dict(
    jobs=lambda ctx: [dict(sub=["text", q(ctx, 20000, 2000000), q(ctx, 16, 1)], shards=q(ctx, 1, 8))],
    rule="all 256 single bytes and all 65536 two-byte strings through all six parsers; all 4-byte strings and (quick: 1/16 of, thorough: all) "
         "5-byte strings over the boundary alphabet {a,h,i,A,H,`,@,0,1,8,9,-,space}; seeded random/mutated strings of other lengths; Display of all "
         "squares/files/ranks/moves; from_u8 on all 256 values; neighbour steps/flip on all squares; iterator op sequences (all pairs over a 27-op "
         "alphabet incl. nth(usize::MAX) + random) on the five enumerating iterators",
    trusted_base=["model/Text.v transcribes pos.rs/piece.rs/color.rs/side.rs parsers, Display and ChessMove::from_ascii_bytes; core::ops::Range<u8> "
                  "(next/nth/next_back/nth_back/size_hint) is modelled after std's source"],
)

PROPS["C20"] = dict(
    jobs=lambda ctx: [dict(sub=["tracing", q(ctx, 1500, 60000), q(ctx, 2, 4)], shards=q(ctx, 1, 1))],
    rule="real threads driven one operation at a time (channel hand-off); after every step every thread reports is_enabled(); "
         "all 2-thread schedules up to length 2 (quick) / 4 (thorough) over the 9-operation alphabet, plus seeded random schedules of "
         "2-3 threads and up to 14 operations including nested take/restore",
    trusted_base=["model/Tracing.v transcribes tracing-enabled/src/lib.rs at operation granularity under a sequentially consistent reading; "
                  "thread_local!, Cell and AtomicBool semantics are modelled; weak-memory behaviours without synchronisation are outside the model"],
    assumptions=["each public function touches the shared atomic at most once, so operation-granularity interleavings are complete for the SC reading"],
)

# ----------------------------------------------------------------------------- chess core
POS_RULE = ("positions = the 35-position corpus (perft suites, en-passant pins/shields, castling, promotion races, mates, 100-ply clock) "
            "+ seeded legal playouts from corpus positions with move choice biased to captures, checks, double steps, en passant, castling and "
            "promotions + sparse random placements rendered as FEN (kings, up to 10/28 men, consistent rights and en-passant markers) filtered by the "
            "implementation's parser and played on + the sparse family (both kings + 1..6 men, kings and rooks often at home WITH the rights, pawns near the "
            "promotion / double-step / e.p. ranks, e.p. markers, half-move clocks at 0/49/98/99/100) with EVERY legal move played and the successor examined; "
            "distinct = distinct observation lines; the DIST record in `distribution` counts checks, double "
            "checks, pins, markers, available e.p. captures/castles/promotions, mates, stalemates")
CORE_TRUST = ["model/Board.v, MoveGen.v, Apply.v, Fen.v are hand transcriptions of chess-movegen/src/{lib,raw,castle_rights,iter,iter/pieces,fen}.rs; "
              "table accessors are replaced in the model by the coordinate definitions they are proved equal to (C08, C09)",
              "spec/Rules.v (mailbox rules of chess, no tables/bitboards) is the reference; positions travel as FEN text assembled by the harness "
              "from raw().get / turn() / clocks and the Debug fields (not through the Display under test)"]


def pos_jobs(ctx, nq, nt, moves, checked, lgq, lgt, families=True):
    jobs = [dict(sub=["positions", q(ctx, nq, nt), moves, checked, q(ctx, lgq, lgt)], shards=16, timeout=3000),
            dict(sub=["sparsefamily", q(ctx, 250, 6000)], shards=16, timeout=3000)]
    if families:
        jobs.append(dict(sub=["epfamily", q(ctx, 40, 1)], shards=q(ctx, 1, 8), timeout=3000))
        jobs.append(dict(sub=["pinfamily", q(ctx, 64, 2)], shards=16, timeout=3000))
        jobs.append(dict(sub=["castlefamily"], shards=16, timeout=3000))
        jobs.append(dict(sub=["checkfamily", q(ctx, 3000, 16), q(ctx, 16, 1)], shards=16, timeout=3000))
        if ctx.tier == "thorough":
            jobs.append(dict(sub=["smallfamily", 0], shards=16, timeout=6000))
    return jobs


PROPS["C01"] = dict(
    coq_sample=64,
    jobs=lambda ctx: pos_jobs(ctx, 1300, 60000, 0, 1, 40, 40),
    relevant=r"legal-moves|len/size_hint|model:len|is_legal|LG|accept exactly legal|position-rejected|harness-crash",
    rule=POS_RULE + "; 64 sampled positions are also re-evaluated inside Coq (vm_compute, no extraction); per position: legals() as a sorted set and its len/size_hint/is_empty against Rules.legal_moves, is_legal on random / near-miss / "
         "legal triples, and on every 40th position the full set {m | is_legal m} over all 20480 triples; systematic en-passant family "
         "(own king x capturer x double-stepped pawn x one enemy slider; quick: 1/40 sample, thorough: all), pin family (own king x 8 directions x distances x pinned piece type x pinner type, + a random extra enemy man; quick: 16 random 1/64 samples, thorough: 16 x 1/2) castling family (both kings at home + one extra man of any kind on any square, or the enemy king anywhere instead of at home; all rights subsets), the check-giving families of C03 (successors of e.p., promotion, castling, discovered checks) and, thorough only, the EXHAUSTIVE family of all accepted placements of both kings plus one extra man, either side to move (thorough)",
    trusted_base=CORE_TRUST,
    open=[],
)
PROPS["C02"] = dict(
    jobs=lambda ctx: pos_jobs(ctx, 500, 20000, 1, 1, 0, 0, families=False),
    relevant=r"successor = rules make|successor fields|legal-move-accepted|successor-is-acceptable|accept exactly legal|untouched|move_new/move_mut|apply = fresh|successor acceptable|successor present|position-rejected|harness-crash",
    rule=POS_RULE + "; per position EVERY legal move is applied through move_new, move_mut and move_into and the successor compared field by field "
         "with Rules.make; 6 arbitrary/near-miss/legal (from,to,promotion) triples per position offered to the checked operations with the board "
         "compared (Debug text) before and after; clocks below 9999",
    trusted_base=CORE_TRUST,
    open=[],
)
PROPS["C03"] = dict(
    jobs=lambda ctx: pos_jobs(ctx, 500, 20000, 1, 0, 0, 0, families=False) + [dict(sub=["checkfamily", q(ctx, 3000, 16), q(ctx, 16, 1)], shards=16, timeout=3000)],
    relevant=r"in_check|state|indistinguishable|pinned|checkers|move_new/move_mut/move_into agree|successor = rules make|successor-is-acceptable|parses back|position-rejected|harness-crash",
    rule=POS_RULE + "; per position in_check() and state() against Rules.in_check / classify, the incrementally maintained pinned/checkers against the "
         "from-scratch ones, and {legal moves, check, hash, text, Debug rendering, ==} of the moved board against to_string().parse(); per legal move "
         "the successor's derived state against from-scratch; check-giving families: en-passant captures with the enemy king on every square and an own slider behind (direct + discovered checks), promotions (incl. knight, capturing) with the enemy king on every square, castling with the enemy king on the rook's arrival file, mates/stalemates delivered at and beyond the 100-half-move boundary",
    trusted_base=CORE_TRUST,
    open=[],
)
PROPS["C04"] = dict(
    tables=["zobrist"],
    jobs=lambda ctx: [dict(sub=["zobrist"]), dict(sub=["builder", q(ctx, 3000, 200000)], shards=q(ctx, 1, 8))] + pos_jobs(ctx, 500, 20000, 1, 0, 0, 0, families=False),
    relevant=r"hash|zobrist|position-rejected|harness-crash",
    rule="all 794 keys through the four public accessors against the regenerated table; " + POS_RULE + "; per position and per successor of every "
         "legal move the implementation's zobrist() and piece hash against the hash of the same position built from scratch by the model parser "
         "(so boards with equal text have equal hash whatever move order produced them); builder sequences incl. rejected place() calls: built hash against the from-scratch hash",
    trusted_base=CORE_TRUST + ["translator for zobrist.rs, validated through zobrist()/castle_rights_zobrist()/en_passant_zobrist()/turn_zobrist()"],
    open=[],
)
PROPS["C05"] = dict(
    jobs=lambda ctx: pos_jobs(ctx, 1300, 60000, 0, 0, 0, 0, families=False) + [dict(sub=["fen", q(ctx, 4000, 200000), q(ctx, 1, 4)], shards=q(ctx, 2, 16)),
                                                                              dict(sub=["builder", q(ctx, 3000, 200000)], shards=q(ctx, 1, 8))],
    relevant=r"fen-writer|indistinguishable|model:result|builder = parser|builder hash|builder piece-hash|builder pins|build result|place flags|position-rejected|harness-crash",
    rule=POS_RULE + "; per board: to_string() byte for byte against the writer model, to_string().parse() equal in legal moves/check/hash/text/Debug/==; "
         "the parser on writer output, structured random FEN text, every single-byte edit of seed FENs and random bytes; builder sequences compared with "
         "the parser on the same position (all fields incl. hash and derived state)",
    trusted_base=CORE_TRUST,
    open=[],
)
PROPS["C06"] = dict(
    jobs=lambda ctx: [dict(sub=["fen", q(ctx, 12000, 600000), q(ctx, 3, 12)], shards=q(ctx, 4, 16)),
                      dict(sub=["builder", q(ctx, 6000, 400000)], shards=q(ctx, 1, 8))],
    relevant=r".",
    rule="three byte streams through fen::parse_fen: (1) writer output of reachable boards + structured random FEN text, (2) EVERY single-byte edit "
         "(delete, duplicate, replace by each of 256 bytes, insert of boundary bytes, truncation) of seed FENs + random multi-edits, (3) random bytes of "
         "length 0..120; result compared as Ok(all fields incl. hash, pins, checkers) / Err(kind + payload); every accepted board is checked with the "
         "rules-level `playable` predicate and must generate moves without panic; builder op sequences likewise; `distribution` = histogram of error kinds",
    trusted_base=CORE_TRUST,
    open=[],
)
PROPS["C17"] = dict(
    tables=["book"],
    jobs=lambda ctx: [dict(sub=["book"], timeout=1500)],
    exhaustive=True,
    rule="complete traversal of INITIAL_BOOOK_MOVES through the public iterator (29036 nodes, depth 8): every root-to-node path replayed on "
         "Board::standard() with move_mut and judged legal by the extracted Rules spec; node count and depth compared with the in-kernel sweep",
    trusted_base=["translator for lichess_book.rs (declared BOOK_SIZE checked against the literals), validated by the full traversal through the public iterator",
                  "model/Book.v transcribes BookMovesIter::next incl. checked_sub; legality by spec/Rules.v"],
)

SEARCH_TRUST = CORE_TRUST + ["model/Search.v transcribes Engine::search / search_with / alphabeta / eval (positional = false, the shipped default) with the timeout as "
                            "'first expiry at the k-th poll' threaded in the code's poll order; DurationTimeout / the wall clock is replaced by a counting Timeout "
                            "(a public trait implemented by the harness); log formatting not modelled"]
PROPS["C11"] = dict(
    jobs=lambda ctx: [dict(sub=["search", q(ctx, 25, 400), q(ctx, 500, 3000)], shards=16, timeout=3000)],
    relevant=r"returned move is legal|no legal move|move returned when|never panics|stable ABI|model:move|model:score|model:max_depth|fuel|position-rejected|harness-crash",
    rule="roots = 16 mate-in-one positions + the 35-position corpus (incl. roots with no legal move, stalemate, one legal move, 100-ply clock) + seeded generated "
         "positions; for every root the timeout expires at poll k for k = 0..5, a geometric ladder up to 500 (quick) / 3000 (thorough) and random k; terminal "
         "roots additionally at k = 65535, 65536, 65537, 70000; (move, score, max_depth) compared with the poll-exact model, the returned move checked against "
         "Rules.legal_moves; checked (overflow/debug-assert) build",
    trusted_base=SEARCH_TRUST,
    open=[],
)
PROPS["C12"] = dict(
    jobs=lambda ctx: [dict(sub=["search", q(ctx, 25, 400), q(ctx, 500, 3000)], shards=16, timeout=3000)],
    relevant=r"mate-in-one|mating move|never panics|model:move|model:score|fuel|position-rejected|harness-crash",
    rule="same roots and timeouts as C11; the set of mating moves is enumerated by the rules spec (legal move whose successor is checkmate); whenever the model says "
         "the first pass completed and a mate in one exists the returned move must be a mating move with the mate-in-one score of the mover; a mate-in-one score is "
         "only accepted with a mating move",
    trusted_base=SEARCH_TRUST,
    open=[],
)
PROPS["C13"] = dict(
    jobs=lambda ctx: [dict(sub=["mirror", q(ctx, 40, 600), q(ctx, 1500, 6000)], shards=16, timeout=3000)],
    relevant=r"mirror|negated|symmetry|never panics|position-rejected|harness-crash",
    rule="generated positions without a promotion move at the root (and half-move clock < 90), plus roots whose leading side holds exactly / nearly the evaluation's 1800-point endgame threshold (Q+R+4P, 2R+8P, 2B+2N+5P ...) and roots where the side to move is mated by force; empty repetition history, default Engine; the position and its colour "
         "mirror (built by the harness, checked equal to Rules.mirror) are searched under the same ladder of counting timeouts; for every depth both complete the "
         "reported scores must be negations of each other",
    trusted_base=SEARCH_TRUST,
    open=[],
)

PROPS["C10"] = dict(
    jobs=lambda ctx: [dict(sub=["iter", q(ctx, 1500, 60000)], shards=16, timeout=3000)],
    relevant=r".",
    rule="op sequences (next, len, is_empty, size_hint, set_mask, remove, remove_move, clone/continue-on-clone/back) of length 2..26 (+ a final drain under a "
         "random mask and its complement) on the shared position stream incl. positions with promotions, en passant and castling; legals() and "
         "legals_masked(M) starts; masks from {full, enemy men, complement, random, single destinations, everything but e.p./castling targets}; 5/6 of the "
         "sequences avoid the two known classes, 1/6 are unrestricted; every op's result compared with the concrete model AND checked by the abstract "
         "monitor (multiset of owed moves) fed with the implementation's own answers",
    trusted_base=CORE_TRUST + ["spec/IterSpec.v is the abstract iterator the theorems refine to"],
    assumptions=[],
)
PROPS["C15"] = dict(
    jobs=lambda ctx: [dict(sub=["bot", q(ctx, 14, 300)], shards=16, timeout=3000, needs_bot=True)],
    relevant=r".",
    rule="the chess-bot cdylib built from /repo is loaded through ChessApiRef::load_from_file and driven through ChessEngine: histories of 40..300 calls "
         "(set_board from corpus FENs, make_move with reversible 4-ply cycles repeated 1..4 times so positions recur - incl. by other move orders and with "
         "rights/marker differing -, random legal moves, illegal / near-miss moves, board(), evaluate with counting timeouts, re-set_board in mid-history); "
         "plus one 1200-move shuffle that repeats positions 300 times; monitor = list of rules-level positions since the last set_board",
    trusted_base=SEARCH_TRUST + ["model/Bot.v transcribes chess-bot/src/lib.rs; abi_stable loading/layout checks and HashMap (keyed by zobrist then PartialEq) are modelled, not verified"],
    open=["interpretation: the position handed to set_board is not counted as an occurrence (neither the bot nor the CLI inserts it)"],
)

def c07_jobs(ctx):
    jobs = []
    for prof in ("checked", "release"):
        extra = dict(profile=prof, native=True)
        jobs += [
            dict(sub=["positions", q(ctx, 400, 20000), 1, 1, 25], shards=q(ctx, 4, 16), timeout=3000, **extra),
            dict(sub=["iter", q(ctx, 600, 30000)], shards=q(ctx, 2, 16), timeout=3000, **extra),
            dict(sub=["fen", q(ctx, 3000, 200000), q(ctx, 1, 6)], shards=q(ctx, 2, 16), timeout=3000, **extra),
            dict(sub=["builder", q(ctx, 2000, 100000)], shards=1, timeout=3000, **extra),
            dict(sub=["search", q(ctx, 6, 200), q(ctx, 300, 3000)], shards=q(ctx, 4, 16), timeout=3000, **extra),
            dict(sub=["magic", q(ctx, 1, 50)], timeout=3000, **extra),
            dict(sub=["book"], timeout=3000, **extra),
            dict(sub=["bitboard", q(ctx, 500, 50000)], timeout=3000, **extra),
        ]
    jobs.append(dict(sub=["epfamily", q(ctx, 60, 2)], shards=q(ctx, 1, 8), timeout=3000))
    jobs.append(dict(sub=["walk", q(ctx, 3000, 60)], shards=16, timeout=3000))
    return jobs


PROPS["C07"] = dict(
    tables=["rook_moves", "bishop_moves", "book"],
    jobs=c07_jobs,
    relevant=r"never-panics|never panics|TRAP|harness-crash|CRASH|parser-model-traps",
    rule="trap runs: every safe operation (parse, build, generate, mask/iterate/remove, apply through the checked ops, hash, print, search under counting "
         "timeouts incl. terminal roots beyond 65536 polls, full book walk, every blocker subset of every slider square, bitboard iterators) on the shared "
         "position stream incl. the extremal 18-entry move lists (16 mobile men + two en-passant capturers), FENs with 15..24 mobile men on one side, full-width depth-3 walks from en-passant roots with an extra knight/pawn/slider possibly giving check, iterator sequences that mask/remove inside a promotion group, in a build with overflow checks, debug "
         "assertions and std's unsafe-precondition checks (any violation = panic/abort seen as TRAP or as a dead harness) and in a plain release build",
    trusted_base=CORE_TRUST + ["memory safety of the unsafe blocks GIVEN their preconditions (set_mask's pointer walk, arrayvec, abi_stable) is Rust's / the crates', "
                              "not modelled: C07 is partial in that sense", "panic / abort detection: catch_unwind + process exit status"],
    open=["a Gallina model cannot exhibit undefined behaviour; what is proved are the preconditions of the unchecked operations (index ranges, non-empty sets, capacity, saturation) under invariants that are now proved for every reachable board (Reachable_Good, Reachable_men); memory safety of the unsafe blocks GIVEN those preconditions is trusted"],
)
