"""Per-property configuration of ./check : tables to regenerate, correspondence jobs, trusted base, open obligations."""
import os


def q(ctx, quick, thorough):
    return quick if ctx.tier == "quick" else thorough


def run_cex(ctx, spec, broken):
    pass


PROPS = {}

PROPS["C14"] = dict(
    jobs=lambda ctx: [dict(sub=["score", q(ctx, 150, 1500)], shards=q(ctx, 1, 8))],
    rule="all ordered pairs of a pool = boundary scores (sentinels; mate distances 0,1,2,3,255,256,32767,32768,65534,65535 "
         "for both colours; Raw at i32::MIN,MIN+1,-65536,-901,-2,-1,0,1,2,900,65535,65536,MAX-1,MAX) plus seeded random scores; "
         "each pair observed through Ord::cmp, PartialOrd::partial_cmp, ==, <, <=, >, >=, max, min; a case is one pair, "
         "distinct = distinct observation lines",
    trusted_base=["model/Score.v is a hand transcription of chess-engine/src/score.rs (tied by the pairwise comparison above)",
                  "std's derived Ord on ScoreKind (declaration order) and Ord::max/min tie-breaking are modelled"],
    assumptions=["u16/i32 payloads are instances of the unbounded N/Z payloads of the model"],
)

GEOM_TABLES = ["knight", "king", "pawn", "rook_rays", "bishop_rays", "between", "line"]

PROPS["C08"] = dict(
    tables=["rook_moves", "bishop_moves"],
    jobs=lambda ctx: [dict(sub=["magic", q(ctx, 4, 200)], shards=q(ctx, 1, 16))],
    exhaustive=True,
    rule="EVERY blocker subset of the relevant mask of every square for rook (102400) and bishop (5248) - the complete domain the "
         "lookup depends on - plus random/full/ray-complement occupancies per square exercising independence from off-mask squares; "
         "each case = one call of chess_lookup::rook_moves / bishop_moves compared with ray casting (Geometry.slide); distinct = distinct lines",
    trusted_base=["translator/rs2v.py transcribes MOVES_MAGIC and SOLUTIONS of chess-lookup/src/{rook,bishop}_moves.rs into coq/gen (declared lengths checked); "
                  "cross-checked because the same lookups through the public accessors are compared with ray casting on every subset",
                  "geom/Lookup.v magic_index is a hand transcription of the index computation in chess-lookup/src/lib.rs (wrapping_mul, >>, wrapping_add)"],
    assumptions=["index < SOLUTIONS.len() is proved for the regenerated tables; memory safety of get_unchecked given that bound is Rust's"],
)

PROPS["C09"] = dict(
    tables=GEOM_TABLES,
    jobs=lambda ctx: [dict(sub=["tables", q(ctx, 2, 40)])],
    exhaustive=True,
    rule="exhaustive: 64 squares x {knight,king,rook_rays,bishop_rays,pawn_attacks x2} accessors, 64x64 pairs x {between,line,distance}, "
         "the generator's between()/line()/helper functions, all 53+ constants, pawn_quiets/attacks/moves on every combination of the "
         "relevant squares (with random noise elsewhere); each compared with the coordinate definitions of geom/Geometry.v",
    trusted_base=["translator/rs2v.py for the seven geometry tables; accessors and constants of chess-lookup/src/lib.rs hand-modelled in geom/Lookup.v",
                  "the randomised magic search of chess-lookup-generator is not re-run (its output is characterised by C08)"],
    open=["pawn_quiets/pawn_attacks generic-in-occupancy theorem (lk_pawn_quiets = pawn_quiets_spec for all occ) is compared exhaustively on the relevant squares but not yet proved in Coq"],
)

PROPS["C16"] = dict(
    jobs=lambda ctx: [dict(sub=["abi", q(ctx, 2000, 200000)])],
    exhaustive=True,
    rule="exhaustive: all 64x64x5 moves through StableChessMove and EvaluatedMove, 'no move', all 2x65536 mate scores, sentinels, "
         "Raw at the i32 extremes/around zero plus seeded random; a case = one value converted to its stable form and back",
    trusted_base=["model/Abi.v transcribes the five match tables of chess-api/src/lib.rs; abi_stable's own layout machinery is not modelled"],
)

PROPS["C18"] = dict(
    jobs=lambda ctx: [dict(sub=["bitboard", q(ctx, 3000, 300000)], shards=q(ctx, 1, 8)),
                      dict(sub=["bitboard", q(ctx, 1000, 50000)], native=False, profile="checked"),
                      dict(sub=["bitboard", q(ctx, 1000, 50000)], native=True, profile="release"),
                      dict(sub=["bitboard", q(ctx, 1000, 50000)], native=False, profile="release")],
    rule="every public method/operator of BitBoard and BitBoardIter on: empty, full, all 64 single-square, all 2016 two-square boards, "
         "8 files, 8 ranks, plus seeded random words (sparse/dense mixes); nth(n) for n around count and n in {0..3,7,31,62..65,127,128,2^32,usize::MAX}; "
         "four builds: {target-cpu=native (BMI2 nth), default nth} x {checked (overflow+debug assertions), release}",
    trusted_base=["base/Bits.v, base/BitBoard.v transcribe chess-bitboard/src/lib.rs+ops.rs; u64 <<, !, swap_bytes, trailing_zeros, count_ones and "
                  "_pdep_u64 (Intel pseudo-code) are modelled"],
)

PROPS["C19"] = dict(
    jobs=lambda ctx: [dict(sub=["text", q(ctx, 20000, 2000000), q(ctx, 16, 1)], shards=q(ctx, 1, 8))],
    rule="all 256 single bytes and all 65536 two-byte strings through all six parsers; all 4-byte strings and (quick: 1/16 of, thorough: all) "
         "5-byte strings over the boundary alphabet {a,h,i,A,H,`,@,0,1,8,9,-,space}; seeded random/mutated strings of other lengths; Display of all "
         "squares/files/ranks/moves; from_u8 on all 256 values; neighbour steps/flip on all squares; iterator op sequences (all pairs over a 27-op "
         "alphabet incl. nth(usize::MAX) + random) on the five enumerating iterators",
    trusted_base=["model/Text.v transcribes pos.rs/piece.rs/color.rs/side.rs parsers, Display and ChessMove::from_ascii_bytes; core::ops::Range<u8> "
                  "(next/nth/next_back/nth_back/size_hint) is modelled after std's source"],
)

PROPS["C20"] = dict(
    jobs=lambda ctx: [dict(sub=["tracing", q(ctx, 1500, 60000), q(ctx, 2, 4)], shards=q(ctx, 1, 1))],
    rule="real threads driven one operation at a time (channel hand-off); after every step every thread reports is_enabled(); "
         "all 2-thread schedules up to length 2 (quick) / 4 (thorough) over the 9-operation alphabet, plus seeded random schedules of "
         "2-3 threads and up to 14 operations including nested take/restore",
    trusted_base=["model/Tracing.v transcribes tracing-enabled/src/lib.rs at operation granularity under a sequentially consistent reading; "
                  "thread_local!, Cell and AtomicBool semantics are modelled; weak-memory behaviours without synchronisation are outside the model"],
    assumptions=["each public function touches the shared atomic at most once, so operation-granularity interleavings are complete for the SC reading"],
)
