"""Per-property configuration of ./check : tables to regenerate, correspondence jobs, trusted base, open obligations."""
import os


def q(ctx, quick, thorough):
    return quick if ctx.tier == "quick" else thorough


def run_cex(ctx, spec, broken):
    import cex
    cex.run(ctx, spec, broken)


PROPS = {}

PROPS["C14"] = dict(
    jobs=lambda ctx: [dict(sub=["score", q(ctx, 150, 1500)], shards=q(ctx, 1, 8))],
    rule="all ordered pairs of a pool = boundary scores (sentinels; mate distances 0,1,2,3,255,256,32767,32768,65534,65535 "
         "for both colours; Raw at i32::MIN,MIN+1,-65536,-901,-2,-1,0,1,2,900,65535,65536,MAX-1,MAX) plus seeded random scores; "
         "each pair observed through Ord::cmp, PartialOrd::partial_cmp, ==, <, <=, >, >=, max, min; a case is one pair, "
         "distinct = distinct observation lines",
    trusted_base=["model/Score.v is a hand transcription of chess-engine/src/score.rs (tied by the pairwise comparison above)",
                  "std's derived Ord on ScoreKind (declaration order) and Ord::max/min tie-breaking are modelled"],
    assumptions=["u16/i32 payloads are instances of the unbounded N/Z payloads of the model"],
)
