"""Shared machinery of ./check (see DESIGN.md sections 3-5)."""
import sys, os, json, time, subprocess, hashlib, re, fcntl, shutil, glob, contextlib

REPO = "/repo"
GUARD = "rustyyato_chess_verif"
ALLOWED_ASSUMPTIONS = set()  # every pinned theorem must be "Closed under the global context"
HYGIENE_RE = re.compile(
    r"\b(Admitted|admit|Axiom|Axioms|Parameter|Parameters|Conjecture|Conjectures|Admit Obligations)\b"
    r"|Unset\s+Guard|bypass_check|-type-in-type|-impredicative-set|Unset\s+Universe\s+Checking|Unset\s+Positivity")
TOPLEVEL_VAR_RE = re.compile(r"^\s*(Variable|Variables|Hypothesis|Hypotheses|Context)\b")


class Ctx:
    def __init__(self, root, pid, tier, seed):
        self.root, self.pid, self.tier, self.seed = root, pid, tier, seed
        self.cache = os.path.join(root, ".cache")
        self.target = os.path.join(self.cache, "target")
        self.run_dir = os.path.join(self.cache, "run", pid)
        self.t0 = time.time()
        self.obligations = []      # (name, ok, detail)
        self.violations = []       # dicts
        self.known_seen = []
        self.notes = []
        self.coverage = {}
        self.samples = []
        self.distribution = {}
        os.makedirs(self.run_dir, exist_ok=True)
        os.makedirs(os.path.join(self.cache, "locks"), exist_ok=True)
        os.makedirs(os.path.join(root, "replays"), exist_ok=True)
        os.makedirs(os.path.join(root, "evidence"), exist_ok=True)

    def oblige(self, name, ok, detail=""):
        self.obligations.append((name, bool(ok), detail))

    def log(self, *a):
        print("[check %s]" % self.pid, *a, flush=True)


@contextlib.contextmanager
def flock(ctx, name):
    path = os.path.join(ctx.cache, "locks", name)
    with open(path, "w") as f:
        fcntl.flock(f, fcntl.LOCK_EX)
        try:
            yield
        finally:
            fcntl.flock(f, fcntl.LOCK_UN)


def sh(cmd, timeout, cwd=None, env=None, stdin=None, stdout_path=None):
    e = dict(os.environ)
    e.update({"CARGO_NET_OFFLINE": "true"})
    if env:
        e.update(env)
    try:
        if stdout_path:
            with open(stdout_path, "wb") as fo:
                p = subprocess.run(cmd, cwd=cwd, env=e, stdin=stdin, stdout=fo, stderr=subprocess.PIPE,
                                   timeout=timeout, shell=isinstance(cmd, str))
            return p.returncode, p.stderr.decode("utf-8", "replace")
        p = subprocess.run(cmd, cwd=cwd, env=e, stdin=stdin, stdout=subprocess.PIPE, stderr=subprocess.STDOUT,
                           timeout=timeout, shell=isinstance(cmd, str))
        return p.returncode, p.stdout.decode("utf-8", "replace")
    except subprocess.TimeoutExpired as ex:
        out = (ex.stdout or b"").decode("utf-8", "replace") if not stdout_path else ""
        return 124, out + "\n[timeout after %ss]" % timeout


# ----------------------------------------------------------------------------- Coq side

def run_translator(ctx, which):
    """Regenerate coq/gen/*.v from /repo's working tree (only files whose content changed are rewritten)."""
    # ALL tables are regenerated on every run, whatever the property: a stale coq/gen file left by a run on a different tree
    # would otherwise poison the Coq build of every property whose cone contains it (only changed files are rewritten; ~1 s)
    which = ["all"]
    with flock(ctx, "coq"):
        rc, out = sh([sys.executable, os.path.join(ctx.root, "translator", "rs2v.py"), REPO,
                      os.path.join(ctx.root, "coq", "gen")] + list(which), 600)
    ctx.notes.append("translator: " + out.strip().replace("\n", "; ")[-400:])
    ctx.oblige("translator regenerated coq/gen from /repo (%s)" % ",".join(which), rc == 0, out[-2000:] if rc else "")
    return rc == 0


def coq_make(ctx, targets, timeout=3000):
    coq = os.path.join(ctx.root, "coq")
    with flock(ctx, "coq"):
        sh(["./mk.sh"], 120, cwd=coq)
        rc, out = sh(["make", "-f", "Makefile.coq", "-j16"] + targets, timeout, cwd=coq)
    return rc, out


def coq_props(ctx, pid):
    """Fresh coqc of props/<pid>.v : re-checks every pinned theorem and captures Print Assumptions."""
    coq = os.path.join(ctx.root, "coq")
    os.makedirs(os.path.join(ctx.run_dir, "props"), exist_ok=True)
    tmpvo = os.path.join(ctx.run_dir, "props", pid + ".vo")
    args = ["coqc", "-Q", ".", "Chess", "-w", "-notation-overridden,-deprecated-hint-without-locality",
            "props/%s.v" % pid, "-o", tmpvo]
    with flock(ctx, "coq"):
        rc, out = sh(args, 1800, cwd=coq)
    for ext in ("", "k", "s"):
        with contextlib.suppress(FileNotFoundError):
            os.remove(tmpvo + ext)
    with contextlib.suppress(FileNotFoundError):
        os.remove(os.path.join(coq, "props", "." + pid + ".aux"))
    src = open(os.path.join(coq, "props", pid + ".v")).read()
    src_nc = strip_comments(src)
    thms = re.findall(r"^\s*(?:Theorem|Corollary)\s+(\w+)", src_nc, re.M)
    prints = re.findall(r"^\s*Print Assumptions\s+(\w+)\s*\.", src_nc, re.M)
    closed = out.count("Closed under the global context")
    axioms = re.findall(r"^Axioms:\s*$", out, re.M)
    ok = rc == 0
    ctx.oblige("coqc props/%s.v (all pinned theorems re-checked)" % pid, ok, out[-3000:] if not ok else "")
    for t in thms:
        ctx.oblige("theorem %s" % t, ok)
    missing = [t for t in thms if t not in prints]
    ctx.oblige("Print Assumptions under every pinned theorem", not missing, "missing: %s" % missing)
    ctx.oblige("every pinned theorem is closed under the global context (%d/%d)" % (closed, len(prints)),
               ok and not axioms and closed == len(prints), out[-1500:] if (axioms or closed != len(prints)) else "")
    ctx.coverage["pinned_theorems"] = thms
    ctx.coverage["props_sha256"] = hashlib.sha256(src.encode()).hexdigest()
    return ok, out


def coq_chk(ctx, pid):
    """independent re-check of props/<pid>.vo and everything it depends on (thorough tier)"""
    coq = os.path.join(ctx.root, "coq")
    with flock(ctx, "coq"):
        rc, out = sh(["coqchk", "-silent", "-o", "-Q", ".", "Chess", "Chess.props.%s" % pid], 7200, cwd=coq)
    ok = rc == 0 and "* Axioms: <none>" in out and "type-in-type: <none>" in out and "positivity is assumed: <none>" in out \
        and "unsafe (co)fixpoints: <none>" in out
    ctx.oblige("coqchk -o Chess.props.%s : re-checked by the independent checker, Axioms: <none>" % pid, ok, out[-1500:] if not ok else "")
    ctx.coverage["coqchk"] = out[-400:].strip()
    return ok


def strip_comments(s):
    out, depth, i = [], 0, 0
    while i < len(s):
        if s.startswith("(*", i):
            depth += 1; i += 2
        elif s.startswith("*)", i) and depth:
            depth -= 1; i += 2
        else:
            if not depth:
                out.append(s[i])
            i += 1
    return "".join(out)


def hygiene(ctx):
    bad = []
    coq = os.path.join(ctx.root, "coq")
    for path in glob.glob(os.path.join(coq, "**", "*.v"), recursive=True):
        if "/scratch/" in path:
            continue
        txt = strip_comments(open(path, errors="replace").read())
        depth = 0
        for ln, line in enumerate(txt.split("\n"), 1):
            if HYGIENE_RE.search(line):
                bad.append("%s:%d: %s" % (os.path.relpath(path, coq), ln, line.strip()[:100]))
            if re.match(r"^\s*Section\b", line):
                depth += 1
            if re.match(r"^\s*End\b", line) and depth:
                depth -= 1
            if depth == 0 and TOPLEVEL_VAR_RE.match(line):
                bad.append("%s:%d: top-level %s" % (os.path.relpath(path, coq), ln, line.strip()[:100]))
    for f in ("_CoqProject",):
        p = os.path.join(coq, f)
        if os.path.exists(p) and re.search(r"type-in-type|impredicative-set|-vos|bypass", open(p).read()):
            bad.append(f + ": forbidden flag")
    ctx.oblige("hygiene: no Admitted/admit/Axiom/Parameter/Conjecture/top-level Variable/unset checks in coq/**", not bad,
               "\n".join(bad[:40]))
    return not bad


# ----------------------------------------------------------------------------- Rust / OCaml side

def profile_dir(profile, native):
    return ("native-" if native else "plain-") + profile


def build_harness(ctx, profile="checked", native=True):
    tdir = os.path.join(ctx.target, profile_dir(profile, native))
    flags = "--cfg %s" % GUARD + (" -Ctarget-cpu=native" if native else "")
    hdir = os.path.join(ctx.root, "harness")
    with flock(ctx, "cargo-" + profile_dir(profile, native)):
        rc, out = sh(["cargo", "build", "--offline", "--profile", profile], 1800, cwd=hdir,
                     env={"CARGO_TARGET_DIR": tdir, "RUSTFLAGS": flags})
    binp = os.path.join(tdir, profile, "vh")
    ctx.oblige("harness rebuilt against /repo working tree (%s)" % profile_dir(profile, native), rc == 0,
               out[-3000:] if rc else "")
    return binp if rc == 0 else None


def build_bot(ctx):
    """cdylib of /repo/chess-bot, loaded by the harness through ChessApiRef::load_from_file."""
    tdir = os.path.join(ctx.target, "bot")
    with flock(ctx, "cargo-bot"):
        rc, out = sh(["cargo", "build", "--offline", "--release", "-p", "chess-bot"], 1800, cwd=REPO,
                     env={"CARGO_TARGET_DIR": tdir})
    so = os.path.join(tdir, "release", "libchess_bot.so")
    ctx.oblige("chess-bot cdylib rebuilt from /repo", rc == 0 and os.path.exists(so), out[-3000:] if rc else "")
    return so if rc == 0 else None


def build_driver(ctx):
    oc = os.path.join(ctx.root, "ocaml")
    with flock(ctx, "ocaml"):
        drv = os.path.join(oc, "driver")
        srcs = [os.path.join(oc, f) for f in ("model.ml", "conv.ml", "driver.ml")]
        if not os.path.exists(srcs[0]):
            return None
        if os.path.exists(drv) and all(os.path.getmtime(s) <= os.path.getmtime(drv) for s in srcs):
            return drv
        rc, out = sh(["./build.sh"], 1200, cwd=oc)
    ctx.oblige("extracted model compiled (ocaml/driver)", rc == 0, out[-3000:] if rc else "")
    return drv if rc == 0 else None


def shard_seed(seed, i):
    return (seed * 1000003 + i * 7919 + 1) % (2 ** 63)


def run_jobs(ctx, vh, driver, jobs, extra_env=None):
    """Each job: dict(sub=[args...], shards=int, timeout=s). Runs harness | driver per shard (16-way parallel).
    Returns list of (job, shard, obs_path, res_path, rc_h, rc_d, err)."""
    import concurrent.futures as cf
    tasks = []
    for ji, job in enumerate(jobs):
        for s in range(job.get("shards", 1)):
            tasks.append((ji, job, s))
    results = []

    def one(t):
        ji, job, s = t
        obs = os.path.join(ctx.run_dir, "j%d.s%d.obs" % (ji, s))
        res = os.path.join(ctx.run_dir, "j%d.s%d.res" % (ji, s))
        env = {"VERIF_SEED": str(shard_seed(ctx.seed, s) if job.get("shards", 1) > 1 else ctx.seed),
               "VERIF_TIER": ctx.tier, "VERIF_ROOT": ctx.root,
               "VERIF_SHARD": str(s), "VERIF_SHARDS": str(job.get("shards", 1))}
        if extra_env:
            env.update(extra_env)
        binp = job.get("bin", vh)
        rc_h, err = sh([binp] + [str(a) for a in job["sub"]], job.get("timeout", 1500), stdout_path=obs, env=env)
        rc_d, err2 = 0, ""
        if rc_h == 0 and not job.get("no_driver"):
            with open(obs, "rb") as fi:
                rc_d, err2 = sh([driver], job.get("timeout", 1500), stdin=fi, stdout_path=res)
        return (job, s, obs, res, rc_h, rc_d, (err or "")[-1500:] + (err2 or "")[-1500:])

    with cf.ThreadPoolExecutor(max_workers=16) as ex:
        for r in ex.map(one, tasks):
            results.append(r)
    return results


def collect(ctx, results, known):
    """Parse driver outputs; classify DIFFs; gather stats / samples / distinct counts."""
    stats = {}
    diffs = []
    seen = set()
    total = 0
    dist = {}
    for (job, s, obs, res, rc_h, rc_d, err) in results:
        name = " ".join(str(a) for a in job["sub"]) + "#%d" % s
        if rc_h != 0:
            # the harness itself died: a panic/abort of the implementation outside catch_unwind
            ctx.oblige("harness run %s" % name, False, "exit %s: %s" % (rc_h, err))
            last = ""
            with contextlib.suppress(Exception):
                with open(obs, errors="replace") as f:
                    lines = f.read().split("\n")
                    last = lines[-2] if len(lines) > 1 else ""
            diffs.append(dict(kind="CRASH", what="spec:harness-crash", expected="no panic/abort",
                              line="%s exit=%s last=%s err=%s" % (name, rc_h, last[:300], err[-600:].replace("\n", " | "))))
            continue
        if rc_d != 0:
            ctx.oblige("driver run %s" % name, False, "exit %s: %s" % (rc_d, err))
            diffs.append(dict(kind="DRIVER", what="model:driver-crash", expected="", line=name + " " + err[-300:]))
            continue
        with open(obs, errors="replace") as f:
            for line in f:
                line = line.rstrip("\n")
                if not line:
                    continue
                if line.startswith("DIST\t"):
                    parts = line.split("\t")
                    for kv in parts[1:]:
                        if "=" in kv:
                            k, v = kv.split("=", 1)
                            with contextlib.suppress(ValueError):
                                dist[k] = dist.get(k, 0) + int(v)
                    continue
                total += 1
                h = hash(line)
                if h not in seen:
                    seen.add(h)
                    if len(ctx.samples) < 6 and (len(seen) % 97 == 1 or len(ctx.samples) < 2):
                        ctx.samples.append(line[:400])
        if job.get("no_driver"):
            continue
        with open(res, errors="replace") as f:
            for line in f:
                line = line.rstrip("\n")
                p = line.split("\t")
                if p[0] == "STAT" and len(p) >= 4:
                    a, b = stats.get(p[1], (0, 0))
                    stats[p[1]] = (a + int(p[2]), b + int(p[3]))
                elif p[0] == "DIFF" and len(p) >= 5:
                    diffs.append(dict(kind=p[1], what=p[2], expected=p[3], line="\t".join(p[4:])))
    ctx.coverage["evaluations"] = ctx.coverage.get("evaluations", 0) + total
    ctx.coverage["distinct_nontrivial"] = ctx.coverage.get("distinct_nontrivial", 0) + len(seen)
    ctx.coverage.setdefault("per_kind", {}).update({k: {"lines": a, "lines_with_diff": b} for k, (a, b) in stats.items()})
    if dist:
        ctx.distribution.update(dist)
    return diffs


def coq_sample(ctx, results, n):
    """Second opinion that bypasses extraction and the OCaml driver: a sample of the implementation's observations is
    re-evaluated INSIDE Coq (vm_compute over the very definitions the theorems are about) by one coqc call.
    PO lines only: legals (model) and Rules.legal_moves (spec) of the parsed position against the implementation's move set."""
    lines = []
    seen = set()
    for (job, s, obs, res, rc_h, rc_d, err) in results:
        if rc_h != 0:
            continue
        with contextlib.suppress(Exception):
            with open(obs, errors="replace") as f:
                for line in f:
                    if line.startswith("PO\t"):
                        p = line.rstrip("\n").split("\t")
                        if len(p) > 3 and p[1] not in seen:
                            seen.add(p[1])
                            lines.append(p)
    if not lines:
        return []
    step = max(1, len(lines) // n)
    pick = lines[::step][:n]
    promo = {"-": "None", "n": "(Some Knight)", "b": "(Some Bishop)", "r": "(Some Rook)", "q": "(Some Queen)"}

    def mv(t):
        a, b, c = t.split(".")
        return "mk %d %d %s" % (int(a), int(b), promo[c])
    cases = []
    for p in pick:
        fen = "[" + ";".join(str(b) for b in p[1].encode()) + "]"
        mvs = "[" + "; ".join(mv(t) for t in p[3].split(" ") if t) + "]"
        cases.append("(%s, %s)" % (fen, mvs))
    src = ("From Coq Require Import NArith List Bool. Import ListNotations.\n"
           "From Chess Require Import base.Types model.Board model.MoveGen model.Fen spec.Rules proofs.CoreFacts.\n"
           "Local Open Scope N_scope.\n"
           "Definition mk (s d : N) (p : option piece) : move := {| m_src := s; m_dst := d; m_promo := p |}.\n"
           "Definition ok1 (c : list N * list move) : bool * bool :=\n"
           "  match parse_fen (fst c) with\n"
           "  | Some b => (moves_sorted_eqb (legals b) (snd c), moves_sorted_eqb (legal_moves (Board.abs b)) (snd c))\n"
           "  | None => (false, false) end.\n"
           "Definition cases : list (list N * list move) := [\n  " + ";\n  ".join(cases) + "].\n"
           "Eval vm_compute in map ok1 cases.\n")
    path = os.path.join(ctx.run_dir, "cases_%s.v" % ctx.pid)
    with open(path, "w") as f:
        f.write(src)
    rc, out = sh(["coqc", "-noglob", "-Q", os.path.join(ctx.root, "coq"), "Chess", "-w", "-notation-overridden,-deprecated-hint-without-locality",
                  path], 900, cwd=ctx.run_dir)
    toks = re.findall(r"\b(true|false)\b", out) if rc == 0 else []
    ok = rc == 0 and len(toks) == 2 * len(pick)
    ctx.oblige("in-Coq re-evaluation (vm_compute, no extraction) of %d sampled positions ran" % len(pick), ok, out[-1500:] if not ok else "")
    ctx.coverage["in_coq_cases"] = len(pick)
    diffs = []
    if ok:
        for i, p in enumerate(pick):
            if toks[2 * i] != "true":
                diffs.append(dict(kind="COQ", what="model:legal-moves evaluated inside Coq (vm_compute) = implementation", expected="true", line="\t".join(p)[:600]))
            if toks[2 * i + 1] != "true":
                diffs.append(dict(kind="COQ", what="spec:legal-moves = Rules.legal_moves evaluated inside Coq (vm_compute)", expected="true", line="\t".join(p)[:600]))
    return diffs


def classify(ctx, diffs, known):
    """spec:* diffs are concrete failing inputs (implementation contradicts the reference semantics);
    model:* diffs alone mean the correspondence broke without a failing input being found."""
    unknown = []
    for d in diffs:
        kf = match_known(known, ctx.pid, d)
        if kf:
            if kf["id"] not in [k["id"] for k in ctx.known_seen]:
                ctx.known_seen.append(kf)
            continue
        unknown.append(d)
    return unknown


def match_known(known, pid, d):
    for k in known.get("findings", []):
        if k.get("property") != pid or k.get("status") != "known":
            continue
        m = k.get("match", {})
        if m.get("kind") and m["kind"] != d["kind"]:
            continue
        if m.get("what") and not re.search(m["what"], d["what"]):
            continue
        if m.get("line") and not re.search(m["line"], d["line"]):
            continue
        return k
    return None


def load_known(root):
    p = os.path.join(root, "known_findings.json")
    if os.path.exists(p):
        return json.load(open(p))
    return {"findings": []}


def write_replay(ctx, kind, broken, d, extra=None):
    n = len(glob.glob(os.path.join(ctx.root, "replays", "%s-%d-*.json" % (ctx.pid, ctx.seed))))
    path = os.path.join(ctx.root, "replays", "%s-%d-%d.json" % (ctx.pid, ctx.seed, n))
    head = sh(["git", "-C", REPO, "rev-parse", "HEAD"], 30)[1].strip()
    rec = dict(property=ctx.pid, kind=kind, broken=broken, case=d.get("line", ""), what=d.get("what", ""),
               expected=d.get("expected", ""), repo_head=head, seed=ctx.seed, tier=ctx.tier,
               how_to_replay="./check %s --replay %s" % (ctx.pid, path))
    if extra:
        rec.update(extra)
    json.dump(rec, open(path, "w"), indent=1)
    return path


def write_evidence(ctx, spec, status_ok):
    obl = len(ctx.obligations)
    dis = sum(1 for _, ok, _ in ctx.obligations if ok)
    cov = dict(ctx.coverage)
    cov.update(dict(
        obligations=obl, discharged=dis,
        obligation_list=[dict(name=n, ok=ok, **({"detail": d[:600]} if (d and not ok) else {})) for n, ok, d in ctx.obligations],
        checker_cmd=spec.get("checker_cmd", "cd /verif/coq && ./mk.sh && make -f Makefile.coq -j16 props/%s.vo && coqc -Q . Chess props/%s.v" % (ctx.pid, ctx.pid)),
        trusted_base=spec.get("trusted_base", []) + COMMON_TRUSTED,
        rule=spec.get("rule", ""),
        samples=ctx.samples[:8] or ["(no correspondence cases in this run)"],
        distribution=ctx.distribution,
        known_findings_seen=[k["id"] for k in ctx.known_seen],
        notes=ctx.notes[-10:],
        open_obligations=spec.get("open", []),
    ))
    cov.setdefault("evaluations", 0)
    cov.setdefault("distinct_nontrivial", 0)
    if spec.get("exhaustive"):
        cov["exhaustive"] = True
    ev = dict(property_id=ctx.pid, tier=ctx.tier, seed=ctx.seed, level="proof", coverage=cov,
              assumptions=spec.get("assumptions", []), wall_s=round(time.time() - ctx.t0, 2),
              violations=len(ctx.violations))
    # VERIF_EVIDENCE_DIR: used only by tools/try_mutant.sh, so that a run against a deliberately broken tree
    # can never leave its (failing) record in the committed evidence directory
    edir = os.environ.get("VERIF_EVIDENCE_DIR") or os.path.join(ctx.root, "evidence")
    os.makedirs(edir, exist_ok=True)
    path = os.path.join(edir, ctx.pid + ".json")
    tmp = path + ".tmp"
    json.dump(ev, open(tmp, "w"), indent=1)
    os.replace(tmp, path)


COMMON_TRUSTED = [
    "Coq 8.16.1 kernel and its VM (vm_compute); no native_compute; guard/positivity/universe checks on",
    "no axioms: every pinned theorem prints 'Closed under the global context'",
    "extraction: ExtrOcamlBasic only (bool/option/unit/list/prod/sumbool/sumor mapped, andb/orb/negb/fst/snd inlined); N/Z/positive stay inductives; no Extract Constant; OCaml 4.13.1; ocaml/conv.ml+driver.ml (I/O only)",
    "correspondence (model = code) is differential testing by harness/ against /repo's working tree; rustc 1.95; panic detection by catch_unwind / process exit status",
]


# ----------------------------------------------------------------------------- main flow

def main(root, argv):
    import props as P
    if not argv or argv[0] in ("-h", "--help"):
        print(__doc__ or "usage: ./check Cnn [--tier quick|thorough] [--replay file]")
        return 2
    pid = argv[0]
    tier = os.environ.get("VERIF_TIER", "quick")
    replay = None
    i = 1
    while i < len(argv):
        if argv[i] == "--tier":
            tier = argv[i + 1]; i += 2
        elif argv[i] == "--replay":
            replay = argv[i + 1]; i += 2
        else:
            i += 1
    if tier not in ("quick", "thorough"):
        tier = "quick"
    try:
        seed = int(os.environ.get("VERIF_SEED", "1"))
    except ValueError:
        seed = 1
    if pid not in P.PROPS:
        print("unknown property", pid)
        return 2
    ctx = Ctx(root, pid, tier, seed)
    spec = P.PROPS[pid]
    if replay:
        return do_replay(ctx, spec, replay)
    known = load_known(root)
    ok = True

    # -- 1. translator + theorems
    run_translator(ctx, spec.get("tables", []))
    targets = ["props/%s.vo" % pid, "extract/Extract.vo"]
    rc, out = coq_make(ctx, targets)
    coq_ok = rc == 0
    ctx.oblige("make %s (full .vo build of the dependency cone)" % " ".join(targets), coq_ok, out[-4000:] if not coq_ok else "")
    if coq_ok:
        pok, pout = coq_props(ctx, pid)
        coq_ok = coq_ok and pok
    hygiene(ctx)
    if coq_ok and tier == "thorough" and not spec.get("no_coqchk"):
        coq_chk(ctx, pid)
    broken_proof = None
    if not coq_ok:
        m = re.search(r'File "\./([^"]+)", line (\d+)', out)
        broken_proof = "%s (line %s)" % (m.group(1), m.group(2)) if m else "coq build of props/%s.vo" % pid
        # translator-tied sweep theorems: look for a concrete failing table entry
        if spec.get("cex"):
            P.run_cex(ctx, spec, broken_proof)

    # -- 2. correspondence
    vh = build_harness(ctx, "checked", True)
    driver = build_driver(ctx) if coq_ok or os.path.exists(os.path.join(root, "ocaml", "driver")) else None
    diffs = []
    if vh and driver:
        jobs = spec["jobs"](ctx) if callable(spec.get("jobs")) else spec.get("jobs", [])
        for j in jobs:
            if j.get("profile") or j.get("native") is not None:
                b = build_harness(ctx, j.get("profile", "checked"), j.get("native", True))
                if not b:
                    continue
                j["bin"] = b
            if j.get("needs_bot"):
                so = build_bot(ctx)
                j.setdefault("sub", []).append(so or "/nonexistent")
        results = run_jobs(ctx, vh, driver, jobs)
        diffs = collect(ctx, results, known)
        if spec.get("coq_sample") and coq_ok:
            diffs += coq_sample(ctx, results, spec["coq_sample"])
    else:
        ctx.oblige("correspondence could run", False, "harness or driver failed to build")
        if not vh:
            diffs.append(dict(kind="BUILD", what="model:harness-build-failed", expected="", line="cargo build failed against /repo"))
    rel = spec.get("relevant")
    if rel:
        rr = re.compile(rel)
        other = [d for d in diffs if not (rr.search(d["what"]) or rr.search(d["kind"]))]
        diffs = [d for d in diffs if rr.search(d["what"]) or rr.search(d["kind"])]
        if other:
            ctx.notes.append("disagreements about OTHER properties seen in shared observations (reported by their own checks): %d, e.g. %s"
                             % (len(other), other[0]["what"]))
    unknown = classify(ctx, diffs, known)
    spec_diffs = [d for d in unknown if d["what"].startswith("spec:")]
    model_diffs = [d for d in unknown if not d["what"].startswith("spec:")]
    ctx.oblige("correspondence: implementation = model/spec on every case (%d unexplained disagreements)" % len(unknown),
               not unknown, json.dumps(unknown[:5])[:1500])

    for k in ctx.known_seen:
        print("KNOWN-FINDING: property=%s %s" % (pid, k.get("what_fails", k["id"])))

    # -- 3. verdict
    if spec_diffs:
        d = spec_diffs[0]
        path = write_replay(ctx, "concrete", "impl contradicts spec: " + d["what"], d, dict(n_disagreements=len(unknown)))
        ctx.violations.append(dict(path=path, **d))
        print("VIOLATION property=%s replay=%s" % (pid, path))
        ok = False
    elif ctx.violations:
        for v in ctx.violations:
            print("VIOLATION property=%s replay=%s%s" % (pid, v["path"], v.get("suffix", "")))
        ok = False
    elif model_diffs or not coq_ok or any(not o for _, o, _ in ctx.obligations):
        first_bad = next((n for n, o, _ in ctx.obligations if not o), "")
        d = model_diffs[0] if model_diffs else dict(line="", what=first_bad, expected="")
        broken = broken_proof or ("correspondence impl=model: " + d["what"] if model_diffs else first_bad)
        path = write_replay(ctx, "no-failing-input-found", broken, d,
                            dict(failed_obligations=[(n, dd[:800]) for n, o, dd in ctx.obligations if not o]))
        ctx.violations.append(dict(path=path))
        print("VIOLATION property=%s replay=%s no-failing-input-found" % (pid, path))
        ok = False
    write_evidence(ctx, spec, ok)
    ctx.log("%s tier=%s seed=%d obligations=%d/%d evaluations=%s wall=%.1fs" % (
        "OK" if ok else "FAIL", tier, seed, sum(1 for _, o, _ in ctx.obligations if o), len(ctx.obligations),
        ctx.coverage.get("evaluations"), time.time() - ctx.t0))
    return 0 if ok else 1


def do_replay(ctx, spec, path):
    rec = json.load(open(path))
    ctx.log("replaying", path)
    print(json.dumps(rec, indent=1)[:3000])
    case = rec.get("case", "")
    if not case or rec.get("kind") == "no-failing-input-found" and not case:
        print("nothing concrete to replay; broken obligation:", rec.get("broken"))
        return 1
    vh = build_harness(ctx, "checked", True)
    driver = build_driver(ctx)
    if not (vh and driver):
        return 2
    obs = os.path.join(ctx.run_dir, "replay.obs")
    res = os.path.join(ctx.run_dir, "replay.res")
    rc, err = sh([vh, "replay", case], 600, stdout_path=obs, env={"VERIF_ROOT": ctx.root})
    if rc != 0:
        print("implementation crashed on the replayed case (exit %s): %s" % (rc, err[-800:]))
        print("VIOLATION property=%s replay=%s" % (ctx.pid, path))
        return 1
    with open(obs, "rb") as fi:
        sh([driver], 600, stdin=fi, stdout_path=res)
    out = open(res).read()
    print(open(obs).read()[:2000])
    print(out[:4000])
    if "DIFF\t" in out:
        print("VIOLATION property=%s replay=%s" % (ctx.pid, path))
        return 1
    print("replayed case now agrees")
    return 0
