(* Correspondence driver: reads the implementation's observation lines (one per case) on stdin,
   recomputes each with the extracted Coq model / spec, and reports every disagreement.
   Output: "DIFF\t<kind>\t<what>\t<expected-by-model>\t<line>" per disagreement,
           "STAT\t<kind>\t<lines>\t<diffs>" per kind at the end. *)
open Model
open Conv

let stats : (string, int * int) Hashtbl.t = Hashtbl.create 16
let bump kind d =
  let (a, b) = try Hashtbl.find stats kind with Not_found -> (0, 0) in
  Hashtbl.replace stats kind (a + 1, b + d)
(* model: disagreements are capped (a changed error variant can produce thousands); spec: disagreements - concrete failing
   inputs - have their own, separate budget so that they are never crowded out *)
let ndiff_printed = ref 0
let nspec_printed = ref 0
let diff kind what expected line =
  let is_spec = String.length what >= 5 && String.sub what 0 5 = "spec:" in
  if is_spec then begin
    incr nspec_printed;
    if !nspec_printed <= 2000 then Printf.printf "DIFF\t%s\t%s\t%s\t%s\n" kind what expected line
  end else begin
    incr ndiff_printed;
    if !ndiff_printed <= 2000 then Printf.printf "DIFF\t%s\t%s\t%s\t%s\n" kind what expected line
  end

(* ---------- C14 scores ---------- *)
let score_of_string (s : string) : score =
  let rest = String.sub s 1 (String.length s - 1) in
  match s.[0] with
  | 'm' -> SMin | 'M' -> SMax
  | 'b' -> SBlackMateIn (n_of_int (int_of_string rest))
  | 'w' -> SWhiteMateIn (n_of_int (int_of_string rest))
  | 'r' -> SRaw (z_of_int (int_of_string rest))
  | _ -> failwith "score"
let string_of_score = function
  | SMin -> "m" | SMax -> "M"
  | SBlackMateIn n -> "b" ^ string_of_int (int_of_n n)
  | SWhiteMateIn n -> "w" ^ string_of_int (int_of_n n)
  | SRaw z -> "r" ^ string_of_int (int_of_z z)
let ordc = function Eq -> "E" | Lt -> "L" | Gt -> "G"
let b01 b = if b then "1" else "0"

let check_sc line f =
  match f with
  | [_; a; b; c; pc; e; rel; mx; mn] ->
    let a' = score_of_string a and b' = score_of_string b in
    let c' = api_score_cmp a' b' in
    let exp_cmp = ordc c' in
    let exp_pc = (match api_score_partial_cmp a' b' with Some o -> ordc o | None -> "N") in
    let exp_eq = b01 (api_score_eqb a' b') in
    let exp_rel = b01 (api_score_ltb a' b') ^ b01 (api_score_leb a' b') ^ b01 (api_score_gtb a' b') ^ b01 (api_score_leb b' a') in
    let exp_mx = string_of_score (api_score_max a' b') and exp_mn = string_of_score (api_score_min a' b') in
    let d = ref 0 in
    let chk what e g = if e <> g then (incr d; diff "SC" ("spec:" ^ what) e line) in
    chk "cmp" exp_cmp c; chk "partial_cmp" exp_pc pc; chk "eq" exp_eq e; chk "rel" exp_rel rel;
    chk "max" exp_mx mx; chk "min" exp_mn mn;
    bump "SC" (if !d > 0 then 1 else 0)
  | _ -> failwith "SC fields"


(* ---------- helpers ---------- *)
let hx = n_of_hex
let ni s = n_of_int (int_of_string s)
let opt_n_str = function None -> "-" | Some x -> string_of_int (int_of_n x)
let cmp_line kind line (checks : (string * string * string) list) =
  (* (what, expected, got) *)
  let d = ref 0 in
  List.iter (fun (w, e, g) -> if e <> g then (incr d; diff kind w e line)) checks;
  bump kind (if !d > 0 then 1 else 0)
let hn x = hex_of_n x
let norm_hex s = hex_of_n (n_of_hex s)

(* ---------- C08 / C09 tables ---------- *)
let table_index = function
  | "knight" | "g_knight" -> 0 | "king" | "g_king" -> 1 | "rook_rays" | "g_rook_rays" -> 2
  | "bishop_rays" | "g_bishop_rays" -> 3 | "pawn_att0" | "g_pawn_att0" -> 4 | "pawn_att1" | "g_pawn_att1" -> 5
  | "g_pawn_quiet0" -> 6 | "g_pawn_quiet1" -> 7 | _ -> 99
let nl l = List.map n_of_int l
let const_expected name : n option =
  let r = api_ranks and f = api_files in
  let lor_ a b = api_or a b in
  let pre p = String.length name > String.length p && String.sub name 0 (String.length p) = p in
  let idx p = int_of_string (String.sub name (String.length p) (String.length name - String.length p)) in
  match name with
  | "PAWN_DOUBLE_SOURCE" -> Some (r (nl [1; 6])) | "PAWN_DOUBLE_DEST" -> Some (r (nl [3; 4]))
  | "BACKRANK_BB0" -> Some (r (nl [0])) | "BACKRANK_BB1" -> Some (r (nl [7]))
  | "CASTLE_MOVES" -> Some (api_squares (nl [2; 4; 6; 58; 60; 62]))
  | "PAWN_DOUBLE_MOVE0" -> Some (r (nl [1; 3])) | "PAWN_DOUBLE_MOVE1" -> Some (r (nl [4; 6]))
  | "ROOK_CASTLE_QUEENSIDE" -> Some (f (nl [0; 3])) | "ROOK_CASTLE_KINGSIDE" -> Some (f (nl [7; 5]))
  | "KINGSIDE_CASTLE_FILES" -> Some (f (nl [5; 6])) | "QUEENSIDE_CASTLE_FILES" -> Some (f (nl [1; 2; 3]))
  | "KINGSIDE_CASTLE_SAFE_FILES" -> Some (f (nl [5; 6])) | "QUEENSIDE_CASTLE_SAFE_FILES" -> Some (f (nl [2; 3]))
  | "BACKRANK0" -> Some (n_of_int 0) | "BACKRANK1" -> Some (n_of_int 7)
  | "PROMOTION_RANK0" -> Some (n_of_int 7) | "PROMOTION_RANK1" -> Some (n_of_int 0)
  | "PAWN_DOUBLE_MOVE_SOURCE_RANK0" -> Some (n_of_int 1) | "PAWN_DOUBLE_MOVE_SOURCE_RANK1" -> Some (n_of_int 6)
  | "PAWN_DOUBLE_MOVE_DEST_RANK0" -> Some (n_of_int 3) | "PAWN_DOUBLE_MOVE_DEST_RANK1" -> Some (n_of_int 4)
  | _ ->
    ignore lor_;
    if pre "ADJACENT_FILES" then Some (api_adjacent (n_of_int (idx "ADJACENT_FILES")))
    else if pre "ADJACENT_RANKS" then Some (api_adjacent_ranks (n_of_int (idx "ADJACENT_RANKS")))
    else if pre "CASTLE_ROOK_START" then Some (n_of_int (if idx "CASTLE_ROOK_START" < 4 then 0 else 7))
    else if pre "CASTLE_ROOK_END" then Some (n_of_int (if idx "CASTLE_ROOK_END" < 4 then 3 else 5))
    else None

let check_tables line f =
  match f with
  | ["TB"; name; s; v] ->
    cmp_line "TB" line [("spec:" ^ name, hn (api_table (n_of_int (table_index name)) (ni s)), norm_hex v)]
  | ["TP"; a; b; bt; ln; d] ->
    let a = ni a and b = ni b in
    cmp_line "TP" line [("spec:between", hn (api_between a b), norm_hex bt); ("spec:line", hn (api_line a b), norm_hex ln);
                        ("spec:distance", string_of_int (int_of_n (api_dist a b)), d)]
  | ["TG"; a; b; bt; ln] ->
    let a = ni a and b = ni b in
    cmp_line "TG" line [("spec:gen_between", hn (api_between a b), norm_hex bt); ("spec:gen_line", hn (api_line a b), norm_hex ln)]
  | ["TC"; name; v] ->
    (match const_expected name with
     | Some e -> cmp_line "TC" line [("spec:" ^ name, hn e, norm_hex v)]
     | None -> cmp_line "TC" line [("model:unknown-constant", "?", name)])
  | ["PW"; s; c; occ; q; a; m] ->
    let s = ni s and c = ni c and occ = hx occ in
    cmp_line "PW" line [("spec:pawn_quiets", hn (api_pawn_quiets c s occ), norm_hex q);
                        ("spec:pawn_attacks", hn (api_pawn_attacks c s occ), norm_hex a);
                        ("spec:pawn_moves", hn (api_pawn_moves c s occ), norm_hex m)]
  | ["MG"; k; s; occ; r] ->
    let s = ni s and occ = hx occ in
    let e = if k = "R" then api_rook_attacks s occ else api_bishop_attacks s occ in
    cmp_line "MG" line [("spec:" ^ (if k = "R" then "rook_moves" else "bishop_moves"), hn e, norm_hex r)]
  | ["ZK"; kind; i; v] ->
    let k = match kind with "piece" -> 0 | "castle" -> 1 | "ep" -> 2 | _ -> 3 in
    cmp_line "ZK" line [("model:zobrist-key-" ^ kind, hn (api_zk (n_of_int k) (ni i)), norm_hex v)]
  | _ -> failwith "table fields"

(* ---------- C18 bitboards ---------- *)
let sq_csv l = String.concat "," (List.map (fun x -> string_of_int (int_of_n x)) l)
let check_bb line f =
  match f with
  | ["BU"; a; nt; up; dn; lf; rt; fl; cnt; flags; it] ->
    let a = hx a in
    let els = api_elements a in
    let len = List.length els in
    let eflags = b01 (api_any a) ^ b01 (api_none a) ^ b01 (api_all a) ^ b01 (api_some a) in
    cmp_line "BU" line
      [("spec:not", hn (api_bb_not a), norm_hex nt); ("spec:shift_up", hn (api_shift_up a), norm_hex up);
       ("spec:shift_down", hn (api_shift_down a), norm_hex dn); ("spec:shift_left", hn (api_shift_left a), norm_hex lf);
       ("spec:shift_right", hn (api_shift_right a), norm_hex rt); ("spec:flip_ranks", hn (api_flip_ranks a), norm_hex fl);
       ("spec:count", string_of_int len, cnt); ("spec:any/none/all/some", eflags, flags);
       ("spec:iter", Printf.sprintf "%d:%d:%s" len len (sq_csv els), it)]
  | ["BP"; a; r; rest] ->
    let a = hx a in
    let (er, erest) = match api_pop a with None -> ("-", a) | Some (s, a') -> (string_of_int (int_of_n s), a') in
    (* set-level: least element removed *)
    let (sr, srest) = match api_elements a with [] -> ("-", a) | s :: _ -> (string_of_int (int_of_n s), api_cleared a s) in
    cmp_line "BP" line [("spec:pop", sr, r); ("spec:pop-rest", hn srest, norm_hex rest); ("model:pop", er, r); ("model:pop-rest", hn erest, norm_hex rest)]
  | ["BF"; a; sq; bs] ->
    let a = hx a in
    cmp_line "BF" line [("spec:from_iter<Pos>", hn (api_from_squares (api_elements a)), norm_hex sq);
                        ("spec:from_iter<BitBoard>", hn (api_from_boards (List.map api_from_pos (api_elements a))), norm_hex bs)]
  | ["BS"; a; s; c; w; cl; agree] ->
    let a = hx a and s = ni s in
    cmp_line "BS" line [("spec:contains", b01 (api_contains a s), c); ("spec:with", hn (api_with a s), norm_hex w);
                        ("spec:cleared", hn (api_cleared a s), norm_hex cl); ("spec:set/clear/sub agree", "11", agree)]
  | ["BB"; a; b; o; an; x; d; agree] ->
    let a = hx a and b = hx b in
    cmp_line "BB" line [("spec:or", hn (api_or a b), norm_hex o); ("spec:and", hn (api_and a b), norm_hex an);
                        ("spec:xor", hn (api_xor a b), norm_hex x); ("spec:diff", hn (api_diff a b), norm_hex d);
                        ("spec:assign-ops agree", "1", agree)]
  | ["BN"; _; _; "TRAP"; _] -> cmp_line "BN" line [("spec:bitboard iterator nth never panics", "no-TRAP", "TRAP")]
  | ["BN"; a; n; r; rest] ->
    let a = hx a and n = hx n in
    let (er, erest) = api_nth_spec a n in
    cmp_line "BN" line [("spec:nth", opt_n_str er, r); ("spec:nth-rest", hn erest, norm_hex rest)]
  | ["BG"; a; b; c1; c2; c3] ->
    let a = hx a and b = hx b in
    cmp_line "BG" line [("spec:from_iter<BitBoard> of overlapping boards [a;b;a] = union", hn (api_from_boards [a; b; a]), norm_hex c1);
                        ("spec:from_iter<BitBoard> of a repeated board [b;b] = b", hn (api_from_boards [b; b]), norm_hex c2);
                        ("spec:from_iter<BitBoard> [a&b;a;b;a|b] = union", hn (api_from_boards [api_and a b; a; b; api_or a b]), norm_hex c3)]
  | ["BC"; kind; i; v; v2] ->
    let i = ni i in
    let e = match kind with "pos" -> api_from_pos i | "file" -> api_from_file i | "rank" -> api_from_rank i | _ -> N0 in
    cmp_line "BC" line [("spec:from_" ^ kind, hn e, norm_hex v); ("spec:from_" ^ kind ^ "(iter/From)", hn e, norm_hex v2)]
  | _ -> failwith "bb fields"

(* ---------- C19 text ---------- *)
let check_text line f =
  match f with
  | ["TX"; h; fl; rk; ps; pc; pr; mv; strok] ->
    let b = bytes_of_hex h in
    let emv = match api_move_from_ascii_bytes b with
      | None -> "-" | Some (a, c) -> Printf.sprintf "%d,%d,-" (int_of_n a) (int_of_n c) in
    cmp_line "TX" line
      [("spec:File::from_ascii_bytes", opt_n_str (api_file_from_ascii_bytes b), fl);
       ("spec:Rank::from_ascii_bytes", opt_n_str (api_rank_from_ascii_bytes b), rk);
       ("spec:Pos::from_ascii_bytes", opt_n_str (api_pos_from_ascii_bytes b), ps);
       ("spec:Piece::from_ascii_bytes", opt_n_str (api_piece_from_ascii_bytes b), pc);
       ("spec:PromotionPiece::from_ascii_bytes", opt_n_str (api_promo_from_ascii_bytes b), pr);
       ("spec:ChessMove::from_ascii_bytes", emv, mv); ("spec:FromStr agrees", "1", strok)]
  | "TS" :: kind :: i :: h :: rest ->
    let i = ni i in
    let e = match kind with "pos" -> api_pos_show i | "file" -> api_file_show i | _ -> api_rank_show i in
    let he = String.concat "" (List.map (fun x -> Printf.sprintf "%02x" (int_of_n x)) e) in
    let extra = match kind, rest with
      | "file", [lu] -> [("spec:lower/upper_letter", Printf.sprintf "%02x%02x" (97 + int_of_n i) (65 + int_of_n i), lu)]
      | _ -> [] in
    cmp_line "TS" line (("spec:Display " ^ kind, he, h) :: extra)
  | ["TM"; a; b; pr; h] ->
    let p = if pr = "-" then None else Some (ni pr) in
    let e = api_move_show_full (ni a) (ni b) p in
    cmp_line "TM" line [("spec:Display ChessMove", String.concat "" (List.map (fun x -> Printf.sprintf "%02x" (int_of_n x)) e), h)]
  | ["PU"; n; ps; fl; rk; pc; co; sd] ->
    let n = ni n in
    let e k = opt_n_str (api_enum_from_u8 (n_of_int k) n) in
    cmp_line "PU" line [("spec:Pos::from_u8", e 64, ps); ("spec:File::from_u8", e 8, fl); ("spec:Rank::from_u8", e 8, rk);
                        ("spec:Piece::from_u8", e 6, pc); ("spec:Color::from_u8", e 2, co); ("spec:Side::from_u8", e 2, sd)]
  | ["PS"; s; fl; rk; up; dn; lf; rt; flip; nw; u8] ->
    let s' = ni s in
    cmp_line "PS" line
      [("spec:file", string_of_int (int_of_n (api_pos_file s')), fl); ("spec:rank", string_of_int (int_of_n (api_pos_rank s')), rk);
       ("spec:shift_up", opt_n_str (api_pos_shift_up s'), up); ("spec:shift_down", opt_n_str (api_pos_shift_down s'), dn);
       ("spec:shift_left", opt_n_str (api_pos_shift_left s'), lf); ("spec:shift_right", opt_n_str (api_pos_shift_right s'), rt);
       ("spec:flip_rank", string_of_int (int_of_n (api_pos_flip_rank s')), flip); ("spec:new(file,rank)", s, nw); ("spec:to_u8", s, u8)]
  | ["PF"; a; fl; fr; rd; ru; rf; side] ->
    let a' = ni a in
    cmp_line "PF" line
      [("spec:File::shift_left", opt_n_str (api_file_shift_left a'), fl); ("spec:File::shift_right", opt_n_str (api_file_shift_right a'), fr);
       ("spec:Rank::shift_down", opt_n_str (api_rank_shift_down a'), rd); ("spec:Rank::shift_up", opt_n_str (api_rank_shift_up a'), ru);
       ("spec:Rank::flip", string_of_int (int_of_n (api_rank_flip a')), rf); ("spec:File::side", (if int_of_string a < 4 then "1" else "0"), side)]
  | ["PD"; a; b; fd; rd; nw] ->
    let a' = ni a and b' = ni b in
    let d = string_of_int (int_of_n (api_dist_to a' b')) in
    cmp_line "PD" line [("spec:File::dist_to", d, fd); ("spec:Rank::dist_to", d, rd); ("spec:Pos::new", string_of_int (int_of_n (api_pos_new a' b')), nw)]
  | ["PN"; a; b; c; d] ->
    let e x = string_of_int (int_of_n x) in
    cmp_line "PN" line [("spec:!White", e (api_color_not N0), a); ("spec:!Black", e (api_color_not (n_of_int 1)), b);
                        ("spec:!Side::King", e (api_side_not N0), c); ("spec:!Side::Queen", e (api_side_not (n_of_int 1)), d)]
  | ["IT"; kind; ops; res] ->
    let ops_l = List.filter (fun x -> x <> "") (String.split_on_char ',' ops) in
    let op_of x = match x.[0] with
      | 'n' -> INext | 'b' -> INextBack | 's' -> ISizeHint
      | 'N' -> INth (hx (String.sub x 1 (String.length x - 1)))
      | _ -> INthBack (hx (String.sub x 1 (String.length x - 1))) in
    let iops = List.map op_of ops_l in
    let show_results k rs =
      String.concat "," (List.map2 (fun o r -> match o, r with
        | ISizeHint, Some v -> Printf.sprintf "%d:%d" (int_of_n v) (int_of_n v)
        | _, r -> opt_n_str r) k rs) in
    let k_of = function "file" | "rank" -> 8 | "piece" -> 6 | _ -> 2 in
    (match kind with
     | "file" | "rank" | "piece" | "color" | "side" ->
       cmp_line "IT" line [("spec:iter " ^ kind, show_results iops (api_run_iter (n_of_int (k_of kind)) iops), res)]
     | "pos" ->
       let fops = List.map (fun o -> match o with ISizeHint -> ISizeHint | _ -> INext) iops in
       cmp_line "IT" line [("spec:iter pos", show_results fops (api_run_allpos fops), res)]
     | _ ->
       (* File::iter / Rank::iter: squares of one file / rank, forward only *)
       let which = (match iops with INth n :: _ -> int_of_n n mod 8 | _ -> 0) in
       let rest = (match iops with _ :: r -> r | [] -> []) in
       let pos = ref 0 in
       let items = List.map (fun o -> match o with
         | ISizeHint -> Printf.sprintf "%d:%d" (8 - !pos) (8 - !pos)
         | _ -> if !pos >= 8 then "-" else begin
             let v = if kind = "fileiter" then !pos * 8 + which else which * 8 + !pos in incr pos; string_of_int v end) rest in
       cmp_line "IT" line [("spec:" ^ kind, String.concat "," (string_of_int which :: items), res)])
  | _ -> failwith "text fields"

(* ---------- C16 abi ---------- *)
let promo_of = function "n" -> Some PKnight | "b" -> Some PBishop | "r" -> Some PRook | "q" -> Some PQueen | _ -> None
let promo_str = function Some PKnight -> "n" | Some PBishop -> "b" | Some PRook -> "r" | Some PQueen -> "q" | None -> "-"
let mv_of s = if s = "none" then None else
    match String.split_on_char ',' s with
    | [a; b; p] -> Some { c_src = ni a; c_dst = ni b; c_piece = promo_of p }
    | _ -> failwith "mv"
let mv_str = function None -> "none"
  | Some m -> Printf.sprintf "%d,%d,%s" (int_of_n m.c_src) (int_of_n m.c_dst) (promo_str m.c_piece)
let check_abi line f =
  match f with
  | ["AB"; m; via_stable; via_eval; sc] ->
    let m' = mv_of m in
    let e1 = (match m' with Some x -> mv_str (Some (api_abi_stable_rt x)) | None -> "none") in
    let (e2, _) = api_abi_eval_rt m' SMin in
    ignore sc;
    cmp_line "AB" line [("spec:StableChessMove round trip", e1, via_stable); ("spec:EvaluatedMove move round trip", mv_str e2, via_eval);
                        ("spec:lossless(move)", m, via_eval)]
  | ["AS"; s; s2; m; m2] ->
    let (em, es) = api_abi_eval_rt (mv_of m) (score_of_string s) in
    cmp_line "AS" line [("spec:score round trip", string_of_score es, s2); ("spec:move round trip", mv_str em, m2);
                        ("spec:lossless(score)", s, s2)]
  | _ -> failwith "abi fields"

(* ---------- C20 tracing ---------- *)
let check_tr line f =
  match f with
  | ["TR"; n; ops; rows] ->
    let n = int_of_string n in
    let ths = List.init n n_of_int in
    let tr = List.map (fun x ->
        let t = Char.code x.[0] - 48 in
        let o = match x.[1] with
          | 'E' -> SEnable | 'D' -> SDisable | 'T' -> SToggle | 'e' -> SLocalEnable | 'd' -> SLocalDisable
          | 't' -> SLocalToggle | 'k' -> SLocalTake | 'r' -> SRestoreTop | _ -> SIsEnabled in
        (n_of_int t, o)) (List.filter (fun x -> x <> "") (String.split_on_char ',' ops)) in
    let e = api_run_stack ths tr in
    let es = String.concat "," (List.map (fun row -> String.concat "" (List.map b01 row)) e) in
    cmp_line "TR" line [("spec:views after every step", es, rows)]
  | _ -> failwith "tr fields"


(* ---------- chess core (C01-C07) ---------- *)
let promo_char = function None -> "-" | Some Knight -> "n" | Some Bishop -> "b" | Some Rook -> "r" | Some Queen -> "q" | Some _ -> "?"
let promo_ord = function None -> 0 | Some Knight -> 1 | Some Bishop -> 2 | Some Rook -> 3 | Some Queen -> 4 | Some _ -> 9
let move_key (m : move) = (int_of_n m.m_src, int_of_n m.m_dst, promo_ord m.m_promo)
let move_s (m : move) = Printf.sprintf "%d.%d.%s" (int_of_n m.m_src) (int_of_n m.m_dst) (promo_char m.m_promo)
let moves_sorted (l : move list) = String.concat " " (List.map move_s (List.sort (fun a b -> compare (move_key a) (move_key b)) l))
let move_of_s s =
  match String.split_on_char '.' s with
  | [a; b; p] -> api_mk_move (ni a) (ni b) (match p with "n" -> Some Knight | "b" -> Some Bishop | "r" -> Some Rook | "q" -> Some Queen | _ -> None)
  | _ -> failwith "move"
let parse_model (fen : string) : board option =
  match api_parse_fen_t (bytes_of_string fen) with Ret (POk b) -> Some b | _ -> None
let ws_idx = function WsPieces -> 0 | WsTurn -> 1 | WsCastleRights -> 2 | WsEnpassant -> 3 | WsHalfMoveClock -> 4
let verr_s = function MissingKings -> "MissingKings" | InvalidCastleRights -> "InvalidCastleRights" | InvalidEnpassant -> "InvalidEnpassant"
  | TooManyPieces -> "TooManyPieces" | OpponentInCheck -> "OpponentInCheck"
let perr_s = function
  | InvalidPiece (b, p) -> Printf.sprintf "InvalidPiece:%d:%d" (int_of_n b) (int_of_n p)
  | MissingPiece p -> Printf.sprintf "MissingPiece:%d" (int_of_n p)
  | MissingWhitespace k -> Printf.sprintf "MissingWhitespace:%d" (ws_idx k)
  | InvalidTurn b -> Printf.sprintf "InvalidTurn:%d" (int_of_n b)
  | MissingTurn -> "MissingTurn" | FileOutOfBounds r -> Printf.sprintf "FileOutOfBounds:%d" (int_of_n r)
  | InvalidEnpassantE (f, r) -> Printf.sprintf "InvalidEnpassant:%d:%d" (int_of_n f) (int_of_n r)
  | MissingEnpassant -> "MissingEnpassant" | MissingCastleRights -> "MissingCastleRights"
  | MissingHalfClock -> "MissingHalfClock" | MissingFullClock -> "MissingFullClock" | TrailingBytes -> "TrailingBytes"
  | BoardValidation e -> "BoardValidation:" ^ verr_s e
let state_s = function GCheckMate -> "M" | GStaleMate -> "D" | GCheck -> "C" | GRunning -> "R"
let status_s = function CheckMate -> "M" | Draw -> "D" | Check -> "C" | Running -> "R"
let board_fields (b : board) =
  Printf.sprintf "%s\t%s\t%s\t%s\t%s" (string_of_bytes (api_write_fen b)) (hn (api_zobrist b)) (hn b.b_pinned) (hn (api_diff b.b_checkers b.b_pinned)) (hn b.b_zob)

let rec check_chess line f =
  match f with
  | ["PO"; xf; disp; legals; lens; chk; st; zob; pinned; checkers; mz; fresh] ->
    (* the implementation could not read back the FEN it wrote for a board it holds: judged without any model *)
    if String.length fresh >= 9 && String.sub fresh 0 9 = "PARSEFAIL" then
      cmp_line "POW" line [("spec:fen-writer: the text the board writes for itself parses back (write then parse)", "parses: " ^ disp, fresh)];
    (match parse_model xf with
     | None -> cmp_line "PO" line [("model:position-rejected-by-model-parser", "accepted", "rejected")]
     | Some b ->
       let pos = api_abs b in
       let ml = moves_sorted (api_legals b) in
       let sl = moves_sorted (api_spec_legal_moves pos) in
       let n = List.length (api_spec_legal_moves pos) in
       let (glen, gempty) = api_gen_len b in
       cmp_line "PO" line
         [("spec:legal-moves(set)", sl, legals); ("model:legal-moves(set)", ml, legals);
          ("spec:len/size_hint/is_empty", Printf.sprintf "%d:%d:%d:%d" n n n (if n = 0 then 1 else 0), lens);
          ("model:len", Printf.sprintf "%d:%s" (int_of_n glen) (b01 gempty), Printf.sprintf "%s:%s" (List.hd (String.split_on_char ':' lens)) (List.nth (String.split_on_char ':' lens) 3));
          ("spec:in_check", b01 (api_spec_in_check pos), chk); ("model:in_check", b01 (api_in_check b), chk);
          ("spec:state", status_s (api_spec_classify pos), st); ("model:state", state_s (api_state b), st);
          ("spec:hash-equals-from-scratch-hash", hn (api_zobrist b), norm_hex zob);
          ("spec:pinned-equals-from-scratch", hn b.b_pinned, norm_hex pinned);
          ("spec:checkers-equals-from-scratch", hn (api_diff b.b_checkers b.b_pinned), norm_hex checkers);
          ("spec:piece-hash-equals-from-scratch", hn b.b_zob, norm_hex mz);
          ("spec:fen-writer", string_of_bytes (api_write_fen b), disp);
          ("spec:moved-board-indistinguishable-from-reparsed(legals,check,hash,text,debug,eq)", "111111", fresh)])
  | ["MV"; xf; mv; xf2; zob; pinned; checkers; mz; agree; zmut; zinto] ->
    check_chess (String.concat "\t" ["MV"; xf; mv; xf2; zob; pinned; checkers; mz; agree]) ["MV"; xf; mv; xf2; zob; pinned; checkers; mz; agree];
    if xf2 <> "REFUSED" then
      (match parse_model xf2 with
       | Some b2 ->
         cmp_line "MVH" line [("spec:hash of the move_mut result = from-scratch hash", hn (api_zobrist b2), norm_hex zmut);
                              ("spec:hash of the move_into result (foreign output buffer) = from-scratch hash", hn (api_zobrist b2), norm_hex zinto)]
       | None -> ())
  | ["MV"; xf; mv; xf2; zob; pinned; checkers; mz; agree] ->
    (match parse_model xf with
     | None -> cmp_line "MV" line [("model:position-rejected-by-model-parser", "accepted", "rejected")]
     | Some b ->
       let m = move_of_s mv in
       if xf2 = "REFUSED" then
         cmp_line "MV" line [("spec:legal-move-accepted-by-checked-ops", b01 (api_spec_is_legal (api_abs b) m), "0")]
       else
         let b' = api_apply b m in
         let sp = api_spec_make (api_abs b) m in
         (match parse_model xf2 with
          | None -> cmp_line "MV" line [("spec:successor-is-acceptable-position", "accepted", "rejected:" ^ xf2)]
          | Some b2 ->
            cmp_line "MV" line
              [("spec:successor = rules make(position, move)", "1", b01 (api_spec_pos_eqb (api_abs b2) sp));
               ("model:successor fields", string_of_bytes (api_write_fen b'), xf2);
               ("spec:successor hash = from-scratch hash", hn (api_zobrist b2), norm_hex zob);
               ("spec:successor pinned = from-scratch", hn b2.b_pinned, norm_hex pinned);
               ("spec:successor checkers = from-scratch", hn (api_diff b2.b_checkers b2.b_pinned), norm_hex checkers);
               ("spec:successor piece-hash = from-scratch", hn b2.b_zob, norm_hex mz);
               ("model:apply = fresh", "1", b01 (api_board_all_eqb b' b2));
               ("spec:move_new/move_mut/move_into agree", "1", agree)]))
  | "CK" :: xf :: mv :: flags :: untouched :: rest ->
    (match parse_model xf with
     | None -> cmp_line "CK" line [("model:position-rejected-by-model-parser", "accepted", "rejected")]
     | Some b ->
       let m = move_of_s mv in
       let legal = api_spec_is_legal (api_abs b) m in
       let e = if legal then "1111" else "0000" in
       let extra = if legal then
           (match rest with
            | xf2 :: _ when xf2 <> "-" ->
              (match parse_model xf2 with
               | Some b2 -> [("spec:successor = rules make", "1", b01 (api_spec_pos_eqb (api_abs b2) (api_spec_make (api_abs b) m)))]
               | None -> [("spec:successor acceptable", "accepted", "rejected")])
            | _ -> [("spec:successor present", "present", "absent")])
         else [] in
       cmp_line "CK" line ([("spec:is_legal/move_new/move_mut/move_into accept exactly legal moves", e, flags);
                            ("spec:refused move leaves boards untouched", "1", untouched);
                            ("model:is_legal", b01 (api_is_legal b m), String.sub flags 0 1)] @ extra))
  | ["LG"; xf; set] ->
    (match parse_model xf with
     | None -> cmp_line "LG" line [("model:position-rejected-by-model-parser", "accepted", "rejected")]
     | Some b -> cmp_line "LG" line [("spec:{m | is_legal m} over all 20480 triples", moves_sorted (api_spec_legal_moves (api_abs b)), set)])
  | ["FP"; h; tag; f1; zob; pinned; checkers; mz] ->
    let r = api_parse_fen_t (bytes_of_hex h) in
    (match r with
     | Trap -> cmp_line "FP" line [("model:parser-model-traps", "no trap", "Trap"); ("spec:never-panics", "OK|E", tag)]
     | Ret (PErr e) -> cmp_line "FP" line [("model:result", "E\t" ^ perr_s e, tag ^ "\t" ^ f1); ("spec:never-panics", "no-TRAP", if tag = "TRAP" || tag = "TRAP2" then tag else "no-TRAP")]
     | Ret (POk b) ->
       cmp_line "FP" line
         [("model:result", "OK\t" ^ board_fields b, String.concat "\t" [tag; f1; norm_hex zob; norm_hex pinned; norm_hex checkers; norm_hex mz]);
          ("spec:never-panics", "no-TRAP", if tag = "TRAP" || tag = "TRAP2" then tag else "no-TRAP")]);
    (* whatever the implementation accepted must be playable, judged by the rules-level predicate *)
    if tag = "OK" then
      (match parse_model f1 with
       | Some b -> cmp_line "FPP" line [("spec:accepted-board-is-playable", "1", b01 (api_spec_playable (api_abs b)))]
       | None -> cmp_line "FPP" line [("spec:accepted-board-is-playable", "1", "model-rejects:" ^ f1)])
  | ["PE"; xa; xb; eq; za; zb; heq] ->
    (match parse_model xa, parse_model xb with
     | Some a, Some b ->
       let meq = b01 (api_board_eqb a b) in
       cmp_line "PE" line
         ([("spec:hash: Board == compares placement, side to move, castling rights and en-passant file", meq, eq)]
          @ (if eq = "1" then [("spec:hash: boards that compare equal have equal zobrist()", "1", b01 (norm_hex za = norm_hex zb));
                               ("spec:hash: boards that compare equal have equal std Hash", "1", heq)] else []))
     | _ -> cmp_line "PE" line [("model:position-rejected-by-model-parser", "accepted", "rejected")])
  | ["FR"; h; tag] ->
    (* the text was assembled by the harness from a board reached by legal play: canonical by construction (checked against the
       model writer), so the parser must accept it *)
    let canon = (match api_parse_fen_t (bytes_of_hex h) with
        | Ret (POk b) -> b01 (api_write_fen b = bytes_of_hex h)
        | _ -> "model-rejects") in
    cmp_line "FR" line [("model:text of a reached position is canonical for the model", "1", canon);
                        ("spec:canonical FEN of a position reached by legal play is accepted", "OK", tag)]
  | ["BL"; ops; flags; tag; f1; zob; pinned; checkers; mz] ->
    let opl = List.filter (fun x -> x <> "") (String.split_on_char ' ' ops) in
    let col i = if i = 0 then White else Black in
    let pc i = match i with 0 -> Pawn | 1 -> Knight | 2 -> Bishop | 3 -> Rook | 4 -> Queen | _ -> King in
    let (b, fl) = List.fold_left (fun (b, fl) op ->
        let rest = String.sub op 1 (String.length op - 1) in
        match op.[0] with
        | 't' -> (fst (api_bstep b (BTurn (col (int_of_string rest)))), fl)
        | 'h' -> (fst (api_bstep b (BHalf (ni rest))), fl)
        | 'f' -> (fst (api_bstep b (BFull (ni rest))), fl)
        | 'e' -> (fst (api_bstep b (BEnpassant (if rest = "-" then None else Some (ni rest)))), fl)
        | 'p' -> (match String.split_on_char '.' rest with
            | [sq; c; p] -> let (b', ok) = api_bstep b (BPlace (ni sq, col (int_of_string c), pc (int_of_string p))) in (b', fl ^ b01 ok)
            | _ -> failwith "place")
        | _ -> (fst (api_bstep b (BRemove (ni rest))), fl)) (api_empty_board, "") opl in
    let exp = match api_build b with
      | Inl bb -> "OK\t" ^ board_fields bb
      | Inr e -> "E\tBoardValidation:" ^ verr_s e ^ "\t0\t0\t0\t0" in
    let got = String.concat "\t" [tag; f1; norm_hex zob; norm_hex pinned; norm_hex checkers; norm_hex mz] in
    let playable = if tag = "OK" then
        (match parse_model f1 with
         | Some bb -> [("spec:built-board-is-playable", "1", b01 (api_spec_playable (api_abs bb)));
                       ("spec:builder hash = hash of the same position parsed from text", hn (api_zobrist bb), norm_hex zob);
                       ("spec:builder piece-hash = from-scratch", hn bb.b_zob, norm_hex mz);
                       ("spec:builder pins/checkers = from-scratch", hn bb.b_pinned ^ "/" ^ hn (api_diff bb.b_checkers bb.b_pinned), norm_hex pinned ^ "/" ^ norm_hex checkers);
                       ("spec:builder = parser on the same position", "1", (match api_build b with Inl b1 -> b01 (api_board_all_eqb b1 bb) | _ -> "0"))]
         | None -> [("spec:built-board-is-playable", "1", "parser-model-rejects:" ^ f1)])
      else [] in
    cmp_line "BL" line ([("model:place flags", fl, flags); ("model:build result", exp, got);
                         ("spec:never-panics", "no-TRAP", if tag = "TRAP" then tag else "no-TRAP")] @ playable)
  | _ -> failwith "chess fields"

(* ---------- C10 iterator ---------- *)
let remove_first (x : move) (l : move list) : move list =
  let rec go = function [] -> [] | y :: r -> if move_key y = move_key x then r else y :: go r in go l
let check_gi line f =
  match f with
  | ["GI"; xf; init; ops; res] ->
    (match parse_model xf with
     | None -> cmp_line "GI" line [("model:position-rejected-by-model-parser", "accepted", "rejected")]
     | Some b ->
       let opl = List.filter (fun x -> x <> "") (String.split_on_char ' ' ops) in
       let resl = List.filter (fun x -> x <> "") (String.split_on_char ' ' res) in
       if res = "TRAP" then cmp_line "GI" line [("spec:never-panics", "no-TRAP", "TRAP")] else
       if List.length opl <> List.length resl then cmp_line "GI" line [("model:result count", string_of_int (List.length opl), string_of_int (List.length resl))] else begin
         let full = hx "ffffffffffffffff" in
         let imask = if init = "L" then full else hx (String.sub init 1 (String.length init - 1)) in
         (* --- exact model --- *)
         let g = ref (if init = "L" then api_legals_gen b else api_legals_masked_gen b imask) in
         let gstack = ref [] in
         let mres = List.map (fun op ->
             let rest = String.sub op 1 (String.length op - 1) in
             match op.[0] with
             | 'n' -> let (r, g') = api_mg_next !g in g := g'; (match r with Some m -> move_s m | None -> "-")
             | 'l' -> string_of_int (int_of_n (api_mg_len !g))
             | 'e' -> b01 (api_mg_is_empty !g)
             | 'h' -> let k = int_of_n (api_mg_len !g) in Printf.sprintf "%d:%d" k k
             | 'm' -> g := api_mg_set_mask !g (hx rest); "."
             | 'r' -> g := api_mg_remove !g (hx rest); "."
             | 'x' -> let (g', r) = api_mg_remove_move !g (move_of_s rest) in g := g'; b01 r
             | 'c' -> gstack := !g :: !gstack; "."
             | 'b' -> (match !gstack with o :: r -> g := o; gstack := r | [] -> ()); "."
             | _ -> "?") opl in
         (* --- abstract monitor fed with the implementation's own answers --- *)
         let legal = api_spec_legal_moves (api_abs b) in
         let in_mask mk (m : move) = api_contains mk m.m_dst in
         let content = ref (List.filter (in_mask imask) legal) in
         let mask = ref imask in
         let inprog = ref 0 in
         let k1 = ref false and k2 = ref false in
         let stack = ref [] in
         let diffs = ref [] in
         let tag () = (if !k1 then "[K1]" else "") ^ (if !k2 then "[K2]" else "") in
         let add w e g = diffs := ("spec:" ^ w ^ tag (), e, g) :: !diffs in
         let visible () = List.filter (in_mask !mask) !content in
         let is_promo_pair (mv : move) = List.exists (fun (m : move) -> m.m_src = mv.m_src && m.m_dst = mv.m_dst && m.m_promo <> None) legal in
         List.iter2 (fun op tok ->
             let rest = String.sub op 1 (String.length op - 1) in
             match op.[0] with
             | 'n' ->
               let vis = visible () in
               if tok = "-" then (if vis <> [] then add "next returned None although masked legal moves remain" (string_of_int (List.length vis) ^ " remain") tok)
               else begin
                 let m = move_of_s tok in
                 if List.exists (fun y -> move_key y = move_key m) vis then content := remove_first m !content
                 else add "next yielded a move that is not a remaining legal move under the mask (or yielded it twice)" "one of the remaining moves" tok;
                 if m.m_promo <> None then inprog := (!inprog + 1) mod 4
               end
             | 'l' -> let k = List.length (visible ()) in if string_of_int k <> tok then add "len = number of moves still to be yielded" (string_of_int k) tok
             | 'e' -> let e = b01 (visible () = []) in if e <> tok then add "is_empty" e tok
             | 'h' -> let k = List.length (visible ()) in let e = Printf.sprintf "%d:%d" k k in if e <> tok then add "size_hint" e tok
             | 'm' -> if !inprog <> 0 then k2 := true; mask := hx rest
             | 'r' -> if !inprog <> 0 then k2 := true; let bb = hx rest in content := List.filter (fun (m : move) -> not (api_contains bb m.m_dst)) !content
             | 'x' -> if !inprog <> 0 then k2 := true;
               let mv = move_of_s rest in
               if is_promo_pair mv then k1 := true;
               content := List.filter (fun y -> move_key y <> move_key mv) !content
             | 'c' -> stack := (!content, !mask, !inprog) :: !stack
             | 'b' -> (match !stack with (c, m, i) :: r -> content := c; mask := m; inprog := i; stack := r | [] -> ())
             | _ -> ()) opl resl;
         let mtag = if !k1 || !k2 then tag () else "" in
         cmp_line "GI" line (("model:iterator results" ^ mtag, String.concat " " mres, res) :: List.rev !diffs)
       end)
  | _ -> failwith "gi fields"

(* ---------- C11 / C12 / C13 search ---------- *)
let mate_in_one_moves (p : position) : move list =
  List.filter (fun m -> api_spec_classify (api_spec_make p m) = CheckMate) (api_spec_legal_moves p)
let check_search line f =
  match f with
  | ["SR"; xf; k; mv; sc; depth; polls; api_mv; api_sc] ->
    (match parse_model xf with
     | None -> cmp_line "SR" line [("model:position-rejected-by-model-parser", "accepted", "rejected")]
     | Some b ->
       if mv = "TRAP" then cmp_line "SR" line [("spec:search never panics", "no-TRAP", "TRAP")] else begin
       let kk = int_of_string k in
       let pos = api_abs b in
       let legal = api_spec_legal_moves pos in
       let (((mmv, msc), mdepth), mfuel) = api_search (n_of_int kk) (api_nat_of_N (n_of_int (min (kk + 2) 70001))) (api_nat_of_N (n_of_int 48)) b in
       let m1 = mate_in_one_moves pos in
       let side_white = (b.b_turn = White) in
       let mate1 = if side_white then "w1" else "b1" in
       let checks = ref [] in
       let add w e g = checks := (w, e, g) :: !checks in
       (* spec-level facts that need no model *)
       if mv <> "-" then begin
         let m = move_of_s mv in
         add "spec:returned move is legal in the searched position" "1" (b01 (List.exists (fun y -> move_key y = move_key m) legal));
         if sc = mate1 then add "spec:mate-in-one score only with a mating move" "1" (b01 (List.exists (fun y -> move_key y = move_key m) m1))
       end;
       if legal = [] then add "spec:no legal move => no move returned" "-" mv;
       (* model-dependent: which pass completed *)
       if mfuel then add "model:fuel exhausted in the model" "0" "1" else begin
         add "model:move" (match mmv with Some m -> move_s m | None -> "-") mv;
         add "model:score" (string_of_score msc) sc;
         add "model:max_depth" (string_of_int (int_of_n mdepth)) depth;
         (* C11: a move is returned whenever legal moves exist and the first pass finished *)
         if legal <> [] && mmv <> None then add "spec:move returned when the first pass completed" "some" (if mv = "-" then "-" else "some");
         (* C12: mate in one found and reported when the first pass completed *)
         if m1 <> [] && mmv <> None then begin
           add "spec:mate-in-one score reported" mate1 sc;
           add "spec:a mating move is returned" "1" (if mv = "-" then "0" else b01 (List.exists (fun y -> move_key y = move_key (move_of_s mv)) m1))
         end
       end;
       ignore polls;
       add "spec:move seen through the stable ABI (EvaluatedMove) = move returned" mv api_mv;
       add "spec:score seen through the stable ABI = score returned" sc api_sc;
       cmp_line "SR" line (List.rev !checks) end)
  | [("SH" | "SK") as kind; xf; k; reps; mv; sc; depth] ->
    (match parse_model xf with
     | None -> cmp_line "SH" line [("model:position-rejected-by-model-parser", "accepted", "rejected")]
     | Some b ->
       if mv = "TRAP" then cmp_line "SH" line [("spec:search never panics", "no-TRAP", "TRAP")] else begin
       let kk = int_of_string k in
       let legal = api_spec_legal_moves (api_abs b) in
       let (((mmv, msc), mdepth), mfuel) =
         (if kind = "SK" then api_search_tfc else api_search_tf) (n_of_int kk) (api_nat_of_N (n_of_int (int_of_string reps))) (api_nat_of_N (n_of_int (min (kk + 2) 70001))) (api_nat_of_N (n_of_int 48)) b in
       let checks = ref [] in
       let add w e g = checks := (w, e, g) :: !checks in
       if mv <> "-" then
         add "spec:returned move is legal in the searched position" "1" (b01 (List.exists (fun y -> move_key y = move_key (move_of_s mv)) legal));
       if legal = [] then add "spec:no legal move => no move returned" "-" mv;
       if mfuel then add "model:fuel exhausted in the model" "0" "1" else begin
         add "model:move" (match mmv with Some m -> move_s m | None -> "-") mv;
         add "model:score" (string_of_score msc) sc;
         add "model:max_depth" (string_of_int (int_of_n mdepth)) depth;
         if legal <> [] && mmv <> None then add "spec:move returned when the first pass completed" "some" (if mv = "-" then "-" else "some")
       end;
       cmp_line "SH" line (List.rev !checks) end)
  | ["MR"; xf; mf; a; m; kmax; fa; fm] ->
    if a = "TRAP" then cmp_line "MR" line [("spec:search never panics", "no-TRAP", "TRAP")] else
    (match parse_model xf, parse_model mf with
     | Some b, Some mb ->
       let is_mirror = api_spec_pos_eqb (api_abs mb) (api_spec_mirror (api_abs b)) in
       let parse_list s = List.filter_map (fun x -> match String.split_on_char ':' x with [d; v] -> Some (d, v) | _ -> None) (String.split_on_char ',' s) in
       let la = parse_list a and lm = parse_list m in
       let common = List.filter (fun (d, _) -> List.mem_assoc d lm) la in
       let exp = String.concat "," (List.map (fun (d, v) -> d ^ ":" ^ string_of_score (api_score_neg (score_of_string v))) common) in
       let got = String.concat "," (List.map (fun (d, _) -> d ^ ":" ^ List.assoc d lm) common) in
       (* a colour that gets no move at the largest budget although legal moves exist and the first pass fits the budget *)
       let none_check side fin (bb : board) =
         (match String.split_on_char '|' fin with
          | "-" :: _ when api_spec_legal_moves (api_abs bb) <> [] ->
            let kk = int_of_string kmax in
            let (((mmv, _), _), mfuel) = api_search (n_of_int kk) (api_nat_of_N (n_of_int (min (kk + 2) 70001))) (api_nat_of_N (n_of_int 48)) bb in
            if (not mfuel) && mmv <> None then [("spec:colour symmetry: " ^ side ^ " gets a move at this budget (its first pass completes)", "some", "-")] else []
          | _ -> []) in
       cmp_line "MR" line ([("model:harness mirror = spec mirror", "1", b01 is_mirror);
                            ("spec:mirrored position has the negated score at every depth both searches completed", exp, got)]
                           @ none_check "the position" fa b @ none_check "the mirrored position" fm mb)
     | _ -> cmp_line "MR" line [("model:mirror position accepted", "accepted", if a = "MIRROR-REJECTED" then "impl-rejected" else "model-rejected")])
  | _ -> failwith "search fields"

(* ---------- C15 bot ---------- *)
let unders s = String.map (fun c -> if c = '_' then ' ' else c) s
let check_bot line f =
  match f with
  | ["BT"; "LOAD"; r] -> cmp_line "BT" line [("model:plugin loads", "loaded", r)]
  | ["BT"; _; "TRAP"] -> cmp_line "BT" line [("spec:plugin never panics", "no-TRAP", "TRAP")]
  | ["BT"; ops; res] ->
    let opl = List.filter (fun x -> x <> "") (String.split_on_char ' ' ops) in
    let resl = List.filter (fun x -> x <> "") (String.split_on_char ' ' res) in
    if List.length opl <> List.length resl then cmp_line "BT" line [("model:result count", string_of_int (List.length opl), string_of_int (List.length resl))] else begin
      let st = ref api_bot_init in
      (* abstract spec: current rules-level position and the positions produced by accepted moves since the last set_board *)
      let cur = ref api_spec_start in
      let hist : position list ref = ref [] in
      let diffs = ref [] in
      let add w e g = if e <> g then diffs := (w, e, g) :: !diffs in
      let step = ref 0 in
      List.iter2 (fun op tok ->
          incr step;
          let rest = String.sub op 1 (String.length op - 1) in
          let at w = Printf.sprintf "%s (call %d: %s)" w !step op in
          match op.[0] with
          | 's' ->
            (match parse_model (unders rest) with
             | Some b -> st := api_bot_set_board b; cur := api_abs b; hist := []; add (at "model:set_board") "." tok
             | None -> add (at "model:set_board accepted") "accepted" "model-rejected")
          | 'm' ->
            let m = move_of_s rest in
            let legal = api_spec_is_legal !cur m in
            let (st', (v, t)) = api_bot_make_move !st m in
            st := st';
            add (at "model:make_move") (b01 v ^ b01 t) tok;
            if legal then begin
              let np = api_spec_make !cur m in
              let occ = 1 + List.length (List.filter (fun q -> api_spec_same_position q np) !hist) in
              hist := np :: !hist; cur := np;
              add (at "spec:legal move applied; threefold flag exactly on the third occurrence since the board was set") ("1" ^ b01 (occ = 3)) tok
            end else
              add (at "spec:illegal move refused, flag clear") "00" tok
          | 'b' ->
            (match parse_model (unders tok) with
             | Some b -> add (at "spec:reported board = reference successor") "1" (b01 (api_spec_pos_eqb (api_abs b) !cur));
               add (at "model:board") (string_of_bytes (api_write_fen (api_bot_board !st))) (unders tok)
             | None -> add (at "spec:reported board acceptable") "accepted" tok)
          | 'e' ->
            let k = int_of_string rest in
            let (mv, sc) = api_bot_evaluate (n_of_int k) (api_nat_of_N (n_of_int (k + 2))) (api_nat_of_N (n_of_int 48)) !st in
            add (at "model:evaluate") ((match mv with Some m -> move_s m | None -> "-") ^ "," ^ string_of_score sc) tok;
            (match String.split_on_char ',' tok with
             | mvs :: _ when mvs <> "-" -> add (at "spec:proposed move is legal") "1" (b01 (api_spec_is_legal !cur (move_of_s mvs)))
             | _ -> ())
          | _ -> ()) opl resl;
      cmp_line "BT" line (List.rev !diffs)
    end
  | _ -> failwith "bot fields"

(* ---------- C17 book ---------- *)
let book_memo : (string, position option) Hashtbl.t = Hashtbl.create 40000
let () = Hashtbl.replace book_memo "" (Some api_spec_start)
let check_book line f =
  match f with
  | ["BK"; path; ok] ->
    let parts = String.split_on_char ' ' path in
    let last = List.nth parts (List.length parts - 1) in
    let parent = String.concat " " (List.filteri (fun i _ -> i < List.length parts - 1) parts) in
    let pp = try Hashtbl.find book_memo parent with Not_found -> None in
    (match pp with
     | None -> cmp_line "BK" line [("spec:book move legal under the rules (parent line already illegal)", "1", "0")]
     | Some p ->
       let m = (match String.split_on_char '.' last with [a; b] -> api_mk_move (ni a) (ni b) None | _ -> failwith "bk") in
       let legal = api_spec_is_legal p m in
       Hashtbl.replace book_memo path (if legal then Some (api_spec_make p m) else None);
       cmp_line "BK" line [("spec:book move legal under the rules (no promotion choice)", "1", b01 legal);
                           ("spec:move_mut accepts the book move", "1", ok)])
  | ["BKS"; nodes; depth; empty] ->
    cmp_line "BKS" line [("model:book node count = nodes walked by the Coq sweep", "29036", nodes);
                         ("model:book depth", "8", depth); ("spec:EMPTY_BOOK_MOVES yields nothing", "0", empty)]
  | _ -> failwith "book fields"

let dispatch line =
  let f = String.split_on_char '\t' line in
  match f with
  | "SC" :: _ -> check_sc line f
  | ("TB" | "TP" | "TG" | "TC" | "PW" | "MG" | "ZK") :: _ -> check_tables line f
  | ("BU" | "BP" | "BF" | "BS" | "BB" | "BG" | "BN" | "BC") :: _ -> check_bb line f
  | ("TX" | "TS" | "TM" | "PU" | "PS" | "PF" | "PD" | "PN" | "IT") :: _ -> check_text line f
  | ("AB" | "AS") :: _ -> check_abi line f
  | "TR" :: _ -> check_tr line f
  | ("PO" | "MV" | "CK" | "LG" | "PE" | "FP" | "FR" | "BL") :: _ -> check_chess line f
  | ("BK" | "BKS") :: _ -> check_book line f
  | "WK" :: _ -> bump "WK" 0
  | "GI" :: _ -> check_gi line f
  | ("SR" | "SH" | "SK" | "MR") :: _ -> check_search line f
  | "BT" :: _ -> check_bot line f
  | "DIST" :: _ -> ()
  | k :: _ -> bump ("UNKNOWN:" ^ k) 1; diff "UNKNOWN" k "" line
  | [] -> ()

let () =
  (try
     while true do
       let line = input_line stdin in
       if line <> "" then
         (try dispatch line with e -> bump "EXN" 1; diff "EXN" (Printexc.to_string e) "" line)
     done
   with End_of_file -> ());
  Hashtbl.iter (fun k (a, b) -> Printf.printf "STAT\t%s\t%d\t%d\n" k a b) stats
