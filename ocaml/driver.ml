(* Correspondence driver: reads the implementation's observation lines (one per case) on stdin,
   recomputes each with the extracted Coq model / spec, and reports every disagreement.
   Output: "DIFF\t<kind>\t<what>\t<expected-by-model>\t<line>" per disagreement,
           "STAT\t<kind>\t<lines>\t<diffs>" per kind at the end. *)
open Model
open Conv

let stats : (string, int * int) Hashtbl.t = Hashtbl.create 16
let bump kind d =
  let (a, b) = try Hashtbl.find stats kind with Not_found -> (0, 0) in
  Hashtbl.replace stats kind (a + 1, b + d)
let ndiff_printed = ref 0
let diff kind what expected line =
  incr ndiff_printed;
  if !ndiff_printed <= 2000 then Printf.printf "DIFF\t%s\t%s\t%s\t%s\n" kind what expected line

(* ---------- C14 scores ---------- *)
let score_of_string (s : string) : score =
  let rest = String.sub s 1 (String.length s - 1) in
  match s.[0] with
  | 'm' -> SMin | 'M' -> SMax
  | 'b' -> SBlackMateIn (n_of_int (int_of_string rest))
  | 'w' -> SWhiteMateIn (n_of_int (int_of_string rest))
  | 'r' -> SRaw (z_of_int (int_of_string rest))
  | _ -> failwith "score"
let string_of_score = function
  | SMin -> "m" | SMax -> "M"
  | SBlackMateIn n -> "b" ^ string_of_int (int_of_n n)
  | SWhiteMateIn n -> "w" ^ string_of_int (int_of_n n)
  | SRaw z -> "r" ^ string_of_int (int_of_z z)
let ordc = function Eq -> "E" | Lt -> "L" | Gt -> "G"
let b01 b = if b then "1" else "0"

let check_sc line f =
  match f with
  | [_; a; b; c; pc; e; rel; mx; mn] ->
    let a' = score_of_string a and b' = score_of_string b in
    let c' = api_score_cmp a' b' in
    let exp_cmp = ordc c' in
    let exp_pc = (match api_score_partial_cmp a' b' with Some o -> ordc o | None -> "N") in
    let exp_eq = b01 (api_score_eqb a' b') in
    let exp_rel = b01 (api_score_ltb a' b') ^ b01 (api_score_leb a' b') ^ b01 (api_score_gtb a' b') ^ b01 (api_score_leb b' a') in
    let exp_mx = string_of_score (api_score_max a' b') and exp_mn = string_of_score (api_score_min a' b') in
    let d = ref 0 in
    let chk what e g = if e <> g then (incr d; diff "SC" ("spec:" ^ what) e line) in
    chk "cmp" exp_cmp c; chk "partial_cmp" exp_pc pc; chk "eq" exp_eq e; chk "rel" exp_rel rel;
    chk "max" exp_mx mx; chk "min" exp_mn mn;
    bump "SC" (if !d > 0 then 1 else 0)
  | _ -> failwith "SC fields"

let dispatch line =
  let f = String.split_on_char '\t' line in
  match f with
  | "SC" :: _ -> check_sc line f
  | k :: _ -> bump ("UNKNOWN:" ^ k) 1; diff "UNKNOWN" k "" line
  | [] -> ()

let () =
  (try
     while true do
       let line = input_line stdin in
       if line <> "" then
         (try dispatch line with e -> bump "EXN" 1; diff "EXN" (Printexc.to_string e) "" line)
     done
   with End_of_file -> ());
  Hashtbl.iter (fun k (a, b) -> Printf.printf "STAT\t%s\t%d\t%d\n" k a b) stats
