
val negb : bool -> bool

type nat =
| O
| S of nat

val fst : ('a1 * 'a2) -> 'a1

val snd : ('a1 * 'a2) -> 'a2

val app : 'a1 list -> 'a1 list -> 'a1 list

type comparison =
| Eq
| Lt
| Gt

val compOpp : comparison -> comparison

val add : nat -> nat -> nat

type positive =
| XI of positive
| XO of positive
| XH

type n =
| N0
| Npos of positive

type z =
| Z0
| Zpos of positive
| Zneg of positive

module Pos :
 sig
  type mask =
  | IsNul
  | IsPos of positive
  | IsNeg
 end

module Coq_Pos :
 sig
  val succ : positive -> positive

  val add : positive -> positive -> positive

  val add_carry : positive -> positive -> positive

  val pred_double : positive -> positive

  val pred_N : positive -> n

  type mask = Pos.mask =
  | IsNul
  | IsPos of positive
  | IsNeg

  val succ_double_mask : mask -> mask

  val double_mask : mask -> mask

  val double_pred_mask : positive -> mask

  val sub_mask : positive -> positive -> mask

  val sub_mask_carry : positive -> positive -> mask

  val mul : positive -> positive -> positive

  val iter : ('a1 -> 'a1) -> 'a1 -> positive -> 'a1

  val compare_cont : comparison -> positive -> positive -> comparison

  val compare : positive -> positive -> comparison

  val eqb : positive -> positive -> bool

  val coq_Nsucc_double : n -> n

  val coq_Ndouble : n -> n

  val coq_lor : positive -> positive -> positive

  val coq_land : positive -> positive -> n

  val ldiff : positive -> positive -> n

  val coq_lxor : positive -> positive -> n

  val shiftl : positive -> n -> positive

  val testbit : positive -> n -> bool

  val iter_op : ('a1 -> 'a1 -> 'a1) -> positive -> 'a1 -> 'a1

  val to_nat : positive -> nat
 end

module N :
 sig
  val succ_double : n -> n

  val double : n -> n

  val succ : n -> n

  val pred : n -> n

  val add : n -> n -> n

  val sub : n -> n -> n

  val mul : n -> n -> n

  val compare : n -> n -> comparison

  val eqb : n -> n -> bool

  val leb : n -> n -> bool

  val ltb : n -> n -> bool

  val max : n -> n -> n

  val div2 : n -> n

  val pos_div_eucl : positive -> n -> n * n

  val div_eucl : n -> n -> n * n

  val div : n -> n -> n

  val modulo : n -> n -> n

  val coq_lor : n -> n -> n

  val coq_land : n -> n -> n

  val ldiff : n -> n -> n

  val coq_lxor : n -> n -> n

  val shiftl : n -> n -> n

  val shiftr : n -> n -> n

  val testbit : n -> n -> bool

  val to_nat : n -> nat

  val ones : n -> n
 end

val nth : nat -> 'a1 list -> 'a1 -> 'a1

val nth_error : 'a1 list -> nat -> 'a1 option

val map : ('a1 -> 'a2) -> 'a1 list -> 'a2 list

val flat_map : ('a1 -> 'a2 list) -> 'a1 list -> 'a2 list

val fold_left : ('a1 -> 'a2 -> 'a1) -> 'a2 list -> 'a1 -> 'a1

val existsb : ('a1 -> bool) -> 'a1 list -> bool

val filter : ('a1 -> bool) -> 'a1 list -> 'a1 list

val skipn : nat -> 'a1 list -> 'a1 list

module Z :
 sig
  val double : z -> z

  val succ_double : z -> z

  val pred_double : z -> z

  val pos_sub : positive -> positive -> z

  val add : z -> z -> z

  val opp : z -> z

  val mul : z -> z -> z

  val compare : z -> z -> comparison

  val leb : z -> z -> bool

  val ltb : z -> z -> bool

  val eqb : z -> z -> bool

  val to_N : z -> n

  val of_N : n -> z
 end

val piece_zobrist_tbl : n list

val castle_zobrist_tbl : n list

val ep_zobrist_tbl : n list

val turn_zobrist_tbl : n list

val mask64 : n

val trunc64 : n -> n

val not64 : n -> n

val shl64 : n -> n -> n

val shr64 : n -> n -> n

val bit : n -> n

val pos_tz : positive -> n

val tz64 : n -> n

val pos_popcount : positive -> n

val popcount : n -> n

val byte_of : n -> n -> n

val bswap64 : n -> n

val sq_list : n list

val elements : n -> n list

type color =
| White
| Black

val file_of : n -> n

val rank_of : n -> n

val bb_empty : n

val from_pos : n -> n

val fIRST_FILE : n

val fIRST_RANK : n

val from_file : n -> n

val from_rank : n -> n

val bb_or : n -> n -> n

val bb_and : n -> n -> n

val bb_xor : n -> n -> n

val bb_not : n -> n

val bb_diff : n -> n -> n

val any : n -> bool

val none : n -> bool

val bb_all : n -> bool

val bb_some : n -> bool

val contains : n -> n -> bool

val bb_with : n -> n -> n

val cleared : n -> n -> n

val shift_up : n -> n

val shift_down : n -> n

val shift_left : n -> n

val shift_right : n -> n

val count : n -> n

val flip_ranks : n -> n

val pop : n -> (n * n) option

val it_next : n -> n option * n

val nth_default_fuel : nat -> n -> n -> n option * n

val nth_default : n -> n -> n option * n

val from_squares : n list -> n

val from_boards : n list -> n

val iter_fuel : nat -> n -> n list

val iter_list : n -> n list

val sq_off : n -> z -> z -> n option

val set_of : n list -> n

val opt_list : 'a1 option -> 'a1 list

val offsets_set : n -> (z * z) list -> n

type dir =
| DN
| DS
| DE
| DW
| DNE
| DNW
| DSE
| DSW

val dvec : dir -> z * z

val dopp : dir -> dir

val rook_dirs : dir list

val bishop_dirs : dir list

val all_dirs : dir list

val step : dir -> n -> n option

val ray_fuel : nat -> dir -> n -> n list

val ray : dir -> n -> n list

val knight_offs : (z * z) list

val king_offs : (z * z) list

val knight_geo : n -> n

val king_geo : n -> n

val fwd : color -> z

val pawn_att_geo : color -> n -> n

val start_rank : color -> n

val pawn_push_geo : color -> n -> n

val rays_set : dir list -> n -> n

val rook_rays_geo : n -> n

val bishop_rays_geo : n -> n

val before : n -> n list -> n list option

val between_list : n -> n -> n list

val between_geo : n -> n -> n

val on_ray : n -> n -> dir -> bool

val line_geo : n -> n -> n

val absdiff : n -> n -> n

val dist_geo : n -> n -> n

val slide_ray : n -> n list -> n list

val slide : dir list -> n -> n -> n

val rook_attacks : n -> n -> n

val bishop_attacks : n -> n -> n

val pawn_quiets_spec : color -> n -> n -> n

val pawn_attacks_spec : color -> n -> n -> n

val pawn_moves_spec : color -> n -> n -> n

val nthN : n list -> n -> n

val lk_castle_zobrist : n -> n

val lk_ep_zobrist : n -> n

type score =
| SMin
| SBlackMateIn of n
| SRaw of z
| SWhiteMateIn of n
| SMax

val kind : score -> n

val cmp : score -> score -> comparison

val partial_cmp : score -> score -> comparison option

val eqb0 : score -> score -> bool

val ltb0 : score -> score -> bool

val leb0 : score -> score -> bool

val gtb : score -> score -> bool

val smax : score -> score -> score

val smin : score -> score -> score

val neg : score -> score

type promo =
| PKnight
| PBishop
| PRook
| PQueen

type st_promo =
| StKnight
| StBishop
| StRook
| StQueen
| StNone

type mi_promo =
| MiKnight
| MiBishop
| MiRook
| MiQueen
| MiNone
| MiIllegal

type cmove = { c_src : n; c_dst : n; c_piece : promo option }

type smove = { s_src : n; s_dst : n; s_piece : st_promo }

type omove = { o_src : n; o_dst : n; o_piece : mi_promo }

val to_stable : cmove -> smove

val of_stable : smove -> cmove

val to_opt_some : cmove -> omove

val to_opt : cmove option -> omove

val of_opt : omove -> cmove option

type st_score =
| StMin
| StBlackMateIn of n
| StRaw of z
| StWhiteMateIn of n
| StMax

val score_to : score -> st_score

val score_of : st_score -> score

val evaluated_roundtrip : cmove option -> score -> cmove option * score

val wrapping_sub_u8 : n -> n -> n

val abs_diff : n -> n -> n

val enum_from_u8 : n -> n -> n option

val pos_from_u8 : n -> n option

val color_not : n -> n

val side_not : n -> n

val pos_new : n -> n -> n

val pos_file : n -> n

val pos_rank : n -> n

val file_shift_left : n -> n option

val file_shift_right : n -> n option

val rank_shift_down : n -> n option

val rank_shift_up : n -> n option

val pos_shift_up : n -> n option

val pos_shift_down : n -> n option

val pos_shift_left : n -> n option

val pos_shift_right : n -> n option

val rank_flip : n -> n

val pos_flip_rank : n -> n

val dist_to : n -> n -> n

val file_show : n -> n list

val rank_show : n -> n list

val pos_show : n -> n list

val promo_show : n -> n list

val move_show : (n * n) -> n list

val move_show_full : n -> n -> n option -> n list

val file_from_ascii_byte : n -> n option

val rank_from_ascii_byte : n -> n option

val file_from_ascii_bytes : n list -> n option

val rank_from_ascii_bytes : n list -> n option

val pos_from_ascii_bytes : n list -> n option

val piece_from_ascii_byte : n -> n option

val piece_from_ascii_bytes : n list -> n option

val promo_from_ascii_byte : n -> n option

val promo_from_ascii_bytes : n list -> n option

val move_of_bytes : n -> n -> n -> n -> (n * n) option

val move_from_ascii_bytes : n list -> (n * n) option

type range = { lo : n; hi : n }

val forward_checked : n -> n -> n option

val backward_checked : n -> n -> n option

val r_next : range -> n option * range

val r_nth : n -> range -> n option * range

val r_next_back : range -> n option * range

val r_nth_back : n -> range -> n option * range

val r_size_hint : range -> n * n option

type iop =
| INext
| INextBack
| INth of n
| INthBack of n
| ISizeHint

val r_step : iop -> range -> n option * range

val it_step : n -> iop -> range -> n option * range

val run_it : n -> range -> iop list -> n option list

val run_iter : n -> iop list -> n option list

val allpos_next : n -> n option * n

val allpos_size_hint : n -> n

val allpos_step : iop -> n -> n option * n

val run_allpos_from : n -> iop list -> n option list

val run_allpos : iop list -> n option list

val file_iter_next : n -> range -> n option * range

val rank_iter_next : n -> range -> n option * range

type flag =
| FGlobal
| FEnabled
| FDisabled

type op =
| OEnable
| ODisable
| OToggle
| OLocalEnable
| OLocalDisable
| OLocalToggle
| OLocalTake
| ORestore of flag
| OIsEnabled

type st = { g : bool; loc : (n * flag) list }

val lookup : (n * flag) list -> n -> flag

val update : (n * flag) list -> n -> flag -> (n * flag) list

val get_loc : st -> n -> flag

val set_loc : st -> n -> flag -> st

val set_g : st -> bool -> st

val toggle_flag : flag -> flag

val view : st -> n -> bool

val step0 : st -> n -> op -> (st * bool option) * flag option

val init : st

val views : st -> n list -> bool list

type sop =
| SEnable
| SDisable
| SToggle
| SLocalEnable
| SLocalDisable
| SLocalToggle
| SLocalTake
| SRestoreTop
| SIsEnabled

type stacks = (n * flag list) list

val get_stack : stacks -> n -> flag list

val set_stack : stacks -> n -> flag list -> stacks

val resolve_op : flag list -> sop -> op

val sstep : st -> stacks -> n -> sop -> st * stacks

val run_stack_from :
  n list -> st -> stacks -> (n * sop) list -> (st * stacks) * bool list list

val run_stack : n list -> (n * sop) list -> bool list list

val api_score_cmp : score -> score -> comparison

val api_score_partial_cmp : score -> score -> comparison option

val api_score_eqb : score -> score -> bool

val api_score_ltb : score -> score -> bool

val api_score_leb : score -> score -> bool

val api_score_gtb : score -> score -> bool

val api_score_max : score -> score -> score

val api_score_min : score -> score -> score

val api_score_neg : score -> score

val api_color : n -> color

val api_table : n -> n -> n

val api_between : n -> n -> n

val api_line : n -> n -> n

val api_dist : n -> n -> n

val api_rook_attacks : n -> n -> n

val api_bishop_attacks : n -> n -> n

val api_pawn_quiets : n -> n -> n -> n

val api_pawn_attacks : n -> n -> n -> n

val api_pawn_moves : n -> n -> n -> n

val api_ranks : n list -> n

val api_files : n list -> n

val api_squares : n list -> n

val api_adjacent : n -> n

val api_adjacent_ranks : n -> n

val api_zk : n -> n -> n

val api_elements : n -> n list

val api_bb_not : n -> n

val api_shift_up : n -> n

val api_shift_down : n -> n

val api_shift_left : n -> n

val api_shift_right : n -> n

val api_flip_ranks : n -> n

val api_count : n -> n

val api_pop : n -> (n * n) option

val api_iter_list : n -> n list

val api_from_squares : n list -> n

val api_from_boards : n list -> n

val api_from_pos : n -> n

val api_from_file : n -> n

val api_from_rank : n -> n

val api_contains : n -> n -> bool

val api_with : n -> n -> n

val api_cleared : n -> n -> n

val api_or : n -> n -> n

val api_and : n -> n -> n

val api_xor : n -> n -> n

val api_diff : n -> n -> n

val api_any : n -> bool

val api_none : n -> bool

val api_all : n -> bool

val api_some : n -> bool

val api_nth_default : n -> n -> n option * n

val api_nth_spec : n -> n -> n option * n

val api_abi_stable_rt : cmove -> cmove

val api_abi_eval_rt : cmove option -> score -> cmove option * score

val api_file_from_ascii_bytes : n list -> n option

val api_rank_from_ascii_bytes : n list -> n option

val api_pos_from_ascii_bytes : n list -> n option

val api_piece_from_ascii_bytes : n list -> n option

val api_promo_from_ascii_bytes : n list -> n option

val api_move_from_ascii_bytes : n list -> (n * n) option

val api_pos_show : n -> n list

val api_file_show : n -> n list

val api_rank_show : n -> n list

val api_move_show_full : n -> n -> n option -> n list

val api_enum_from_u8 : n -> n -> n option

val api_pos_file : n -> n

val api_pos_rank : n -> n

val api_pos_new : n -> n -> n

val api_pos_shift_up : n -> n option

val api_pos_shift_down : n -> n option

val api_pos_shift_left : n -> n option

val api_pos_shift_right : n -> n option

val api_pos_flip_rank : n -> n

val api_file_shift_left : n -> n option

val api_file_shift_right : n -> n option

val api_rank_shift_down : n -> n option

val api_rank_shift_up : n -> n option

val api_rank_flip : n -> n

val api_dist_to : n -> n -> n

val api_color_not : n -> n

val api_side_not : n -> n

val api_run_iter : n -> iop list -> n option list

val api_run_allpos : iop list -> n option list

val api_file_iter_next : n -> range -> n option * range

val api_rank_iter_next : n -> range -> n option * range

val api_mk_range : n -> n -> range

val api_run_stack : n list -> (n * sop) list -> bool list list
