
type comparison =
| Eq
| Lt
| Gt

val compOpp : comparison -> comparison

type positive =
| XI of positive
| XO of positive
| XH

type n =
| N0
| Npos of positive

type z =
| Z0
| Zpos of positive
| Zneg of positive

module Pos :
 sig
  val compare_cont : comparison -> positive -> positive -> comparison

  val compare : positive -> positive -> comparison

  val eqb : positive -> positive -> bool
 end

module N :
 sig
  val compare : n -> n -> comparison

  val eqb : n -> n -> bool
 end

module Z :
 sig
  val opp : z -> z

  val compare : z -> z -> comparison

  val eqb : z -> z -> bool
 end

type score =
| SMin
| SBlackMateIn of n
| SRaw of z
| SWhiteMateIn of n
| SMax

val kind : score -> n

val cmp : score -> score -> comparison

val partial_cmp : score -> score -> comparison option

val eqb0 : score -> score -> bool

val ltb : score -> score -> bool

val leb : score -> score -> bool

val gtb : score -> score -> bool

val smax : score -> score -> score

val smin : score -> score -> score

val neg : score -> score

val api_score_cmp : score -> score -> comparison

val api_score_partial_cmp : score -> score -> comparison option

val api_score_eqb : score -> score -> bool

val api_score_ltb : score -> score -> bool

val api_score_leb : score -> score -> bool

val api_score_gtb : score -> score -> bool

val api_score_max : score -> score -> score

val api_score_min : score -> score -> score

val api_score_neg : score -> score
