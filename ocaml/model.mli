
val negb : bool -> bool

type nat =
| O
| S of nat

type ('a, 'b) sum =
| Inl of 'a
| Inr of 'b

val fst : ('a1 * 'a2) -> 'a1

val snd : ('a1 * 'a2) -> 'a2

val length : 'a1 list -> nat

val app : 'a1 list -> 'a1 list -> 'a1 list

type comparison =
| Eq
| Lt
| Gt

val compOpp : comparison -> comparison

val add : nat -> nat -> nat

val mul : nat -> nat -> nat

type positive =
| XI of positive
| XO of positive
| XH

type n =
| N0
| Npos of positive

type z =
| Z0
| Zpos of positive
| Zneg of positive

val eqb : bool -> bool -> bool

module Nat :
 sig
  val eqb : nat -> nat -> bool
 end

module Pos :
 sig
  type mask =
  | IsNul
  | IsPos of positive
  | IsNeg
 end

module Coq_Pos :
 sig
  val succ : positive -> positive

  val add : positive -> positive -> positive

  val add_carry : positive -> positive -> positive

  val pred_double : positive -> positive

  val pred_N : positive -> n

  type mask = Pos.mask =
  | IsNul
  | IsPos of positive
  | IsNeg

  val succ_double_mask : mask -> mask

  val double_mask : mask -> mask

  val double_pred_mask : positive -> mask

  val sub_mask : positive -> positive -> mask

  val sub_mask_carry : positive -> positive -> mask

  val mul : positive -> positive -> positive

  val iter : ('a1 -> 'a1) -> 'a1 -> positive -> 'a1

  val compare_cont : comparison -> positive -> positive -> comparison

  val compare : positive -> positive -> comparison

  val eqb : positive -> positive -> bool

  val coq_Nsucc_double : n -> n

  val coq_Ndouble : n -> n

  val coq_lor : positive -> positive -> positive

  val coq_land : positive -> positive -> n

  val ldiff : positive -> positive -> n

  val coq_lxor : positive -> positive -> n

  val shiftl : positive -> n -> positive

  val testbit : positive -> n -> bool

  val iter_op : ('a1 -> 'a1 -> 'a1) -> positive -> 'a1 -> 'a1

  val to_nat : positive -> nat

  val of_succ_nat : nat -> positive
 end

module N :
 sig
  val succ_double : n -> n

  val double : n -> n

  val succ : n -> n

  val pred : n -> n

  val add : n -> n -> n

  val sub : n -> n -> n

  val mul : n -> n -> n

  val compare : n -> n -> comparison

  val eqb : n -> n -> bool

  val leb : n -> n -> bool

  val ltb : n -> n -> bool

  val min : n -> n -> n

  val max : n -> n -> n

  val div2 : n -> n

  val pos_div_eucl : positive -> n -> n * n

  val div_eucl : n -> n -> n * n

  val div : n -> n -> n

  val modulo : n -> n -> n

  val coq_lor : n -> n -> n

  val coq_land : n -> n -> n

  val ldiff : n -> n -> n

  val coq_lxor : n -> n -> n

  val shiftl : n -> n -> n

  val shiftr : n -> n -> n

  val testbit : n -> n -> bool

  val to_nat : n -> nat

  val of_nat : nat -> n

  val ones : n -> n
 end

val nth : nat -> 'a1 list -> 'a1 -> 'a1

val nth_error : 'a1 list -> nat -> 'a1 option

val map : ('a1 -> 'a2) -> 'a1 list -> 'a2 list

val flat_map : ('a1 -> 'a2 list) -> 'a1 list -> 'a2 list

val fold_left : ('a1 -> 'a2 -> 'a1) -> 'a2 list -> 'a1 -> 'a1

val fold_right : ('a2 -> 'a1 -> 'a1) -> 'a1 -> 'a2 list -> 'a1

val existsb : ('a1 -> bool) -> 'a1 list -> bool

val forallb : ('a1 -> bool) -> 'a1 list -> bool

val filter : ('a1 -> bool) -> 'a1 list -> 'a1 list

val find : ('a1 -> bool) -> 'a1 list -> 'a1 option

val skipn : nat -> 'a1 list -> 'a1 list

val repeat : 'a1 -> nat -> 'a1 list

module Z :
 sig
  val double : z -> z

  val succ_double : z -> z

  val pred_double : z -> z

  val pos_sub : positive -> positive -> z

  val add : z -> z -> z

  val opp : z -> z

  val sub : z -> z -> z

  val mul : z -> z -> z

  val compare : z -> z -> comparison

  val leb : z -> z -> bool

  val ltb : z -> z -> bool

  val eqb : z -> z -> bool

  val to_N : z -> n

  val of_N : n -> z
 end

val piece_zobrist_tbl : n list

val castle_zobrist_tbl : n list

val ep_zobrist_tbl : n list

val turn_zobrist_tbl : n list

val mask64 : n

val trunc64 : n -> n

val not64 : n -> n

val shl64 : n -> n -> n

val shr64 : n -> n -> n

val bit : n -> n

val pos_tz : positive -> n

val tz64 : n -> n

val pos_popcount : positive -> n

val popcount : n -> n

val byte_of : n -> n -> n

val bswap64 : n -> n

val sq_list : n list

val elements : n -> n list

type color =
| White
| Black

type piece =
| Pawn
| Knight
| Bishop
| Rook
| Queen
| King

type side =
| KingSide
| QueenSide

val color_idx : color -> n

val piece_idx : piece -> n

val side_idx : side -> n

val opp0 : color -> color

val color_eqb : color -> color -> bool

val piece_eqb : piece -> piece -> bool

val promo_pieces : piece list

val file_of : n -> n

val rank_of : n -> n

val mk_sq : n -> n -> n

type move = { m_src : n; m_dst : n; m_promo : piece option }

val opt_piece_eqb : piece option -> piece option -> bool

val move_eqb : move -> move -> bool

val bb_empty : n

val bb_full : n

val from_pos : n -> n

val fIRST_FILE : n

val fIRST_RANK : n

val from_file : n -> n

val from_rank : n -> n

val bb_or : n -> n -> n

val bb_and : n -> n -> n

val bb_xor : n -> n -> n

val bb_not : n -> n

val bb_diff : n -> n -> n

val any : n -> bool

val none : n -> bool

val bb_all : n -> bool

val bb_some : n -> bool

val contains : n -> n -> bool

val bb_with : n -> n -> n

val cleared : n -> n -> n

val shift_up : n -> n

val shift_down : n -> n

val shift_left : n -> n

val shift_right : n -> n

val count : n -> n

val flip_ranks : n -> n

val pop : n -> (n * n) option

val it_next : n -> n option * n

val nth_default_fuel : nat -> n -> n -> n option * n

val nth_default : n -> n -> n option * n

type 'a outcome =
| Ret of 'a
| Trap

val from_squares : n list -> n

val from_boards : n list -> n

val iter_fuel : nat -> n -> n list

val iter_list : n -> n list

val sq_off : n -> z -> z -> n option

val set_of : n list -> n

val opt_list : 'a1 option -> 'a1 list

val offsets_set : n -> (z * z) list -> n

type dir =
| DN
| DS
| DE
| DW
| DNE
| DNW
| DSE
| DSW

val dvec : dir -> z * z

val dopp : dir -> dir

val rook_dirs : dir list

val bishop_dirs : dir list

val all_dirs : dir list

val step : dir -> n -> n option

val ray_fuel : nat -> dir -> n -> n list

val ray : dir -> n -> n list

val knight_offs : (z * z) list

val king_offs : (z * z) list

val knight_geo : n -> n

val king_geo : n -> n

val fwd : color -> z

val pawn_att_geo : color -> n -> n

val start_rank : color -> n

val pawn_push_geo : color -> n -> n

val rays_set : dir list -> n -> n

val rook_rays_geo : n -> n

val bishop_rays_geo : n -> n

val before : n -> n list -> n list option

val between_list : n -> n -> n list

val between_geo : n -> n -> n

val on_ray : n -> n -> dir -> bool

val line_geo : n -> n -> n

val absdiff : n -> n -> n

val dist_geo : n -> n -> n

val slide_ray : n -> n list -> n list

val slide : dir list -> n -> n -> n

val rook_attacks : n -> n -> n

val bishop_attacks : n -> n -> n

val pawn_quiets_spec : color -> n -> n -> n

val pawn_attacks_spec : color -> n -> n -> n

val pawn_moves_spec : color -> n -> n -> n

val nthN : n list -> n -> n

val lk_castle_zobrist : n -> n

val lk_ep_zobrist : n -> n

type score =
| SMin
| SBlackMateIn of n
| SRaw of z
| SWhiteMateIn of n
| SMax

val kind : score -> n

val cmp : score -> score -> comparison

val partial_cmp : score -> score -> comparison option

val eqb0 : score -> score -> bool

val ltb0 : score -> score -> bool

val leb0 : score -> score -> bool

val gtb : score -> score -> bool

val smax : score -> score -> score

val smin : score -> score -> score

val neg : score -> score

type promo =
| PKnight
| PBishop
| PRook
| PQueen

type st_promo =
| StKnight
| StBishop
| StRook
| StQueen
| StNone

type mi_promo =
| MiKnight
| MiBishop
| MiRook
| MiQueen
| MiNone
| MiIllegal

type cmove = { c_src : n; c_dst : n; c_piece : promo option }

type smove = { s_src : n; s_dst : n; s_piece : st_promo }

type omove = { o_src : n; o_dst : n; o_piece : mi_promo }

val to_stable : cmove -> smove

val of_stable : smove -> cmove

val to_opt_some : cmove -> omove

val to_opt : cmove option -> omove

val of_opt : omove -> cmove option

type st_score =
| StMin
| StBlackMateIn of n
| StRaw of z
| StWhiteMateIn of n
| StMax

val score_to : score -> st_score

val score_of : st_score -> score

val evaluated_roundtrip : cmove option -> score -> cmove option * score

val wrapping_sub_u8 : n -> n -> n

val abs_diff : n -> n -> n

val enum_from_u8 : n -> n -> n option

val pos_from_u8 : n -> n option

val color_not : n -> n

val side_not : n -> n

val pos_new : n -> n -> n

val pos_file : n -> n

val pos_rank : n -> n

val file_shift_left : n -> n option

val file_shift_right : n -> n option

val rank_shift_down : n -> n option

val rank_shift_up : n -> n option

val pos_shift_up : n -> n option

val pos_shift_down : n -> n option

val pos_shift_left : n -> n option

val pos_shift_right : n -> n option

val rank_flip : n -> n

val pos_flip_rank : n -> n

val dist_to : n -> n -> n

val file_show : n -> n list

val rank_show : n -> n list

val pos_show : n -> n list

val promo_show : n -> n list

val move_show : (n * n) -> n list

val move_show_full : n -> n -> n option -> n list

val file_from_ascii_byte : n -> n option

val rank_from_ascii_byte : n -> n option

val file_from_ascii_bytes : n list -> n option

val rank_from_ascii_bytes : n list -> n option

val pos_from_ascii_bytes : n list -> n option

val piece_from_ascii_byte : n -> n option

val piece_from_ascii_bytes : n list -> n option

val promo_from_ascii_byte : n -> n option

val promo_from_ascii_bytes : n list -> n option

val move_of_bytes : n -> n -> n -> n -> (n * n) option

val move_from_ascii_bytes : n list -> (n * n) option

type range = { lo : n; hi : n }

val forward_checked : n -> n -> n option

val backward_checked : n -> n -> n option

val r_next : range -> n option * range

val r_nth : n -> range -> n option * range

val r_next_back : range -> n option * range

val r_nth_back : n -> range -> n option * range

val r_size_hint : range -> n * n option

type iop =
| INext
| INextBack
| INth of n
| INthBack of n
| ISizeHint

val r_step : iop -> range -> n option * range

val it_step : n -> iop -> range -> n option * range

val run_it : n -> range -> iop list -> n option list

val run_iter : n -> iop list -> n option list

val allpos_next : n -> n option * n

val allpos_size_hint : n -> n

val allpos_step : iop -> n -> n option * n

val run_allpos_from : n -> iop list -> n option list

val run_allpos : iop list -> n option list

val file_iter_next : n -> range -> n option * range

val rank_iter_next : n -> range -> n option * range

type flag =
| FGlobal
| FEnabled
| FDisabled

type op =
| OEnable
| ODisable
| OToggle
| OLocalEnable
| OLocalDisable
| OLocalToggle
| OLocalTake
| ORestore of flag
| OIsEnabled

type st = { g : bool; loc : (n * flag) list }

val lookup : (n * flag) list -> n -> flag

val update : (n * flag) list -> n -> flag -> (n * flag) list

val get_loc : st -> n -> flag

val set_loc : st -> n -> flag -> st

val set_g : st -> bool -> st

val toggle_flag : flag -> flag

val view : st -> n -> bool

val step0 : st -> n -> op -> (st * bool option) * flag option

val init : st

val views : st -> n list -> bool list

type sop =
| SEnable
| SDisable
| SToggle
| SLocalEnable
| SLocalDisable
| SLocalToggle
| SLocalTake
| SRestoreTop
| SIsEnabled

type stacks = (n * flag list) list

val get_stack : stacks -> n -> flag list

val set_stack : stacks -> n -> flag list -> stacks

val resolve_op : flag list -> sop -> op

val sstep : st -> stacks -> n -> sop -> st * stacks

val run_stack_from :
  n list -> st -> stacks -> (n * sop) list -> (st * stacks) * bool list list

val run_stack : n list -> (n * sop) list -> bool list list

type cell = (color * piece) option

type position = { cells : cell list; stm : color; cr_wk : bool; cr_wq : 
                  bool; cr_bk : bool; cr_bq : bool; epf : n option; hm : 
                  n; fm : n }

val cell_at : cell list -> n -> cell

val set_nth : 'a1 list -> nat -> 'a1 -> 'a1 list

val cell_set : cell list -> n -> cell -> cell list

val is_piece : cell list -> color -> piece -> n -> bool

val occupied : cell list -> n -> bool

val has_color : cell list -> color -> n -> bool

val offs : n -> (z * z) list -> n list

val first_occupied : cell list -> n list -> n option

val attacked_by : cell list -> color -> n -> bool

val king_square : cell list -> color -> n option

val in_check_cells : cell list -> color -> bool

val last_rank : color -> n

val home_rank : color -> n

val ep_capture_rank : color -> n

val ep_pawn_rank : color -> n

val mk : n -> n -> piece option -> move

val with_promos : color -> n -> n -> move list

val slide_targets : cell list -> color -> n list -> n list

val can_castle_right : position -> color -> side -> bool

val castle_moves : position -> move list

val is_ep_target : position -> color -> n -> bool

val pawn_moves_from : position -> n -> move list

val piece_moves_from : position -> n -> piece -> move list

val pseudo : position -> move list

val make : position -> move -> position

val legal : position -> move -> bool

val legal_moves : position -> move list

val is_legal_move : position -> move -> bool

val in_check : position -> bool

type status =
| CheckMate
| Draw
| Check
| Running

val classify : position -> status

val cell_eqb : cell -> cell -> bool

val cells_eqb : cell list -> cell list -> bool

val optN_eqb : n option -> n option -> bool

val same_position : position -> position -> bool

val mirror_cell : cell -> cell

val mirror_sq : n -> n

val mirror : position -> position

val back_row : piece list

val start_cells : cell list

val start_position : position

val count_cells : (cell -> bool) -> cell list -> n

val playable : position -> bool

type board = { b_zob : n; b_turn : color; b_rights : n; b_ep : n option;
               b_half : n; b_full : n; b_pinned : n; b_checkers : n;
               b_white : n; b_black : n; b_pawn : n; b_knight : n;
               b_bishop : n; b_rook : n; b_queen : n; b_king : n }

val colors : board -> color -> n

val pieces : board -> piece -> n

val all_occ : board -> n

val set_color : board -> color -> n -> board

val set_piece : board -> piece -> n -> board

val set_zob : board -> n -> board

val set_meta : board -> color -> n -> n option -> n -> n -> n -> n -> board

val set_pins : board -> n -> n -> board

val nthN0 : n list -> n -> n

val zkey : n -> piece -> color -> n

val zkey_turn : color -> n

val zkey_castle : n -> n

val zkey_ep : n -> n

val color_of : board -> n -> color option

val piece_of_unchecked : board -> n -> piece

val piece_of : board -> n -> piece option

val raw_get : board -> n -> (color * piece) option

val raw_set_unchecked : board -> color -> piece -> n -> board

val raw_remove : board -> color -> piece -> n -> board

val raw_xor : board -> color -> piece -> n -> board

val has_kings : board -> bool

val board_xor : board -> color -> piece -> n -> board

val cr_offset : side -> color -> n

val cr_contains : n -> side -> color -> bool

val cr_contains_color : n -> color -> bool

val cr_with : n -> side -> color -> n

val cr_full : n

val cr_keep : color -> n -> n

val cr_remove_for_sq : n -> color -> n -> n

val king_sq : board -> color -> n

val zobrist : board -> n

val in_check0 : board -> bool

val enpassant_pos : board -> n option

val ep_capture_rank_of : color -> n

val ep_pawn_rank_of : color -> n

val board_eqb : board -> board -> bool

val board_all_eqb : board -> board -> bool

val scan_sliders : n -> n -> n list -> n * n

val update_pin_info : board -> board

type verr =
| MissingKings
| InvalidCastleRights
| InvalidEnpassant
| TooManyPieces
| OpponentInCheck

val validate_en_passant : board -> bool

val get_is : board -> n -> color -> piece -> bool

val validate_castle_rights : board -> bool

val attackers_of : board -> color -> n -> n -> n

val validate : board -> verr option

val empty_board : board

val standard : board

type bop =
| BTurn of color
| BHalf of n
| BFull of n
| BEnpassant of n option
| BPlace of n * color * piece
| BRemove of n

val bstep : board -> bop -> board * bool

val build : board -> (board, verr) sum

val abs : board -> position

type entry = { e_src : n; e_moves : n; e_promo : bool }

val check_mask : board -> bool -> n -> n

val pseudo_legals : piece -> n -> color -> n -> n -> n

val mk_entries : n list -> (n -> n) -> (n -> bool) -> entry list

val piece_legals : piece -> bool -> bool -> board -> n -> entry list

val is_legal_en_passant : board -> n -> n -> n -> n -> bool

val adjacent_files : n -> n

val pawn_legals : bool -> board -> n -> entry list

val is_legal_king_position : board -> n -> bool

val bACKRANK_BB_of : color -> n

val cASTLE_MOVES_bb : n

val kINGSIDE_FILES : n

val qUEENSIDE_FILES : n

val qUEENSIDE_SAFE_FILES : n

val king_legals : bool -> board -> color -> n -> entry list

val collect_moves : board -> n -> entry list

val collect_king_moves : board -> color -> entry list

type movegen = { g_moves : entry list; g_promo : n; g_mask : n; g_index : nat }

val mg_new : entry list -> n -> movegen

val legals_gen : board -> movegen

val legals_masked_gen : board -> n -> movegen

val king_legals_gen : board -> color -> movegen

val live : movegen -> entry -> bool

val mg_is_empty : movegen -> bool

val mg_len : movegen -> n

val mg_remove : movegen -> n -> movegen

val mg_remove_move : movegen -> move -> movegen * bool

val swap_front : nat -> entry list -> nat -> nat -> n -> entry list

val mg_set_mask : movegen -> n -> movegen

val promo_at : n -> piece

val skip_dead : movegen -> entry list -> nat -> nat

val set_entry : movegen -> nat -> entry -> n -> nat -> movegen

val mg_next : movegen -> move option * movegen

val drain_bound : movegen -> nat

val mg_drain_fuel : nat -> movegen -> move list

val mg_drain : movegen -> move list

val legals : board -> move list

val is_legal : board -> move -> bool

val sat16 : n -> n

val set_half : board -> n -> board

val set_full : board -> n -> board

val set_ep : board -> n option -> board

val set_rights : board -> n -> board

val set_checkers : board -> n -> board

val apply : board -> move -> board

type gstate =
| GCheckMate
| GStaleMate
| GCheck
| GRunning

val state : board -> gstate

type ws_kind =
| WsPieces
| WsTurn
| WsCastleRights
| WsEnpassant
| WsHalfMoveClock

type perr =
| InvalidPiece of n * n
| MissingPiece of n
| MissingWhitespace of ws_kind
| InvalidTurn of n
| MissingTurn
| FileOutOfBounds of n
| InvalidEnpassantE of n * n
| MissingEnpassant
| MissingCastleRights
| MissingHalfClock
| MissingFullClock
| TrailingBytes
| BoardValidation of verr

type presult =
| POk of board
| PErr of perr

val parse_piece_byte : n -> (color * piece, n) sum option

val placement :
  n list -> n -> n -> board -> (perr, board * n list) sum outcome

val skip_spaces : n list -> n list

val parse_whitespace : n list -> ws_kind -> (perr, n list) sum

val parse_flag : n list -> n -> bool * n list

val parse_digits : nat -> n list -> n -> n * n list

val parse_number : n list -> (n * n list) option

val is_empty_list : 'a1 list -> bool

val parse_fen_t : n list -> presult outcome

val dec_digits : nat -> n -> n list -> n list

val show_dec : n -> n list

val piece_char : color -> piece -> n

val flush : n -> n list

val write_rank : board -> n -> n list

val write_rights : n -> n list

val write_fen : board -> n list

type threefold = (board * n) list

val tf_key_eqb : board -> board -> bool

val tf_get : threefold -> board -> n

val sat8 : n -> n

val tf_bump : threefold -> board -> threefold * n

val tf_add : threefold -> board -> threefold * bool

type blist = (board * n) list

val bl_count : blist -> threefold -> board -> n

val bl_new : threefold -> board -> blist

val bl_add : blist -> threefold -> board -> blist

val bl_head_count : blist -> n

val zcount : n -> z

val score_pieces : board -> color -> z

val dist_from_edge : n -> n

val eval_endgame : board -> color -> z

val eval : board -> score

val insufficient_material : board -> bool

val worst : color -> score

val is_better : color -> score -> score -> bool

val upd_alpha : color -> score -> score -> score

val upd_beta : color -> score -> score -> score

val mate_score : color -> n -> score

val sat_sub1 : n -> n

type sst = { s_polls : n; s_evals : n }

val bump_eval : sst -> sst

val bump_poll : sst -> sst

type ares =
| AVal of score * sst
| ATimeout
| AFuel

val expired : n -> sst -> bool

val alphabeta :
  n -> threefold -> nat -> color -> board -> move -> n -> n -> score -> score
  -> blist -> sst -> ares

type rres =
| RVal of score * move option * score * score * sst
| RTimeout
| RFuel

val root_phase :
  n -> threefold -> nat -> color -> board -> n -> move list -> score -> move
  option -> score -> score -> sst -> rres

type pass_result =
| PassTimeout
| PassFuel
| PassDone of score * move option * sst

val pass :
  n -> threefold -> nat -> board -> n -> move option -> sst -> pass_result

val is_mate_score : score -> bool

val deepen :
  n -> threefold -> nat -> nat -> board -> n -> move option -> score -> n ->
  sst -> ((move option * score) * n) * bool

val search :
  n -> threefold -> nat -> nat -> board -> ((move option * score) * n) * bool

type bot = { bt_board : board; bt_tf : threefold }

val bot_init : bot

val bot_set_board : board -> bot

val bot_make_move : bot -> move -> bot * (bool * bool)

val bot_evaluate : n -> nat -> nat -> bot -> move option * score

val api_score_cmp : score -> score -> comparison

val api_score_partial_cmp : score -> score -> comparison option

val api_score_eqb : score -> score -> bool

val api_score_ltb : score -> score -> bool

val api_score_leb : score -> score -> bool

val api_score_gtb : score -> score -> bool

val api_score_max : score -> score -> score

val api_score_min : score -> score -> score

val api_score_neg : score -> score

val api_color : n -> color

val api_table : n -> n -> n

val api_between : n -> n -> n

val api_line : n -> n -> n

val api_dist : n -> n -> n

val api_rook_attacks : n -> n -> n

val api_bishop_attacks : n -> n -> n

val api_pawn_quiets : n -> n -> n -> n

val api_pawn_attacks : n -> n -> n -> n

val api_pawn_moves : n -> n -> n -> n

val api_ranks : n list -> n

val api_files : n list -> n

val api_squares : n list -> n

val api_adjacent : n -> n

val api_adjacent_ranks : n -> n

val api_zk : n -> n -> n

val api_elements : n -> n list

val api_bb_not : n -> n

val api_shift_up : n -> n

val api_shift_down : n -> n

val api_shift_left : n -> n

val api_shift_right : n -> n

val api_flip_ranks : n -> n

val api_count : n -> n

val api_pop : n -> (n * n) option

val api_iter_list : n -> n list

val api_from_squares : n list -> n

val api_from_boards : n list -> n

val api_from_pos : n -> n

val api_from_file : n -> n

val api_from_rank : n -> n

val api_contains : n -> n -> bool

val api_with : n -> n -> n

val api_cleared : n -> n -> n

val api_or : n -> n -> n

val api_and : n -> n -> n

val api_xor : n -> n -> n

val api_diff : n -> n -> n

val api_any : n -> bool

val api_none : n -> bool

val api_all : n -> bool

val api_some : n -> bool

val api_nth_default : n -> n -> n option * n

val api_nth_spec : n -> n -> n option * n

val api_abi_stable_rt : cmove -> cmove

val api_abi_eval_rt : cmove option -> score -> cmove option * score

val api_file_from_ascii_bytes : n list -> n option

val api_rank_from_ascii_bytes : n list -> n option

val api_pos_from_ascii_bytes : n list -> n option

val api_piece_from_ascii_bytes : n list -> n option

val api_promo_from_ascii_bytes : n list -> n option

val api_move_from_ascii_bytes : n list -> (n * n) option

val api_pos_show : n -> n list

val api_file_show : n -> n list

val api_rank_show : n -> n list

val api_move_show_full : n -> n -> n option -> n list

val api_enum_from_u8 : n -> n -> n option

val api_pos_file : n -> n

val api_pos_rank : n -> n

val api_pos_new : n -> n -> n

val api_pos_shift_up : n -> n option

val api_pos_shift_down : n -> n option

val api_pos_shift_left : n -> n option

val api_pos_shift_right : n -> n option

val api_pos_flip_rank : n -> n

val api_file_shift_left : n -> n option

val api_file_shift_right : n -> n option

val api_rank_shift_down : n -> n option

val api_rank_shift_up : n -> n option

val api_rank_flip : n -> n

val api_dist_to : n -> n -> n

val api_color_not : n -> n

val api_side_not : n -> n

val api_run_iter : n -> iop list -> n option list

val api_run_allpos : iop list -> n option list

val api_file_iter_next : n -> range -> n option * range

val api_rank_iter_next : n -> range -> n option * range

val api_mk_range : n -> n -> range

val api_run_stack : n list -> (n * sop) list -> bool list list

val api_parse_fen_t : n list -> presult outcome

val api_write_fen : board -> n list

val api_legals : board -> move list

val api_is_legal : board -> move -> bool

val api_gen_len : board -> n * bool

val api_in_check : board -> bool

val api_state : board -> gstate

val api_zobrist : board -> n

val api_apply : board -> move -> board

val api_abs : board -> position

val api_board_all_eqb : board -> board -> bool

val api_board_eqb : board -> board -> bool

val api_standard : board

val api_empty_board : board

val api_bstep : board -> bop -> board * bool

val api_build : board -> (board, verr) sum

val api_spec_legal_moves : position -> move list

val api_spec_is_legal : position -> move -> bool

val api_spec_in_check : position -> bool

val api_spec_classify : position -> status

val api_spec_make : position -> move -> position

val api_spec_playable : position -> bool

val api_spec_same_position : position -> position -> bool

val api_spec_start : position

val api_spec_mirror : position -> position

val api_spec_pos_eqb : position -> position -> bool

val api_legals_gen : board -> movegen

val api_legals_masked_gen : board -> n -> movegen

val api_mg_next : movegen -> move option * movegen

val api_mg_len : movegen -> n

val api_mg_is_empty : movegen -> bool

val api_mg_set_mask : movegen -> n -> movegen

val api_mg_remove : movegen -> n -> movegen

val api_mg_remove_move : movegen -> move -> movegen * bool

val api_mk_move : n -> n -> piece option -> move

val api_search :
  n -> nat -> nat -> board -> ((move option * score) * n) * bool

val tf_rep : nat -> board -> threefold

val api_search_tf :
  n -> nat -> nat -> nat -> board -> ((move option * score) * n) * bool

val tf_add_n : nat -> threefold -> board -> threefold

val tf_children : nat -> board -> threefold

val api_search_tfc :
  n -> nat -> nat -> nat -> board -> ((move option * score) * n) * bool

val api_nat_of_N : n -> nat

val api_score_neg2 : score -> score

val api_bot_init : bot

val api_bot_set_board : board -> bot

val api_bot_make_move : bot -> move -> bot * (bool * bool)

val api_bot_evaluate : n -> nat -> nat -> bot -> move option * score

val api_bot_board : bot -> board
