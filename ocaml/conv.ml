(* Conversions between OCaml text/ints and the extracted Coq numbers (N, Z, positive stay inductives). *)
open Model

let rec pos_of_int (i : int) : positive =
  if i = 1 then XH else if i land 1 = 0 then XO (pos_of_int (i lsr 1)) else XI (pos_of_int (i lsr 1))
let n_of_int (i : int) : n = if i = 0 then N0 else Npos (pos_of_int i)
let z_of_int (i : int) : z = if i = 0 then Z0 else if i > 0 then Zpos (pos_of_int i) else Zneg (pos_of_int (-i))
let rec int_of_pos = function XH -> 1 | XO p -> 2 * int_of_pos p | XI p -> 2 * int_of_pos p + 1
let int_of_n = function N0 -> 0 | Npos p -> int_of_pos p
let int_of_z = function Z0 -> 0 | Zpos p -> int_of_pos p | Zneg p -> - (int_of_pos p)

(* 64-bit words travel as hex strings (OCaml int is 63-bit) *)
let hexval c = match c with
  | '0'..'9' -> Char.code c - 48 | 'a'..'f' -> Char.code c - 87 | 'A'..'F' -> Char.code c - 55
  | _ -> failwith "hex"
let n_of_hex (s : string) : n =
  (* build bits little-endian *)
  let bits = ref [] in
  String.iter (fun c -> let v = hexval c in
    bits := (v land 1 <> 0) :: (v land 2 <> 0) :: (v land 4 <> 0) :: (v land 8 <> 0) :: !bits) s;
  (* !bits is now little-endian: head = least significant bit of last hex digit *)
  let rec strip = function [] -> [] | l -> l in
  let rec build = function
    | [] -> None
    | b :: rest ->
      (match build rest with
       | None -> if b then Some XH else None
       | Some p -> Some (if b then XI p else XO p)) in
  match build (strip !bits) with None -> N0 | Some p -> Npos p
let hex_of_n (x : n) : string =
  match x with
  | N0 -> "0"
  | Npos p ->
    let rec bits p acc = match p with XH -> true :: acc | XO q -> bits q (false :: acc) | XI q -> bits q (true :: acc) in
    (* bits returns big-endian? we accumulate msb last -> reverse *)
    let rec le p = match p with XH -> [true] | XO q -> false :: le q | XI q -> true :: le q in
    ignore bits;
    let l = le p in
    let buf = Buffer.create 16 in
    let rec nibbles l = match l with
      | [] -> []
      | _ ->
        let take l = match l with [] -> (false, []) | b :: r -> (b, r) in
        let (b0, l) = take l in let (b1, l) = take l in let (b2, l) = take l in let (b3, l) = take l in
        ((if b0 then 1 else 0) + (if b1 then 2 else 0) + (if b2 then 4 else 0) + (if b3 then 8 else 0)) :: nibbles l in
    List.iter (fun v -> Buffer.add_char buf "0123456789abcdef".[v]) (List.rev (nibbles l));
    Buffer.contents buf

(* decimal strings for clocks etc. fit OCaml ints *)
let n_of_dec s = n_of_int (int_of_string s)
let bytes_of_string (s : string) : n list = List.init (String.length s) (fun i -> n_of_int (Char.code s.[i]))
let string_of_bytes (l : n list) : string =
  let b = Buffer.create 64 in List.iter (fun x -> Buffer.add_char b (Char.chr (int_of_n x land 255))) l; Buffer.contents b
let bytes_of_hex (s : string) : n list =
  List.init (String.length s / 2) (fun i -> n_of_int (hexval s.[2*i] * 16 + hexval s.[2*i+1]))
