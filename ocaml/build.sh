#!/bin/sh
# build the OCaml correspondence driver from the freshly extracted model
set -e
cd "$(dirname "$0")"
ocamlfind ocamlopt -O3 -unboxed-types 2>/dev/null >/dev/null || true
ocamlfind ocamlopt -w -a -inline 100 model.mli model.ml conv.ml driver.ml -o driver
