
type comparison =
| Eq
| Lt
| Gt

(** val compOpp : comparison -> comparison **)

let compOpp = function
| Eq -> Eq
| Lt -> Gt
| Gt -> Lt

type positive =
| XI of positive
| XO of positive
| XH

type n =
| N0
| Npos of positive

type z =
| Z0
| Zpos of positive
| Zneg of positive

module Pos =
 struct
  (** val compare_cont : comparison -> positive -> positive -> comparison **)

  let rec compare_cont r x y =
    match x with
    | XI p ->
      (match y with
       | XI q -> compare_cont r p q
       | XO q -> compare_cont Gt p q
       | XH -> Gt)
    | XO p ->
      (match y with
       | XI q -> compare_cont Lt p q
       | XO q -> compare_cont r p q
       | XH -> Gt)
    | XH -> (match y with
             | XH -> r
             | _ -> Lt)

  (** val compare : positive -> positive -> comparison **)

  let compare =
    compare_cont Eq

  (** val eqb : positive -> positive -> bool **)

  let rec eqb p q =
    match p with
    | XI p0 -> (match q with
                | XI q0 -> eqb p0 q0
                | _ -> false)
    | XO p0 -> (match q with
                | XO q0 -> eqb p0 q0
                | _ -> false)
    | XH -> (match q with
             | XH -> true
             | _ -> false)
 end

module N =
 struct
  (** val compare : n -> n -> comparison **)

  let compare n0 m =
    match n0 with
    | N0 -> (match m with
             | N0 -> Eq
             | Npos _ -> Lt)
    | Npos n' -> (match m with
                  | N0 -> Gt
                  | Npos m' -> Pos.compare n' m')

  (** val eqb : n -> n -> bool **)

  let eqb n0 m =
    match n0 with
    | N0 -> (match m with
             | N0 -> true
             | Npos _ -> false)
    | Npos p -> (match m with
                 | N0 -> false
                 | Npos q -> Pos.eqb p q)
 end

module Z =
 struct
  (** val opp : z -> z **)

  let opp = function
  | Z0 -> Z0
  | Zpos x0 -> Zneg x0
  | Zneg x0 -> Zpos x0

  (** val compare : z -> z -> comparison **)

  let compare x y =
    match x with
    | Z0 -> (match y with
             | Z0 -> Eq
             | Zpos _ -> Lt
             | Zneg _ -> Gt)
    | Zpos x' -> (match y with
                  | Zpos y' -> Pos.compare x' y'
                  | _ -> Gt)
    | Zneg x' ->
      (match y with
       | Zneg y' -> compOpp (Pos.compare x' y')
       | _ -> Lt)

  (** val eqb : z -> z -> bool **)

  let eqb x y =
    match x with
    | Z0 -> (match y with
             | Z0 -> true
             | _ -> false)
    | Zpos p -> (match y with
                 | Zpos q -> Pos.eqb p q
                 | _ -> false)
    | Zneg p -> (match y with
                 | Zneg q -> Pos.eqb p q
                 | _ -> false)
 end

type score =
| SMin
| SBlackMateIn of n
| SRaw of z
| SWhiteMateIn of n
| SMax

(** val kind : score -> n **)

let kind = function
| SMin -> N0
| SBlackMateIn _ -> Npos XH
| SRaw _ -> Npos (XO XH)
| SWhiteMateIn _ -> Npos (XI XH)
| SMax -> Npos (XO (XO XH))

(** val cmp : score -> score -> comparison **)

let cmp a b =
  match a with
  | SBlackMateIn x ->
    (match b with
     | SBlackMateIn y -> N.compare x y
     | _ -> N.compare (kind a) (kind b))
  | SRaw x ->
    (match b with
     | SRaw y -> Z.compare x y
     | _ -> N.compare (kind a) (kind b))
  | SWhiteMateIn x ->
    (match b with
     | SWhiteMateIn y -> N.compare y x
     | _ -> N.compare (kind a) (kind b))
  | _ -> N.compare (kind a) (kind b)

(** val partial_cmp : score -> score -> comparison option **)

let partial_cmp a b =
  Some (cmp a b)

(** val eqb0 : score -> score -> bool **)

let eqb0 a b =
  match a with
  | SMin -> (match b with
             | SMin -> true
             | _ -> false)
  | SBlackMateIn x -> (match b with
                       | SBlackMateIn y -> N.eqb x y
                       | _ -> false)
  | SRaw x -> (match b with
               | SRaw y -> Z.eqb x y
               | _ -> false)
  | SWhiteMateIn x -> (match b with
                       | SWhiteMateIn y -> N.eqb x y
                       | _ -> false)
  | SMax -> (match b with
             | SMax -> true
             | _ -> false)

(** val ltb : score -> score -> bool **)

let ltb a b =
  match cmp a b with
  | Lt -> true
  | _ -> false

(** val leb : score -> score -> bool **)

let leb a b =
  match cmp a b with
  | Gt -> false
  | _ -> true

(** val gtb : score -> score -> bool **)

let gtb a b =
  match cmp a b with
  | Gt -> true
  | _ -> false

(** val smax : score -> score -> score **)

let smax a b =
  match cmp a b with
  | Gt -> a
  | _ -> b

(** val smin : score -> score -> score **)

let smin a b =
  match cmp a b with
  | Gt -> b
  | _ -> a

(** val neg : score -> score **)

let neg = function
| SMin -> SMax
| SBlackMateIn n0 -> SWhiteMateIn n0
| SRaw z0 -> SRaw (Z.opp z0)
| SWhiteMateIn n0 -> SBlackMateIn n0
| SMax -> SMin

(** val api_score_cmp : score -> score -> comparison **)

let api_score_cmp =
  cmp

(** val api_score_partial_cmp : score -> score -> comparison option **)

let api_score_partial_cmp =
  partial_cmp

(** val api_score_eqb : score -> score -> bool **)

let api_score_eqb =
  eqb0

(** val api_score_ltb : score -> score -> bool **)

let api_score_ltb =
  ltb

(** val api_score_leb : score -> score -> bool **)

let api_score_leb =
  leb

(** val api_score_gtb : score -> score -> bool **)

let api_score_gtb =
  gtb

(** val api_score_max : score -> score -> score **)

let api_score_max =
  smax

(** val api_score_min : score -> score -> score **)

let api_score_min =
  smin

(** val api_score_neg : score -> score **)

let api_score_neg =
  neg
